package main

// C07 facts: two TABLES read from the engine packages (root package, pkg/tracing, pkg/timer, pkg/id).
//
//  (a) goroutines : one row per `go` statement
//        (site, body, sendsTrace, registersSender, callsDone)
//      site   = "<enclosing function>#<k>"   (k-th go statement of that function, 1-based)
//      body   = stable name of what the goroutine runs: "T.m" (method), "f" (function),
//               "T.m$ret" (function literal returned by T.m), "<enclosing>$<k>" (function literal)
//      sendsTrace      = the body calls `<x>.Send(<one arg>)` (or `<x>.Subscribe()` / `<x>.SubscribeChannel(c)`: both
//                        need the tracer's serving loop), directly or through same-package calls
//                        (receiver resolved syntactically; an unresolved method call stands for every
//                        method of that name in the package), nested `go` statements excluded
//      registersSender = a handle obtained from `RegisterSender()` in the enclosing function before the
//                        go statement is passed to / captured by the goroutine
//      callsDone       = the body calls `<handle>.Done()` on such a handle (deferred or not)
//
//  (b) blockingOps : one row per blocking channel operation reachable in a goroutine body
//        (body, function, kind, channel, cancelAlt, capLowerBound)
//      kind    = select | send | recv | range | wgwait
//      channel = printed channel expression (select: the comm clauses joined by '|')
//      cancelAlt = (select only) one comm clause receives from `<x>.Done()` (or a local alias of it), from a field
//                  named `done`, or is `v, ok := <-ch` with `if !ok { … return }` (ends when the channel is closed)
//      capLowerBound = for send/recv: least capacity over the `make(chan …)` sites that create a channel
//                      of that name (same function, else methods of the same receiver type, else file,
//                      else package), `len(…)` read as 0; none when no site is found
//      selects with a `default` clause do not block and are left out.
//
// Purely syntactic (go/ast). Deliberately an over-approximation on calls it cannot resolve.

import (
	"fmt"
	"go/ast"
	"go/token"
	"os"
	"path/filepath"
	"sort"
	"strconv"
	"strings"
)

func init() { registry = append(registry, factsC07) }

type c07pkg struct {
	dir     string
	files   map[string]*ast.File
	funcs   map[string][]*ast.FuncDecl    // by name (functions and methods)
	fields  map[string]map[string]string  // struct -> field -> type name
	chanOf  map[string]map[string]string  // struct -> field -> channel element type
	sliceOf map[string]map[string]string  // struct -> field -> element type of a []chan field
	results map[string]string             // function name -> single result type name
	imports map[*ast.File]map[string]bool // imported package names per file
	fileOf  map[*ast.FuncDecl]*ast.File
	ifaces  map[string][]string // interface -> explicitly listed method names
	prefix  string
}

type c07go struct {
	site, body                  string
	sends, registers, callsDone bool
}

type c07op struct {
	body, fn, kind, ch string
	cancelAlt          bool
	cap                int // -1 = none
}

func c07typeName(e ast.Expr) string {
	switch x := e.(type) {
	case *ast.StarExpr:
		return c07typeName(x.X)
	case *ast.Ident:
		return x.Name
	case *ast.SelectorExpr:
		if id, ok := x.X.(*ast.Ident); ok {
			return id.Name + "." + x.Sel.Name // a type of another package
		}
		return x.Sel.Name
	case *ast.ParenExpr:
		return c07typeName(x.X)
	}
	return ""
}

// element type of a channel type expression ("" when e is not a channel type)
func c07chanElem(e ast.Expr) string {
	if c, ok := e.(*ast.ChanType); ok {
		if inner := c07chanElem(c.Value); inner != "" {
			return "chan " + inner
		}
		if _, ok := c.Value.(*ast.ChanType); ok {
			return "chan ?"
		}
		return exprString(c.Value)
	}
	return ""
}

func c07recv(fd *ast.FuncDecl) (name, typ string) {
	if fd == nil || fd.Recv == nil || len(fd.Recv.List) != 1 {
		return "", ""
	}
	f := fd.Recv.List[0]
	if len(f.Names) == 1 {
		name = f.Names[0].Name
	}
	return name, c07typeName(f.Type)
}

func c07funcName(fd *ast.FuncDecl) string {
	if _, t := c07recv(fd); t != "" {
		return t + "." + fd.Name.Name
	}
	return fd.Name.Name
}

func c07loadPkg(rel string) *c07pkg {
	p := &c07pkg{dir: rel, files: map[string]*ast.File{}, funcs: map[string][]*ast.FuncDecl{},
		fields: map[string]map[string]string{}, results: map[string]string{},
		imports: map[*ast.File]map[string]bool{}, fileOf: map[*ast.FuncDecl]*ast.File{}, ifaces: map[string][]string{},
		chanOf: map[string]map[string]string{}, sliceOf: map[string]map[string]string{}}
	ents, err := os.ReadDir(filepath.Join(repo, rel))
	if err != nil {
		return p
	}
	for _, e := range ents {
		n := e.Name()
		if e.IsDir() || !strings.HasSuffix(n, ".go") || strings.HasSuffix(n, "_test.go") || strings.HasPrefix(n, "verif_") {
			continue
		}
		f := load(filepath.Join(rel, n))
		if f == nil {
			continue
		}
		p.files[n] = f
		im := map[string]bool{}
		for _, is := range f.Imports {
			path, _ := strconv.Unquote(is.Path.Value)
			name := path[strings.LastIndex(path, "/")+1:]
			if is.Name != nil {
				name = is.Name.Name
			}
			im[name] = true
		}
		p.imports[f] = im
		for _, d := range f.Decls {
			switch x := d.(type) {
			case *ast.FuncDecl:
				p.funcs[x.Name.Name] = append(p.funcs[x.Name.Name], x)
				p.fileOf[x] = f
				if x.Recv == nil && x.Type.Results != nil && len(x.Type.Results.List) >= 1 {
					p.results[x.Name.Name] = c07typeName(x.Type.Results.List[0].Type)
				}
			case *ast.GenDecl:
				if x.Tok != token.TYPE {
					continue
				}
				for _, s := range x.Specs {
					ts := s.(*ast.TypeSpec)
					if it, ok := ts.Type.(*ast.InterfaceType); ok {
						ms := []string{}
						for _, fl := range it.Methods.List {
							for _, nm := range fl.Names {
								ms = append(ms, nm.Name)
							}
						}
						p.ifaces[ts.Name.Name] = ms
						continue
					}
					st, ok := ts.Type.(*ast.StructType)
					if !ok {
						continue
					}
					m := map[string]string{}
					cm := map[string]string{}
					sm := map[string]string{}
					for _, fl := range st.Fields.List {
						tn := c07typeName(fl.Type)
						ce := c07chanElem(fl.Type)
						se := c07sliceChanElem(fl.Type)
						for _, nm := range fl.Names {
							m[nm.Name] = tn
							if ce != "" {
								cm[nm.Name] = ce
							}
							if se != "" {
								sm[nm.Name] = se
							}
						}
					}
					p.sliceOf[ts.Name.Name] = sm
					p.fields[ts.Name.Name] = m
					p.chanOf[ts.Name.Name] = cm
				}
			}
		}
	}
	return p
}

// ctx of a walk: the declared function we are in (for receiver / parameter types) plus enclosing literals
type c07scope struct {
	fd   *ast.FuncDecl
	lits []*ast.FuncLit
	bind map[string]string // identifiers bound by `switch m := x.(type)` in the clause being walked
}

func (p *c07pkg) typeOf(e ast.Expr, sc c07scope) string {
	switch x := e.(type) {
	case *ast.Ident:
		if t, ok := sc.bind[x.Name]; ok {
			return t
		}
		if sc.fd != nil {
			if rn, rt := c07recv(sc.fd); rn != "" && rn == x.Name {
				return rt
			}
			for _, fl := range sc.fd.Type.Params.List {
				for _, nm := range fl.Names {
					if nm.Name == x.Name {
						return c07typeName(fl.Type)
					}
				}
			}
		}
		for _, l := range sc.lits {
			for _, fl := range l.Type.Params.List {
				for _, nm := range fl.Names {
					if nm.Name == x.Name {
						return c07typeName(fl.Type)
					}
				}
			}
		}
		// x := T{…} | &T{…} | f(…)
		res := ""
		if sc.fd != nil && sc.fd.Body != nil {
			ast.Inspect(sc.fd.Body, func(n ast.Node) bool {
				as, ok := n.(*ast.AssignStmt)
				if !ok || res != "" {
					return res == ""
				}
				for i, l := range as.Lhs {
					id, ok := l.(*ast.Ident)
					if !ok || id.Name != x.Name || i >= len(as.Rhs) {
						continue
					}
					r := as.Rhs[i]
					if u, ok := r.(*ast.UnaryExpr); ok && u.Op == token.AND {
						r = u.X
					}
					switch v := r.(type) {
					case *ast.CompositeLit:
						res = c07typeName(v.Type)
					case *ast.CallExpr:
						if fid, ok := v.Fun.(*ast.Ident); ok {
							res = p.results[fid.Name]
						}
					}
				}
				return true
			})
		}
		return res
	case *ast.SelectorExpr:
		t := p.typeOf(x.X, sc)
		if t == "" {
			return ""
		}
		if m, ok := p.fields[t]; ok {
			return m[x.Sel.Name]
		}
	case *ast.ParenExpr:
		return p.typeOf(x.X, sc)
	case *ast.StarExpr:
		return p.typeOf(x.X, sc)
	case *ast.UnaryExpr:
		return p.typeOf(x.X, sc)
	}
	return ""
}

func (p *c07pkg) method(typ, name string) *ast.FuncDecl {
	for _, fd := range p.funcs[name] {
		if _, t := c07recv(fd); t == typ {
			return fd
		}
	}
	return nil
}

// callees of a call expression inside scope sc (same package only)
func (p *c07pkg) callees(c *ast.CallExpr, sc c07scope, file *ast.File) []*ast.FuncDecl {
	switch f := c.Fun.(type) {
	case *ast.Ident:
		var out []*ast.FuncDecl
		for _, fd := range p.funcs[f.Name] {
			if fd.Recv == nil {
				out = append(out, fd)
			}
		}
		return out
	case *ast.SelectorExpr:
		if id, ok := f.X.(*ast.Ident); ok && file != nil && p.imports[file][id.Name] {
			return nil // other package
		}
		if t := p.typeOf(f.X, sc); t != "" {
			if strings.Contains(t, ".") {
				return nil // a type of another package (sync.Once, tracing.ITracer, …)
			}
			if fd := p.method(t, f.Sel.Name); fd != nil {
				return []*ast.FuncDecl{fd}
			}
			if _, isStruct := p.fields[t]; isStruct {
				// known struct without that method: promoted / foreign
				return nil
			}
		}
		// interface (or unknown) receiver: every method of that name whose type also has the methods the
		// interface lists explicitly
		need := p.ifaces[p.typeOf(f.X, sc)]
		var out []*ast.FuncDecl
		for _, fd := range p.funcs[f.Sel.Name] {
			if fd.Recv == nil {
				continue
			}
			_, t := c07recv(fd)
			okAll := true
			for _, m := range need {
				if p.method(t, m) == nil {
					okAll = false
				}
			}
			if okAll {
				out = append(out, fd)
			}
		}
		return out
	}
	return nil
}

func c07isDoneCall(e ast.Expr) bool {
	c, ok := e.(*ast.CallExpr)
	if !ok || len(c.Args) != 0 {
		return false
	}
	s, ok := c.Fun.(*ast.SelectorExpr)
	return ok && s.Sel.Name == "Done"
}

func c07isCancelChan(e ast.Expr) bool {
	if c07isDoneCall(e) {
		return true
	}
	if s, ok := e.(*ast.SelectorExpr); ok && s.Sel.Name == "done" {
		return true
	}
	return false
}

// element type of the channels in a `[]chan T` type expression ("" otherwise)
func c07sliceChanElem(e ast.Expr) string {
	if a, ok := e.(*ast.ArrayType); ok && a.Len == nil {
		return c07chanElem(a.Elt)
	}
	return ""
}

// rangeElem: `leaf` is the value variable of a `for _, leaf := range X` in fd and X is a []chan T (a parameter,
// a field, or a local copied from a field): the element type T, else ""
func (p *c07pkg) rangeElem(leaf string, fd *ast.FuncDecl, sc c07scope) string {
	if fd == nil || fd.Body == nil {
		return ""
	}
	var sliceType func(x ast.Expr, depth int) string
	sliceType = func(x ast.Expr, depth int) string {
		switch v := x.(type) {
		case *ast.Ident:
			for _, fl := range fd.Type.Params.List {
				for _, nm := range fl.Names {
					if nm.Name == v.Name {
						return c07sliceChanElem(fl.Type)
					}
				}
			}
			if depth > 2 {
				return ""
			}
			res := ""
			ast.Inspect(fd.Body, func(n ast.Node) bool {
				as, ok := n.(*ast.AssignStmt)
				if !ok || res != "" {
					return res == ""
				}
				for i, l := range as.Lhs {
					if id, ok := l.(*ast.Ident); ok && id.Name == v.Name && i < len(as.Rhs) {
						if _, isId := as.Rhs[i].(*ast.Ident); !isId {
							res = sliceType(as.Rhs[i], depth+1)
						}
					}
				}
				return true
			})
			return res
		case *ast.SelectorExpr:
			if t := p.typeOf(v.X, sc); t != "" {
				return p.sliceOf[t][v.Sel.Name]
			}
		}
		return ""
	}
	res := ""
	ast.Inspect(fd.Body, func(n ast.Node) bool {
		if r, ok := n.(*ast.RangeStmt); ok && res == "" {
			if id, ok := r.Value.(*ast.Ident); ok && id.Name == leaf {
				res = sliceType(r.X, 0)
			}
		}
		return res == ""
	})
	return res
}

// capacity lower bound of an expression (len(...) = 0); -1 unknown
func c07capLB(e ast.Expr) int {
	switch x := e.(type) {
	case *ast.BasicLit:
		if n, err := strconv.Atoi(x.Value); err == nil {
			return n
		}
	case *ast.ParenExpr:
		return c07capLB(x.X)
	case *ast.CallExpr:
		if id, ok := x.Fun.(*ast.Ident); ok && id.Name == "len" {
			return 0
		}
	case *ast.BinaryExpr:
		a, b := c07capLB(x.X), c07capLB(x.Y)
		if a < 0 || b < 0 {
			return -1
		}
		switch x.Op {
		case token.ADD:
			return a + b
		case token.MUL:
			return a * b
		}
	}
	return -1
}

// all `make(chan …)` sites under n that are bound to `name` (variable, field, or composite key)
func c07makeCaps(n ast.Node, name string, elem string) []int {
	var out []int
	isMake := func(e ast.Expr) (int, bool) {
		c, ok := e.(*ast.CallExpr)
		if !ok {
			return 0, false
		}
		id, ok := c.Fun.(*ast.Ident)
		if !ok || id.Name != "make" || len(c.Args) == 0 {
			return 0, false
		}
		if _, ok := c.Args[0].(*ast.ChanType); !ok {
			return 0, false
		}
		if elem != "" && c07chanElem(c.Args[0]) != elem {
			return 0, false // a channel of another element type that happens to have the same name
		}
		if len(c.Args) == 1 {
			return 0, true
		}
		return c07capLB(c.Args[1]), true
	}
	ast.Inspect(n, func(x ast.Node) bool {
		switch v := x.(type) {
		case *ast.KeyValueExpr:
			if id, ok := v.Key.(*ast.Ident); ok && (name == "" || id.Name == name) {
				if c, ok := isMake(v.Value); ok {
					out = append(out, c)
				}
			}
		case *ast.AssignStmt:
			for i, l := range v.Lhs {
				nm := ""
				switch lv := l.(type) {
				case *ast.Ident:
					nm = lv.Name
				case *ast.SelectorExpr:
					nm = lv.Sel.Name
				}
				if (name == "" || nm == name) && i < len(v.Rhs) {
					if c, ok := isMake(v.Rhs[i]); ok {
						out = append(out, c)
					}
				}
			}
		case *ast.ValueSpec:
			for i, nmI := range v.Names {
				if (name == "" || nmI.Name == name) && i < len(v.Values) {
					if c, ok := isMake(v.Values[i]); ok {
						out = append(out, c)
					}
				}
			}
		}
		return true
	})
	return out
}

func c07chanLeaf(e ast.Expr) string {
	switch x := e.(type) {
	case *ast.Ident:
		return x.Name
	case *ast.SelectorExpr:
		return x.Sel.Name
	case *ast.StarExpr:
		return c07chanLeaf(x.X)
	case *ast.ParenExpr:
		return c07chanLeaf(x.X)
	case *ast.CallExpr:
		return "" // result of a call
	}
	return ""
}

func (p *c07pkg) capOf(ch ast.Expr, fd *ast.FuncDecl, sc c07scope) int {
	leaf := c07chanLeaf(ch)
	if leaf == "" {
		return -1
	}
	elem := ""
	if se, ok := ch.(*ast.SelectorExpr); ok {
		if t := p.typeOf(se.X, sc); t != "" {
			elem = p.chanOf[t][se.Sel.Name]
		}
	}
	min := func(xs []int) int {
		m := xs[0]
		for _, x := range xs {
			if x < m {
				m = x
			}
		}
		return m
	}
	if _, isId := ch.(*ast.Ident); isId && elem == "" {
		if re := p.rangeElem(leaf, fd, sc); re != "" {
			// a channel taken out of a []chan T: every `make(chan T …)` may have put it there; methods of the
			// same receiver type first, else the whole package
			elem, leaf = re, ""
		}
	}
	if fd != nil {
		if cs := c07makeCaps(fd, leaf, elem); len(cs) > 0 && leaf != "" {
			return min(cs)
		}
		if _, t := c07recv(fd); t != "" {
			var cs []int
			for _, fds := range p.funcs {
				for _, g := range fds {
					if _, gt := c07recv(g); gt == t {
						cs = append(cs, c07makeCaps(g, leaf, elem)...)
					}
				}
			}
			if len(cs) > 0 {
				return min(cs)
			}
		}
		if f := p.fileOf[fd]; f != nil {
			if cs := c07makeCaps(f, leaf, elem); len(cs) > 0 {
				return min(cs)
			}
		}
	}
	var cs []int
	for _, f := range p.files {
		cs = append(cs, c07makeCaps(f, leaf, elem)...)
	}
	if len(cs) > 0 {
		return min(cs)
	}
	return -1
}

type c07walker struct {
	p       *c07pkg
	body    string
	visited map[ast.Node]bool
	ops     []c07op
	sends   bool
	handles map[string]bool // identifiers that hold a sender handle
	done    bool
	hot     [][2]string
	sendOn  map[string]bool // printed receivers of the Send calls written in the body itself
	recvOf  string          // receiver variable name of the body's method ("" for literals)
}

func (w *c07walker) walkFunc(fd *ast.FuncDecl) {
	if fd == nil || fd.Body == nil || w.visited[fd] {
		return
	}
	w.visited[fd] = true
	if len(w.visited) == 1 {
		w.recvOf, _ = c07recv(fd)
	}
	// parameters typed ISenderHandle are handles
	for _, fl := range fd.Type.Params.List {
		if strings.HasSuffix(c07typeName(fl.Type), "ISenderHandle") {
			for _, nm := range fl.Names {
				w.handles[nm.Name] = true
			}
		}
	}
	w.walk(fd.Body, c07scope{fd: fd}, w.p.prefix+c07funcName(fd))
}

func (w *c07walker) walkLit(l *ast.FuncLit, sc c07scope, fn string) {
	if l == nil || w.visited[l] {
		return
	}
	w.visited[l] = true
	for _, fl := range l.Type.Params.List {
		if strings.HasSuffix(c07typeName(fl.Type), "ISenderHandle") {
			for _, nm := range fl.Names {
				w.handles[nm.Name] = true
			}
		}
	}
	sc.lits = append(append([]*ast.FuncLit{}, sc.lits...), l)
	w.walk(l.Body, sc, fn)
}

func (w *c07walker) walk(n ast.Node, sc c07scope, fn string) {
	if n == nil {
		return
	}
	file := w.p.fileOf[sc.fd]
	// local aliases of a cancellation channel: `ctxDone := ctx.Done()` (tracer.run sets it to nil once seen)
	doneAlias := map[string]bool{}
	scanAlias := func(root ast.Node) {
		if root == nil {
			return
		}
		ast.Inspect(root, func(x ast.Node) bool {
			if as, ok := x.(*ast.AssignStmt); ok {
				for i, l := range as.Lhs {
					if id, ok := l.(*ast.Ident); ok && i < len(as.Rhs) && c07isDoneCall(as.Rhs[i]) {
						doneAlias[id.Name] = true
					}
				}
			}
			return true
		})
	}
	if sc.fd != nil {
		scanAlias(sc.fd.Body)
	}
	scanAlias(n)
	isCancel := func(e ast.Expr) bool {
		if c07isCancelChan(e) {
			return true
		}
		id, ok := e.(*ast.Ident)
		return ok && doneAlias[id.Name]
	}
	inLoop := map[*ast.SelectStmt]bool{}
	ast.Inspect(n, func(x ast.Node) bool {
		if fs, ok := x.(*ast.ForStmt); ok {
			ast.Inspect(fs.Body, func(y ast.Node) bool {
				switch v := y.(type) {
				case *ast.FuncLit:
					return false
				case *ast.SelectStmt:
					inLoop[v] = true
				}
				return true
			})
		}
		return true
	})
	var visit func(x ast.Node) bool
	visit = func(x ast.Node) bool {
		switch v := x.(type) {
		case *ast.GoStmt:
			return false // its own row
		case *ast.FuncLit:
			w.walkLit(v, sc, fn+"$lit")
			return false
		case *ast.SelectStmt:
			hasDefault, cancel := false, false
			var comms []string
			for _, cl := range v.Body.List {
				cc := cl.(*ast.CommClause)
				if cc.Comm == nil {
					hasDefault = true
					continue
				}
				var ce ast.Expr
				dir := "recv"
				switch s := cc.Comm.(type) {
				case *ast.SendStmt:
					dir, ce = "send", s.Chan
				case *ast.ExprStmt:
					if u, ok := s.X.(*ast.UnaryExpr); ok {
						ce = u.X
					}
				case *ast.AssignStmt:
					if len(s.Rhs) == 1 {
						if u, ok := s.Rhs[0].(*ast.UnaryExpr); ok {
							ce = u.X
						}
					}
					// `v, ok := <-ch` … `if !ok { …; return }`: the loop ends when the channel is closed — for a
					// tracer subscription that is what the tracer does when it terminates: a cancellation alternative
					if len(s.Lhs) == 2 && ce != nil {
						if okId, isId := s.Lhs[1].(*ast.Ident); isId {
							for _, st := range cc.Body {
								ast.Inspect(st, func(y ast.Node) bool {
									ifs, ok := y.(*ast.IfStmt)
									if !ok {
										return true
									}
									if u, ok := ifs.Cond.(*ast.UnaryExpr); ok && u.Op == token.NOT {
										if id, ok := u.X.(*ast.Ident); ok && id.Name == okId.Name {
											ast.Inspect(ifs.Body, func(z ast.Node) bool {
												if _, ok := z.(*ast.ReturnStmt); ok {
													cancel = true
												}
												return true
											})
										}
									}
									return true
								})
							}
						}
					}
				}
				if ce != nil {
					if dir == "recv" && isCancel(ce) {
						cancel = true
						// a cancellation clause that neither returns nor jumps re-enters the select with the
						// closed channel still ready: the loop polls hot until something else ends it
						leaves := false
						aliasName := ""
						if id, ok := ce.(*ast.Ident); ok {
							aliasName = id.Name
						}
						for _, st := range cc.Body {
							ast.Inspect(st, func(y ast.Node) bool {
								switch yv := y.(type) {
								case *ast.FuncLit:
									return false
								case *ast.ReturnStmt, *ast.BranchStmt:
									leaves = true
								case *ast.AssignStmt:
									// `alias = nil`: the case is disarmed, the loop does not come back to it
									for i, l := range yv.Lhs {
										if id, ok := l.(*ast.Ident); ok && aliasName != "" && id.Name == aliasName && i < len(yv.Rhs) {
											if r, ok := yv.Rhs[i].(*ast.Ident); ok && r.Name == "nil" {
												leaves = true
											}
										}
									}
								}
								return true
							})
						}
						if !leaves && inLoop[v] && (exprString(ce) == "ctx.Done()" || aliasName != "") {
							w.hot = append(w.hot, [2]string{w.body, fn})
						}
					}
					comms = append(comms, dir+":"+exprString(ce))
					// calls inside the channel expression (e.g. f.current.NextAction(ctx, f)) run in this goroutine
					ast.Inspect(ce, visit)
				}
			}
			if !hasDefault {
				w.ops = append(w.ops, c07op{w.body, fn, "select", strings.Join(comms, "|"), cancel, -1})
			}
			for _, cl := range v.Body.List {
				for _, st := range cl.(*ast.CommClause).Body {
					ast.Inspect(st, visit)
				}
			}
			return false
		case *ast.TypeSwitchStmt:
			name := ""
			if as, ok := v.Assign.(*ast.AssignStmt); ok && len(as.Lhs) == 1 {
				if id, ok := as.Lhs[0].(*ast.Ident); ok {
					name = id.Name
				}
			}
			for _, cl := range v.Body.List {
				cc := cl.(*ast.CaseClause)
				sub := sc
				if name != "" && len(cc.List) == 1 {
					sub.bind = map[string]string{}
					for k, t := range sc.bind {
						sub.bind[k] = t
					}
					sub.bind[name] = c07typeName(cc.List[0])
				}
				for _, st := range cc.Body {
					w.walk(st, sub, fn)
				}
			}
			return false
		case *ast.SendStmt:
			w.ops = append(w.ops, c07op{w.body, fn, "send", exprString(v.Chan), false, w.p.capOf(v.Chan, sc.fd, sc)})
			ast.Inspect(v.Value, visit)
			return false
		case *ast.UnaryExpr:
			if v.Op == token.ARROW {
				w.ops = append(w.ops, c07op{w.body, fn, "recv", exprString(v.X), false, w.p.capOf(v.X, sc.fd, sc)})
			}
		case *ast.RangeStmt:
			// ranging over something channel-like cannot be told syntactically; only flag obvious channel names
			if id := c07chanLeaf(v.X); id == "ch" || strings.HasSuffix(id, "Ch") || strings.HasSuffix(id, "Chan") {
				w.ops = append(w.ops, c07op{w.body, fn, "range", exprString(v.X), false, -1})
			}
		case *ast.CallExpr:
			if s, ok := v.Fun.(*ast.SelectorExpr); ok {
				switch {
				case s.Sel.Name == "Send" && len(v.Args) == 1:
					if id, ok := s.X.(*ast.Ident); !ok || !w.p.imports[file][id.Name] {
						w.sends = true
						if fn == w.body {
							if w.sendOn == nil {
								w.sendOn = map[string]bool{}
							}
							w.sendOn[exprString(s.X)] = true
						}
						for _, a := range v.Args {
							ast.Inspect(a, visit)
						}
						return false // the Send itself is the `sends` column, not a row
					}
				case (s.Sel.Name == "Subscribe" && len(v.Args) == 0) || (s.Sel.Name == "SubscribeChannel" && len(v.Args) == 1):
					// subscribing needs the tracer's serving loop just as Send does (`t.subscription <- sub` has no
					// alternative): it counts for the `sendsTrace` column
					if id, ok := s.X.(*ast.Ident); !ok || !w.p.imports[file][id.Name] {
						w.sends = true
					}
				case s.Sel.Name == "Wait" && len(v.Args) == 0:
					w.ops = append(w.ops, c07op{w.body, fn, "wgwait", exprString(s.X), false, -1})
				case s.Sel.Name == "Done" && len(v.Args) == 0:
					if id, ok := s.X.(*ast.Ident); ok && w.handles[id.Name] {
						w.done = true
					}
				}
			}
			for _, fd := range w.p.callees(v, sc, file) {
				w.walkFunc(fd)
			}
		}
		return true
	}
	ast.Inspect(n, visit)
}

func c07lean(s string) string {
	s = strings.ReplaceAll(s, "\\", "\\\\")
	s = strings.ReplaceAll(s, "\"", "\\\"")
	s = strings.ReplaceAll(s, "\n", " ")
	s = strings.ReplaceAll(s, "\t", " ")
	return "\"" + s + "\""
}

func factsC07() {
	var gos []c07go
	var ops []c07op
	var hots [][2]string
	var others []string
	seenBody := map[string]bool{}
	pkgs := []struct{ rel, prefix string }{{".", ""}, {"pkg/tracing", "tracing."}, {"pkg/timer", "timer."}, {"pkg/id", "id."}}
	for _, pk := range pkgs {
		p := c07loadPkg(pk.rel)
		p.prefix = pk.prefix
		fnames := make([]string, 0, len(p.files))
		for n := range p.files {
			fnames = append(fnames, n)
		}
		sort.Strings(fnames)
		for _, fname := range fnames {
			f := p.files[fname]
			for _, d := range f.Decls {
				fd, ok := d.(*ast.FuncDecl)
				if !ok || fd.Body == nil {
					continue
				}
				encl := pk.prefix + c07funcName(fd)
				k := 0
				// handle identifiers: x := <…>.RegisterSender() anywhere in fd, with position
				type reg struct {
					name string
					pos  token.Pos
					on   string // printed receiver of RegisterSender()
				}
				var regs []reg
				ast.Inspect(fd.Body, func(n ast.Node) bool {
					as, ok := n.(*ast.AssignStmt)
					if !ok || len(as.Lhs) != 1 || len(as.Rhs) != 1 {
						return true
					}
					c, ok := as.Rhs[0].(*ast.CallExpr)
					if !ok {
						return true
					}
					if s, ok := c.Fun.(*ast.SelectorExpr); ok && s.Sel.Name == "RegisterSender" {
						if id, ok := as.Lhs[0].(*ast.Ident); ok {
							regs = append(regs, reg{id.Name, as.Pos(), exprString(s.X)})
						}
					}
					return true
				})
				// enclosing literal chain for each go statement
				var lits []*ast.FuncLit
				binds := map[string]string{}
				var rec func(n ast.Node)
				rec = func(n ast.Node) {
					ast.Inspect(n, func(x ast.Node) bool {
						switch v := x.(type) {
						case *ast.TypeSwitchStmt:
							name := ""
							if as, ok := v.Assign.(*ast.AssignStmt); ok && len(as.Lhs) == 1 {
								if id, ok := as.Lhs[0].(*ast.Ident); ok {
									name = id.Name
								}
							}
							for _, cl := range v.Body.List {
								cc := cl.(*ast.CaseClause)
								old, had := binds[name]
								if name != "" && len(cc.List) == 1 {
									binds[name] = c07typeName(cc.List[0])
								}
								for _, st := range cc.Body {
									rec(st)
								}
								if had {
									binds[name] = old
								} else {
									delete(binds, name)
								}
							}
							return false
						case *ast.FuncLit:
							lits = append(lits, v)
							rec(v.Body)
							lits = lits[:len(lits)-1]
							return false
						case *ast.GoStmt:
							k++
							sc := c07scope{fd: fd, lits: append([]*ast.FuncLit{}, lits...), bind: map[string]string{}}
							for bk, bt := range binds {
								sc.bind[bk] = bt
							}
							w := &c07walker{p: p, visited: map[ast.Node]bool{}, handles: map[string]bool{}}
							registers := false
							regOns := map[string]bool{}
							// simple local aliases in the site's function: `tracer := sp.wr.tracer`
							alias := map[string]string{}
							ast.Inspect(fd.Body, func(y ast.Node) bool {
								if as, ok := y.(*ast.AssignStmt); ok && as.Tok == token.DEFINE && len(as.Lhs) == len(as.Rhs) {
									for i, l := range as.Lhs {
										if id, ok := l.(*ast.Ident); ok {
											if se, ok := as.Rhs[i].(*ast.SelectorExpr); ok {
												alias[id.Name] = exprString(se)
											}
										}
									}
								}
								return true
							})
							unalias := func(e string) string {
								if a, ok := alias[e]; ok {
									return a
								}
								return e
							}
							subst := map[string]string{} // parameter of the body's function ↦ argument at the go site
							for _, r := range regs {
								if r.pos < v.Pos() {
									handed := false
									// passed as an argument …
									for _, a := range v.Call.Args {
										if id, ok := a.(*ast.Ident); ok && id.Name == r.name {
											registers = true
											handed = true
										}
									}
									// … or captured by the literal
									if l, ok := v.Call.Fun.(*ast.FuncLit); ok {
										ast.Inspect(l.Body, func(y ast.Node) bool {
											if id, ok := y.(*ast.Ident); ok && id.Name == r.name {
												registers = true
												handed = true
												w.handles[r.name] = true
											}
											return true
										})
									}
									if handed {
										regOns[unalias(r.on)] = true
									}
								}
							}
							body := ""
							switch fun := v.Call.Fun.(type) {
							case *ast.FuncLit:
								body = fmt.Sprintf("%s$%d", encl, k)
								w.body = body
								w.recvOf, _ = c07recv(fd)
								w.walkLit(fun, sc, body)
								defer func(l *ast.FuncLit) {
									// go statements nested inside this goroutine's literal are rows too
									lits = append(lits, l)
									rec(l.Body)
									lits = lits[:len(lits)-1]
								}(fun)
							case *ast.CallExpr:
								// go x.m(…)(…): the literal returned by m
								for _, cd := range p.callees(fun, sc, f) {
									body = pk.prefix + c07funcName(cd) + "$ret"
									w.body = body
									w.recvOf, _ = c07recv(cd)
									k2 := 0
									for _, fl := range cd.Type.Params.List {
										for _, nm := range fl.Names {
											if k2 < len(fun.Args) {
												subst[nm.Name] = exprString(fun.Args[k2])
											}
											k2++
										}
									}
									ast.Inspect(cd.Body, func(y ast.Node) bool {
										if r, ok := y.(*ast.ReturnStmt); ok && len(r.Results) == 1 {
											if l, ok := r.Results[0].(*ast.FuncLit); ok {
												w.walkLit(l, c07scope{fd: cd}, body)
											}
										}
										return true
									})
								}
							default:
								cds := p.callees(v.Call, sc, f)
								if len(cds) == 1 {
									body = pk.prefix + c07funcName(cds[0])
									w.body = body
									k2 := 0
									for _, fl := range cds[0].Type.Params.List {
										for _, nm := range fl.Names {
											if k2 < len(v.Call.Args) {
												subst[nm.Name] = exprString(v.Call.Args[k2])
											}
											k2++
										}
									}
									w.walkFunc(cds[0])
									// function literals handed to the goroutine run inside it
									for _, a := range v.Call.Args {
										if l, ok := a.(*ast.FuncLit); ok {
											w.walkLit(l, sc, encl+"$arg")
										}
									}
								}
							}
							if body == "" {
								body = "?" + exprString(v.Call.Fun)
							}
							// the handle must come from the tracer the body sends on
							if registers && len(w.sendOn) > 0 {
								norm := func(e, recv string) string {
									if recv != "" && strings.HasPrefix(e, recv+".") {
										return "$r." + strings.TrimPrefix(e, recv+".")
									}
									return e
								}
								siteRecv, _ := c07recv(fd)
								match := false
								for e := range w.sendOn {
									if se, ok := subst[e]; ok {
										e = norm(unalias(se), siteRecv)
									} else {
										e = norm(unalias(e), w.recvOf)
									}
									for on := range regOns {
										if e == norm(on, siteRecv) {
											match = true
										}
									}
								}
								if !match {
									others = append(others, fmt.Sprintf("%s#%d", encl, k))
								}
							}
							gos = append(gos, c07go{fmt.Sprintf("%s#%d", encl, k), body, w.sends, registers, w.done})
							if !seenBody[body] {
								seenBody[body] = true
								seenOp := map[c07op]bool{}
								for _, o := range w.ops {
									if !seenOp[o] {
										seenOp[o] = true
										ops = append(ops, o)
									}
								}
								hots = append(hots, w.hot...)
							}
							return false
						}
						return true
					})
				}
				rec(fd.Body)
			}
		}
	}
	var gs, os_ strings.Builder
	gs.WriteString("[")
	for i, g := range gos {
		if i > 0 {
			gs.WriteString(",\n  ")
		}
		fmt.Fprintf(&gs, "(%s, %s, %s, %s, %s)", c07lean(g.site), c07lean(g.body), boolLit(g.sends), boolLit(g.registers), boolLit(g.callsDone))
	}
	gs.WriteString("]")
	os_.WriteString("[")
	for i, o := range ops {
		if i > 0 {
			os_.WriteString(",\n  ")
		}
		c := "none"
		if o.cap >= 0 {
			c = fmt.Sprintf("some %d", o.cap)
		}
		fmt.Fprintf(&os_, "(%s, %s, %s, %s, %s, %s)", c07lean(o.body), c07lean(o.fn), c07lean(o.kind), c07lean(c07normLabel(o.ch)), boolLit(o.cancelAlt), c)
	}
	os_.WriteString("]")
	gv, ov := gs.String(), os_.String()
	if len(gos) == 0 {
		gv, ov = "", ""
	}
	add("C07", "goroutines", "(List (String × String × Bool × Bool × Bool))", gv,
		"every `go` statement of the engine packages: (site, body, sendsTrace, registersSender, callsDone)")
	add("C07", "blockingOps", "(List (String × String × String × String × Bool × Option Nat))", ov,
		"every blocking channel operation reachable in a goroutine body: (body, function, kind, channel, cancelAlt, capLowerBound)")
	ov2 := "["
	for i, o := range others {
		if i > 0 {
			ov2 += ", "
		}
		ov2 += c07lean(o)
	}
	ov2 += "]"
	if len(gos) == 0 {
		ov2 = ""
	}
	add("C07", "registrationOnOtherTracer", "(List String)", ov2,
		"go sites whose sender handle comes from a tracer expression the goroutine's body never sends on (it sends on another tracer)")
	hv := "["
	for i, h := range hots {
		if i > 0 {
			hv += ", "
		}
		hv += "(" + c07lean(h[0]) + ", " + c07lean(h[1]) + ")"
	}
	hv += "]"
	if len(gos) == 0 {
		hv = ""
	}
	add("C07", "hotPollAfterCancel", "(List (String × String))", hv,
		"selects whose `<-ctx.Done()` clause neither returns nor jumps: after the cancel the loop keeps choosing it (polls hot) until another clause ends the loop: (body, function)")
	// the task request carries the run loop's context: the builder chain in genericTask.run contains .Context(ctx)
	ctxFact := ""
	if fd := funcDecl(load("task_generic.go"), "genericTask", "run"); fd != nil {
		found, withCtx := false, false
		ast.Inspect(fd, func(n ast.Node) bool {
			c, ok := n.(*ast.CallExpr)
			if !ok {
				return true
			}
			if s, ok := c.Fun.(*ast.SelectorExpr); ok {
				if s.Sel.Name == "Build" {
					found = true
				}
				if s.Sel.Name == "Context" && len(c.Args) == 1 && exprString(c.Args[0]) == "ctx" {
					withCtx = true
				}
			}
			return true
		})
		if found {
			ctxFact = boolLit(withCtx)
		}
	}
	// subscribers of a tracer that never unsubscribe: a function that calls <x>.Subscribe()/SubscribeChannel(…)
	// while neither it nor any method of the type it constructs / belongs to calls <x>.Unsubscribe(…). The
	// broadcaster sends to every subscriber channel without alternative (`subscriber <- trace`), so a subscriber
	// that stops reading without unsubscribing blocks the tracer once its buffer is full.
	{
		var bad []string
		found := false
		p := c07loadPkg(".")
		names := make([]string, 0, len(p.funcs))
		for n := range p.funcs {
			names = append(names, n)
		}
		sort.Strings(names)
		hasCall := func(n ast.Node, sel string) bool {
			r := false
			ast.Inspect(n, func(x ast.Node) bool {
				if c, ok := x.(*ast.CallExpr); ok {
					if s, ok := c.Fun.(*ast.SelectorExpr); ok && s.Sel.Name == sel {
						r = true
					}
				}
				return !r
			})
			return r
		}
		for _, n := range names {
			for _, fd := range p.funcs[n] {
				if fd.Body == nil || !(hasCall(fd.Body, "Subscribe") || hasCall(fd.Body, "SubscribeChannel")) {
					continue
				}
				found = true
				ok := hasCall(fd.Body, "Unsubscribe")
				// methods of the receiver type, or of the type a constructor returns
				typ := ""
				if _, t := c07recv(fd); t != "" {
					typ = t
				} else {
					typ = p.results[fd.Name.Name]
				}
				if !ok && typ != "" {
					for _, fds := range p.funcs {
						for _, g := range fds {
							if _, gt := c07recv(g); gt == typ && g.Body != nil && hasCall(g.Body, "Unsubscribe") {
								ok = true
							}
						}
					}
				}
				if !ok {
					bad = append(bad, c07funcName(fd))
				}
			}
		}
		v := ""
		if found {
			v = "["
			for i, b := range bad {
				if i > 0 {
					v += ", "
				}
				v += c07lean(b)
			}
			v += "]"
		}
		add("C07", "subscribersWithoutUnsubscribe", "(List String)", v,
			"root package: functions that subscribe to a tracer while neither they nor the methods of their type ever unsubscribe")
	}
	// the embedded sub-process creates its inner tracer under a context of its own
	// (`context.WithCancel(context.Background())`), cancelled only by `defer sp.cancel()` in subProcess.run: a
	// sub-process that is never entered keeps that tracer's goroutine for ever, whatever happens to the instance
	detached := ""
	for _, d := range func() []ast.Decl {
		if f := load("subprocess.go"); f != nil {
			return f.Decls
		}
		return nil
	}() {
		fd, ok := d.(*ast.FuncDecl)
		if !ok || fd.Name.Name != "newSubProcess" || fd.Body == nil {
			continue
		}
		fromBackground := map[string]bool{}
		tied := false
		ast.Inspect(fd.Body, func(n ast.Node) bool {
			g, ok := n.(*ast.GoStmt)
			if !ok {
				return true
			}
			l, ok := g.Call.Fun.(*ast.FuncLit)
			if !ok {
				return true
			}
			ast.Inspect(l.Body, func(m ast.Node) bool {
				cc, ok := m.(*ast.CommClause)
				if !ok || cc.Comm == nil {
					return true
				}
				var ce ast.Expr
				if es, ok := cc.Comm.(*ast.ExprStmt); ok {
					if u, ok := es.X.(*ast.UnaryExpr); ok {
						ce = u.X
					}
				}
				if ce == nil || !c07isDoneCall(ce) || exprString(ce) == "ctx.Done()" {
					return true
				}
				for _, st := range cc.Body {
					if callPos(st, "cancel") != token.NoPos {
						tied = true
					}
				}
				return true
			})
			return true
		})
		ast.Inspect(fd.Body, func(n ast.Node) bool {
			switch v := n.(type) {
			case *ast.AssignStmt:
				if len(v.Rhs) == 1 && len(v.Lhs) >= 1 {
					if c, ok := v.Rhs[0].(*ast.CallExpr); ok && strings.HasPrefix(exprString(c.Fun), "context.With") &&
						len(c.Args) >= 1 && (exprString(c.Args[0]) == "context.Background()" || exprString(c.Args[0]) == "context.TODO()") {
						if id, ok := v.Lhs[0].(*ast.Ident); ok {
							fromBackground[id.Name] = true
						}
					}
				}
			case *ast.CallExpr:
				if exprString(v.Fun) == "tracing.NewTracer" && len(v.Args) == 1 && detached == "" {
					a := exprString(v.Args[0])
					detached = boolLit((fromBackground[a] || a == "context.Background()" || a == "context.TODO()") && !tied)
				}
			}
			return true
		})
	}
	add("C07", "subProcessTracerDetached", "Bool", detached,
		"subprocess.go newSubProcess: the inner tracer runs under a context derived from context.Background() and no goroutine of newSubProcess cancels it when another Done() channel (the parent tracer's) fires")
	add("C07", "taskRequestCarriesRunCtx", "Bool", ctxFact,
		"task_generic.go genericTask.run: the TaskTrace is built with .Context(ctx), ctx being the run loop's context")
}

// c07normLabel: the label of a blocking operation without the NAME of the variable it starts from — `m.response` and
// `req.response` are the same operation (`_.response`), `ch` and `out` are `_`; the alternatives of a select keep their
// `recv:` / `send:` prefixes. What identifies an operation is the function it sits in, its kind and the path from the
// variable to the channel, not what a local variable or a receiver is called.
func c07normLabel(l string) string {
	parts := strings.Split(l, "|")
	for i, p := range parts {
		pre, e := "", p
		if k := strings.Index(p, ":"); k >= 0 {
			pre, e = p[:k+1], p[k+1:]
		}
		e = strings.TrimPrefix(e, "*")
		if d := strings.Index(e, "."); d >= 0 {
			e = "_" + e[d:]
		} else {
			e = "_"
		}
		parts[i] = pre + e
	}
	return strings.Join(parts, "|")
}
