package main

import (
	"go/ast"
	"go/token"
	"strconv"
	"strings"
)

func init() { registry = append(registry, factsC13) }

// Facts the C13 model (lean/Bpmn/Model/Timer.lean) is built on:
//   - the mock clock hands out channels of capacity 1 (a delivery in lockedSet never blocks: each
//     channel receives exactly one value);
//   - timer.New hands out an unbuffered channel (a firing is a rendezvous: nothing sits in the
//     channel after the goroutine has observed a cancellation);
//   - the recurring loop's select has exactly the three cases end / ctx.Done / timer and no default;
//   - a repetition fires only when End.After(clock.Now());
//   - the next interval is measured from the time DELIVERED on the timer channel (`t = <-timer`,
//     `clock.Until(t.Add(…))`);
//   - the repetition counter is decremented only when positive, and the loop stops at 0.
func factsC13() {
	mock := load("pkg/clock/mock.go")
	for _, fn := range []struct{ fn, name string }{{"Until", "mockUntilCap"}, {"After", "mockAfterCap"}} {
		v := ""
		if fd := funcDecl(mock, "Mock", fn.fn); fd != nil {
			v = natOrNone(makeChanCap(fd, "ch"))
		}
		add("C13", fn.name, "Nat", v, "capacity of the channel made by pkg/clock Mock."+fn.fn)
	}

	tm := load("pkg/timer/timer.go")
	// every `ch = make(chan …)` in New: number of them and the largest capacity
	makes, maxCap, okCaps := 0, 0, true
	if fd := funcDecl(tm, "", "New"); fd != nil {
		ast.Inspect(fd, func(x ast.Node) bool {
			as, ok := x.(*ast.AssignStmt)
			if !ok || len(as.Lhs) != 1 || len(as.Rhs) != 1 {
				return true
			}
			id, ok := as.Lhs[0].(*ast.Ident)
			if !ok || id.Name != "ch" {
				return true
			}
			c, ok := as.Rhs[0].(*ast.CallExpr)
			if !ok {
				return true
			}
			if f, ok := c.Fun.(*ast.Ident); !ok || f.Name != "make" || len(c.Args) == 0 {
				return true
			}
			if _, ok := c.Args[0].(*ast.ChanType); !ok {
				return true
			}
			makes++
			if len(c.Args) > 1 {
				n, err := strconv.Atoi(exprString(c.Args[1]))
				if err != nil {
					okCaps = false
				} else if n > maxCap {
					maxCap = n
				}
			}
			return true
		})
	}
	v := ""
	if makes > 0 && okCaps {
		v = strconv.Itoa(maxCap)
	}
	add("C13", "newChanCap", "Nat", v, "largest capacity of a channel timer.New hands out")
	v = ""
	if makes > 0 {
		v = strconv.Itoa(makes)
	}
	add("C13", "newChanMakes", "Nat", v, "number of `ch = make(chan …)` in timer.New (date, cycle, duration)")

	rec := funcDecl(tm, "", "recurringTimer")
	// locals that merely name a path once (`end := interval.Interval.End`) are read as that path
	exprAliases = singleAssignPaths(rec)
	defer func() { exprAliases = nil }()
	var loopSel *ast.SelectStmt
	if rec != nil {
		ast.Inspect(rec, func(x ast.Node) bool {
			if f, ok := x.(*ast.ForStmt); ok && loopSel == nil {
				ast.Inspect(f.Body, func(y ast.Node) bool {
					if s, ok := y.(*ast.SelectStmt); ok && loopSel == nil {
						loopSel = s
					}
					return loopSel == nil
				})
			}
			return loopSel == nil
		})
	}
	cases, hasDefault, fromDelivered := "", "", ""
	if loopSel != nil {
		n, def, deliv := 0, false, false
		for _, st := range loopSel.Body.List {
			cc := st.(*ast.CommClause)
			if cc.Comm == nil {
				def = true
				continue
			}
			n++
			// case t = <-timer
			if as, ok := cc.Comm.(*ast.AssignStmt); ok && as.Tok == token.ASSIGN && len(as.Lhs) == 1 && len(as.Rhs) == 1 {
				if exprString(as.Lhs[0]) == "t" && exprString(as.Rhs[0]) == "<-timer" {
					deliv = true
				}
			}
		}
		// timer = clock.Until(t.Add(interval.Interval.Duration.Duration))
		armedFromT := false
		ast.Inspect(rec, func(x ast.Node) bool {
			if as, ok := x.(*ast.AssignStmt); ok && len(as.Lhs) == 1 && len(as.Rhs) == 1 &&
				exprString(as.Lhs[0]) == "timer" &&
				exprString(as.Rhs[0]) == "clock.Until(t.Add(interval.Interval.Duration.Duration))" {
				armedFromT = true
			}
			return true
		})
		cases = strconv.Itoa(n)
		hasDefault = boolLit(def)
		fromDelivered = boolLit(deliv && armedFromT)
	}
	add("C13", "loopSelectCases", "Nat", cases, "communication cases of the select in recurringTimer's loop (end, ctx.Done, timer)")
	add("C13", "loopSelectHasDefault", "Bool", hasDefault, "that select has a default case")
	add("C13", "intervalFromDelivered", "Bool", fromDelivered, "`t = <-timer` and `timer = clock.Until(t.Add(interval))`: the next interval counts from the delivered time")

	endCheck := ""
	if rec != nil {
		found := false
		ast.Inspect(rec, func(x ast.Node) bool {
			if c, ok := x.(*ast.CallExpr); ok && strings.HasSuffix(exprString(c.Fun), "Interval.End.After") {
				found = true
			}
			return true
		})
		endCheck = boolLit(found)
	}
	add("C13", "endCheckedBeforeFiring", "Bool", endCheck, "recurringTimer tests End.After(clock.Now()) before a firing")

	// `if repetitions == 0 { return }` and `if repetitions > 0 { repetitions-- }`
	stopAtZero, decGuard := "", ""
	if rec != nil {
		z, g := false, false
		ast.Inspect(rec, func(x ast.Node) bool {
			if is, ok := x.(*ast.IfStmt); ok {
				switch exprString(is.Cond) {
				case "repetitions==0":
					if len(is.Body.List) == 1 {
						if _, ok := is.Body.List[0].(*ast.ReturnStmt); ok {
							z = true
						}
					}
				case "repetitions>0":
					if len(is.Body.List) == 1 {
						if inc, ok := is.Body.List[0].(*ast.IncDecStmt); ok && inc.Tok == token.DEC && exprString(inc.X) == "repetitions" {
							g = true
						}
					}
				}
			}
			return true
		})
		stopAtZero, decGuard = boolLit(z), boolLit(g)
	}
	add("C13", "stopsAtZeroRepetitions", "Bool", stopAtZero, "`if repetitions == 0 { return }` at the top of the loop")
	add("C13", "decrementsWhenPositive", "Bool", decGuard, "`if repetitions > 0 { repetitions-- }` after each round")
}
