package main

import (
	"go/ast"
	"go/token"
	"regexp"
	"strings"
)

func init() { registry = append(registry, factsC06) }

// Facts the C06 model (lean/Bpmn/Model/EventGateway.lean) is parametric in, or hard-wires:
//   - ebgTermCap: capacity of `terminationChannels[*idPtr] = make(chan bool[, n])` in (*eventBasedGateway).run;
//   - ebgMapReplaced: the action transformer assigns a fresh map to the captured variable `terminationChannels`
//     (plain `=`), so `terminate` returns a nil channel to a flow that evaluates its select afterwards;
//   - catchReplyCap: capacity of `response := make(chan IAction[, n])` in (*catchEvent).NextAction;
//   - catchInboxMul / catchInboxAdd: the inbox of a catch node is `make(chan imessage, len(wr.incoming)*MUL+ADD)`;
//   - hard-wired: the winner is decided by atomic.CompareAndSwapInt32, the winner closes every channel inside its
//     loop, the loser is answered with completeAction{}.
func factsC06() {
	gf := load("gateway_event_based.go")
	run := funcDecl(gf, "eventBasedGateway", "run")

	tc := ""
	if run != nil {
		c, ok := makeChanCap(run, "terminationChannels")
		if !ok {
			// the map may be built by a helper method of the gateway (`terminationChannels := gw.<helper>(…)`): look for
			// the element assignment `<map>[…] = make(chan bool[, n])` in that method
			ast.Inspect(run, func(x ast.Node) bool {
				as, isAs := x.(*ast.AssignStmt)
				if !isAs || ok || len(as.Lhs) != 1 || len(as.Rhs) != 1 {
					return true
				}
				if id, isId := as.Lhs[0].(*ast.Ident); !isId || id.Name != "terminationChannels" {
					return true
				}
				call, isCall := as.Rhs[0].(*ast.CallExpr)
				if !isCall {
					return true
				}
				if sel, isSel := call.Fun.(*ast.SelectorExpr); isSel {
					if helper := funcDecl(gf, "eventBasedGateway", sel.Sel.Name); helper != nil && helper.Body != nil {
						ast.Inspect(helper.Body, func(y ast.Node) bool {
							if ha, isA := y.(*ast.AssignStmt); isA && !ok && len(ha.Lhs) == 1 && len(ha.Rhs) == 1 {
								if ix, isIx := ha.Lhs[0].(*ast.IndexExpr); isIx {
									c, ok = makeChanCap(ha, exprString(ix.X))
								}
							}
							return true
						})
					}
				}
				return true
			})
		}
		tc = natOrNone(c, ok)
	}
	add("C06", "ebgTermCap", "Nat", tc,
		"gateway_event_based.go run: capacity of terminationChannels[*idPtr] = make(chan bool[, n])")

	// the action transformer: the FuncLit assigned to the key `actionTransformer`
	var tr *ast.FuncLit
	if run != nil {
		ast.Inspect(run, func(x ast.Node) bool {
			if kv, ok := x.(*ast.KeyValueExpr); ok {
				if id, ok := kv.Key.(*ast.Ident); ok && id.Name == "actionTransformer" {
					if fl, ok := kv.Value.(*ast.FuncLit); ok {
						tr = fl
					}
				}
			}
			return true
		})
	}
	replaced, cas, closes, loser := "", "", "", ""
	if tr != nil {
		r := false
		ast.Inspect(tr, func(x ast.Node) bool {
			if as, ok := x.(*ast.AssignStmt); ok && as.Tok == token.ASSIGN {
				for _, l := range as.Lhs {
					if id, ok := l.(*ast.Ident); ok && id.Name == "terminationChannels" {
						r = true
					}
				}
			}
			return true
		})
		replaced = boolLit(r)
		cas = boolLit(callPos(tr, "atomic.CompareAndSwapInt32") != token.NoPos)
		// close(ch) inside a range loop over terminationChannels
		cl := false
		ast.Inspect(tr, func(x ast.Node) bool {
			if rs, ok := x.(*ast.RangeStmt); ok && exprString(rs.X) == "terminationChannels" {
				ast.Inspect(rs.Body, func(y ast.Node) bool {
					if c, ok := y.(*ast.CallExpr); ok && exprString(c.Fun) == "close" {
						cl = true
					}
					return true
				})
			}
			return true
		})
		closes = boolLit(cl)
		// every return inside the transformer is `return action` or `return completeAction{}`; the latter exists
		lc, other := false, false
		ast.Inspect(tr, func(x ast.Node) bool {
			if rt, ok := x.(*ast.ReturnStmt); ok && len(rt.Results) == 1 {
				s := exprString(rt.Results[0])
				switch {
				case strings.HasPrefix(s, "completeAction"):
					lc = true
				case s == "action":
				default:
					other = true
				}
			}
			return true
		})
		loser = boolLit(lc && !other)
	}
	add("C06", "ebgMapReplaced", "Bool", replaced,
		"gateway_event_based.go transformer: the captured terminationChannels variable is reassigned after the loop")
	add("C06", "ebgUsesCas", "Bool", cas,
		"gateway_event_based.go transformer: the winner is decided by atomic.CompareAndSwapInt32")
	add("C06", "ebgWinnerCloses", "Bool", closes,
		"gateway_event_based.go transformer: close(ch) inside the loop over terminationChannels")
	add("C06", "ebgLoserCompletes", "Bool", loser,
		"gateway_event_based.go transformer: the CAS loser is answered with completeAction{}")

	cf := load("event_catch.go")
	rc := ""
	if fd := funcDecl(cf, "catchEvent", "NextAction"); fd != nil {
		rc = natOrNone(makeChanCap(fd, "response"))
	}
	add("C06", "catchReplyCap", "Nat", rc,
		"event_catch.go NextAction: capacity of response := make(chan IAction[, n])")

	mul, addend := "", ""
	if fd := funcDecl(cf, "", "newCatchEvent"); fd != nil {
		if s, ok := makeChanCap(fd, "mch"); ok {
			if m := regexp.MustCompile(`^len\(wr\.incoming\)\*(\d+)\+(\d+)$`).FindStringSubmatch(s); m != nil {
				mul, addend = m[1], m[2]
			} else if natOrNone(s, true) != "" {
				mul, addend = "0", s
			}
		}
	}
	add("C06", "catchInboxMul", "Nat", mul,
		"event_catch.go newCatchEvent: inbox capacity is len(wr.incoming)*MUL+ADD (MUL)")
	add("C06", "catchInboxAdd", "Nat", addend,
		"event_catch.go newCatchEvent: inbox capacity is len(wr.incoming)*MUL+ADD (ADD)")
}
