package main

import (
	"go/ast"
	"go/token"
	"strings"
)

func init() { registry = append(registry, factsC10) }

// factsC10: what the boundary-event model (lean/Bpmn/Model/Boundary.lean `Cfg`) is parametric in.
func factsC10() {
	act := load("activity.go")

	// eventsGatedByActive: harness.ConsumeEvent calls event.ForwardEvent only inside an `if` whose condition
	// reads node.active (atomic.LoadInt32(&node.active) == 1).
	{
		val := ""
		if fd := funcDecl(act, "harness", "ConsumeEvent"); fd != nil && fd.Body != nil {
			fwd := callPos(fd.Body, "ForwardEvent")
			if fwd != token.NoPos {
				gated := false
				ast.Inspect(fd.Body, func(n ast.Node) bool {
					is, ok := n.(*ast.IfStmt)
					if !ok {
						return true
					}
					cond := exprString(is.Cond)
					if strings.Contains(cond, "active") && callPos(is.Body, "ForwardEvent") != token.NoPos {
						gated = true
					}
					return true
				})
				val = boolLit(gated)
			}
		}
		add("C10", "eventsGatedByActive", "Bool", val,
			"activity.go harness.ConsumeEvent: event.ForwardEvent is called only under a test of node.active")
	}

	// activeSetBeforeNextAction: in harness.run, does `atomic.StoreInt32(&node.active, 1)` precede the call of
	// node.activity.NextAction (which queues the activity's first message)?
	{
		val := ""
		if fd := funcDecl(act, "harness", "run"); fd != nil && fd.Body != nil {
			call := callPos(fd.Body, "activity.NextAction")
			var store token.Pos
			ast.Inspect(fd.Body, func(n ast.Node) bool {
				c, ok := n.(*ast.CallExpr)
				if !ok || store != token.NoPos {
					return true
				}
				if strings.HasSuffix(exprString(c.Fun), "StoreInt32") && len(c.Args) == 2 &&
					strings.HasSuffix(exprString(c.Args[0]), "node.active") && exprString(c.Args[1]) == "1" {
					store = c.Pos()
				}
				return true
			})
			if call != token.NoPos && store != token.NoPos {
				val = boolLit(store < call)
			}
		}
		add("C10", "activeSetBeforeNextAction", "Bool", val,
			"activity.go harness.run: atomic.StoreInt32(&node.active, 1) precedes node.activity.NextAction (true) / follows it (false)")
	}

	// activeResetBeforeHandover: in the answer-relay goroutine of harness.run (the `go func` whose select receives
	// from `in`), does `atomic.StoreInt32(&node.active, 0)` precede the hand-over `out <- rsp`?
	{
		val := ""
		if fd := funcDecl(act, "harness", "run"); fd != nil && fd.Body != nil {
			ast.Inspect(fd.Body, func(n ast.Node) bool {
				g, ok := n.(*ast.GoStmt)
				if !ok || val != "" {
					return true
				}
				var store, send token.Pos
				ast.Inspect(g.Call, func(m ast.Node) bool {
					switch x := m.(type) {
					case *ast.CallExpr:
						if store == token.NoPos && strings.HasSuffix(exprString(x.Fun), "StoreInt32") && len(x.Args) == 2 &&
							strings.HasSuffix(exprString(x.Args[0]), "node.active") && exprString(x.Args[1]) == "0" {
							store = x.Pos()
						}
					case *ast.SendStmt:
						if send == token.NoPos && exprString(x.Chan) == "out" {
							send = x.Pos()
						}
					}
					return true
				})
				if store != token.NoPos && send != token.NoPos {
					val = boolLit(store < send)
				}
				return true
			})
		}
		add("C10", "activeResetBeforeHandover", "Bool", val,
			"activity.go harness.run, answer relay: atomic.StoreInt32(&node.active, 0) precedes `out <- rsp` (true) / follows it (false)")
	}

	// cancellationOnce / listenersShareWaitGroup: both read from newHarness.
	{
		once, share := "", ""
		if fd := funcDecl(act, "", "newHarness"); fd != nil && fd.Body != nil {
			// the interrupting transformer: a func literal that reaches `.Cancel()`
			ast.Inspect(fd.Body, func(n ast.Node) bool {
				fl, ok := n.(*ast.FuncLit)
				if !ok || once != "" {
					return true
				}
				if callPos(fl.Body, ".Cancel") == token.NoPos {
					return true
				}
				// is the Cancel call inside an argument of `<x>.cancellation.Do(...)` (any sync.Once field named so)?
				viaOnce := false
				ast.Inspect(fl.Body, func(m ast.Node) bool {
					c, ok := m.(*ast.CallExpr)
					if !ok {
						return true
					}
					if strings.HasSuffix(exprString(c.Fun), "cancellation.Do") {
						for _, a := range c.Args {
							if callPos(a, ".Cancel") != token.NoPos {
								viaOnce = true
							}
						}
					}
					return true
				})
				once = boolLit(viaOnce)
				return false
			})
			// the listener flows: newFlow(..., <wait group>, ...) — the fifth argument
			ast.Inspect(fd.Body, func(n ast.Node) bool {
				c, ok := n.(*ast.CallExpr)
				if !ok || exprString(c.Fun) != "newFlow" || len(c.Args) < 5 {
					return true
				}
				share = boolLit(strings.HasSuffix(exprString(c.Args[4]), "flowWaitGroup") &&
					strings.HasPrefix(exprString(c.Args[4]), "node."))
				return false
			})
		}
		// the transformer is installed only for boundary events with cancelActivity: the assignment to
		// actionTransformer sits in an `if` whose condition is boundaryEvent.CancelActivity()
		only := ""
		if fd := funcDecl(act, "", "newHarness"); fd != nil && fd.Body != nil {
			ast.Inspect(fd.Body, func(n ast.Node) bool {
				is, ok := n.(*ast.IfStmt)
				if !ok {
					return true
				}
				assigns := false
				ast.Inspect(is.Body, func(m ast.Node) bool {
					if a, ok := m.(*ast.AssignStmt); ok && len(a.Lhs) == 1 && exprString(a.Lhs[0]) == "actionTransformer" {
						assigns = true
					}
					return true
				})
				if assigns {
					only = boolLit(strings.HasSuffix(exprString(is.Cond), "CancelActivity()") && is.Else == nil)
				}
				return true
			})
			if only == "" {
				// assigned, but not under any if
				ast.Inspect(fd.Body, func(m ast.Node) bool {
					if a, ok := m.(*ast.AssignStmt); ok && len(a.Lhs) == 1 && exprString(a.Lhs[0]) == "actionTransformer" {
						only = "false"
					}
					return true
				})
			}
		}
		add("C10", "cancelOnlyIfInterrupting", "Bool", only,
			"activity.go newHarness: the cancelling action transformer is installed only under `if boundaryEvent.CancelActivity()`")
		add("C10", "cancellationOnce", "Bool", once,
			"activity.go newHarness: the interrupting action transformer calls activity.Cancel() through node.cancellation.Do (sync.Once)")
		add("C10", "listenersShareWaitGroup", "Bool", share,
			"activity.go newHarness: the boundary listener flows are created with node.flowWaitGroup (the instance's wait group)")
	}

	// cancelRefusedWhilePending: in the cancelMessage case of the activity's run loop the verdict `false` is sent
	// under the test `active.Load() > 1`. Read for the generic task and for the sub-process; they must agree.
	{
		refuse := func(file, recv string) string {
			f := load(file)
			fd := funcDecl(f, recv, "run")
			if fd == nil || fd.Body == nil {
				return ""
			}
			res := ""
			ast.Inspect(fd.Body, func(n ast.Node) bool {
				cc, ok := n.(*ast.CaseClause)
				if !ok || len(cc.List) != 1 || exprString(cc.List[0]) != "cancelMessage" {
					return true
				}
				res = "false"
				for _, st := range cc.Body {
					is, ok := st.(*ast.IfStmt)
					if !ok {
						continue
					}
					cond := exprString(is.Cond)
					if strings.Contains(cond, "active.Load()>1") {
						// the `then` branch sends false on the response channel
						sendsFalse := false
						ast.Inspect(is.Body, func(m ast.Node) bool {
							if s, ok := m.(*ast.SendStmt); ok && exprString(s.Value) == "false" {
								sendsFalse = true
							}
							return true
						})
						if sendsFalse {
							res = "true"
						}
					}
				}
				return false
			})
			return res
		}
		a, b := refuse("task_generic.go", "genericTask"), refuse("subprocess.go", "subProcess")
		val := ""
		if a != "" && a == b {
			val = a
		}
		add("C10", "cancelRefusedWhilePending", "Bool", val,
			"task_generic.go / subprocess.go run loop, cancelMessage: answers false while active.Load() > 1 (a request is in flight)")
	}

	// requestIgnoresCancel: the request goroutine of the generic task waits in a select whose only alternatives are
	// ctx.Done() and the task trace's answer: nothing a cancel verdict could wake.
	{
		val := ""
		f := load("task_generic.go")
		if fd := funcDecl(f, "genericTask", "run"); fd != nil && fd.Body != nil {
			ast.Inspect(fd.Body, func(n ast.Node) bool {
				g, ok := n.(*ast.GoStmt)
				if !ok {
					return true
				}
				ast.Inspect(g.Call, func(m ast.Node) bool {
					sel, ok := m.(*ast.SelectStmt)
					if !ok {
						return true
					}
					n := 0
					known := 0
					for _, c := range sel.Body.List {
						cc := c.(*ast.CommClause)
						n++
						s := ""
						switch x := cc.Comm.(type) {
						case *ast.ExprStmt:
							s = exprString(x.X)
						case *ast.AssignStmt:
							if len(x.Rhs) == 1 {
								s = exprString(x.Rhs[0])
							}
						}
						if strings.Contains(s, "ctx.Done()") || strings.Contains(s, ".out()") {
							known++
						}
					}
					if n > 0 {
						val = boolLit(n == known)
					}
					return false
				})
				return false
			})
		}
		add("C10", "requestIgnoresCancel", "Bool", val,
			"task_generic.go: the request goroutine's select has no alternative besides ctx.Done() and the answer")
	}
}
