package main

import (
	"go/ast"
	"go/token"
	"regexp"
	"strings"
)

func init() { registry = append(registry, factsC18) }

// callPosOutsideFuncLit: position of the first call whose printed callee ends with suffix and which is not
// nested in a function literal (i.e. is executed by the enclosing function itself, not by a goroutine /
// callback it creates).
func callPosOutsideFuncLit(n ast.Node, suffix string) token.Pos {
	var pos token.Pos
	var walk func(x ast.Node) bool
	walk = func(x ast.Node) bool {
		if pos != token.NoPos {
			return false
		}
		switch v := x.(type) {
		case *ast.FuncLit:
			return false
		case *ast.CallExpr:
			if strings.HasSuffix(exprString(v.Fun), suffix) {
				pos = v.Pos()
				return false
			}
		}
		return true
	}
	ast.Inspect(n, walk)
	return pos
}

var c18capRe = regexp.MustCompile(`^len\(executes\)\+([0-9]+)$`)

func factsC18() {
	f := load("process_set.go")

	// 1./2. Is the watcher's subscription established before the member process is started?
	//   true  : a `.Subscribe(` / `.SubscribeChannel(` call executed by the function itself precedes the start call
	//   false : no such call in the function, and tracerProcess (the watcher goroutine) subscribes by itself
	subFact := func(recvFn, startSuffix string) string {
		fd := funcDecl(f, "ProcessSet", recvFn)
		tp := funcDecl(f, "ProcessSet", "tracerProcess")
		if fd == nil || fd.Body == nil {
			return ""
		}
		start := callPosOutsideFuncLit(fd.Body, startSuffix)
		if start == token.NoPos {
			return ""
		}
		sub := callPosOutsideFuncLit(fd.Body, ".Subscribe")
		if sub == token.NoPos {
			sub = callPosOutsideFuncLit(fd.Body, ".SubscribeChannel")
		}
		if sub != token.NoPos {
			return boolLit(sub < start)
		}
		if tp != nil && tp.Body != nil && (hasCall(tp.Body, ".Subscribe") || hasCall(tp.Body, ".SubscribeChannel")) {
			return "false"
		}
		return ""
	}
	add("C18", "watcherSubscribesBeforeStart", "Bool", subFact("StartAll", "process.StartAll"),
		"process_set.go (*ProcessSet).StartAll: the watcher's trace subscription precedes process.StartAll(ctx) (false: tracerProcess subscribes in its own goroutine, after the start)")
	add("C18", "instWatcherSubscribesBeforeStart", "Bool", subFact("run", "process.StartWith"),
		"process_set.go (*ProcessSet).run: the watcher's trace subscription precedes process.StartWith(ctx, startFlowNode) of an instantiated process")

	// 2b. Is the watcher registered with the wait group (wg.Add + go tracerProcess) before the member process is started?
	addFact := func(recvFn, startSuffix string) string {
		fd := funcDecl(f, "ProcessSet", recvFn)
		if fd == nil || fd.Body == nil {
			return ""
		}
		start := callPosOutsideFuncLit(fd.Body, startSuffix)
		add := callPosOutsideFuncLit(fd.Body, "wg.Add")
		spawn := callPosOutsideFuncLit(fd.Body, "tracerProcess")
		if start == token.NoPos || add == token.NoPos || spawn == token.NoPos {
			return ""
		}
		return boolLit(add < start && spawn < start)
	}
	add("C18", "wgAddBeforeStart", "Bool", addFact("StartAll", "process.StartAll"),
		"process_set.go (*ProcessSet).StartAll: wg.Add(1) and go ps.tracerProcess(...) precede process.StartAll(ctx)")
	add("C18", "instWgAddBeforeStart", "Bool", addFact("run", "process.StartWith"),
		"process_set.go (*ProcessSet).run: wg.Add(1) and go ps.tracerProcess(...) precede process.StartWith(ctx, startFlowNode)")

	// 2c. wg.Add(1) precedes the `go ps.tracerProcess(...)` it accounts for, at every site (the model registers and
	//     spawns a watcher in one step; with the order reversed a watcher could call Done before the Add).
	addSpawn := ""
	{
		sites, ok := 0, true
		for _, fn := range []string{"StartAll", "run"} {
			fd := funcDecl(f, "ProcessSet", fn)
			if fd == nil || fd.Body == nil {
				ok = false
				continue
			}
			spawn := callPosOutsideFuncLit(fd.Body, "tracerProcess")
			add := callPosOutsideFuncLit(fd.Body, "wg.Add")
			if spawn == token.NoPos {
				continue
			}
			sites++
			if add == token.NoPos || add > spawn {
				ok = false
			}
		}
		if sites > 0 {
			addSpawn = boolLit(ok)
		}
	}
	add("C18", "wgAddBeforeSpawn", "Bool", addSpawn,
		"process_set.go StartAll / run: wg.Add(1) precedes go ps.tracerProcess(...) at every site")

	// 3. Is close(ps.done) executed at most once? true iff every `close(<x>.done)` site is nested in a `<once>.Do(func…)`
	//    call, or the single site sits in a goroutine spawned outside WaitUntilComplete. false iff a site is reachable
	//    from every WaitUntilComplete call unguarded.
	once := ""
	if f != nil {
		type site struct {
			fn     string
			inOnce bool
		}
		var sites []site
		for _, d := range f.Decls {
			fd, ok := d.(*ast.FuncDecl)
			if !ok || fd.Body == nil {
				continue
			}
			var stack []ast.Node
			ast.Inspect(fd.Body, func(x ast.Node) bool {
				if x == nil {
					stack = stack[:len(stack)-1]
					return true
				}
				stack = append(stack, x)
				c, ok := x.(*ast.CallExpr)
				if !ok {
					return true
				}
				if id, isId := c.Fun.(*ast.Ident); isId && id.Name == "close" && len(c.Args) == 1 &&
					strings.HasSuffix(exprString(c.Args[0]), ".done") {
					in := false
					for _, a := range stack[:len(stack)-1] {
						if ac, isCall := a.(*ast.CallExpr); isCall && strings.HasSuffix(exprString(ac.Fun), ".Do") {
							in = true
						}
					}
					sites = append(sites, site{fd.Name.Name, in})
				}
				return true
			})
		}
		if len(sites) > 0 {
			all := true
			for _, s := range sites {
				if !s.inOnce {
					all = false
				}
			}
			switch {
			case all:
				once = "true"
			case len(sites) == 1 && sites[0].fn != "WaitUntilComplete":
				once = "true"
			default:
				once = "false"
			}
		}
	}
	add("C18", "doneClosedOnce", "Bool", once,
		"process_set.go: close(ps.done) is guarded by sync.Once or executed by a single goroutine not spawned per WaitUntilComplete call")

	// 4. capacities
	np := funcDecl(f, "", "NewProcessSet")
	dc, mc0, mc1 := "", "", ""
	if np != nil {
		dc = natOrNone(makeChanCap(np, "done"))
		if s, ok := makeChanCap(np, "mch"); ok {
			if m := c18capRe.FindStringSubmatch(s); m != nil {
				mc0, mc1 = "1", m[1]
			} else if n := natOrNone(s, true); n != "" {
				mc0, mc1 = "0", n
			}
		}
	}
	add("C18", "doneCap", "Nat", dc, "NewProcessSet: capacity of ps.done (only ever closed, never sent to)")
	add("C18", "mchCapPerExecutable", "Nat", mc0, "NewProcessSet: capacity of ps.mch = mchCapPerExecutable*len(executes) + mchCapExtra")
	add("C18", "mchCapExtra", "Nat", mc1, "NewProcessSet: see mchCapPerExecutable")
}
