package main

import (
	"go/ast"
	"go/token"
	"strings"
)

func init() { registry = append(registry, factsC08) }

// factsC08: parameters of the task-request model (lean/Bpmn/Model/TaskTrace.lean).
func factsC08() {
	act := load("activity.go")

	// 1. channel capacities of a task trace: newTaskTrace's composite literal `forward: make(chan DoResponse, n)` ...
	nt := funcDecl(act, "", "newTaskTrace")
	for _, ch := range []struct{ field, name string }{{"forward", "forwardCap"}, {"response", "responseCap"}, {"done", "doneCap"}} {
		v := ""
		if nt != nil {
			s, ok := makeChanCap(nt, ch.field)
			v = natOrNone(s, ok)
		}
		add("C08", ch.name, "Nat", v, "activity.go newTaskTrace: capacity of taskTrace."+ch.field)
	}

	// 2. shape of the send in (*taskTrace).Do: `t.forward <- …` as a plain statement (blocking), or as a case of a
	//    select that also has a `default` clause and/or a receive from `t.done`.
	hasDefault, hasDoneAlt := "", ""
	if do := funcDecl(act, "taskTrace", "Do"); do != nil && do.Body != nil {
		isForwardSend := func(s ast.Stmt) bool {
			ss, ok := s.(*ast.SendStmt)
			return ok && strings.HasSuffix(exprString(ss.Chan), ".forward")
		}
		found := false
		inSelect := false
		var sel *ast.SelectStmt
		ast.Inspect(do.Body, func(n ast.Node) bool {
			switch x := n.(type) {
			case *ast.SelectStmt:
				for _, c := range x.Body.List {
					cc := c.(*ast.CommClause)
					if cc.Comm != nil && isForwardSend(cc.Comm) {
						found, inSelect, sel = true, true, x
					}
				}
			case *ast.SendStmt:
				if isForwardSend(x) {
					found = true
				}
			}
			return true
		})
		if found {
			d, a := false, false
			if inSelect {
				for _, c := range sel.Body.List {
					cc := c.(*ast.CommClause)
					if cc.Comm == nil {
						d = true
						continue
					}
					var rx ast.Expr
					switch st := cc.Comm.(type) {
					case *ast.ExprStmt:
						rx = st.X
					case *ast.AssignStmt:
						if len(st.Rhs) == 1 {
							rx = st.Rhs[0]
						}
					}
					if u, ok := rx.(*ast.UnaryExpr); ok && u.Op == token.ARROW && strings.HasSuffix(exprString(u.X), ".done") {
						a = true
					}
				}
			}
			hasDefault, hasDoneAlt = boolLit(d), boolLit(a)
		}
	}
	add("C08", "doSendHasDefault", "Bool", hasDefault,
		"activity.go (*taskTrace).Do: the send on t.forward is a case of a select with a default clause")
	add("C08", "doSendHasDoneAlt", "Bool", hasDoneAlt,
		"activity.go (*taskTrace).Do: the send on t.forward is a case of a select that also receives from t.done")

	// 3. retry.go: the sentinel compared with r.limit in IsContinue, and the comparison `r.limit > r.attempts`
	rf := load("retry.go")
	sentinel, strict := "", ""
	if fd := funcDecl(rf, "Retry", "IsContinue"); fd != nil && fd.Body != nil {
		ast.Inspect(fd.Body, func(n ast.Node) bool {
			b, ok := n.(*ast.BinaryExpr)
			if !ok {
				return true
			}
			l, r := exprString(b.X), exprString(b.Y)
			if b.Op == token.EQL && strings.HasSuffix(l, ".limit") {
				ok := len(r) > 0
				for i, c := range r {
					if !(c >= '0' && c <= '9') && !(i == 0 && c == '-') {
						ok = false
					}
				}
				if ok {
					sentinel = r
				}
			}
			if strings.HasSuffix(l, ".limit") && strings.HasSuffix(r, ".attempts") {
				switch b.Op {
				case token.GTR:
					strict = "true"
				case token.GEQ, token.LSS, token.LEQ, token.NEQ, token.EQL:
					strict = "false"
				}
			}
			if strings.HasSuffix(l, ".attempts") && strings.HasSuffix(r, ".limit") {
				switch b.Op {
				case token.LSS:
					strict = "true"
				case token.GEQ, token.GTR, token.LEQ, token.NEQ, token.EQL:
					strict = "false"
				}
			}
			return true
		})
	}
	add("C08", "retrySentinel", "Int", sentinel, "retry.go (*Retry).IsContinue: the limit value that means `retry for ever`")
	add("C08", "retryStrictGreater", "Bool", strict, "retry.go (*Retry).IsContinue: continues iff limit > attempts (strictly)")

	// 4. flow.go: in the error branch of the flowAction case the error trace is sent before the handler is read,
	//    and the retry limit is overwritten by the handler's value on every error
	ff := load("flow.go")
	first, resets := "", ""
	if fd := funcDecl(ff, "flow", "Start"); fd != nil && fd.Body != nil {
		ast.Inspect(fd.Body, func(n ast.Node) bool {
			is, ok := n.(*ast.IfStmt)
			if !ok || exprString(is.Cond) != "res.err!=nil" {
				return true
			}
			send := callPos(is.Body, "tracer.Send")
			var selPos token.Pos
			ast.Inspect(is.Body, func(m ast.Node) bool {
				if s, ok := m.(*ast.SelectStmt); ok && selPos == token.NoPos {
					selPos = s.Pos()
				}
				return true
			})
			first = boolLit(send != token.NoPos && (selPos == token.NoPos || send < selPos))
			r := false
			ast.Inspect(is.Body, func(m ast.Node) bool {
				if c, ok := m.(*ast.CallExpr); ok && strings.HasSuffix(exprString(c.Fun), "retry.Reset") &&
					len(c.Args) == 1 && exprString(c.Args[0]) == "handler.Retries" {
					r = true
				}
				return true
			})
			resets = boolLit(r)
			return false
		})
	}
	add("C08", "errorTraceBeforeHandler", "Bool", first,
		"flow.go (*flow).Start: in the `res.err != nil` branch the ErrorTrace is sent before the handler channel is read")
	add("C08", "retryLimitFromHandler", "Bool", resets,
		"flow.go (*flow).Start: f.retry.Reset(handler.Retries) overwrites the limit on every retry answer")
}
