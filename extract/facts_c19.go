package main

import (
	"go/ast"
	"go/token"
	"sort"
	"strconv"
	"strings"
)

func init() { registry = append(registry, factsC19) }

// c19ConstFloat finds `name = <numeric literal>` in a file-level const block and returns it as an integer
// (plain units) when the literal is integral; "" otherwise.
func c19ConstFloat(f *ast.File, name string) string {
	if f == nil {
		return ""
	}
	for _, d := range f.Decls {
		gd, ok := d.(*ast.GenDecl)
		if !ok || gd.Tok != token.CONST {
			continue
		}
		for _, s := range gd.Specs {
			vs := s.(*ast.ValueSpec)
			for i, n := range vs.Names {
				if n.Name != name || i >= len(vs.Values) {
					continue
				}
				lit, ok := vs.Values[i].(*ast.BasicLit)
				if !ok {
					return ""
				}
				v, err := strconv.ParseFloat(lit.Value, 64)
				if err != nil || v != float64(int64(v)) {
					return ""
				}
				return strconv.FormatInt(int64(v), 10)
			}
		}
	}
	return ""
}

// c19Sizes reads `flowNodeDefaultSize`: for every case clause (and the default) the two returned literals,
// keyed by the first type named in the clause ("default" for the default clause).
func c19Sizes(f *ast.File) map[string][2]string {
	res := map[string][2]string{}
	fd := funcDecl(f, "", "flowNodeDefaultSize")
	if fd == nil || fd.Body == nil {
		return res
	}
	ast.Inspect(fd.Body, func(x ast.Node) bool {
		cc, ok := x.(*ast.CaseClause)
		if !ok {
			return true
		}
		var ret *ast.ReturnStmt
		for _, st := range cc.Body {
			if r, ok := st.(*ast.ReturnStmt); ok {
				ret = r
			}
		}
		if ret == nil || len(ret.Results) != 2 {
			return true
		}
		var wh [2]string
		for i, e := range ret.Results {
			lit, ok := e.(*ast.BasicLit)
			if !ok {
				return true
			}
			v, err := strconv.ParseFloat(lit.Value, 64)
			if err != nil || v != float64(int64(v)) || v < 0 {
				return true
			}
			wh[i] = strconv.FormatInt(int64(v), 10)
		}
		if cc.List == nil {
			res["default"] = wh
		}
		for _, t := range cc.List {
			res[strings.TrimPrefix(exprString(t), "*")] = wh
		}
		return true
	})
	return res
}

func factsC19() {
	f := load("schema/builder.go")
	// layout constants (plain units; the documented defaults)
	for _, c := range [][2]string{
		{"autoLayoutStartX", "defaultStartX"}, {"autoLayoutStartY", "defaultStartY"},
		{"autoLayoutColumnGap", "defaultColumnGap"}, {"autoLayoutRowGap", "defaultRowGap"},
		{"autoLayoutProcessGap", "defaultProcessGap"}, {"autoLayoutMinProcessHeight", "minProcessHeight"},
	} {
		add("C19", c[1], "Nat", c19ConstFloat(f, c[0]), "schema/builder.go const "+c[0])
	}
	// node sizes
	sz := c19Sizes(f)
	for _, k := range [][2]string{{"StartEvent", "sizeStartEvent"}, {"EndEvent", "sizeEndEvent"},
		{"SubProcess", "sizeSubProcess"}, {"AdHocSubProcess", "sizeAdHocSubProcess"}, {"Transaction", "sizeTransaction"},
		{"ExclusiveGateway", "sizeGateway"}, {"default", "sizeDefault"}} {
		v := ""
		if wh, ok := sz[k[0]]; ok {
			v = "(" + wh[0] + ", " + wh[1] + ")"
		}
		add("C19", k[1], "(Nat × Nat)", v, "flowNodeDefaultSize, clause of "+k[0])
	}
	// largest width / height over all clauses
	mw, mh, any := int64(0), int64(0), false
	for _, wh := range sz {
		w, _ := strconv.ParseInt(wh[0], 10, 64)
		h, _ := strconv.ParseInt(wh[1], 10, 64)
		if w > mw {
			mw = w
		}
		if h > mh {
			mh = h
		}
		any = true
	}
	v1, v2 := "", ""
	if any {
		v1, v2 = strconv.FormatInt(mw, 10), strconv.FormatInt(mh, 10)
	}
	add("C19", "maxNodeWidth", "Nat", v1, "largest width returned by flowNodeDefaultSize")
	add("C19", "maxNodeHeight", "Nat", v2, "largest height returned by flowNodeDefaultSize")

	// does RandBytes build a new source seeded from the clock on every call?
	reseeds := ""
	if fd := funcDecl(f, "", "RandBytes"); fd != nil && fd.Body != nil {
		found := false
		ast.Inspect(fd.Body, func(x ast.Node) bool {
			c, ok := x.(*ast.CallExpr)
			if !ok {
				return true
			}
			callee := exprString(c.Fun)
			if (strings.HasSuffix(callee, "NewSource") || strings.HasSuffix(callee, "Seed")) && len(c.Args) == 1 &&
				strings.Contains(exprString(c.Args[0]), "time.Now") {
				found = true
			}
			return true
		})
		reseeds = boolLit(found)
	}
	add("C19", "randBytesReseedsPerCall", "Bool", reseeds,
		"RandBytes creates/seeds a math/rand source from time.Now() inside the function body")

	// the types AddActivity stores (type switch on the activity)
	stored := ""
	if fd := funcDecl(f, "ProcessBuilder", "AddActivity"); fd != nil && fd.Body != nil {
		var names []string
		sw := false
		ast.Inspect(fd.Body, func(x ast.Node) bool {
			ts, ok := x.(*ast.TypeSwitchStmt)
			if !ok {
				return true
			}
			sw = true
			for _, st := range ts.Body.List {
				cc := st.(*ast.CaseClause)
				for _, t := range cc.List {
					names = append(names, strings.TrimPrefix(exprString(t), "*"))
				}
			}
			return false
		})
		if sw {
			sort.Strings(names)
			q := make([]string, len(names))
			for i, n := range names {
				q[i] = strconv.Quote(n)
			}
			stored = "[" + strings.Join(q, ", ") + "]"
		}
	}
	add("C19", "addActivityStored", "(List String)", stored, "types named in the type switch of ProcessBuilder.AddActivity (sorted)")
}
