// Command extract regenerates lean/Bpmn/Gen/*.lean from the current /repo working tree.
// It uses only go/parser, go/ast, go/token. Every fact is semantic (a capacity, the order of two
// calls, the shape of a select); when the construct a fact is read from cannot be found the fact is
// `none` and the Lean instantiation that depends on it stops type-checking.
package main

import (
	"encoding/json"
	"flag"
	"fmt"
	"go/ast"
	"go/parser"
	"go/token"
	"os"
	"path/filepath"
	"sort"
	"strings"
)

type fact struct {
	Prop  string // property it serves
	Name  string // Lean identifier
	Type  string // Lean type: "Nat" | "Bool" | "Int"
	Value string // Lean term, or "" when unknown
	Doc   string
}

var facts []fact

func add(prop, name, typ, value, doc string) {
	facts = append(facts, fact{prop, name, typ, value, doc})
}

// raw Lean text a property appends to its generated module (tables too large for `add`), and the
// modules that text needs imported. Both optional; a module with neither looks exactly as before.
var rawLean = map[string]string{}
var rawImports = map[string][]string{}

func addRaw(prop string, imports []string, text string) {
	rawImports[prop] = append(rawImports[prop], imports...)
	rawLean[prop] += text
}

var fset = token.NewFileSet()
var files = map[string]*ast.File{}
var repo string

func load(rel string) *ast.File {
	if f, ok := files[rel]; ok {
		return f
	}
	f, err := parser.ParseFile(fset, filepath.Join(repo, rel), nil, parser.ParseComments)
	if err != nil {
		files[rel] = nil
		return nil
	}
	files[rel] = f
	return f
}

// funcDecl finds a function or method (recv may be "" or the receiver type name without '*').
func funcDecl(f *ast.File, recv, name string) *ast.FuncDecl {
	if f == nil {
		return nil
	}
	for _, d := range f.Decls {
		fd, ok := d.(*ast.FuncDecl)
		if !ok || fd.Name.Name != name {
			continue
		}
		r := ""
		if fd.Recv != nil && len(fd.Recv.List) == 1 {
			t := fd.Recv.List[0].Type
			if s, ok := t.(*ast.StarExpr); ok {
				t = s.X
			}
			if id, ok := t.(*ast.Ident); ok {
				r = id.Name
			}
		}
		if r == recv {
			return fd
		}
	}
	return nil
}

// exprAliases: while set, exprString prints a local variable that is defined ONCE as a plain path (`end := interval.Interval.End`,
// `period := interval.Interval.Duration.Duration`) as that path — hoisting a repeated expression into a local is not a change
// of what the code does. See singleAssignPaths.
var exprAliases map[string]ast.Expr

// singleAssignPaths: the locals of fd that are defined exactly once (`:=`), never assigned again, and whose definition is a
// plain path (identifiers, selectors, dereferences — no calls, no operators)
func singleAssignPaths(fd *ast.FuncDecl) map[string]ast.Expr {
	out := map[string]ast.Expr{}
	if fd == nil || fd.Body == nil {
		return out
	}
	count := map[string]int{}
	def := map[string]ast.Expr{}
	var isPath func(e ast.Expr) bool
	isPath = func(e ast.Expr) bool {
		switch x := e.(type) {
		case *ast.Ident:
			return x.Name != "nil" && x.Name != "true" && x.Name != "false"
		case *ast.SelectorExpr:
			return isPath(x.X)
		case *ast.StarExpr:
			return isPath(x.X)
		case *ast.ParenExpr:
			return isPath(x.X)
		}
		return false
	}
	ast.Inspect(fd.Body, func(n ast.Node) bool {
		switch x := n.(type) {
		case *ast.AssignStmt:
			for i, l := range x.Lhs {
				if id, ok := l.(*ast.Ident); ok && id.Name != "_" {
					count[id.Name]++
					if x.Tok == token.DEFINE && len(x.Lhs) == len(x.Rhs) {
						def[id.Name] = x.Rhs[i]
					} else {
						count[id.Name]++ // not a plain definition
					}
				}
			}
		case *ast.IncDecStmt:
			if id, ok := x.X.(*ast.Ident); ok {
				count[id.Name] += 2
			}
		case *ast.RangeStmt:
			for _, e := range []ast.Expr{x.Key, x.Value} {
				if id, ok := e.(*ast.Ident); ok {
					count[id.Name] += 2
				}
			}
		case *ast.UnaryExpr:
			if x.Op == token.AND { // its address is taken: it may change behind our back
				if id, ok := x.X.(*ast.Ident); ok {
					count[id.Name] += 2
				}
			}
		}
		return true
	})
	for name, c := range count {
		if c == 1 && def[name] != nil && isPath(def[name]) {
			// (a path through another alias is resolved when it is printed)
			if root, ok := def[name].(*ast.Ident); ok && root.Name == name {
				continue
			}
			out[name] = def[name]
		}
	}
	return out
}

func exprString(e ast.Expr) string {
	var sb strings.Builder
	var w func(e ast.Expr)
	depth := 0
	w = func(e ast.Expr) {
		switch x := e.(type) {
		case *ast.Ident:
			if a, ok := exprAliases[x.Name]; ok && depth < 8 {
				depth++
				w(a)
				depth--
				return
			}
			sb.WriteString(x.Name)
		case *ast.BasicLit:
			sb.WriteString(x.Value)
		case *ast.SelectorExpr:
			w(x.X)
			sb.WriteString(".")
			sb.WriteString(x.Sel.Name)
		case *ast.CallExpr:
			w(x.Fun)
			sb.WriteString("(")
			for i, a := range x.Args {
				if i > 0 {
					sb.WriteString(",")
				}
				w(a)
			}
			sb.WriteString(")")
		case *ast.BinaryExpr:
			w(x.X)
			sb.WriteString(x.Op.String())
			w(x.Y)
		case *ast.UnaryExpr:
			sb.WriteString(x.Op.String())
			w(x.X)
		case *ast.StarExpr:
			sb.WriteString("*")
			w(x.X)
		case *ast.ParenExpr:
			sb.WriteString("(")
			w(x.X)
			sb.WriteString(")")
		case *ast.ChanType:
			sb.WriteString("chan ")
			w(x.Value)
		case *ast.StructType:
			sb.WriteString("struct{}")
		case *ast.IndexExpr:
			w(x.X)
			sb.WriteString("[")
			w(x.Index)
			sb.WriteString("]")
		case *ast.ArrayType:
			sb.WriteString("[]")
			w(x.Elt)
		case *ast.CompositeLit:
			if x.Type != nil {
				w(x.Type)
			}
			sb.WriteString("{…}")
		case *ast.FuncLit:
			sb.WriteString("func{…}")
		default:
			sb.WriteString(fmt.Sprintf("<%T>", e))
		}
	}
	w(e)
	return sb.String()
}

// makeChanCap: within node n, find `make(chan …[, cap])` assigned to a composite-literal key or
// variable / field named key; returns the capacity expression as a string ("0" when absent).
func makeChanCap(n ast.Node, key string) (string, bool) {
	res, ok := "", false
	isMakeChan := func(e ast.Expr) (string, bool) {
		c, isCall := e.(*ast.CallExpr)
		if !isCall {
			return "", false
		}
		id, isId := c.Fun.(*ast.Ident)
		if !isId || id.Name != "make" || len(c.Args) == 0 {
			return "", false
		}
		if _, isChan := c.Args[0].(*ast.ChanType); !isChan {
			return "", false
		}
		if len(c.Args) == 1 {
			return "0", true
		}
		return exprString(c.Args[1]), true
	}
	ast.Inspect(n, func(x ast.Node) bool {
		if ok {
			return false
		}
		switch v := x.(type) {
		case *ast.KeyValueExpr:
			if id, isId := v.Key.(*ast.Ident); isId && id.Name == key {
				if s, is := isMakeChan(v.Value); is {
					res, ok = s, true
				}
			}
		case *ast.AssignStmt:
			for i, l := range v.Lhs {
				name := ""
				switch lv := l.(type) {
				case *ast.Ident:
					name = lv.Name
				case *ast.SelectorExpr:
					name = lv.Sel.Name
				case *ast.IndexExpr:
					name = exprString(lv.X)
				}
				if name == key && i < len(v.Rhs) {
					if s, is := isMakeChan(v.Rhs[i]); is {
						res, ok = s, true
					}
				}
			}
		}
		return true
	})
	return res, ok
}

// callPos returns the position of the first call whose printed callee ends with suffix.
func callPos(n ast.Node, suffix string) token.Pos {
	var pos token.Pos
	ast.Inspect(n, func(x ast.Node) bool {
		if pos != token.NoPos {
			return false
		}
		if c, ok := x.(*ast.CallExpr); ok {
			if strings.HasSuffix(exprString(c.Fun), suffix) {
				pos = c.Pos()
			}
		}
		return true
	})
	return pos
}

func natOrNone(s string, ok bool) string {
	if !ok {
		return ""
	}
	for _, c := range s {
		if c < '0' || c > '9' {
			return ""
		}
	}
	return s
}

func boolLit(b bool) string {
	if b {
		return "true"
	}
	return "false"
}

func main() {
	out := flag.String("out", "", "output directory")
	flag.StringVar(&repo, "repo", "/repo", "repository root")
	flag.Parse()
	if *out == "" {
		fmt.Fprintln(os.Stderr, "need -out")
		os.Exit(2)
	}
	extractAll()
	// group by property → one Lean module per property
	byProp := map[string][]fact{}
	for _, f := range facts {
		byProp[f.Prop] = append(byProp[f.Prop], f)
	}
	props := make([]string, 0, len(byProp))
	for p := range byProp {
		props = append(props, p)
	}
	sort.Strings(props)
	js := map[string]map[string]string{}
	for _, p := range props {
		var sb strings.Builder
		for _, im := range rawImports[p] {
			sb.WriteString("import " + im + "\n")
		}
		sb.WriteString("/- GENERATED by /verif/extract from the current /repo working tree. Do not edit. -/\n")
		sb.WriteString("namespace Bpmn.Gen." + p + "\n\n")
		js[p] = map[string]string{}
		for _, f := range byProp[p] {
			sb.WriteString("/-- " + f.Doc + " -/\n")
			if f.Value == "" {
				sb.WriteString(fmt.Sprintf("def %s : Option %s := none\n\n", f.Name, f.Type))
				js[p][f.Name] = "unknown"
			} else {
				sb.WriteString(fmt.Sprintf("def %s : Option %s := some (%s)\n\n", f.Name, f.Type, f.Value))
				js[p][f.Name] = f.Value
			}
		}
		sb.WriteString(rawLean[p])
		sb.WriteString("end Bpmn.Gen." + p + "\n")
		if err := os.WriteFile(filepath.Join(*out, p+".lean"), []byte(sb.String()), 0o644); err != nil {
			fmt.Fprintln(os.Stderr, err)
			os.Exit(1)
		}
	}
	b, _ := json.MarshalIndent(js, "", " ")
	os.WriteFile(filepath.Join(*out, "facts.json"), b, 0o644)
}
