package main

import (
	"go/ast"
	"strings"
)

func init() { registry = append(registry, factsC04) }

// factsC04: what the c04cond differential needs to know about the XPath expression engine.
//
// xpathVarsReachable: XPath.EvaluateExpression serialises the datum (the map of variables) with anyxml.Xml and
// evaluates the expression with xsel's exec.Exec on a cursor over that document. Left to itself anyxml makes the
// only key of a one-key map the document element and wraps a larger map in <doc>; with the context node on the
// document ROOT a bare name `a` then finds the variable only when there is exactly one (D24). The repaired shape
// is recognised by two things together:
//   - anyxml.Xml is called with an explicit root tag (second argument), so a map of any size is wrapped, and
//   - the cursor handed to exec.Exec is derived from a `.Children()` call (the wrapping element, not the root).
//
// Today's shape (one argument, the cursor of store.CreateInMemory passed on unchanged) gives `false`; a mixture
// of the two (wrapped but evaluated at the root, or the reverse) behaves like neither and is reported as unknown.
func factsC04() {
	f := load("pkg/expression/xpath/xpath.go")
	fd := funcDecl(f, "XPath", "EvaluateExpression")
	val := ""
	if fd != nil && fd.Body != nil {
		var xmlCall, execCall *ast.CallExpr
		nXml, nExec := 0, 0
		ast.Inspect(fd.Body, func(n ast.Node) bool {
			if c, ok := n.(*ast.CallExpr); ok {
				switch exprString(c.Fun) {
				case "anyxml.Xml":
					xmlCall = c
					nXml++
				case "exec.Exec":
					execCall = c
					nExec++
				}
			}
			return true
		})
		hasChildrenCall := func(e ast.Node) bool {
			found := false
			ast.Inspect(e, func(n ast.Node) bool {
				if c, ok := n.(*ast.CallExpr); ok && len(c.Args) == 0 && strings.HasSuffix(exprString(c.Fun), ".Children") {
					found = true
				}
				return !found
			})
			return found
		}
		// identifiers that (transitively) receive a value computed from a `.Children()` call
		derived := map[string]bool{}
		mentionsDerived := func(e ast.Node) bool {
			found := false
			ast.Inspect(e, func(n ast.Node) bool {
				if id, ok := n.(*ast.Ident); ok && derived[id.Name] {
					found = true
				}
				return !found
			})
			return found
		}
		for changed := true; changed; {
			changed = false
			ast.Inspect(fd.Body, func(n ast.Node) bool {
				a, ok := n.(*ast.AssignStmt)
				if !ok {
					return true
				}
				for i, l := range a.Lhs {
					id, isId := l.(*ast.Ident)
					if !isId || id.Name == "_" || derived[id.Name] {
						continue
					}
					var rhs ast.Expr
					switch {
					case len(a.Rhs) == len(a.Lhs):
						rhs = a.Rhs[i]
					case len(a.Rhs) == 1:
						rhs = a.Rhs[0]
					default:
						continue
					}
					if hasChildrenCall(rhs) || mentionsDerived(rhs) {
						derived[id.Name] = true
						changed = true
					}
				}
				return true
			})
		}
		if nXml == 1 && nExec == 1 && len(execCall.Args) >= 1 && len(xmlCall.Args) >= 1 {
			wrapped := len(xmlCall.Args) >= 2
			ctx := execCall.Args[0]
			onElement := hasChildrenCall(ctx) || mentionsDerived(ctx)
			switch {
			case wrapped && onElement:
				val = "true"
			case !wrapped && !onElement:
				val = "false"
			}
		}
	}
	add("C04", "xpathVarsReachable", "Bool", val,
		"pkg/expression/xpath XPath.EvaluateExpression: the datum is always wrapped in a root element and the expression is evaluated with that element as context node, so variables are reachable by bare name however many there are (true) / one-key maps lose the wrapper and evaluation starts at the document root, so variables are reachable only when there is exactly one (false)")
}
