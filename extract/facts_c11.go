package main

import (
	"go/ast"
	"go/parser"
	"go/token"
	"strconv"
	"strings"
)

func init() { registry = append(registry, factsC11) }

// linearInLen reads a capacity expression of the shape len(X)*a+b (either operand order, either part optional)
// and returns the coefficients; ok=false when the expression has another shape.
func linearInLen(src string) (mul, add int, ok bool) {
	e, err := parser.ParseExpr(src)
	if err != nil {
		return 0, 0, false
	}
	lit := func(x ast.Expr) (int, bool) {
		if p, isP := x.(*ast.ParenExpr); isP {
			x = p.X
		}
		b, isB := x.(*ast.BasicLit)
		if !isB || b.Kind != token.INT {
			return 0, false
		}
		v, err := strconv.Atoi(b.Value)
		return v, err == nil
	}
	isLen := func(x ast.Expr) bool {
		if p, isP := x.(*ast.ParenExpr); isP {
			x = p.X
		}
		c, isC := x.(*ast.CallExpr)
		if !isC {
			return false
		}
		id, isId := c.Fun.(*ast.Ident)
		return isId && id.Name == "len" && len(c.Args) == 1
	}
	// term: len(X) | len(X)*a | a*len(X) | a
	term := func(x ast.Expr) (m, a int, ok bool) {
		if p, isP := x.(*ast.ParenExpr); isP {
			x = p.X
		}
		if isLen(x) {
			return 1, 0, true
		}
		if v, isL := lit(x); isL {
			return 0, v, true
		}
		if b, isB := x.(*ast.BinaryExpr); isB && b.Op == token.MUL {
			if isLen(b.X) {
				if v, isL := lit(b.Y); isL {
					return v, 0, true
				}
			}
			if isLen(b.Y) {
				if v, isL := lit(b.X); isL {
					return v, 0, true
				}
			}
		}
		return 0, 0, false
	}
	if b, isB := e.(*ast.BinaryExpr); isB && b.Op == token.ADD {
		m1, a1, ok1 := term(b.X)
		m2, a2, ok2 := term(b.Y)
		if ok1 && ok2 {
			return m1 + m2, a1 + a2, true
		}
		return 0, 0, false
	}
	return term(e)
}

// goesRun: does n contain `go <recv>.run(...)`
func goesRun(n ast.Node) bool {
	found := false
	if n == nil {
		return false
	}
	ast.Inspect(n, func(x ast.Node) bool {
		if g, ok := x.(*ast.GoStmt); ok {
			if strings.HasSuffix(exprString(g.Call.Fun), ".run") {
				found = true
			}
		}
		return true
	})
	return found
}

// sendShape inspects ConsumeEvent: where is the send on `.mch`, is it a select-with-default case, and is there
// an early return in front of it guarded by `!<field>.Load()`; returns the guard field name ("" if none).
func sendShape(fd *ast.FuncDecl) (found, nonBlocking bool, guardField string) {
	if fd == nil || fd.Body == nil {
		return
	}
	var sendPos token.Pos
	isMchSend := func(s ast.Stmt) bool {
		ss, ok := s.(*ast.SendStmt)
		return ok && strings.HasSuffix(exprString(ss.Chan), ".mch")
	}
	ast.Inspect(fd.Body, func(x ast.Node) bool {
		switch v := x.(type) {
		case *ast.SelectStmt:
			hasDefault, hasSend := false, false
			for _, c := range v.Body.List {
				cc := c.(*ast.CommClause)
				if cc.Comm == nil {
					hasDefault = true
				} else if isMchSend(cc.Comm) {
					hasSend = true
					if sendPos == token.NoPos {
						sendPos = cc.Comm.Pos()
					}
				}
			}
			if hasSend {
				found = true
				nonBlocking = hasDefault
			}
		case *ast.SendStmt:
			if isMchSend(v) && sendPos == token.NoPos {
				sendPos = v.Pos()
				found = true
			}
		}
		return true
	})
	if !found {
		return
	}
	for _, st := range fd.Body.List {
		is, ok := st.(*ast.IfStmt)
		if !ok || is.Pos() > sendPos {
			continue
		}
		hasReturn := false
		ast.Inspect(is.Body, func(x ast.Node) bool {
			if _, isR := x.(*ast.ReturnStmt); isR {
				hasReturn = true
			}
			return true
		})
		u, isU := is.Cond.(*ast.UnaryExpr)
		if !hasReturn || !isU || u.Op != token.NOT {
			continue
		}
		c, isC := u.X.(*ast.CallExpr)
		if !isC {
			continue
		}
		s := exprString(c.Fun)
		if strings.HasSuffix(s, ".Load") {
			parts := strings.Split(strings.TrimSuffix(s, ".Load"), ".")
			guardField = parts[len(parts)-1]
		}
	}
	return
}

// storesTrueBeforeGo: every function in fds that starts the reader stores true into <field> before the go statement
func storesTrueBeforeGo(fds []*ast.FuncDecl, field string) bool {
	any := false
	for _, fd := range fds {
		if fd == nil || !goesRun(fd) {
			continue
		}
		any = true
		var goPos, storePos token.Pos
		ast.Inspect(fd, func(x ast.Node) bool {
			switch v := x.(type) {
			case *ast.GoStmt:
				if goPos == token.NoPos && strings.HasSuffix(exprString(v.Call.Fun), ".run") {
					goPos = v.Pos()
				}
			case *ast.CallExpr:
				if strings.HasSuffix(exprString(v.Fun), "."+field+".Store") && len(v.Args) == 1 && exprString(v.Args[0]) == "true" {
					if storePos == token.NoPos {
						storePos = v.Pos()
					}
				}
			}
			return true
		})
		if storePos == token.NoPos || goPos == token.NoPos || storePos > goPos {
			return false
		}
	}
	return any
}

func inboxFacts(prefix, file, typ, ctor string, starters []string) {
	f := load(file)
	doc := file + " " + typ + ": "
	// capacity
	mul, add1 := "", ""
	capSrc := ""
	if fd := funcDecl(f, "", ctor); fd != nil {
		if s, ok := makeChanCap(fd, "mch"); ok {
			capSrc = s
			if m, a, ok2 := linearInLen(s); ok2 {
				mul, add1 = strconv.Itoa(m), strconv.Itoa(a)
			}
		}
	}
	add("C11", prefix+"CapMul", "Nat", mul, doc+"inbox capacity `"+capSrc+"`: coefficient of the number of incoming flows")
	add("C11", prefix+"CapAdd", "Nat", add1, doc+"inbox capacity `"+capSrc+"`: constant part")
	// where the reader goroutine is started
	rc := ""
	ctorFd := funcDecl(f, "", ctor)
	var starterFds []*ast.FuncDecl
	startedLater := false
	for _, s := range starters {
		fd := funcDecl(f, typ, s)
		starterFds = append(starterFds, fd)
		if goesRun(fd) {
			startedLater = true
		}
	}
	switch {
	case ctorFd != nil && goesRun(ctorFd):
		rc = "true"
	case ctorFd != nil && startedLater:
		rc = "false"
	}
	add("C11", prefix+"ReaderAtConstruction", "Bool", rc,
		doc+"`go evt.run(...)` is in the constructor (true) / only in "+strings.Join(starters, ", ")+" (false)")
	// shape of the send in ConsumeEvent
	found, nb, guard := sendShape(funcDecl(f, typ, "ConsumeEvent"))
	nbv, gv := "", ""
	if found {
		nbv = boolLit(nb)
		gv = boolLit(guard != "" && storesTrueBeforeGo(starterFds, guard))
	}
	add("C11", prefix+"SendNonBlocking", "Bool", nbv, doc+"ConsumeEvent sends on the inbox inside a select with a default branch")
	add("C11", prefix+"SendOnlyWhenRunning", "Bool", gv,
		doc+"ConsumeEvent returns before the send unless a flag is set that every function starting the reader sets first")
}

func factsC11() {
	inboxFacts("catch", "event_catch.go", "catchEvent", "newCatchEvent", []string{"NextAction"})
	inboxFacts("start", "event_start.go", "startEvent", "newStartEvent", []string{"Trigger", "NextAction"})
}
