import Bpmn.Model.Satisfier
