import Bpmn.Driver.Main
import Bpmn.Driver.C01
import Bpmn.Driver.C04
import Bpmn.Driver.C05Trk
import Bpmn.Driver.C06
open Bpmn.Driver

def main : IO UInt32 :=
  runDriver (fun family params lines =>
    match family with
    | "c05" => C04.checkEng params lines
    | "c05n" => C01.check params lines
    | "c01re" => C01.check params lines
    | "c01patient" => C01.check params lines
    | "c05d" => C04.checkEng params lines
    | "c05trk" => C05Trk.check params lines
    | "c05gone" => C04.checkEng params lines
    | "c05ebg" => C06.check params lines
    | "c05err" => C04.checkEng params lines
    | _ => { bad := [s!"unknown family {family}"] })
