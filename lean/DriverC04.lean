import Bpmn.Driver.Main
import Bpmn.Driver.C04
open Bpmn.Driver

def main : IO UInt32 :=
  runDriver (fun family params lines =>
    match family with
    | "c04cond" => C04.checkCond params lines
    | "c04" => C04.checkEng params lines
    | "c04host" => C04.checkEng params lines
    | "c04again" => C04.checkEng params lines
    | _ => { bad := [s!"unknown family {family}"] })
