import Bpmn.Driver.Main
import Bpmn.Driver.C18
open Bpmn.Driver

def main : IO UInt32 :=
  runDriver (fun family params lines =>
    match family with
    | "c18" => C18.check params lines
    | _ => { bad := [s!"unknown family {family}"] })
