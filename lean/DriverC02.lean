import Bpmn.Driver.Main
import Bpmn.Driver.C02
open Bpmn.Driver

def main : IO UInt32 :=
  runDriver (fun family params lines =>
    match family with
    | "c02" => C02.check params lines
    | "c02obs" => C02.checkObs params lines
    | _ => { bad := [s!"unknown family {family}"] })
