import Bpmn.Driver.Main
import Bpmn.Driver.C20
open Bpmn.Driver

def main : IO UInt32 :=
  runDriver (fun family params lines =>
    match family with
    | "c20" => C20.check params lines
    | _ => { bad := [s!"unknown family {family}"] })
