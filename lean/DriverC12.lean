import Bpmn.Driver.Main
import Bpmn.Driver.C12
open Bpmn.Driver

def main : IO UInt32 :=
  runDriver (fun family params lines =>
    match family with
    | "c12" => C12.check params lines
    | "c12fork" => C01.check params lines
    | "c12seq" => C01.check params lines
    | "c12turns" => C01.check params lines
    | "c12nest" => C12.checkNest params lines
    | "c12loop" => C12.checkLoop params lines
    | _ => { bad := [s!"unknown family {family}"] })
