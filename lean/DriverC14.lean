import Bpmn.Driver.Main
import Bpmn.Driver.C14
open Bpmn.Driver

def main : IO UInt32 :=
  runDriver (fun family params lines =>
    match family with
    | "c14" => C14.check params lines
    | "c14eng" => C14.checkEng params lines
    | _ => { bad := [s!"unknown family {family}"] })
