import Bpmn.Driver.Main
import Bpmn.Driver.C11
import Bpmn.Driver.C11Match
open Bpmn.Driver

def main : IO UInt32 :=
  runDriver (fun family params lines =>
    match family with
    | "c11" => C11.check params lines
    | "c11match" => C11Match.check params lines
    | _ => { bad := [s!"unknown family {family}"] })
