import Bpmn.Driver.Main
import Bpmn.Driver.C15
open Bpmn.Driver

def main : IO UInt32 :=
  runDriver (fun family params lines =>
    match family with
    | "c15" => C15.check params lines
    | _ => { bad := [s!"unknown family {family}"] })
