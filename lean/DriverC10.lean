import Bpmn.Driver.Main
import Bpmn.Driver.C10
open Bpmn.Driver

def main : IO UInt32 :=
  runDriver (fun family params lines =>
    match family with
    | "c10" => C10.check params lines
    | "c10noexc" => C10.checkNoExc params lines
    | "c10two" => C10.checkTwo params lines
    | _ => { bad := [s!"unknown family {family}"] })
