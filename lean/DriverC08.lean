import Bpmn.Driver.Main
import Bpmn.Driver.C08
import Bpmn.Driver.C01
open Bpmn.Driver

def main : IO UInt32 :=
  runDriver (fun family params lines =>
    match family with
    | "c08tt" => C08.checkTT params lines
    | "c08filter" => C08.checkFilter params lines
    | "c08retry" => C08.checkRetry params lines
    | "c08eng" => C08.checkEng params lines
    | "c08par" => C01.check params lines
    | "c08kind" => C08.checkKind params lines
    | _ => { bad := [s!"unknown family {family}"] })
