import Bpmn.Driver.Main
import Bpmn.Driver.C17
open Bpmn.Driver

def main : IO UInt32 :=
  runDriver (fun family params lines =>
    match family with
    | "c17" => C17.check params lines
    | _ => { bad := [s!"unknown family {family}"] })
