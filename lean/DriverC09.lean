import Bpmn.Driver.Main
import Bpmn.Driver.C09
open Bpmn.Driver

def main : IO UInt32 :=
  runDriver (fun family params lines =>
    match family with
    | "c09" => C09.checkTracer params lines
    | "c09g" => C09.checkGrammar params lines
    | "c09turns" => C09.checkGrammar params lines
    | "c09c" => C09.checkGrammar params lines
    -- the event-based-gateway histories (withdrawn tokens: a flow that ends without reaching an end event)
    | "c06" => C09.checkGrammar params lines
    | "c06loop" => C09.checkGrammar params lines
    | "c10" => C09.checkGrammar params lines
    | "c11" => C09.checkGrammar params lines
    | "c09x" => C09.checkShutdown params lines
    | "c09relay" => C09.checkRelay params lines
    | _ => { bad := [s!"unknown family {family}"] })
