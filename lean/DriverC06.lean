import Bpmn.Driver.Main
import Bpmn.Driver.C06
open Bpmn.Driver

def main : IO UInt32 :=
  runDriver (fun family params lines =>
    match family with
    | "c06" => C06.check params lines
    | "c06loop" => C06.checkLoop params lines
    | "c06term" => C06.checkTerm params lines
    | "c06burst" => C06.checkBurst params lines
    | _ => { bad := [s!"unknown family {family}"] })
