/-
Conditions on sequence flows, as the engine evaluates them (`flow.executeSequenceFlow`):
no condition or an informal expression is `true`; a formal expression is evaluated over the instance
variables; a non-boolean result or an evaluation error is reported as an error trace and counts as
"does not flow".  Conditions arrive from the harness as comma separated RPN tokens.
-/
namespace Bpmn.Model

abbrev Vars := List (String × Int)

def Vars.get (vs : Vars) (k : String) : Option Int := (vs.find? (·.1 == k)).map (·.2)

def Vars.set (vs : Vars) (k : String) (v : Int) : Vars :=
  if vs.any (·.1 == k) then vs.map (fun p => if p.1 == k then (k, v) else p) else vs ++ [(k, v)]

inductive Cond where
  | none                       -- no conditionExpression
  | informal                   -- non-formal expression: always true
  | tt | ff
  | eq (v : String) (k : Int) | ne (v : String) (k : Int) | lt (v : String) (k : Int)
  | and (a b : Cond) | or (a b : Cond) | not (a : Cond)
  | nonbool                    -- evaluates to a non-boolean
  | unknown                    -- the harness could not translate the expression
deriving Repr, BEq, Inhabited

inductive CondResult where
  | yes | no | error
deriving Repr, BEq, DecidableEq

/-- boolean evaluation; `none` = evaluation error (non-boolean operand, undefined variable in `<`) -/
def Cond.evalB (vs : Vars) : Cond → Option Bool
  | .none => some true
  | .informal => some true
  | .tt => some true
  | .ff => some false
  | .eq v k => some (vs.get v == some k)
  | .ne v k => some (vs.get v != some k)
  | .lt v k => (vs.get v).map (· < k)
  | .and a b => do
      let x ← a.evalB vs
      if x then b.evalB vs else pure false      -- expr-lang short-circuits
  | .or a b => do
      let x ← a.evalB vs
      if x then pure true else b.evalB vs
  | .not a => (a.evalB vs).map (!·)
  | .nonbool => Option.none
  | .unknown => Option.none

/-- What the XPath engine computes today when the instance has two or more variables: the variables are
serialised as `<doc><v>…</v>…</doc>` and a relative path `v` evaluated at the document root selects
nothing, so every comparison with a variable is false (pkg/expression/xpath). -/
def Cond.evalXPathNoVars : Cond → Option Bool
  | .none => some true
  | .informal => some true
  | .tt => some true
  | .ff => some false
  | .eq _ _ => some false
  | .ne _ _ => some false
  | .lt _ _ => some false
  | .and a b => do
      let x ← a.evalXPathNoVars
      if x then b.evalXPathNoVars else pure false
  | .or a b => do
      let x ← a.evalXPathNoVars
      if x then pure true else b.evalXPathNoVars
  | .not a => (a.evalXPathNoVars).map (!·)
  | .nonbool => Option.none
  | .unknown => Option.none

def Cond.eval (vs : Vars) (c : Cond) : CondResult :=
  match c.evalB vs with
  | some true => .yes
  | some false => .no
  | Option.none => .error

/-- parse RPN tokens (`v:x,k:1,eq`, `true`, `a…,b…,and`, …) -/
def Cond.parse (s : String) : Cond :=
  if s == "none" then .none else
  let toks := s.splitOn ","
  let step (st : List (Sum Cond (Sum String Int))) (t : String) : List (Sum Cond (Sum String Int)) :=
    if t.startsWith "v:" then .inr (.inl (t.drop 2).toString) :: st
    else if t.startsWith "k:" then
      let r := (t.drop 2).toString
      let n : Int := if r.startsWith "-" then -((r.drop 1).toString.toNat?.getD 0 : Nat) else (r.toNat?.getD 0 : Nat)
      .inr (.inr n) :: st
    else match t, st with
      | "true", st => .inl .tt :: st
      | "false", st => .inl .ff :: st
      | "informal", st => .inl .informal :: st
      | "eq", .inr (.inr k) :: .inr (.inl v) :: st => .inl (.eq v k) :: st
      | "ne", .inr (.inr k) :: .inr (.inl v) :: st => .inl (.ne v k) :: st
      | "lt", .inr (.inr k) :: .inr (.inl v) :: st => .inl (.lt v k) :: st
      | "nonbool", .inr (.inr _) :: .inr (.inl _) :: st => .inl .nonbool :: st
      | "and", .inl b :: .inl a :: st => .inl (.and a b) :: st
      | "or", .inl b :: .inl a :: st => .inl (.or a b) :: st
      | "not", .inl a :: st => .inl (.not a) :: st
      | _, _ => [.inl .unknown]
  match toks.foldl step [] with
  | [.inl c] => c
  | _ => .unknown

end Bpmn.Model
