import Bpmn.Spec.Causal
/-!
# The sending discipline of the flow goroutines (flow.go), over one tracer

What `tracer_segment` / `tracer_sender_order` give for the process's tracer is used here in this form: every `Send`
returns only when the broadcaster has taken the trace, so (1) the global order (`log`) grows by one trace per
completed `Send`, (2) a goroutine's next `Send` begins after its previous one is in the log (program order), and
(3) whatever a goroutine does after a `Send` — in particular starting other goroutines — happens after that trace is
in the log. The model below is the part of flow.go that decides which flow-level traces are sent in which order:

* `flow.Start`: `go func() { Send(NewFlowTrace{f}); Send(VisitTrace{current}); for { … } }`
* `flowAction` with sequence flows: `handleSequenceFlow` sends `LeaveTrace{current}`, `VisitTrace{target}`;
  `handleAdditionalSequenceFlow` draws the ids of the additional flows; then `Send(FlowTrace{source, [f, g₁ … g_k]})`,
  and only then `handle(ctx)` starts the goroutines of `g₁ … g_k` (`flow.go`, the comment calls this order
  "extremely important");
* `completeAction` / `noAction` / no effective flow / terminate message: `Send(TerminationTrace{f})`, return;
* cancellation (`case <-ctx.Done()` of the flow's `select`): `Send(CancellationFlowTrace{f})`, return;
* `ExitMode`, nowhere to flow, cancellation while waiting for an error handler: return without a final trace;
* a flow created by something other than a `FlowTrace` announcement (start event, boundary / catch event flow):
  `root`;
* `CeaseFlowTrace`: sent by the completion monitor after `flowWaitGroup.Wait()` returned, i.e. when every flow
  goroutine has finished (`Start` does `flowWaitGroup.Add(1)` before `go`, the goroutine `Done()`s on return).
* node goroutines (tasks, gateways, monitors) send traces the grammar does not constrain: `other`.

Ids come from `idGenerator.New()`; the model allocates them from a counter (C20 is the uniqueness property).
Every step appends exactly one trace to `log`. The scheduler (`List FAct`) is arbitrary; steps that are not enabled
are skipped.
-/
namespace Bpmn.Model.FlowOrder
open Bpmn.Spec

/-- where a flow goroutine is in its program -/
inductive Phase
  | none_                               -- id not allocated
  | born (n : Nat)                      -- goroutine started at node n; next: `NewFlowTrace`
  | fresh (n : Nat)                     -- next: `VisitTrace n`
  | at (n : Nat)                        -- in the `select` at node n
  | moved (n n' : Nat) (ts : List Nat)  -- sent `LeaveTrace n`; next: `VisitTrace n'`; `ts`: nodes the additional flows start at
  | arrived (n n' : Nat) (ts : List Nat) -- sent `VisitTrace n'`; next: `FlowTrace n [f, new ids…]`, then start them
  | dead
deriving DecidableEq, Repr

structure FSt where
  phase : Nat → Phase := fun _ => .none_
  nflow : Nat := 0
  log : List Trace := []
  ceased : Bool := false

def finit : FSt := {}

inductive FAct
  | root (n : Nat)                          -- a flow is created outside any announcement and started at node n
  | send (f : Nat)                          -- flow f's next deterministic `Send` (newflow / visit / visit target / FlowTrace)
  | move (f : Nat) (n' : Nat) (ts : List Nat) -- flow f at its node got a flowAction: target n', additional flows at ts
  | term (f : Nat)                          -- `TerminationTrace`, return
  | die (f : Nat)                           -- `CancellationFlowTrace`, return
  | quit (f : Nat)                          -- return without a final trace
  | other                                   -- a trace the grammar does not constrain, from any goroutine
  | cease                                   -- the completion monitor
deriving Repr

def FSt.setPhase (s : FSt) (f : Nat) (p : Phase) : FSt :=
  { s with phase := fun j => if j = f then p else s.phase j }

/-- allocate the additional flows announced by one `FlowTrace`: ids `nflow, nflow+1, …`, each `born` at its node -/
def FSt.spawn (s : FSt) : List Nat → FSt
  | [] => s
  | t :: ts => ({ s.setPhase s.nflow (.born t) with nflow := s.nflow + 1 } : FSt).spawn ts

def allDead (s : FSt) : Bool :=
  (List.range s.nflow).all (fun f => s.phase f == .dead)

def fstep (s : FSt) : FAct → Option FSt
  | .root n =>
    if s.ceased then none
    else some { s.setPhase s.nflow (.born n) with nflow := s.nflow + 1 }
  | .send f =>
    match s.phase f with
    | .born n => some { s.setPhase f (.fresh n) with log := s.log ++ [.newflow f] }
    | .fresh n => some { s.setPhase f (.at n) with log := s.log ++ [.visit n] }
    | .moved n n' ts => some { s.setPhase f (.arrived n n' ts) with log := s.log ++ [.visit n'] }
    | .arrived n n' ts =>
      let ids := (List.range ts.length).map (· + s.nflow)
      some (({ s.setPhase f (.at n') with log := s.log ++ [.flow n (f :: ids)] } : FSt).spawn ts)
    | _ => none
  | .move f n' ts =>
    match s.phase f with
    | .at n => some { s.setPhase f (.moved n n' ts) with log := s.log ++ [.leave n] }
    | _ => none
  | .term f =>
    match s.phase f with
    | .at _ => some { s.setPhase f .dead with log := s.log ++ [.term f] }
    | _ => none
  | .die f =>
    match s.phase f with
    | .at _ => some { s.setPhase f .dead with log := s.log ++ [.cancel f] }
    | _ => none
  | .quit f =>
    match s.phase f with
    | .at _ => some { s.setPhase f .dead with log := s.log ++ [.other] }
    | _ => none
  | .other => some { s with log := s.log ++ [.other] }
  | .cease =>
    if !s.ceased && allDead s then some { s with log := s.log ++ [.cease], ceased := true } else none

def fstep' (s : FSt) (a : FAct) : FSt := (fstep s a).getD s

def frun (s : FSt) (sched : List FAct) : FSt := sched.foldl fstep' s

end Bpmn.Model.FlowOrder
