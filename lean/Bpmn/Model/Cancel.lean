/-
The cancellation protocol of the engine, abstracted to what decides whether a cancelled instance drains
(C07). Core Lean only.

What the Go code does (pkg/tracing/tracer.go, flow.go, the node `run` loops):

* every goroutine the instance starts is, at any moment, either running or parked at one of its *blocking
  operations* (a `select`, a channel send, a channel receive). After `ctx` is cancelled a parked goroutine gets
  on iff the operation has a `<-ctx.Done()` alternative in the same `select`, or its partner is guaranteed to
  come (a buffered reply channel, a loop that keeps serving);
* goroutines report what they do with `tracer.Send`, an unbuffered send to the broadcaster (`t.traces <- trace`)
  with no alternative; the broadcaster serves it until it has terminated;
* a goroutine that called `RegisterSender()` is counted in the tracer's `sync.WaitGroup`; `handle.Done()`
  removes it. After `ctx.Done()` the broadcaster's `select` keeps choosing the `ctx.Done()` case (it *polls*)
  until the termination helper has seen the counter at zero; then it closes every subscriber channel, closes
  `done` and returns. From then on nobody receives from `t.traces`.

The model keeps exactly that: actors with the list of things they still have to get through (`Act`), the
WaitGroup counter `pending`, the tracer's `done` flag, and a poll counter. Abstractions (stated, not hidden):
goroutines the instance starts *after* the cancel are counted as live from the cancel on — sound for a
registered parent, which is itself counted until it has started them (`RegisterSender` precedes the `go`
statement); `sync.WaitGroup.Wait` of helper goroutines is not an actor operation (it returns once the
goroutines it counts, which are actors, have exited); one tracer at a time.
-/
namespace Bpmn.Model.Cancel

/-- one blocking operation of a goroutine -/
structure Op where
  cancelAlt : Bool   -- a `<-ctx.Done()` (or equivalent) alternative in the same select
  partner : Bool     -- the other side is guaranteed to come also after the cancel
deriving DecidableEq, Repr

def Op.passable (o : Op) : Bool := o.cancelAlt || o.partner

/-- what a goroutine still has to get through before it returns -/
inductive Act where
  | block (o : Op)
  | send            -- `tracer.Send`
deriving DecidableEq, Repr

/-- a goroutine kind: a row of the extracted goroutine table with its rows of the blocking-operation table -/
structure Kind where
  name : String
  ops : List Op
  sends : Bool
  registered : Bool   -- a handle from `RegisterSender()` is created before the `go` statement and handed over
  callsDone : Bool    -- `handle.Done()` in the body
deriving Repr

def Kind.ok (k : Kind) : Bool :=
  k.ops.all Op.passable && (!k.sends || k.registered) && (k.registered == k.callsDone)

def tableOk (t : List Kind) : Bool := t.all Kind.ok

/-- a live goroutine -/
structure Actor where
  registered : Bool
  callsDone : Bool
  todo : List Act
deriving DecidableEq, Repr

structure St where
  live : List Actor
  pending : Nat            -- the tracer's WaitGroup counter
  cancelled : Bool
  tracerDone : Bool        -- `close(t.done)`; nobody receives from `t.traces` any more
  subsClosed : Bool        -- subscriber channels closed
  polls : Nat              -- futile turns of the broadcaster through its `ctx.Done()` case
deriving Repr

def Actor.enabled (s : St) (a : Actor) : Bool :=
  match a.todo with
  | [] => true
  | .block o :: _ => (o.cancelAlt && s.cancelled) || o.partner
  | .send :: _ => !s.tracerDone

/-- the `i`-th live goroutine takes its next step (none: it is parked and cannot get on) -/
def stepActor (s : St) (i : Nat) : Option St :=
  match s.live[i]? with
  | none => none
  | some a =>
    if a.enabled s then
      match a.todo with
      | [] => some { s with live := s.live.eraseIdx i,
                            pending := if a.registered && a.callsDone then s.pending - 1 else s.pending }
      | _ :: rest => some { s with live := s.live.set i { a with todo := rest } }
    else none

/-- one turn of the broadcaster after the cancel -/
def poll (s : St) : St :=
  if !s.cancelled || s.tracerDone then s
  else if s.pending = 0 then { s with tracerDone := true, subsClosed := true }
  else { s with polls := s.polls + 1 }

def cancel (s : St) : St := { s with cancelled := true }

inductive Label where
  | actor (i : Nat)
  | poll
deriving Repr, DecidableEq

def step (s : St) : Label → Option St
  | .actor i => stepActor s i
  | .poll => some (poll s)

/-- executing a schedule -/
def run (s : St) : List Label → Option St
  | [] => some s
  | l :: ls => match step s l with
    | some s' => run s' ls
    | none => none

def actorSteps (ls : List Label) : Nat := (ls.filter (· != .poll)).length

def measure (s : St) : Nat := (s.live.map (fun a => a.todo.length + 1)).sum

/-- drain: run the remaining actors (always the first live one), then let the broadcaster have its turn -/
def drain : Nat → St → St
  | 0, s => poll s
  | n + 1, s =>
    match s.live with
    | [] => poll s
    | _ :: _ =>
      match stepActor s 0 with
      | some s' => drain n s'
      | none => s

/-- drain with the broadcaster polling after every actor step (the hot loop of tracer.go) -/
def drainRR : Nat → St → St
  | 0, s => poll s
  | n + 1, s =>
    match s.live with
    | [] => poll s
    | _ :: _ =>
      match stepActor s 0 with
      | some s' => drainRR n (poll s')
      | none => s

/-! ### relation to a table -/

def Actor.ofKind (k : Kind) (a : Actor) : Prop :=
  a.registered = k.registered ∧ a.callsDone = k.callsDone ∧
  ∀ act ∈ a.todo, match act with
    | .block o => o ∈ k.ops
    | .send => k.sends = true

/-- a state at the moment of the cancel: every live goroutine is of a kind of the table, the counter counts the
registered ones, the tracer is serving -/
structure St.wf (t : List Kind) (s : St) : Prop where
  kinds : ∀ a ∈ s.live, ∃ k ∈ t, a.ofKind k
  count : s.pending = (s.live.filter (fun a => a.registered)).length
  serving : s.tracerDone = false

/-! ### the task request at the level of the code shape (task_generic.go `run`)

```
for { select {
  case msg := <-task.mch:            -- recv
      go func() { at := builder.Context(ctx)…Build(); tracer.Send(at); … }()
  case <-ctx.Done(): …; return       -- observe
}}
```
`carries` is the extracted fact "the TaskTrace is built with `.Context(ctx)`". -/

structure TL where
  cancelled : Bool := false
  observed : Bool := false
  inbox : Nat := 0
deriving Repr

inductive TLabel where
  | cancel | enqueue | recv | observe
deriving Repr, DecidableEq

inductive TEv where
  | request (ctxDone : Bool)
  | cancel
  | observe
deriving Repr, DecidableEq

def tstep (carries : Bool) (s : TL) : TLabel → Option (TL × List TEv)
  | .cancel => some ({ s with cancelled := true }, [.cancel])
  | .enqueue => some ({ s with inbox := s.inbox + 1 }, [])
  | .recv => if s.observed || s.inbox = 0 then none
             else some ({ s with inbox := s.inbox - 1 }, [.request (carries && s.cancelled)])
  | .observe => if s.cancelled && !s.observed then some ({ s with observed := true }, [.observe]) else none

def trun (carries : Bool) (s : TL) : List TLabel → Option (TL × List TEv)
  | [] => some (s, [])
  | l :: ls => match tstep carries s l with
    | none => none
    | some (s', e) => match trun carries s' ls with
      | none => none
      | some (s'', es) => some (s'', e ++ es)

/-- the property on an emitted event sequence, scanned with "cancel seen" / "observe seen" -/
def validEvs : Bool → Bool → List TEv → Bool
  | _, _, [] => true
  | _, o, .cancel :: es => validEvs true o es
  | c, _, .observe :: es => validEvs c true es
  | c, o, .request b :: es => !o && (!c || b) && validEvs c o es

end Bpmn.Model.Cancel
