/-!
# Lock-set discipline: abstract trace semantics (C17)

A *trace* is one interleaving of the events of several threads: acquisitions and releases of reader/writer
locks, goroutine creation, and reads / writes of memory locations (plain or through `sync/atomic`).
The lock semantics is the one of `sync.Mutex` / `sync.RWMutex`: a write-mode acquisition needs the lock free,
a read-mode acquisition needs no write-mode holder; a release needs a matching holder. `WF` says a trace
respects that semantics. `HB` is the happens-before order the Go memory model derives from such a trace
(program order, unlock → later lock of the same mutex unless both are read-mode, `go` statement → the new
goroutine). `RaceFree` says every pair of conflicting accesses is ordered by `HB`.

Nothing here is specific to the BPMN engine; the engine enters through the regenerated tables (`Row`,
`OwnRow`), whose rows are matched against access events by `Row.covers`.

Core Lean only.
-/
namespace Bpmn.Model.Lockset

inductive Mode | r | w
deriving DecidableEq, Repr

abbrev Tid := Nat
/-- a memory location: (object instance, field name); package-level variables live in object 0 -/
abbrev Loc := Nat × String
/-- a lock: (object instance, mutex field name) -/
abbrev LockId := Nat × String

inductive Ev
  | acq (t : Tid) (m : LockId) (mode : Mode)
  | rel (t : Tid) (m : LockId) (mode : Mode)
  | fork (t child : Tid)
  | acc (t : Tid) (x : Loc) (write atomic : Bool)
deriving DecidableEq, Repr

def Ev.tid : Ev → Tid
  | .acq t _ _ => t
  | .rel t _ _ => t
  | .fork t _ => t
  | .acc t _ _ _ => t

/-- who holds what: one entry per acquisition that has not been released -/
abbrev Held := List (LockId × Tid × Mode)

def step (h : Held) : Ev → Held
  | .acq t m a => (m, t, a) :: h
  | .rel t m a => h.erase (m, t, a)
  | .fork _ _ => h
  | .acc _ _ _ _ => h

/-- may this event happen in lock state `h`? -/
def ok (h : Held) : Ev → Prop
  | .acq _ m .w => ∀ e ∈ h, e.1 ≠ m
  | .acq _ m .r => ∀ e ∈ h, ¬ (e.1 = m ∧ e.2.2 = .w)
  | .rel t m a => (m, t, a) ∈ h
  | .fork _ _ => True
  | .acc _ _ _ _ => True

instance (h : Held) (e : Ev) : Decidable (ok h e) := by
  cases e with
  | acq t m a => cases a <;> (unfold ok; infer_instance)
  | rel t m a => unfold ok; infer_instance
  | fork t c => unfold ok; infer_instance
  | acc t x w a => unfold ok; infer_instance

/-- lock state after the first `n` events -/
def st (τ : List Ev) (n : Nat) : Held := (τ.take n).foldl step []

/-- the interleaving respects the lock semantics -/
def WF (τ : List Ev) : Prop := ∀ n (h : n < τ.length), ok (st τ n) τ[n]

instance (τ : List Ev) : Decidable (WF τ) := by unfold WF; infer_instance

/-- happens-before of the Go memory model restricted to these events -/
inductive HB (τ : List Ev) : Nat → Nat → Prop
  | po {i j : Nat} {e e' : Ev} : i < j → τ[i]? = some e → τ[j]? = some e' → e.tid = e'.tid → HB τ i j
  | sw {i j : Nat} {t t' : Tid} {m : LockId} {a b : Mode} :
      i < j → τ[i]? = some (.rel t m a) → τ[j]? = some (.acq t' m b) → (a = .w ∨ b = .w) → HB τ i j
  | go {i j : Nat} {t c : Tid} {e : Ev} : i < j → τ[i]? = some (.fork t c) → τ[j]? = some e → e.tid = c → HB τ i j
  | trans {i k j : Nat} : HB τ i k → HB τ k j → HB τ i j

/-- two accesses conflict: different threads, same location, one writes, not both atomic -/
def conflict : Ev → Ev → Prop
  | .acc t x w a, .acc t' x' w' a' => t ≠ t' ∧ x = x' ∧ (w = true ∨ w' = true) ∧ ¬ (a = true ∧ a' = true)
  | _, _ => False

instance (e e' : Ev) : Decidable (conflict e e') := by
  cases e <;> cases e' <;> (unfold conflict; infer_instance)

/-- every conflicting pair is ordered by happens-before: no data race in this interleaving -/
def RaceFree (τ : List Ev) : Prop :=
  ∀ i j e e', i < j → τ[i]? = some e → τ[j]? = some e' → conflict e e' → HB τ i j

/-- the two access events at `i` and `j` are performed under a common lock, at least one side in write mode -/
def Guarded (τ : List Ev) (i j : Nat) (t t' : Tid) : Prop :=
  ∃ p ∈ st τ i, ∃ q ∈ st τ j, p.1 = q.1 ∧ p.2.1 = t ∧ q.2.1 = t' ∧ (p.2.2 = .w ∨ q.2.2 = .w)

instance (τ : List Ev) (i j : Nat) (t t' : Tid) : Decidable (Guarded τ i j t t') := by
  unfold Guarded; infer_instance

/-- the lock-set discipline on one interleaving: every conflicting pair is `Guarded` -/
def Discipline (τ : List Ev) : Prop :=
  ∀ i (hi : i < τ.length) j (hj : j < τ.length), i < j → conflict τ[i] τ[j] →
    Guarded τ i j τ[i].tid τ[j].tid

instance (τ : List Ev) : Decidable (Discipline τ) := by unfold Discipline; infer_instance

/-! ## per-location policies (what a static table can promise about every access site) -/

inductive Policy
  | owned (t : Tid)          -- touched by one thread only
  | guardedBy (m : LockId)   -- writers hold `m` in write mode, readers hold it in some mode
  | atomicOnly               -- every access goes through sync/atomic
deriving DecidableEq, Repr

/-- the access event at position `n` respects the policy of its location -/
def respects (τ : List Ev) (n : Nat) : Policy → Ev → Prop
  | .owned t0, .acc t _ _ _ => t = t0
  | .guardedBy m, .acc t _ w _ => (w = true → (m, t, Mode.w) ∈ st τ n) ∧
                                   (w = false → ∃ a, (m, t, a) ∈ st τ n)
  | .atomicOnly, .acc _ _ _ a => a = true
  | _, _ => True

/-! ## regenerated tables -/

/-- one syntactic access site of a hand-listed shared field (extract/facts_c17.go) -/
structure Row where
  field : String            -- "Type.field" (or "pkg.var" / "func.localvar")
  fn : String               -- enclosing function, `$k` for the k-th function literal inside it
  write : Bool
  atomic : Bool             -- through sync/atomic
  fresh : Bool              -- the object was created in this very function (not shared yet)
  held : List (String × Mode)  -- sibling mutex fields of the SAME object syntactically held at the site
deriving DecidableEq, Repr

def Row.key (r : Row) : String × String × Bool := (r.field, r.fn, r.write)

/-- two sites can never race under the discipline: different field, both reads, both atomic, or a common
    sibling mutex with at least one side in write mode -/
def pairOk (a b : Row) : Bool :=
  a.field != b.field || (!a.write && !b.write) || (a.atomic && b.atomic) ||
  a.held.any (fun p => b.held.any (fun q => p.1 == q.1 && (p.2 == .w || q.2 == .w)))

def tableOk (rows : List Row) : Bool := rows.all (fun a => rows.all (fun b => pairOk a b))

/-- rows that fail against some other row of the list (for diagnostics and for the regression obligation) -/
def failing (rows : List Row) : List (String × String × Bool) :=
  (rows.filter (fun a => !(rows.all (fun b => pairOk a b)))).map Row.key

/-- the access event `acc t (o, f) w a` at position `n` is an execution of site `r` -/
def Row.covers (r : Row) (τ : List Ev) (n : Nat) : Ev → Prop
  | .acc t (o, f) w a => r.field = f ∧ r.write = w ∧ r.atomic = a ∧
                          ∀ p ∈ r.held, ((o, p.1), t, p.2) ∈ st τ n
  | _ => True

/-- where an access to a node-struct field sits -/
inductive Ctx | ctor | run | helper | other
deriving DecidableEq, Repr

/-- one syntactic access to a field of a flow-node struct -/
structure OwnRow where
  owner : String   -- node struct type
  field : String
  fn : String      -- enclosing function (`$k` = k-th function literal)
  write : Bool
  atomic : Bool    -- through sync/atomic
  ctx : Ctx        -- ctor: constructor; run: the node's run method (outside `go` literals);
                   -- helper: a method only ever called from run; other: anything else
deriving DecidableEq, Repr

def OwnRow.key (r : OwnRow) : String × String × String := (r.owner, r.field, r.fn)

/-- a field respects the ownership discipline when every access sits in the constructor, in `run` or in a
    run-only helper; or it is never written outside the constructor (immutable once shared); or every access
    outside the constructor is atomic -/
def fieldOwned (rows : List OwnRow) (owner field : String) : Bool :=
  let rs := rows.filter (fun r => r.owner == owner && r.field == field)
  rs.all (fun r => r.ctx != .other) ||
  rs.all (fun r => r.ctx == .ctor || !r.write) ||
  rs.all (fun r => r.ctx == .ctor || r.atomic)

def ownFailing (rows : List OwnRow) : List (String × String × String) :=
  (rows.filter (fun r => r.ctx == .other && !(fieldOwned rows r.owner r.field))).map OwnRow.key

end Bpmn.Model.Lockset
