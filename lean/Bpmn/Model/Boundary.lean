/-
Layer 1/2 model of ONE host activity with its boundary events, a port of what /repo does (activity.go `harness`,
task_generic.go / subprocess.go cancel protocol, event_catch.go, the listener flows of flow.go), defects included.

Actors and where their steps come from
* the instance token at the host (flow.Start loop): `activate` (calls `harness.NextAction`; the FIRST call starts the
  listener flows, `harness.once`), `hostTake` (receives the activity's action from `out` and continues on the
  normal outgoing flow);
* the harness run loop + its forwarder goroutine: `harnessActive` (`active := 1`), `harnessCall`
  (`activity.NextAction`: the activity's run loop is started by the CAS 0→1 and the next-action message is queued —
  a SEPARATE step: a tracer send, and for a sub-process the start of its monitor, sit between the two, and an
  interrupting listener that fires in between gets its cancel message into the activity's inbox FIRST). Their
  order is the fact `Cfg.early` (`hStage` counts how many of the two have been executed; the forwarder goroutine
  is created after both), `forward` (`out <- rsp`), `clear` (`active := 0`, a separate statement; before or after the
  hand-over: fact `Cfg.resetFirst`);
* the task / sub-process run loop: `taskTake` handles the head of its inbox: a next-action message spawns the request
  goroutine; a cancel message is answered `false` while `active.Load() > 1` (a request goroutine is counted), else
  `true` and the run loop EXITS;
* the request goroutine: `reqStart` (`active.Add(1)`, the TaskTrace becomes visible / the sub-process content starts),
  `respond` (after the answer: the action is put on the response channel), `decrement` (deferred `active.Add(-1)`);
* per boundary event a catch event + a listener flow: `arm i` (catch event activated), `catchTake i` (the catch event
  looks at a forwarded event: fires if activated and then sets `activated := false`, else drops it), `transform i`
  (the listener flow got the action; an interrupting listener runs `cancellation.Do(<-activity.Cancel())`: the
  cancel message is queued at the task and the flow waits for the verdict), `move i` (the listener flow continues
  on the boundary event's outgoing flow: the exception flow);
* the driver: `activate` (the token arrives), `deliver i` (`Process.ConsumeEvent` of the event boundary event `i`
  listens to: `harness.ConsumeEvent` forwards it only while `active == 1`), `answer` (the task is answered / the
  sub-process content finishes).
Every label is one atomic step; which enabled label is taken next is the scheduler's choice, so a run is a list of
labels and theorems quantify over all of them.

Abstractions (stated, not hidden): one activation of the host (no loop back into it: `activate` is enabled once);
channel capacities are not modelled (C11); each boundary event listens to its own event; a forwarded event that the catch
event sees before it was activated is dropped (in the code it sits in the inbox in FRONT of the next-action
message, so it is looked at first, not activated, and dropped).

`Cfg` are the facts extracted from the source (extract/facts_c10.go).
-/
namespace Bpmn.Model.Boundary

structure Cfg where
  /-- `harness.ConsumeEvent` forwards only while `active == 1` -/
  gated : Bool
  /-- the interrupting transformer cancels through `cancellation.Do` (a sync.Once) -/
  once : Bool
  /-- the cancel branch of the activity refuses (`false`) while `active.Load() > 1` -/
  refuse : Bool
  /-- the listener flows are created with the instance's flow wait group -/
  share : Bool
  /-- `harness.run` stores `active = 1` BEFORE it calls `activity.NextAction` (which queues the activity's first
      message); `false`: the other way round -/
  early : Bool
  /-- the harness's answer-relay goroutine stores `active = 0` BEFORE it hands the activity's answer to the token
      (`out <- rsp`); `false`: afterwards -/
  resetFirst : Bool
deriving DecidableEq, Repr

/-- what the code is today -/
def Cfg.code : Cfg :=
  { gated := true, once := true, refuse := true, share := true, early := true, resetFirst := true }

inductive LPhase where
  | idle        -- flow not started (host never reached)
  | starting    -- flow started (a live token in the wait group), catch event not yet activated
  | armed       -- catch event activated, flow parked in the select
  | fired       -- the catch event matched and handed its action to the flow (`activated := false`)
  | cancelling  -- interrupting: cancel message queued at the activity, flow waits for the verdict
  | ready       -- transformer done
  | moved       -- the flow left the boundary event along its outgoing flow
deriving DecidableEq, Repr

def LPhase.rank : LPhase → Nat
  | .idle => 0 | .starting => 1 | .armed => 2 | .fired => 3 | .cancelling => 4 | .ready => 5 | .moved => 6

structure Listener where
  interrupting : Bool
  phase : LPhase := .idle
  /-- events forwarded by the harness, not yet looked at by the catch event -/
  inbox : Nat := 0
  /-- events forwarded in total -/
  got : Nat := 0
  /-- events the catch event looked at while not activated (before arming, or after it fired) -/
  dropped : Nat := 0
  /-- times the exception flow continued -/
  conts : Nat := 0
deriving DecidableEq, Repr

/-- progress of the host's (single) request -/
inductive Req where
  | none       -- token not yet at the host
  | atHarness  -- next-action message queued at the harness
  | atTask     -- message queued at the activity
  | spawned    -- request goroutine spawned, not yet counted in `active`
  | pending    -- waits for its answer (TaskTrace visible)
  | answered   -- answer given, action not yet on the response channel
  | responded  -- action on the response channel
  | forwarded  -- action on the harness's `out` channel
  | done       -- the token took it: normal flow continued
deriving DecidableEq, Repr

def Req.rank : Req → Nat
  | .none => 0 | .atHarness => 1 | .atTask => 2 | .spawned => 3 | .pending => 4 | .answered => 5
  | .responded => 6 | .forwarded => 7 | .done => 8

inductive TMsg where
  | next
  | cancel (i : Nat)
deriving DecidableEq, Repr

def TMsg.isCancel : TMsg → Bool
  | .cancel _ => true
  | .next => false

structure St where
  ls : List Listener
  req : Req := .none
  /-- how many of the harness's two activation statements (`active := 1`, `activity.NextAction`) have run -/
  hStage : Nat := 0
  /-- `harness.active` -/
  hActive : Bool := false
  /-- the answer-relay goroutine has executed `active := 0` -/
  cleared : Bool := false
  /-- the activity's run loop is alive -/
  tRun : Bool := false
  /-- the request goroutine is between `active.Add(1)` and `active.Add(-1)` (so `active.Load() > 1`) -/
  counted : Bool := false
  /-- the activity's inbox -/
  tq : List TMsg := []
  /-- `cancellation` has been used -/
  cancelUsed : Bool := false
  /-- verdicts the activity gave to cancel messages, oldest first -/
  verdicts : List Bool := []
  /-- times the normal flow continued -/
  normal : Nat := 0
  /-- requests of the host that became visible -/
  hreqs : Nat := 0
deriving DecidableEq, Repr

inductive Label where
  | activate | deliver (i : Nat) | answer
  | harnessActive | harnessCall | taskTake | reqStart | respond | decrement | forward | clear | hostTake
  | arm (i : Nat) | catchTake (i : Nat) | transform (i : Nat) | move (i : Nat)
deriving DecidableEq, Repr

def Label.internal : Label → Bool
  | .activate | .deliver _ | .answer => false
  | _ => true

def init (kinds : List Bool) : St := { ls := kinds.map (fun b => { interrupting := b }) }

def startListener (l : Listener) : Listener :=
  match l.phase with
  | .idle => { l with phase := .starting }
  | _ => l

/-- one atomic step; `none` = the label is not enabled -/
def step (cfg : Cfg) (s : St) : Label → Option St
  | .activate =>
    match s.req with
    | .none => some { s with req := .atHarness, ls := s.ls.map startListener }
    | _ => none
  | .harnessActive =>
    if cfg.early then
      (match s.req, s.hStage with
       | .atHarness, 0 => some { s with hStage := 1, hActive := true }
       | _, _ => none)
    else
      (match s.hStage with
       | 1 => some { s with hStage := 2, hActive := true }
       | _ => none)
  | .harnessCall =>
    match s.req, s.hStage with
    | .atHarness, 0 =>
      if cfg.early then none else some { s with req := .atTask, hStage := 1, tRun := true, tq := s.tq ++ [.next] }
    | .atHarness, 1 =>
      if cfg.early then some { s with req := .atTask, hStage := 2, tRun := true, tq := s.tq ++ [.next] } else none
    | _, _ => none
  | .taskTake =>
    if s.tRun then
      match s.tq with
      | [] => none
      | .next :: rest => some { s with tq := rest, req := (match s.req with | .atTask => .spawned | r => r) }
      | .cancel i :: rest =>
        let accept := !(cfg.refuse && s.counted)
        let ls := match s.ls[i]? with
          | some l => (match l.phase with
              | .cancelling => s.ls.set i { l with phase := .ready }
              | _ => s.ls)
          | none => s.ls
        some { s with tq := rest, ls := ls, verdicts := s.verdicts ++ [accept], tRun := !accept }
    else none
  | .reqStart =>
    match s.req with
    | .spawned => some { s with req := .pending, counted := true, hreqs := s.hreqs + 1 }
    | _ => none
  | .answer =>
    match s.req with
    | .pending => some { s with req := .answered }
    | _ => none
  | .respond =>
    match s.req with
    | .answered => some { s with req := .responded }
    | _ => none
  | .decrement =>
    if s.counted then
      match s.req with
      | .responded | .forwarded | .done => some { s with counted := false }
      | _ => none
    else none
  | .forward =>
    match s.req, s.hStage with
    | .responded, 2 => if cfg.resetFirst && !s.cleared then none else some { s with req := .forwarded }
    | _, _ => none
  | .clear =>
    if s.cleared then none
    else
      (match s.req, s.hStage with
       | .responded, 2 => if cfg.resetFirst then some { s with cleared := true, hActive := false } else none
       | .forwarded, _ | .done, _ => if cfg.resetFirst then none else some { s with cleared := true, hActive := false }
       | _, _ => none)
  | .hostTake =>
    match s.req with
    | .forwarded => some { s with req := .done, normal := s.normal + 1 }
    | _ => none
  | .deliver i =>
    match s.ls[i]? with
    | some l =>
      if !cfg.gated || s.hActive then some { s with ls := s.ls.set i { l with inbox := l.inbox + 1, got := l.got + 1 } }
      else some s
    | none => none
  | .arm i =>
    match s.ls[i]? with
    | some l => (match l.phase with
        | .starting => some { s with ls := s.ls.set i { l with phase := .armed } }
        | _ => none)
    | none => none
  | .catchTake i =>
    match s.ls[i]? with
    | some l =>
      (match l.inbox with
       | 0 => none
       | n + 1 =>
         (match l.phase with
          | .armed => some { s with ls := s.ls.set i { l with inbox := n, phase := .fired } }
          | _ => some { s with ls := s.ls.set i { l with inbox := n, dropped := l.dropped + 1 } }))
    | none => none
  | .transform i =>
    match s.ls[i]? with
    | some l => (match l.phase with
        | .fired =>
          if l.interrupting && !(cfg.once && s.cancelUsed) then
            some { s with ls := s.ls.set i { l with phase := .cancelling }, cancelUsed := true, tq := s.tq ++ [.cancel i] }
          else some { s with ls := s.ls.set i { l with phase := .ready } }
        | _ => none)
    | none => none
  | .move i =>
    match s.ls[i]? with
    | some l => (match l.phase with
        | .ready => some { s with ls := s.ls.set i { l with phase := .moved, conts := l.conts + 1 } }
        | _ => none)
    | none => none

def run (cfg : Cfg) (s : St) : List Label → Option St
  | [] => some s
  | l :: rest => (step cfg s l).bind (fun s' => run cfg s' rest)

/-- a listener has nothing it can do on its own -/
def Listener.quiet (l : Listener) : Bool :=
  l.inbox == 0 && (match l.phase with
    | .starting | .fired | .ready => false
    | _ => true)

/-- no internal label is enabled (`quiet_iff` in Lemmas/Boundary.lean) -/
def quiet (cfg : Cfg) (s : St) : Bool :=
  (match s.req with
   | .spawned | .answered | .forwarded => false
   | _ => true)
  && !((match s.req with | .atHarness => true | _ => false) && (s.hStage == 0 || (cfg.early && s.hStage == 1)))
  && !(!cfg.early && s.hStage == 1)
  && !((match s.req with | .responded => true | _ => false) && s.hStage == 2)
  && !(!s.cleared && !cfg.resetFirst && (match s.req with | .forwarded | .done => true | _ => false))
  && !(s.tRun && !s.tq.isEmpty)
  && !(s.counted && (match s.req with | .responded | .forwarded | .done => true | _ => false))
  && s.ls.all Listener.quiet

/-- a listener flow that is still at its boundary event is a live token of the wait group it was created with -/
def Listener.atBoundary (l : Listener) : Bool :=
  match l.phase with
  | .idle | .moved => false
  | _ => true

/-- what the listeners still at their boundary events contribute to the instance wait group -/
def wgListeners (cfg : Cfg) (s : St) : Nat :=
  if cfg.share then (s.ls.filter Listener.atBoundary).length else 0

/-- the instance can complete once the tokens on the normal and exception paths have reached their end events -/
def canComplete (cfg : Cfg) (s : St) : Bool :=
  (match s.req with | .done => true | _ => false) && wgListeners cfg s == 0

/-! ### exploration (used by the driver and by `decide`d witnesses) -/

def internalLabels (s : St) : List Label :=
  [.harnessActive, .harnessCall, .taskTake, .reqStart, .respond, .decrement, .forward, .clear, .hostTake]
  ++ (List.range s.ls.length).flatMap (fun i => [.arm i, .catchTake i, .transform i, .move i])

/-- successors by one internal step, labels for which `blocked` holds excluded (a goroutine parked by the
schedule controller); `extra` are labels that have become enabled by an earlier driver action and happen on their
own (`activate` once the task in front of the host has been answered) -/
def succs (cfg : Cfg) (blocked : Label → Bool) (extra : List Label) (s : St) : List St :=
  (extra ++ internalLabels s).filterMap (fun l => if blocked l then none else step cfg s l)

def insertNew (acc : List St) (xs : List St) : List St × List St :=
  xs.foldl (fun (p : List St × List St) x => if p.1.contains x then p else (x :: p.1, x :: p.2)) (acc, [])

/-- all states reachable by internal steps (the frontier is expanded `fuel` times) -/
def closure (cfg : Cfg) (blocked : Label → Bool) (extra : List Label) : Nat → List St → List St → List St
  | 0, acc, _ => acc
  | _, acc, [] => acc
  | fuel + 1, acc, frontier =>
    let next := frontier.flatMap (succs cfg blocked extra)
    let (acc', fresh) := insertNew acc next
    closure cfg blocked extra fuel acc' fresh

def reachInternal (cfg : Cfg) (blocked : Label → Bool) (extra : List Label) (ss : List St) : List St :=
  let (acc, fresh) := insertNew [] ss
  closure cfg blocked extra 200 acc fresh

/-- no unblocked internal step is enabled -/
def stuck (cfg : Cfg) (blocked : Label → Bool) (extra : List Label) (s : St) : Bool :=
  (succs cfg blocked extra s).isEmpty

end Bpmn.Model.Boundary
