/-
Layer 0 kernel for C11 (and C06/C10/C14, which all dispatch on it): a port of
`MatchesEventInstance` of every event kind in /repo/pkg/event/events.go. Names are `Nat`s, an
absent attribute is `none`. A definition INSTANCE has an identity (timer and conditional events
match the instance that produced them, by pointer equality).

Core Lean only.
-/
namespace Bpmn.Model.EventMatch

/-- an event as handed to `ConsumeEvent` -/
inductive Ev where
  | endEv | noneEv | cancel | terminate
  | signal (ref : Nat)
  | compensation (activity : Nat)
  | message (ref : Nat) (operation : Option Nat)
  | escalation (ref : Nat)
  | link (sources : List Nat) (target : Option Nat)
  | error (ref : Nat)
  | timer (inst : Nat)
  | conditional (inst : Nat)
deriving DecidableEq, Repr, Inhabited

/-- an event definition of the schema (the attributes the matching reads; `none` = not present) -/
inductive Def where
  | signal (ref : Option Nat)
  | cancel | terminate | compensate | timer | conditional
  | message (ref : Option Nat) (operation : Option Nat)
  | escalation (ref : Option Nat)
  | link (sources : List Nat) (target : Option Nat)
  | error (ref : Option Nat)
deriving DecidableEq, Repr, Inhabited

structure Inst where
  id : Nat
  d : Def
deriving DecidableEq, Repr, Inhabited

/-- `ev.MatchesEventInstance(instance)`, branch by branch as in events.go -/
def matchesInst (ev : Ev) (i : Inst) : Bool :=
  match ev with
  | .endEv => false
  | .noneEv => false
  | .compensation _ => false
  | .cancel => (match i.d with | .cancel => true | _ => false)
  | .terminate => (match i.d with | .terminate => true | _ => false)
  | .signal r =>
    (match i.d with
     | .signal dr => (match dr with | none => false | some x => x == r)
     | _ => false)
  | .message r op =>
    (match i.d with
     | .message dr dop =>
       (match dr with
        | none => false
        | some x =>
          if x != r then false
          else match op with
            | none => (match dop with | some _ => false | none => true)
            | some o => (match dop with | none => false | some y => y == o))
     | _ => false)
  | .escalation r =>
    (match i.d with
     | .escalation dr => (match dr with | none => false | some x => r == x)
     | _ => false)
  | .link srcs tgt =>
    (match i.d with
     | .link dsrcs dtgt =>
       (match tgt with
        | none => (match dtgt with | some _ => false | none => true)
        | some t => (match dtgt with | none => false | some y => y == t))
       && srcs.length == dsrcs.length && srcs == dsrcs
     | _ => false)
  | .error r =>
    (match i.d with
     | .error dr => (match dr with | none => false | some x => x == r)
     | _ => false)
  | .timer k => k == i.id
  | .conditional k => k == i.id

/-! ## The specification: an event matches a definition instance iff both denote the same thing -/

/-- what an event / a definition instance refers to; `none` = refers to nothing that can match -/
inductive Ident where
  | cancel | terminate
  | signal (ref : Nat)
  | message (ref : Nat) (operation : Option Nat)
  | escalation (ref : Nat)
  | link (sources : List Nat) (target : Option Nat)
  | error (ref : Nat)
  | instance (id : Nat)
deriving DecidableEq, Repr

def Ev.ident : Ev → Option Ident
  | .endEv | .noneEv | .compensation _ => none
  | .cancel => some .cancel
  | .terminate => some .terminate
  | .signal r => some (.signal r)
  | .message r o => some (.message r o)
  | .escalation r => some (.escalation r)
  | .link s t => some (.link s t)
  | .error r => some (.error r)
  | .timer k => some (.instance k)
  | .conditional k => some (.instance k)

/-- what the attributes of a definition name (`none` attribute: nothing) -/
def Def.idents : Def → List Ident
  | .cancel => [.cancel]
  | .terminate => [.terminate]
  | .compensate => []
  | .timer => []
  | .conditional => []
  | .signal r => (r.map Ident.signal).toList
  | .message r o => (r.map (fun x => Ident.message x o)).toList
  | .escalation r => (r.map Ident.escalation).toList
  | .link s t => [.link s t]
  | .error r => (r.map Ident.error).toList

/-- the identities a definition instance answers to: what its attributes name and, for every
definition, the instance itself (a timer / conditional event carries the instance it came from) -/
def Inst.idents (i : Inst) : List Ident := .instance i.id :: i.d.idents

end Bpmn.Model.EventMatch
