import Bpmn.Model.Cond
import Bpmn.Model.Gateway
/-
Layer 2: the engine at the granularity "run every token until it parks" between two driver actions.

One executable semantics, parametric in `Cfg` — the places where the Go engine is known (or could come)
to deviate from BPMN token semantics. `Cfg.ideal` is the specification (the token game); the faithful
configuration is what the code does. Whenever a deviation actually changes behaviour in a run, its name
is logged in `St.causes`, so a run with no logged cause is a run of the token game — under an admissible join policy,
see `Spec/TokenGame` (theorems in Props/C01Conformance).

Tokens (`flow`s in the Go code) carry the numeric id the engine would give them: ids are drawn in the order
`handleAdditionalSequenceFlow` draws them.
-/
namespace Bpmn.Model.Engine
open Bpmn.Model

inductive Kind where
  | start | end_ | task | xor | par | incl | ebg | catch_ | throw_ | sub | boundary | other
deriving Repr, BEq, DecidableEq, Inhabited

structure Node where
  id      : String
  kind    : Kind
  ins     : List String
  outs    : List String
  dflt    : Option String := none
  parent  : String := "-"
  results : List String := []
  hasResults : Bool := false
  retries : Int := 0
deriving Repr, Inhabited

structure SFlow where
  id   : String
  src  : String
  dst  : String
  cond : Cond
deriving Repr, Inhabited

structure Proc where
  nodes : List Node
  flows : List SFlow
deriving Repr, Inhabited

def Proc.node? (p : Proc) (id : String) : Option Node := p.nodes.find? (·.id == id)
def Proc.flow? (p : Proc) (id : String) : Option SFlow := p.flows.find? (·.id == id)

/-- where the code deviates (true = behave like the code does today) -/
structure Cfg where
  /-- D1: an activity's FIRST listed outgoing flow decides whether the token leaves; if it is not effective
      but a later one is, the token stays and the activity is requested again -/
  firstFlowDecides : Bool
  /-- D10: the parent token never leaves an embedded sub-process -/
  subNeverReturns : Bool
  /-- inclusive gateways synchronise on the tracker's cohort (all live flows recorded with the same origin)
      instead of on the tokens that can still reach the gateway -/
  inclCohort : Bool
  /-- start events of a sub-process stay `activated` after the first activation (re-entry completes at once) -/
  subStartSticky : Bool
  /-- scheduling variant of the code (not a deviation): inclusive gateways re-evaluate their cohort as soon as
      a sibling token terminates, before tokens released in the same step have travelled on. The real engine
      exhibits both orders (tracker notification races with the released token). -/
  eagerSettle : Bool := false
  /-- specification variant (not a deviation): the property allows an inclusive join to release anywhere between
      "every activated branch that leads to it has delivered" (`false`, reachability) and "every token of that
      fork activation has arrived or ended" (`true`, lineage tags) -/
  lateJoin : Bool := false
  /-- D38: an intermediate throw event lets only the FIRST token that reaches it pass; later tokens are consumed
      there (the node answers `completeAction` once its `activated` flag is set, like a fused end event) -/
  throwFuse : Bool := false
deriving Repr, BEq, DecidableEq

def Cfg.ideal : Cfg := ⟨false, false, false, false, false, false, false⟩
def Cfg.idealLate : Cfg := ⟨false, false, false, false, false, true, false⟩

inductive Obs where
  | req (node : String)
  | complete (node : String)
  | err (cls : String)
deriving Repr, BEq, DecidableEq

structure Tok where
  fid  : Nat
  node : String
deriving Repr, BEq, DecidableEq

/-- per inclusive gateway: Go fields `activated`, `arrived`, `sync`, `synchronized` -/
structure IgSt where
  gw : String
  activated : Option Nat := none
  arrived : List Nat := []
  sync : List Nat := []          -- tokens whose reply channel is in `gw.sync`, in order
deriving Repr, BEq

structure St where
  vars    : Vars
  nextFid : Nat := 1
  /-- tokens waiting for a task answer: (token, occurrence number of that node) -/
  pending : List (Tok × Nat) := []
  /-- tokens parked at a parallel gateway, arrival order -/
  pg      : List (String × List Nat) := []
  ig      : List IgSt := []
  /-- tokens parked for ever (exclusive/inclusive gateway without effective flow) or at a catch event -/
  parked  : List Tok := []
  /-- parent tokens inside a sub-process node, with whether the inner start has been triggered -/
  subs    : List Tok := []
  /-- sub-process nodes whose (single) completion monitor has already fired -/
  subFired : List String := []
  /-- start / end nodes already `activated` -/
  activated : List String := []
  /-- lineage: token ↦ stack of inclusive-fork activation ids it descends from (innermost first) -/
  tags    : List (Nat × List Nat) := []
  /-- tracker picture: token ↦ node recorded as its origin -/
  origin  : List (Nat × String) := []
  occ     : List (String × Nat) := []
  retry   : List (Nat × Int) := []     -- per token: attempts made (Go: `f.retry.attempts`)
  obs     : List Obs := []
  causes  : List String := []
  /-- set when the model leaves its domain (fuel, malformed program) -/
  outOfScope : Option String := none
deriving Repr

def St.emit (s : St) (o : Obs) : St := { s with obs := s.obs ++ [o] }
def St.cause (s : St) (c : String) : St := if s.causes.contains c then s else { s with causes := s.causes ++ [c] }
def St.oos (s : St) (why : String) : St := if s.outOfScope.isSome then s else { s with outOfScope := some why }

def St.tagsOf (s : St) (f : Nat) : List Nat := ((s.tags.find? (·.1 == f)).map (·.2)).getD []
def St.setTags (s : St) (f : Nat) (ts : List Nat) : St := { s with tags := (s.tags.filter (·.1 != f)) ++ [(f, ts)] }
/-- forked tokens inherit the lineage of the token that forked them -/
def St.inherit (s : St) (parent : Nat) (kids : List Nat) : St :=
  let ts := s.tagsOf parent
  kids.foldl (fun s k => s.setTags k ts) s

def St.liveIds (s : St) : List Nat :=
  s.pending.map (·.1.fid) ++ (s.pg.flatMap (·.2)) ++ s.parked.map (·.fid) ++ s.subs.map (·.fid)

/-- tracker: FlowTrace from `src` naming tokens `fids` -/
def St.recordFlow (s : St) (p : Proc) (src : String) (fids : List Nat) : St :=
  let isIncl := (p.node? src).map (·.kind == .incl) |>.getD false
  let origin := fids.foldl (fun o f =>
    if isIncl || !(o.any (·.1 == f)) then (o.filter (·.1 != f)) ++ [(f, src)] else o) s.origin
  { s with origin }

def St.recordTerm (s : St) (fid : Nat) : St := { s with origin := s.origin.filter (·.1 != fid) }

/-- evaluate one sequence flow for a token: `(flows?, state with error obs)` -/
def evalFlow (p : Proc) (s : St) (fl : String) (unconditional : Bool) : Bool × St :=
  if unconditional then (true, s) else
  match p.flow? fl with
  | none => (false, s.emit (.err "notfounderror"))
  | some f =>
    match f.cond.eval s.vars with
    | .yes => (true, s)
    | .no => (false, s)
    | .error => (false, s.emit (.err "condition"))

/-- evaluate a list of flows left to right, threading error observations -/
def evalFlows (p : Proc) (s : St) (fls : List String) (unconditional : Bool) : List (String × Bool) × St :=
  fls.foldl (fun (acc, s) fl => let (b, s) := evalFlow p s fl unconditional; (acc ++ [(fl, b)], s)) ([], s)

def flowDst (p : Proc) (fl : String) : String := (p.flow? fl).map (·.dst) |>.getD "?"

/-- `handleAdditionalSequenceFlow` for each flow: a fresh token id per forked flow, in list order -/
def forkToks (p : Proc) (s : St) (fls : List String) : List Tok × St :=
  fls.foldl (fun (acc, s) fl =>
    (acc ++ [({ fid := s.nextFid, node := flowDst p fl } : Tok)], { s with nextFid := s.nextFid + 1 })) ([], s)

/-- The `flowAction` branch of `flow.Start`: the token `t` leaves node `t.node` through `fls`.
Returns the tokens to continue with (the token itself first if it moves) and the new state.
`stay = true` means the token did not move and the loop calls `NextAction` again. -/
def selectFlows (cfg : Cfg) (p : Proc) (s : St) (t : Tok) (fls : List String) (unconditional : Bool) :
    List Tok × Bool × St :=
  match fls with
  | [] => ([], false, s.recordTerm t.fid)              -- "nowhere to flow, abort" (no termination trace)
  | first :: rest =>
    let (ev, s) := evalFlows p s (first :: rest) unconditional
    let effective := ev.filter (·.2) |>.map (·.1)
    match effective with
    | [] => ([], false, s.recordTerm t.fid)            -- TerminationTrace
    | e0 :: es =>
      let firstOk := (ev.head?.map (·.2)).getD false
      if cfg.firstFlowDecides && !firstOk then
        -- D1: the current token stays; every effective flow is forked
        let s := s.cause "first_flow_not_effective"
        let (toks, s) := forkToks p s (e0 :: es)
        let s := (s.recordFlow p t.node (toks.map (·.fid))).inherit t.fid (toks.map (·.fid))
        (toks, true, s)
      else
        let me : Tok := { t with node := flowDst p e0 }
        let (toks, s) := forkToks p s es
        let s := (s.recordFlow p t.node (t.fid :: toks.map (·.fid))).inherit t.fid (toks.map (·.fid))
        (me :: toks, false, s)

def bumpOcc (s : St) (n : String) : Nat × St :=
  let k := ((s.occ.find? (·.1 == n)).map (·.2)).getD 0 + 1
  (k, { s with occ := (s.occ.filter (·.1 != n)) ++ [(n, k)] })

/-- tokens of scope `sub` that are still alive -/
def liveInScope (p : Proc) (s : St) (sub : String) (work : List Tok) : Bool :=
  let inScope (n : String) : Bool := (p.node? n).map (·.parent == sub) |>.getD false
  s.pending.any (fun q => inScope q.1.node) || s.parked.any (fun t => inScope t.node)
    || s.subs.any (fun t => inScope t.node) || work.any (fun t => inScope t.node)
    || s.pg.any (fun q => inScope q.1 && !q.2.isEmpty)
    || s.ig.any (fun g => inScope g.gw && g.activated.isSome)

/-- ideal inclusive join: can some live token outside the gateway still reach it? -/
def reach (p : Proc) (target : String) : Nat → List String → List String → Bool
  | 0, _, _ => true     -- out of fuel: be conservative (treated as "can reach")
  | _, [], _ => false
  | fuel + 1, n :: todo, seen =>
    if n == target then true
    else if seen.contains n then reach p target fuel todo seen
    else
      let next := ((p.node? n).map (·.outs)).getD [] |>.map (flowDst p)
      reach p target fuel (next ++ todo) (n :: seen)

def canReach (p : Proc) (src target : String) : Bool :=
  let next := ((p.node? src).map (·.outs)).getD [] |>.map (flowDst p)
  reach p target (4 * p.nodes.length + 8) next []

/-- does some live token (not at `gw`) still have a path to `gw`, or is one just arriving on an incoming flow? -/
def upstreamLive (p : Proc) (s : St) (gw : String) (work : List Tok) (arrived : List Nat) : Bool :=
  let others : List Tok := (s.pending.map (·.1)) ++ s.parked ++ s.subs ++ work ++
    (s.pg.flatMap (fun q => q.2.map (fun f => ({ fid := f, node := q.1 } : Tok)))) ++
    (s.ig.flatMap (fun g => if g.gw == gw then [] else (g.arrived.map (fun f => ({ fid := f, node := g.gw } : Tok)))))
  others.any (fun t => !arrived.contains t.fid && t.node != gw && canReach p t.node gw)
    -- a token of the work list that stands at `gw` without having been registered there is ON an incoming flow
    -- (only under `eagerSettle`; otherwise the work list is empty whenever gateways are evaluated)
    || work.any (fun t => !arrived.contains t.fid && t.node == gw)

def igGet (s : St) (gw : String) : IgSt := (s.ig.find? (·.gw == gw)).getD { gw }
def igSet (s : St) (g : IgSt) : St := { s with ig := (s.ig.filter (·.gw != g.gw)) ++ [g] }

/-- The reply of an inclusive gateway once it has synchronised (`gatewayProbingReport`): distribute the
chosen flows over `sync ++ [activated]`. Returns tokens to continue. -/
def igRelease (p : Proc) (s : St) (n : Node) (g : IgSt) : List Tok × St :=
  let act := g.activated.getD 0
  let nonDefault := n.outs.filter (fun f => some f != n.dflt)
  let (ev, s) := evalFlows p s nonDefault false
  let chosen := Gateway.igDecide ev n.dflt
  let s := igSet s { gw := n.id }
  if chosen.isEmpty then
    -- error trace; nobody is answered: every waiting token stays parked for ever
    let s := s.emit (.err "noeffective-inclusive")
    let waiting := g.sync ++ [act]
    ([], { s with parked := s.parked ++ waiting.map (fun f => ({ fid := f, node := n.id } : Tok)) })
  else
    let waiting := g.sync ++ [act]
    let replies := Gateway.distribute waiting.length chosen.length
    -- lineage: the tokens leaving belong to a new fork activation; the activation that is joined here is popped
    let tagId := s.nextFid
    let s := { s with nextFid := s.nextFid + 1 }
    let base := (s.tagsOf act).drop 1
    let s := waiting.foldl (fun s f => s.setTags f (tagId :: base)) s
    -- each waiting token gets its slice of `chosen` (unconditional) or completes
    (waiting.zip replies).foldl (fun (acc, s) (f, r) =>
      match r with
      | .complete => (acc, (s.emit (.complete n.id)).recordTerm f)
      | .flows lo hi =>
        let fls := (chosen.drop lo).take (hi - lo)
        match fls with
        | [] => (acc, s.recordTerm f)
        | e0 :: es =>
          let me : Tok := { fid := f, node := flowDst p e0 }
          let (toks, s) := forkToks p s es
          let s := (s.recordFlow p n.id (f :: toks.map (·.fid))).inherit f (toks.map (·.fid))
          (acc ++ me :: toks, s)) ([], s)

/-- cohort of a token in the tracker's picture -/
def cohort (s : St) (f : Nat) : List Nat :=
  match s.origin.find? (·.1 == f) with
  | none => []
  | some (_, loc) => s.origin.filter (·.2 == loc) |>.map (·.1)

/-- all live tokens (with where they are) -/
def St.liveToks (s : St) (work : List Tok) : List Tok :=
  (s.pending.map (·.1)) ++ s.parked ++ s.subs ++ work ++
    (s.pg.flatMap (fun q => q.2.map (fun f => ({ fid := f, node := q.1 } : Tok)))) ++
    (s.ig.flatMap (fun g => g.arrived.map (fun f => ({ fid := f, node := g.gw } : Tok))))

/-- late bound: every live token descending from the fork activation the activating token belongs to has arrived -/
def lateReady (s : St) (a : Nat) (arrived : List Nat) (work : List Tok) : Bool :=
  match (s.tagsOf a).head? with
  | none => true
  | some tag => (s.liveToks work).all (fun t => !(s.tagsOf t.fid).contains tag || arrived.contains t.fid)

/-- the latest allowed release point of gateway `n`: a gateway with at most one incoming flow is a pure fork — the
property has no join clause for it, it must forward the token at once, so its late bound is vacuous (the interval
collapses to `early`); with two or more incoming flows it is the lineage bound `lateReady` -/
def lateAt (s : St) (n : Node) (a : Nat) (arrived : List Nat) (work : List Tok) : Bool :=
  n.ins.length ≤ 1 || lateReady s a arrived work

/-- may the inclusive gateway `n` synchronise now? (`trySync`) -/
def igReady (cfg : Cfg) (p : Proc) (s : St) (n : Node) (g : IgSt) (work : List Tok) : Bool × St :=
  match g.activated with
  | none => (false, s)
  | some a =>
    -- (a token that descends from NO inclusive fork activation joins nothing: the property's join clause is about the
    -- branches of a fork activation — "no earlier than when every activated branch that leads to it has delivered" — and
    -- such a token has none; so the earliest allowed point is "at once", as the latest one (`lateReady`). Tokens of one fork
    -- activation are waited for however they reach the gateway — also over ONE shared incoming flow, merged upstream.)
    let early := (s.tagsOf a).isEmpty || !upstreamLive p s n.id work g.arrived
    let late := lateAt s n a g.arrived work
    if cfg.inclCohort then
      let awaiting := cohort s a
      let codeReady := awaiting.all (g.arrived.contains ·)
      -- a deviation: released before the earliest allowed point, or still waiting at the latest allowed one
      let dev := (codeReady && !early) || (!codeReady && late && early)
      (codeReady, if dev then s.cause "inclusive_cohort" else s)
    else if cfg.lateJoin then (late && early, s)
    else (early, s)

/-- one fresh token at each of the given start events, in list order -/
def spawnStarts (s : St) (starts : List Node) : List Tok × St :=
  starts.foldl (fun (acc, s) m =>
    (acc ++ [({ fid := s.nextFid, node := m.id } : Tok)], { s with nextFid := s.nextFid + 1 })) ([], s)

/-- Token `t` enters sub-process node `n` whose inner start events are `starts`: the state before the inner
tokens are created. -/
def enterSub (cfg : Cfg) (s : St) (t : Tok) (n : Node) (starts : List Node) : St :=
  -- the code creates the completion monitor once per sub-process node and never re-arms the inner start
  -- events: on a second activation the inner tokens complete at once and nobody announces the end, so the
  -- parent token waits for ever
  let again := cfg.subStartSticky && s.subFired.contains n.id
  let s := if again then { (s.cause "sub_reentry") with parked := s.parked ++ [t] }
           else { s with subs := s.subs ++ [t] }
  -- the token game re-arms the inner start events; the code does not: whenever one of them is still
  -- `activated` (also when the monitor has not fired, e.g. left over in the state the run starts from),
  -- the inner token will complete at once — that is the same deviation and it is logged
  if cfg.subStartSticky then
    (if s.activated.any (fun a => starts.any (·.id == a)) then s.cause "sub_reentry" else s)
  else { s with activated := s.activated.filter (fun a => !starts.any (·.id == a)) }

/-- Arrival of token `t` at its node: returns tokens that continue to run, and the new state. -/
def arrive (cfg : Cfg) (p : Proc) (s : St) (t : Tok) : List Tok × St :=
  match p.node? t.node with
  | none => ([], s.oos s!"unknown node {t.node}")
  | some n =>
    match n.kind with
    | .task =>
      let (k, s) := bumpOcc s n.id
      ([], { (s.emit (.req n.id)) with pending := s.pending ++ [(t, k)] })
    | .start =>
      if s.activated.contains n.id then ([], (s.emit (.complete n.id)).recordTerm t.fid)
      else
        let s := { s with activated := n.id :: s.activated }
        let (toks, stay, s) := selectFlows cfg p s t n.outs false
        (if stay then t :: toks else toks, s)
    | .end_ =>
      ([], ({ s with activated := if s.activated.contains n.id then s.activated else n.id :: s.activated }.emit
        (.complete n.id)).recordTerm t.fid)
    | .xor =>
      let nonDefault := n.outs.filter (fun f => some f != n.dflt)
      let (ev, s) := evalFlows p s nonDefault false
      match Gateway.xgDecide ev n.dflt with
      | .take fl => let (toks, _, s) := selectFlows cfg p s t [fl] true; (toks, s)
      | .error => ([], { (s.emit (.err "noeffective-exclusive")) with parked := s.parked ++ [t] })
    | .par =>
      let cur := ((s.pg.find? (·.1 == n.id)).map (·.2)).getD []
      let cur := cur ++ [t.fid]
      if cur.length == n.ins.length || (n.ins.isEmpty && cur.length == 1) then
        let s := { s with pg := s.pg.filter (·.1 != n.id) }
        let replies := Gateway.distribute cur.length n.outs.length
        let pairs := cur.zip replies
        -- the consumed tokens terminate concurrently with the released ones travelling on: under
        -- `eagerSettle` their termination is seen first
        let pairs := if cfg.eagerSettle then pairs.filter (·.2 == .complete) ++ pairs.filter (·.2 != .complete) else pairs
        pairs.foldl (fun (acc, s) (f, r) =>
          match r with
          | .complete => (acc, (s.emit (.complete n.id)).recordTerm f)
          | .flows lo hi =>
            let fls := (n.outs.drop lo).take (hi - lo)
            let (toks, _, s) := selectFlows cfg p s { fid := f, node := n.id } fls true
            (acc ++ toks, s)) ([], s)
      else ([], { s with pg := (s.pg.filter (·.1 != n.id)) ++ [(n.id, cur)] })
    | .incl =>
      let g := igGet s n.id
      match g.activated with
      | none => ([], igSet s { g with activated := some t.fid, arrived := [t.fid], sync := [] })
      | some _ => ([], igSet s { g with arrived := g.arrived ++ [t.fid], sync := g.sync ++ [t.fid] })
    | .sub =>
      -- subprocess.go: the inner nodes exist once per node, activations take turns (`sp.activation`): a token that
      -- arrives while another one is inside waits at the node and enters when that activation has returned
      if s.subs.any (·.node == n.id) then ([], { s with parked := s.parked ++ [t] })
      else
        let starts := p.nodes.filter (fun m => m.parent == n.id && m.kind == .start)
        spawnStarts (enterSub cfg s t n starts) starts
    | .throw_ =>
      -- event_throw.go: every token that reaches the event gets `flowAction` over all outgoing flows (the throw
      -- itself is the FlowTrace the token leaves with); with `throwFuse` only the first one does
      if cfg.throwFuse && s.activated.contains n.id then
        ([], (((s.cause "throw_fused").emit (.complete n.id)).recordTerm t.fid))
      else
        let s := { s with activated := if s.activated.contains n.id then s.activated else n.id :: s.activated }
        let (toks, stay, s) := selectFlows cfg p s t n.outs false
        (if stay then t :: toks else toks, s)
    | _ => ([], { s with parked := s.parked ++ [t] })

/-- subprocess.go `sp.activation`: when an activation of sub-process node `node` has returned (tokens `out` travel on), the
next token waiting at that node takes its turn -/
def nextTurn (s : St) (node : String) (out : List Tok) : List Tok × St :=
  match s.parked.find? (·.node == node) with
  | none => (out, s)
  | some w => (out ++ [w], { s with parked := s.parked.filter (· != w) })

theorem nextTurn_causes (s : St) (node : String) (out : List Tok) : (nextTurn s node out).2.causes = s.causes := by
  unfold nextTurn; split <;> rfl

theorem nextTurn_idle (s : St) (node : String) (out : List Tok) (h : s.parked.find? (·.node == node) = none) :
    nextTurn s node out = (out, s) := by
  unfold nextTurn; rw [h]

theorem nextTurn_subs (s : St) (node : String) (out : List Tok) : (nextTurn s node out).2.subs = s.subs := by
  unfold nextTurn; split <;> rfl

theorem nextTurn_fst (s : St) (node : String) (out : List Tok) :
    (nextTurn s node out).1 = out ++ (s.parked.find? (·.node == node)).toList := by
  unfold nextTurn; split <;> rename_i h <;> simp [h]

/-- let one inclusive gateway that may synchronise do so (`trySync` + probing report) -/
def settleIncl (cfg : Cfg) (p : Proc) (s : St) (work : List Tok) : Option (List Tok) × St :=
  let igs := p.nodes.filter (·.kind == .incl)
  igs.foldl (fun (acc : Option (List Tok) × St) n =>
    match acc with
    | (some x, s) => (some x, s)
    | (none, s) =>
      let g := igGet s n.id
      let (ready, s') := igReady cfg p s n g work
      if ready then (let (toks, s'') := igRelease p s' n g; (some toks, s'')) else (none, s')) (none, s)

/-- after the work list is empty: let inclusive gateways synchronise and finished sub-processes return -/
def settle (cfg : Cfg) (p : Proc) (s : St) : List Tok × St :=
  let (r, s) := settleIncl cfg p s []
  match r with
  | some x => (x, s)
  | none =>
    -- sub-processes whose inner scope is empty
    let done := s.subs.find? (fun t => !liveInScope p s t.node [])
    match done with
    | none => ([], s)
    | some t =>
      if cfg.subNeverReturns then
        -- the inner monitor announces the end of `t.node` on the tracer of the ENCLOSING scope; the token
        -- inside `t.node` waits for ever. If the enclosing scope is itself a sub-process that is running,
        -- it takes the announcement for its own and returns to ITS parent.
        let s := (s.cause "sub_parent_never_resumes")
        let s := { s with subs := s.subs.filter (· != t), parked := s.parked ++ [t] }
        let encl := ((p.node? t.node).map (·.parent)).getD "-"
        match s.subs.find? (·.node == encl), p.node? encl with
        | some u, some un =>
          let s := { (s.cause "sub_cease_taken_by_enclosing") with subs := s.subs.filter (· != u) }
          let (toks, stay, s) := selectFlows cfg p s u un.outs false
          if stay then ([u] ++ toks, s) else (toks, s)
        | _, _ => ([], s)
      else
        let s := { s with subs := s.subs.filter (· != t),
                          subFired := if s.subFired.contains t.node then s.subFired else t.node :: s.subFired }
        match p.node? t.node with
        | none => ([], s)
        | some n =>
          let (toks, stay, s) := selectFlows cfg p s t n.outs false
          nextTurn s t.node (if stay then [t] ++ toks else toks)

/-- run the work list until every token is parked -/
def runWork (cfg : Cfg) (p : Proc) : Nat → List Tok → St → St
  | 0, _, s => s.oos "fuel"
  | fuel + 1, [], s =>
    let (toks, s') := settle cfg p s
    if toks.isEmpty && s'.causes.length == s.causes.length && s'.obs.length == s.obs.length
        && s'.ig == s.ig && s'.subs.length == s.subs.length then s'
    else runWork cfg p fuel toks s'
  | fuel + 1, t :: rest, s =>
    let (toks, s) := arrive cfg p s t
    if cfg.eagerSettle then
      match settleIncl cfg p s (rest ++ toks) with
      | (some rel, s) => runWork cfg p fuel (rel ++ rest ++ toks) s
      | (none, s) => runWork cfg p fuel (rest ++ toks) s
    else runWork cfg p fuel (rest ++ toks) s

def fuelFor (p : Proc) : Nat := 200 * (p.nodes.length + 5)

/-- `StartAll`: one token at every top-level start event -/
def start (cfg : Cfg) (p : Proc) (vars : Vars) : St :=
  let starts := p.nodes.filter (fun n => n.kind == .start && n.parent == "-")
  let s : St := { vars }
  let (toks, s) := spawnStarts s starts
  runWork cfg p (fuelFor p) toks s

inductive Answer where
  | ok (results : List (String × Int))
  | err (mode : Nat) (retries : Int)      -- mode 0 none, 1 retry, 2 skip, 3 exit
deriving Repr

/-- keep only declared result names (`ApplyTaskResult`) -/
def applyDeclared (n : Node) (vars : Vars) (results : List (String × Int)) : Vars :=
  if !n.hasResults then vars else
  n.results.foldl (fun vs name =>
    match results.find? (·.1 == name) with
    | some (_, v) => vs.set name v
    | none => vs) vars

/-- A driver answers request `(node, occ)`. -/
def answer (cfg : Cfg) (p : Proc) (s : St) (node : String) (occ : Nat) (a : Answer) : St :=
  let s := { s with obs := [] }
  match s.pending.find? (fun q => q.1.node == node && q.2 == occ), p.node? node with
  | some (t, k), some n =>
    let s := { s with pending := s.pending.filter (· != (t, k)) }
    let continueFlow (s : St) : St :=
      let (toks, stay, s) := selectFlows cfg p s t n.outs false
      runWork cfg p (fuelFor p) (if stay then t :: toks else toks) s
    match a with
    | .ok results => continueFlow { s with vars := applyDeclared n s.vars results }
    | .err mode retries =>
      let s := s.emit (.err "taskexecerror")
      match mode with
      | 1 =>
        -- retry: limit := handler.Retries; continue while limit == -1 or limit > attempts
        let attempts := ((s.retry.find? (·.1 == t.fid)).map (·.2)).getD 0
        if retries == -1 || retries > attempts then
          let s := { s with retry := (s.retry.filter (·.1 != t.fid)) ++ [(t.fid, attempts + 1)] }
          runWork cfg p (fuelFor p) [t] s
        else runWork cfg p (fuelFor p) [] (s.recordTerm t.fid)
      | 3 => runWork cfg p (fuelFor p) [] (s.recordTerm t.fid)
      | _ => continueFlow s
  | _, _ => s.oos s!"answer to unknown request {node} {occ}"

/-- top-level tokens still alive -/
def St.topLive (p : Proc) (s : St) : Bool := liveInScope p s "-" []

end Bpmn.Model.Engine
