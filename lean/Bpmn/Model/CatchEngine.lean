import Bpmn.Model.Engine
import Bpmn.Model.CatchEvent
/-
Layer 2 extension for C11: the engine model (`Bpmn.Model.Engine`, where a token reaching a catch event just
parks) composed with the layer-1 model of the event nodes' inboxes (`Bpmn.Model.CatchEvent`).

Between two driver actions everything runs to quiescence: tokens travel until they park; a token newly parked
at a catch event is an `arrive` of the inbox model; a `released` output of the inbox model lets the parked
tokens continue through the engine model. Token ids are the engine model's flow ids.
-/
namespace Bpmn.Model.CatchEngine
open Bpmn.Model Bpmn.Model.Engine Bpmn.Model.CatchEvent

inductive CObs where
  | eng (o : Engine.Obs)
  | listening (n : String)
  | observed (n : String)
  | fire (n : String)
deriving Repr, BEq

structure CSt where
  eng     : Engine.St
  sys     : Sys
  /-- node id of consumer `i`, registration order -/
  ids     : List String
  /-- tokens handed to `arrive` that have not been released -/
  known   : List Nat := []
  started : Bool := false
  obs     : List CObs := []
  oos     : Option String := none
deriving Repr

def CSt.fail (s : CSt) (why : String) : CSt := if s.oos.isSome then s else { s with oos := some why }

/-- move the engine model's observations into ours -/
def CSt.pull (s : CSt) : CSt :=
  { s with obs := s.obs ++ s.eng.obs.map CObs.eng, eng := { s.eng with obs := [] },
           oos := if s.oos.isSome then s.oos else s.eng.outOfScope }

def nodeIdAt (s : CSt) (i : Nat) : String := s.ids.getD i "?"

def kindAt (s : CSt) (i : Nat) : Option NodeKind := (s.sys.nodes[i]?).map (·.kind)

/-- a released token leaves its catch event and runs until it parks again -/
def continueTok (cfg : Cfg) (p : Proc) (s : CSt) (tok : Nat) : CSt :=
  match s.eng.parked.find? (·.fid == tok) with
  | none => s.fail s!"released token {tok} is not parked"
  | some t =>
    match p.node? t.node with
    | none => s.fail s!"unknown node {t.node}"
    | some n =>
      let e := { s.eng with parked := s.eng.parked.filter (·.fid != tok) }
      let (toks, stay, e) := selectFlows cfg p e t n.outs false
      let e := runWork cfg p (fuelFor p) (if stay then t :: toks else toks) e
      ({ s with eng := e, known := s.known.filter (· != tok), obs := s.obs ++ [CObs.fire t.node] }).pull

/-- act on the outputs of the inbox model -/
def applyOuts (cfg : Cfg) (p : Proc) (s : CSt) : Tagged → CSt
  | [] => s
  | (i, o) :: rest =>
    let isStart := kindAt s i == some NodeKind.start
    let s :=
      match o with
      | .listening => { s with obs := s.obs ++ [CObs.listening (nodeIdAt s i)] }
      | .observed => { s with obs := s.obs ++ [CObs.observed (nodeIdAt s i)] }
      | .released toks => if isStart then s else toks.foldl (continueTok cfg p) s
      | .completed _ => s
      | .spawn => s
    applyOuts cfg p s rest

/-- tokens the engine model parked at a catch event since the last look -/
def newArrival (p : Proc) (s : CSt) : Option (Nat × Nat) :=
  (s.eng.parked.find? (fun t => !s.known.contains t.fid &&
      ((p.node? t.node).map (·.kind == .catch_)).getD false)).bind (fun t =>
    match s.ids.idxOf? t.node with
    | some i => some (i, t.fid)
    | none => none)

def absorb (cfg : Cfg) (f : Facts) (p : Proc) : Nat → CSt → CSt
  | 0, s => s.fail "fuel (absorb)"
  | fuel + 1, s =>
    match newArrival p s with
    | none => s
    | some (i, t) =>
      let (sys, outs) := arrive f i t s.sys
      let s := { s with sys, known := t :: s.known }
      absorb cfg f p fuel (applyOuts cfg p s outs)

def fuel (p : Proc) : Nat := 8 * (p.nodes.length + 4)

/-- a start event with event definitions would start extra flows from stale events; not modelled here -/
def startsPlain (s : CSt) : Bool := s.sys.nodes.all (fun n => n.kind != .start || n.defs.isEmpty)

/-- `StartAll`: every start event is triggered (its reader starts and works off what is in its inbox, blocked
callers go on), then the tokens run -/
def startAll (cfg : Cfg) (f : Facts) (p : Proc) (vars : Vars) (s : CSt) : CSt :=
  let s := { s with obs := [], started := true }
  let s := if startsPlain s then s else s.fail "start event with event definitions"
  let idxs := (List.range s.sys.nodes.length).filter (fun i => kindAt s i == some NodeKind.start)
  let s := idxs.foldl (fun s i =>
    let (sys, outs) := arrive f i 0 s.sys
    applyOuts cfg p { s with sys } outs) s
  let s := ({ s with eng := Engine.start cfg p vars }).pull
  absorb cfg f p (fuel p) s

def answer (cfg : Cfg) (f : Facts) (p : Proc) (s : CSt) (node : String) (occ : Nat) (a : Answer) : CSt :=
  let s := { s with obs := [] }
  let s := ({ s with eng := Engine.answer cfg p s.eng node occ a }).pull
  absorb cfg f p (fuel p) s

/-- `Process.ConsumeEvent`; the flag says whether the call returned -/
def deliverEv (cfg : Cfg) (f : Facts) (p : Proc) (s : CSt) (e : Ev) : CSt × Bool :=
  let s := { s with obs := [], eng := { s.eng with obs := [] } }
  let (sys, outs) := CatchEvent.deliver f e s.sys
  let ret := returned s.sys sys
  let s := applyOuts cfg p { s with sys } outs
  (absorb cfg f p (fuel p) s, ret)

end Bpmn.Model.CatchEngine
