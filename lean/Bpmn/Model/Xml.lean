/-
Model of the XML codec of /repo/schema: `encoding/xml` driven by the struct tags of
schema_generated.go / schema_di_generated.go / schema.go / schema_item.go, the generated
`MarshalXML` methods (`PreMarshal` prefixing, root namespace declarations), the hand-written
marshalers (`AnExpression` with `xsi:type`, `QName`, olive extension items) and `schema.Parse`.

The codec is GENERIC over a schema table (`Schema`), which the extractor regenerates from the Go
source on every run (`Bpmn.Gen.C15`). All names (Go type names, Go field names, XML local names,
namespace URIs, prefixes) are interned `Nat` ids so that the table checks can be evaluated by the
kernel quickly; the string tables live in the generated module and are used by the driver only.

Core Lean only.
-/
namespace Bpmn.Model.Xml

/-! ## Schema table -/

/-- how a struct field takes part in (un)marshalling (the flags of its `xml:"…"` tag) -/
inductive Kind where
  | attr | elem | chardata | innerxml | any | anyattr | omit | embed
deriving DecidableEq, Repr, Inhabited

/-- shape of the Go field type: `T`, `*T`, `[]T`, `[]*T` -/
inductive Rep where
  | val | ptr | slice | slicePtr
deriving DecidableEq, Repr, Inhabited

structure Field where
  /-- Go field name (for `embed`: the embedded type's name) -/
  go : Nat
  /-- namespace of the tag, 0 = none -/
  ns : Nat
  /-- XML local name (Go field name when the tag has none, as encoding/xml does) -/
  name : Nat
  kind : Kind
  omitempty : Bool
  rep : Rep
  /-- element type: index into `Schema.structs` when `< structs.length`, else a simple type -/
  ty : Nat
deriving DecidableEq, Repr, Inhabited

/-- what the `MarshalXML` in the (pointer) method set of a struct does -/
inductive MarshalKind where
  /-- no `MarshalXML`: default encoding (name and namespace as the field tag says) -/
  | none
  /-- generated: `PreMarshal(t, e, &start); out := T(*t); e.EncodeElement(out, start)` -/
  | pre
  /-- hand-written: `start.Name = xml.Name{Local: p + start.Name.Local}`; `defaults` are
      `if out.F == "" { out.F = c }` statements (olive `Item`) as (Go field, value) -/
  | pfx (p : Nat) (defaults : List (Nat × String))
  /-- `AnExpression`: adds `xsi:type` and encodes the wrapped expression -/
  | anExpr
  /-- not recognised by the extractor -/
  | other
deriving DecidableEq, Repr, Inhabited

inductive UnmarshalKind where
  | none
  /-- decode into a method-less alias, copy back; `defaults` as for `MarshalKind.pfx` -/
  | alias (defaults : List (Nat × String))
  | anExpr
  | other
deriving DecidableEq, Repr, Inhabited

structure Struct where
  name : Nat
  fields : List Field
  marshal : MarshalKind
  /-- `MarshalXML` has a VALUE receiver: it also runs for a non-addressable value (a value-typed
      field of the copy that the generated marshalers encode) -/
  marshalByValue : Bool
  unmarshal : UnmarshalKind
  /-- the struct whose `UnmarshalXML` is in the method set (promotion through embedding) -/
  unmarshalOwner : Nat
  /-- `TextInterface` (TextPayload/SetTextPayload in the method set): the Go field they access -/
  text : Option Nat
  /-- Go fields (and embedded structs) visited by the generated `FindBy`; `none` = no `FindBy` -/
  findBy : Option (List Nat)
  /-- implements `BaseElementInterface` (what `ExactId` matches on) -/
  baseElem : Bool
deriving Repr, Inhabited

structure Schema where
  structs : List Struct
  /-- `mapping` of schema.go: namespace ↦ prefix put in front of the local name by `PreMarshal` -/
  nsPrefix : List (Nat × Nat)
  /-- `xmlns:p="ns"` attributes `PreMarshal` adds to the root element: prefix ↦ namespace -/
  rootDecls : List (Nat × Nat)
  /-- prefix and local name of the attribute `AnExpression.MarshalXML` writes (`xsi`, `type`) -/
  xsiPrefix : Nat
  typeLocal : Nat
  /-- namespace `AnExpression.UnmarshalXML` requires on that attribute -/
  xsiNs : Nat
  /-- struct indices of `AnExpression`, `FormalExpression`, `Expression` -/
  anExprTy : Nat
  formalTy : Nat
  informalTy : Nat
  /-- root: struct index of `Definitions`, its prefix and local name after `PreMarshal` -/
  rootTy : Nat
  rootPrefix : Nat
  rootLocal : Nat
  /-- simple (non-struct) types with a hand-written `MarshalXML` (`QName`) -/
  simpleMarshal : List (Nat × MarshalKind)
  /-- values `AnExpression.MarshalXML` writes into the type attribute -/
  formalValue : String
  informalValue : String
deriving Repr, Inhabited

def Schema.struct? (S : Schema) (i : Nat) : Option Struct := S.structs[i]?

/-! ## Flattening of embedded structs (port of encoding/xml `getTypeInfo` / `addFieldInfo`) -/

/-- a field of the flattened view: the field, the struct that declares it, its embedding depth -/
structure FField where
  f : Field
  owner : Nat
  depth : Nat
deriving DecidableEq, Repr, Inhabited

/-- encoding/xml `fMode` class: two fields can only conflict inside one class -/
def Kind.mode : Kind → Nat
  | .attr => 1 | .elem => 2 | .chardata => 3 | .innerxml => 4 | .any => 5 | .anyattr => 6
  | .omit => 7 | .embed => 8

/-- the conflict test of `addFieldInfo` (no `a>b` parent chains occur in this schema) -/
def conflicts (o n : Field) : Bool :=
  o.kind.mode == n.kind.mode && o.name == n.name && o.ns == n.ns

inductive AddResult where
  | ok (fs : List FField)
  | clash
deriving Repr

/-- `addFieldInfo`: no conflict → append; a shallower conflicting field exists → ignore the new
one; a conflict at the same depth → error; otherwise drop the deeper ones and append. -/
def addField (fs : List FField) (n : FField) : AddResult :=
  let cs := fs.filter (fun o => conflicts o.f n.f)
  if cs.isEmpty then .ok (fs ++ [n])
  else if cs.any (fun o => o.depth < n.depth) then .ok fs
  else if cs.any (fun o => o.depth == n.depth) then .clash
  else .ok (fs.filter (fun o => !conflicts o.f n.f) ++ [n])

def addFields : List FField → List FField → Option (List FField)
  | fs, [] => some fs
  | fs, n :: ns => match addField fs n with
    | .ok fs' => addFields fs' ns
    | .clash => none

/-- one iteration of the field loop of `getTypeInfo`; `rec` flattens an embedded struct -/
def flattenStep (rec : Nat → Option (List FField)) (ty : Nat) (acc : List FField) (f : Field) :
    Option (List FField) :=
  match f.kind with
  | .omit => some acc
  | .embed =>
    match rec f.ty with
    | none => none
    | some inner => addFields acc (inner.map fun x => { x with depth := x.depth + 1 })
  | _ =>
    match addField acc ⟨f, ty, 0⟩ with
    | .ok acc' => some acc'
    | .clash => none

/-- `getTypeInfo` with `fuel` levels of embedding; `none` = tag conflict (encoding/xml returns an
error for every value of the type) or fuel exhausted. -/
def flatten (S : Schema) : Nat → Nat → Option (List FField)
  | 0, _ => none
  | fuel + 1, ty =>
    match S.struct? ty with
    | none => some []
    | some st => st.fields.foldlM (flattenStep (flatten S fuel) ty) []

def flattenFuel : Nat := 12

/-- the flattened field list of a type (empty for simple types and on error) -/
def fieldsOf (S : Schema) (ty : Nat) : List FField := (flatten S flattenFuel ty).getD []

end Bpmn.Model.Xml

namespace Bpmn.Model.Xml

/-! ## Trees -/

/-- a name as it is written in the serialised form: prefix (0 = none) and local name -/
structure QN where
  pfx : Nat
  loc : Nat
deriving DecidableEq, Repr, Inhabited

/-- an XML element: name, namespace declarations made on it (prefix ↦ namespace, prefix 0 = the
default namespace), attributes, child elements, and all its character data concatenated -/
inductive Xml where
  | elem (name : QN) (decls : List (Nat × Nat)) (attrs : List (QN × String)) (kids : List Xml)
      (text : String)
deriving Repr, Inhabited

/-- a model element. `attrs` is aligned with the attribute fields of the flattened struct
(`none` = nil pointer / omitted empty value), `kids` with its element fields (each a list: a slice,
or at most one for a pointer or value field), `text` is the character data field. For a field of
type `AnExpression` the child is the wrapped expression itself (type `FormalExpression` or
`Expression`). A value of a simple type (QName, string) is a node with text only. -/
inductive Node where
  | mk (ty : Nat) (attrs : List (Option String)) (kids : List (List Node)) (text : String)
deriving Repr, Inhabited

def Node.ty : Node → Nat | .mk t _ _ _ => t
def Node.attrs : Node → List (Option String) | .mk _ a _ _ => a
def Node.kids : Node → List (List Node) | .mk _ _ k _ => k
def Node.text : Node → String | .mk _ _ _ t => t
def Xml.name : Xml → QN | .elem n _ _ _ _ => n
def Xml.decls : Xml → List (Nat × Nat) | .elem _ d _ _ _ => d

/-! ## Views of a struct -/

def attrFields (S : Schema) (ty : Nat) : List FField := (fieldsOf S ty).filter (·.f.kind == .attr)
def elemFields (S : Schema) (ty : Nat) : List FField := (fieldsOf S ty).filter (·.f.kind == .elem)
def hasChardata (S : Schema) (ty : Nat) : Bool := (fieldsOf S ty).any (·.f.kind == .chardata)

def isStruct (S : Schema) (ty : Nat) : Bool := ty < S.structs.length

/-- does an element of this type carry character data (a chardata field, or a simple type) -/
def keepsText (S : Schema) (ty : Nat) : Bool := hasChardata S ty || !isStruct S ty

def marshalKindOf (S : Schema) (ty : Nat) : MarshalKind :=
  match S.struct? ty with
  | some st => st.marshal
  | none => (S.simpleMarshal.lookup ty).getD .none

def unmarshalKindOf (S : Schema) (ty : Nat) : UnmarshalKind :=
  match S.struct? ty with
  | some st => st.unmarshal
  | none => .none

/-- `PreMarshal` trims the text of a `TextInterface` element (and stores it back) -/
def trimsText (S : Schema) (ty : Nat) : Bool :=
  match S.struct? ty with
  | some st => st.text.isSome && st.marshal == .pre
  | none => false

/-- is the child of field `f` encoded by the default rules because its `MarshalXML` (pointer
receiver) cannot be called on a value field of the non-addressable copy -/
def byDefaultRules (S : Schema) (f : Field) : Bool :=
  f.rep == .val && !((S.struct? f.ty).any (·.marshalByValue))

def marshalDefaults (S : Schema) (ty : Nat) : List (Nat × String) :=
  match marshalKindOf S ty with
  | .pfx _ d => d
  | _ => []

def unmarshalDefaults (S : Schema) (ty : Nat) : List (Nat × String) :=
  match unmarshalKindOf S ty with
  | .alias d => d
  | _ => []

/-- `if out.F == "" { out.F = c }` -/
def applyDefault (defaults : List (Nat × String)) (go : Nat) (v : String) : String :=
  match defaults.lookup go with
  | some d => if v == "" then d else v
  | none => v

/-! ## Marshal -/

/-- name and own namespace declaration of the element written for a child held by field `f`,
given what the marshaler that is actually invoked does with `start.Name` -/
def elemHead (S : Schema) (f : Field) (invoked : MarshalKind) : QN × List (Nat × Nat) :=
  let dflt : QN × List (Nat × Nat) := (⟨0, f.name⟩, if f.ns == 0 then [] else [(0, f.ns)])
  match invoked with
  | .pfx p _ => (⟨p, f.name⟩, [])
  | .pre => match S.nsPrefix.lookup f.ns with
    | some p => (⟨p, f.name⟩, [])
    | none => dflt
  | _ => dflt

/-- attributes of a struct value: every present attribute field, in field order -/
def encodeAttrs (defaults : List (Nat × String)) : List FField → List (Option String) → List (QN × String)
  | f :: fs, some v :: vs => (⟨0, f.f.name⟩, applyDefault defaults f.f.go v) :: encodeAttrs defaults fs vs
  | _ :: fs, none :: vs => encodeAttrs defaults fs vs
  | _, _ => []

/-- the Go field name of `AnExpression.Expression` (its element name under default encoding) -/
def exprLocal (S : Schema) : Nat :=
  match S.struct? S.anExprTy with
  | some st => (st.fields.head?.map (·.name)).getD 0
  | none => 0

def typeAttr (S : Schema) (c : Nat) : QN × String :=
  (⟨S.xsiPrefix, S.typeLocal⟩, if c == S.formalTy then S.formalValue else S.informalValue)

mutual
/-- `marshalValue` of one element: `head` is the (already prefixed) name with its declarations,
`extra` the attributes the caller put into `start.Attr`, `trim` whether `PreMarshal` runs on it -/
def marshalNode (S : Schema) (tr : String → String) (head : QN × List (Nat × Nat))
    (extra : List (QN × String)) (trim : Bool) (defaults : List (Nat × String)) : Node → Xml
  | .mk ty attrs kids text =>
    .elem head.1 head.2 (extra ++ encodeAttrs defaults (attrFields S ty) attrs)
      (marshalFields S tr (elemFields S ty) kids)
      (if keepsText S ty then (if trim then tr text else text) else "")

def marshalFields (S : Schema) (tr : String → String) : List FField → List (List Node) → List Xml
  | _, [] => []
  | [], _ :: _ => []
  | f :: fs, ks :: kss => marshalKids S tr f.f ks ++ marshalFields S tr fs kss

/-- the children held by one field. A pointer or slice element is addressable, so the
`MarshalXML` of its type runs; a value field of the (non-addressable) copy is encoded by default
rules, which for `AnExpression` means a nested `<Expression>` element. -/
def marshalKids (S : Schema) (tr : String → String) (f : Field) : List Node → List Xml
  | [] => []
  | .mk cty cattrs ckids ctext :: cs =>
    (if f.ty == S.anExprTy && cty == S.anExprTy then
      -- an `AnExpression` whose `Expression` is nil: `MarshalXML` writes nothing; the default
      -- encoding of a value field still writes the (empty) element
      if byDefaultRules S f then [.elem ⟨0, f.name⟩ (if f.ns == 0 then [] else [(0, f.ns)]) [] [] ""] else []
    else if byDefaultRules S f then
      if f.ty == S.anExprTy then
        [.elem ⟨0, f.name⟩ (if f.ns == 0 then [] else [(0, f.ns)]) []
          [marshalNode S tr (⟨0, exprLocal S⟩, []) [] (trimsText S cty) [] (.mk cty cattrs ckids ctext)] ""]
      else [marshalNode S tr (elemHead S f .none) [] false [] (.mk cty cattrs ckids ctext)]
    else if f.ty == S.anExprTy then
      [marshalNode S tr (elemHead S f .pre) [typeAttr S cty] (trimsText S cty) [] (.mk cty cattrs ckids ctext)]
    else
      [marshalNode S tr (elemHead S f (marshalKindOf S f.ty)) [] (trimsText S cty)
        (marshalDefaults S f.ty) (.mk cty cattrs ckids ctext)])
    ++ marshalKids S tr f cs
end

/-- `xml.Marshal(definitions)` -/
def marshal (S : Schema) (tr : String → String) (n : Node) : Xml :=
  marshalNode S tr (⟨S.rootPrefix, S.rootLocal⟩, S.rootDecls) [] (trimsText S S.rootTy) [] n

/-! ## Parse -/

/-- namespace of a serialised name under the declarations in scope: `some ns`, or `none` when the
prefix is not declared (encoding/xml then keeps the prefix itself as the "namespace", which
matches nothing). An unprefixed ELEMENT takes the default namespace. -/
def resolveElem (env : List (Nat × Nat)) (q : QN) : Option Nat :=
  match env.lookup q.pfx with
  | some ns => some ns
  | none => if q.pfx == 0 then some 0 else none

/-- an unprefixed ATTRIBUTE has no namespace -/
def resolveAttr (env : List (Nat × Nat)) (q : QN) : Option Nat :=
  if q.pfx == 0 then some 0 else env.lookup q.pfx

/-- field/name match of encoding/xml: a tag without namespace matches any namespace -/
def nameMatches (f : Field) (ns : Option Nat) (loc : Nat) : Bool :=
  f.name == loc && (f.ns == 0 || ns == some f.ns)

/-- the value of the last attribute that matches the field -/
def findAttr (env : List (Nat × Nat)) (f : Field) : List (QN × String) → Option String
  | [] => none
  | (q, v) :: rest =>
    match findAttr env f rest with
    | some w => some w
    | none => if nameMatches f (resolveAttr env q) q.loc then some v else none

def isFormalValue (S : Schema) (v : String) : Bool :=
  v == S.formalValue || v.endsWith (":" ++ S.formalValue)

/-- `AnExpression.UnmarshalXML`: formal iff some attribute in the XSI namespace named `type`
has an accepted value -/
def isFormal (S : Schema) (env : List (Nat × Nat)) (attrs : List (QN × String)) : Bool :=
  attrs.any fun (q, v) => resolveAttr env q == some S.xsiNs && q.loc == S.typeLocal && isFormalValue S v

/-- index and field of the first element field the child's name matches -/
def findField (env : List (Nat × Nat)) (x : Xml) : List FField → Nat → Option (Nat × Field)
  | [], _ => none
  | f :: fs, i =>
    if nameMatches f.f (resolveElem (x.decls ++ env) x.name) x.name.loc then some (i, f.f)
    else findField env x fs (i + 1)

/-- the children collected for field number `i` -/
def collect (i : Nat) : List (Nat × Node) → List Node
  | [] => []
  | (j, n) :: rest => if j == i then n :: collect i rest else collect i rest

/-- a VALUE field always holds a value: when no child element was decoded into it, it is the zero
value (for `AnExpression`: the wrapper with a nil `Expression`; for a simple type: empty) -/
def fillValue (S : Schema) (f : Field) (cs : List Node) : List Node :=
  if f.rep == .val && cs.isEmpty then
    [if isStruct S f.ty then .mk f.ty ((attrFields S f.ty).map fun _ => none)
        ((elemFields S f.ty).map fun _ => []) ""
     else .mk f.ty [] [] ""]
  else cs

/-- the Go type an element is decoded into when the field's type is `ty`: `AnExpression.UnmarshalXML`
picks the formal or the informal expression type from the type attribute -/
def parseTy (S : Schema) (env' : List (Nat × Nat)) (ty : Nat) (attrs : List (QN × String)) : Nat :=
  if ty == S.anExprTy then (if isFormal S env' attrs then S.formalTy else S.informalTy) else ty

mutual
/-- unmarshal one element into a value of type `ty` (`AnExpression`: into the wrapped expression) -/
def parseElem (S : Schema) (env : List (Nat × Nat)) (ty : Nat) : Xml → Option Node
  | .elem _ decls attrs kids text =>
    let env' := decls ++ env
    let ty' := parseTy S env' ty attrs
    let d := unmarshalDefaults S ty'
    let efs := elemFields S ty'
    match parseKids S env' efs kids with
    | none => none
    | some ks =>
      some (.mk ty'
        ((attrFields S ty').map fun f => (findAttr env' f.f attrs).map (applyDefault d f.f.go))
        ((efs.zipIdx).map fun (f, i) => fillValue S f.f (collect i ks))
        (if keepsText S ty' then text else ""))

/-- each child goes to the first field it matches; children matching no field are skipped -/
def parseKids (S : Schema) (env : List (Nat × Nat)) (efs : List FField) : List Xml → Option (List (Nat × Node))
  | [] => some []
  | .elem n dc ats ks tx :: rest =>
    match findField env (.elem n dc ats ks tx) efs 0 with
    | none => parseKids S env efs rest
    | some (i, f) =>
      match parseElem S env f.ty (.elem n dc ats ks tx), parseKids S env efs rest with
      | some c, some cs => some ((i, c) :: cs)
      | _, _ => none
end

/-- `schema.Parse` -/
def parse (S : Schema) (x : Xml) : Option Node := parseElem S [] S.rootTy x

/-! ## What a round trip is allowed to change: text trimming and the olive `Item` default -/

def normAttrs (d : List (Nat × String)) : List FField → List (Option String) → List (Option String)
  | f :: fs, v :: vs => v.map (applyDefault d f.f.go) :: normAttrs d fs vs
  | _, _ => []

/-- does `PreMarshal` (which trims the text) run on a child of type `cty` held by field `f`: not on a
value field encoded by the default rules (its pointer-receiver `MarshalXML` is never called) -/
def kidTrim (S : Schema) (f : Field) (cty : Nat) : Bool :=
  if byDefaultRules S f && f.ty != S.anExprTy then false else trimsText S cty

mutual
/-- the model a round trip returns for `n`: the same tree, with the text of an element on which
`PreMarshal` runs (`trim`) trimmed, the text of an element that keeps none dropped, and the olive
`Item` defaults (`if out.F == "" { out.F = c }`) of the element's own type applied -/
def norm (S : Schema) (tr : String → String) (trim : Bool) : Node → Node
  | .mk ty attrs kids text =>
    .mk ty (normAttrs (unmarshalDefaults S ty) (attrFields S ty) attrs) (normFields S tr (elemFields S ty) kids)
      (if keepsText S ty then (if trim then tr text else text) else "")
def normFields (S : Schema) (tr : String → String) : List FField → List (List Node) → List (List Node)
  | _, [] => []
  | [], _ :: _ => []
  | f :: fs, ks :: kss => normKids S tr f.f ks :: normFields S tr fs kss
def normKids (S : Schema) (tr : String → String) (f : Field) : List Node → List Node
  | [] => []
  | .mk cty a k t :: cs => norm S tr (kidTrim S f cty) (.mk cty a k t) :: normKids S tr f cs
end

/-- what `schema.Parse (xml.Marshal d)` is expected to return for a definitions `d` -/
def normRoot (S : Schema) (tr : String → String) (n : Node) : Node := norm S tr (trimsText S S.rootTy) n

end Bpmn.Model.Xml

namespace Bpmn.Model.Xml

/-! ## Table checks (Bool, evaluated by the kernel on the extracted table) -/

/-- can the decoder confuse the two tags (a tag without namespace matches any namespace) -/
def keyClash (a b : Field) : Bool :=
  a.name == b.name && (a.ns == 0 || b.ns == 0 || a.ns == b.ns)

def pairwiseNoClash : List FField → Bool
  | [] => true
  | f :: fs => fs.all (fun g => !keyClash f.f g.f) && pairwiseNoClash fs

/-- the marshaler that runs for a child held by field `f` (a value field of the non-addressable
copy gets none) -/
def invokedKind (S : Schema) (f : Field) : MarshalKind :=
  if byDefaultRules S f then .none
  else if f.ty == S.anExprTy then .pre
  else marshalKindOf S f.ty

/-- the name written for a child of field `f` resolves, under the root declarations, to the
namespace of the field's tag -/
def headResolves (S : Schema) (f : Field) : Bool :=
  let h := elemHead S f (invokedKind S f)
  resolveElem (h.2 ++ S.rootDecls) h.1 == some f.ns

/-- per struct: no tag conflict (encoding/xml would fail), element tags pairwise distinguishable,
attribute tags likewise, attributes un-namespaced and simple, every element field tagged, at most
one chardata field and it is the one `TextPayload` accesses, no innerxml/any, marshalers recognised -/
def structOk (S : Schema) (i : Nat) : Bool :=
  match flatten S flattenFuel i, S.struct? i with
  | some fs, some st =>
    let efs := fs.filter (·.f.kind == .elem)
    let afs := fs.filter (·.f.kind == .attr)
    let cfs := fs.filter (·.f.kind == .chardata)
    st.marshal == .anExpr ||
    (pairwiseNoClash efs && pairwiseNoClash afs
      && afs.all (fun f => f.f.ns == 0 && !isStruct S f.f.ty)
      && efs.all (fun f => f.f.name != f.f.go && f.f.ns != 0)
      && fs.all (fun f => f.f.kind != .innerxml && f.f.kind != .any && f.f.kind != .anyattr)
      && cfs.length ≤ 1
      && (match st.text with
          | some g => cfs.all (fun f => f.f.go == g && f.depth == 0)
          | none => true)
      && st.marshal != .other && st.unmarshal != .other
      && marshalDefaults S i == unmarshalDefaults S i)
  | _, _ => false

def wfB (S : Schema) : Bool :=
  (List.range S.structs.length).all (structOk S)
  && (S.struct? S.formalTy).any (·.marshal == .pre) && (S.struct? S.informalTy).any (·.marshal == .pre)
  && (attrFields S S.formalTy).all (·.f.name != S.typeLocal)
  && (attrFields S S.informalTy).all (·.f.name != S.typeLocal)
  && S.formalValue != S.informalValue

/-- every prefix the marshalers write in front of an element name is declared on the root and
bound to the namespace the decoder will look for -/
def prefixesDeclaredB (S : Schema) : Bool :=
  (List.range S.structs.length).all fun i =>
    (elemFields S i).all fun f => headResolves S f.f

/-- the prefix of the type attribute is declared on the root, bound to the XSI namespace -/
def xsiDeclaredB (S : Schema) : Bool := S.rootDecls.lookup S.xsiPrefix == some S.xsiNs

/-- element fields held by value whose type has a pointer-receiver marshaler (not invoked) -/
def valueStructFields (S : Schema) : List (Nat × Nat) :=
  (List.range S.structs.length).flatMap fun i =>
    match S.struct? i with
    | some st => (st.fields.filter fun f => f.kind == .elem && byDefaultRules S f && isStruct S f.ty).map fun f => (i, f.go)
    | none => []

/-- those of them whose type is `AnExpression`: the default rules write the wrapped expression as a
nested element that `AnExpression.UnmarshalXML` never looks at, so it is lost. (A value-typed
`FormalExpression` field is merely written un-prefixed with a default namespace and reads back.) -/
def valueExprFields (S : Schema) : List (Nat × Nat) :=
  (List.range S.structs.length).flatMap fun i =>
    match S.struct? i with
    | some st => (st.fields.filter fun f => f.kind == .elem && byDefaultRules S f && f.ty == S.anExprTy
        && i != S.anExprTy).map fun f => (i, f.go)
    | none => []

/-! ### FindBy coverage -/

/-- one round of: a struct can contain an id-carrying element if it is one, embeds one, or has an
element field whose type can -/
def reachStep (S : Schema) (cur : List Bool) : List Bool :=
  (S.structs.zip cur).map fun (st, b) =>
    b || st.baseElem || st.fields.any fun f =>
      (f.kind == .embed || f.kind == .elem) && (cur.getD f.ty false)

def reachBase (S : Schema) : List Bool :=
  let init := (S.structs.zipIdx).map fun (st, i) => st.baseElem || i == S.anExprTy
  (List.range 10).foldl (fun cur _ => reachStep S cur) init

/-- every embedded struct and every element field that can contain an id-carrying element is
visited by the generated `FindBy` of the struct that declares it -/
def findByCoversB (S : Schema) : Bool :=
  let reach := reachBase S
  (S.structs.zip reach).all fun (st, r) =>
    !r || st.marshal == .anExpr ||
    match st.findBy with
    | none => false
    | some visited => st.fields.all fun f =>
        !((f.kind == .embed || f.kind == .elem) && reach.getD f.ty false) || visited.contains f.go

end Bpmn.Model.Xml

namespace Bpmn.Model.Xml

/-! ## What `PreMarshal` stores back into the model being serialised: the trimmed text -/

mutual
def stored (S : Schema) (tr : String → String) : Node → Node
  | .mk ty attrs kids text =>
    .mk ty attrs (storedFields S tr kids) (if trimsText S ty then tr text else text)
def storedFields (S : Schema) (tr : String → String) : List (List Node) → List (List Node)
  | [] => []
  | ks :: kss => storedKids S tr ks :: storedFields S tr kss
def storedKids (S : Schema) (tr : String → String) : List Node → List Node
  | [] => []
  | c :: cs => stored S tr c :: storedKids S tr cs
end

/-! ## Well-typed nodes: aligned with the flattened field lists, children of the declared type
(a VALUE field always holds exactly one value, a pointer field at most one) -/

mutual
def wellTypedB (S : Schema) : Node → Bool
  | .mk ty attrs kids text =>
    attrs.length == (attrFields S ty).length && wtFields S (elemFields S ty) kids
      && (keepsText S ty || text == "")
def wtFields (S : Schema) : List FField → List (List Node) → Bool
  | [], [] => true
  | f :: fs, ks :: kss => (f.f.rep != .val || !ks.isEmpty) && wtKids S f.f ks && wtFields S fs kss
  | _, _ => false
def wtKids (S : Schema) (f : Field) : List Node → Bool
  | [] => true
  | .mk cty a k t :: cs =>
    (if f.ty == S.anExprTy then cty == S.formalTy || cty == S.informalTy else cty == f.ty)
      && (f.rep == .slice || f.rep == .slicePtr || cs.isEmpty)
      && wellTypedB S (.mk cty a k t) && wtKids S f cs
end

def WellTyped (S : Schema) (n : Node) : Prop := wellTypedB S n = true

end Bpmn.Model.Xml

namespace Bpmn.Model.Xml

/-- build a node of type `ty` from (Go field ↦ value) lists, aligned with the flattened fields -/
def mkNode (S : Schema) (ty : Nat) (attrs : List (Nat × String)) (kids : List (Nat × List Node))
    (text : String) : Node :=
  .mk ty ((attrFields S ty).map fun f => attrs.lookup f.f.go)
    ((elemFields S ty).map fun f => (kids.lookup f.f.go).getD []) text

end Bpmn.Model.Xml
