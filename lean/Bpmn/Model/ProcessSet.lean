/-!
# Process set (layer 1): `process_set.go`

A port of what `ProcessSet` does, at the granularity of the goroutines that race in it.

* A **member** is one process instance of the set: an executable process started by `StartAll`, or a waiting
  process instantiated by the `run` loop for a message flow. The member process itself is abstract: a stream of
  the traces the set's watcher looks at (`Ev.throw id` — a `FlowTrace` whose source is the throw event `id`;
  `Ev.listen c` — an `ActiveListeningTrace` of catch event `c`, after which the process waits for that event;
  `Ev.tau` — any other trace), followed by the `CeaseFlowTrace` (`Tr.cease`).
* The **watcher** of a member is `tracerProcess`: `wg.Add(1)` and `go` happen in `StartAll` / `run` AFTER the
  process was started; its first action is `process.Tracer().Subscribe()`. Whatever the member emits before the
  subscription is lost to the watcher (`Member.missed`). `Cfg.subBeforeStart` / `Cfg.instSubBeforeStart` (extracted
  facts) say whether the subscription is established before the process is started.
  `Cfg.addBeforeStart` / `Cfg.instAddBeforeStart` say whether `wg.Add(1); go tracerProcess` also precede the start
  (then the member is registered in the very step that starts it).
* `WaitUntilComplete` spawns, on EVERY call, a goroutine `wg.Wait(); close(ps.done)` (a **closer**). A second
  `close` of the channel panics unless the close is guarded (`Cfg.closeOnce`, extracted).
* `run` handles throw messages (`mch`) — instantiate the waiting process at the referenced start event, or wake
  the referenced catch event through the registry `catchCh` — and, once `done` is closed, sends the one
  `CeaseProcessSetTrace` and returns. Go's `select` picks among ready cases at random: both `runMsg` and `runDone`
  may be enabled.

Scheduling is explicit: a run of the model is a `List Choice`; a choice that is not enabled is a no-op.
Ghost fields (they influence no transition) are marked as such.

Not modelled: cancellation of the context; the bound of `mch` (capacity `len(executes)+1`, extracted and recorded;
the watcher's send is taken as never blocking); the bound 10 of the subscription channel; `sync.WaitGroup`
misuse panics (`Add` concurrent with a `Wait` that sees zero).
-/
namespace Bpmn.Model.ProcessSet

inductive Ev where
  | tau
  | throw (id : Nat)
  | listen (c : Nat)
deriving DecidableEq, Repr

inductive Tr where
  | ev (e : Ev)
  | cease
deriving DecidableEq, Repr

/-- target of a message flow: the start event of waiting process `w`, or catch event `c` -/
inductive Target where
  | start (w : Nat)
  | catch_ (c : Nat)
deriving DecidableEq, Repr

/-- facts of the source (regenerated on every run) -/
structure Cfg where
  /-- `StartAll`: the watcher's subscription is established before `process.StartAll(ctx)` -/
  subBeforeStart : Bool
  /-- `run`: the watcher's subscription is established before `process.StartWith(ctx, startFlowNode)` -/
  instSubBeforeStart : Bool
  /-- `close(ps.done)` is executed at most once (sync.Once / a single closing goroutine) -/
  closeOnce : Bool
  /-- `StartAll`: `wg.Add(1); go ps.tracerProcess(...)` precede `process.StartAll(ctx)` -/
  addBeforeStart : Bool := false
  /-- `run`: `wg.Add(1); go ps.tracerProcess(...)` precede `process.StartWith(ctx, startFlowNode)` -/
  instAddBeforeStart : Bool := false
deriving DecidableEq, Repr

/-- the code as it should be -/
def Cfg.repaired : Cfg :=
  { subBeforeStart := true, instSubBeforeStart := true, closeOnce := true, addBeforeStart := true, instAddBeforeStart := true }

structure Setup where
  /-- trace streams of the executable processes, in `StartAll` order -/
  execs : List (List Ev)
  /-- trace streams of the waiting (non-executable) processes -/
  waitings : List (List Ev)
  /-- message flows: throw event id ↦ target -/
  flows : List (Nat × Target)
deriving Repr

def Setup.target (su : Setup) (id : Nat) : Option Target := (su.flows.find? (·.1 == id)).map (·.2)

structure Member where
  /-- what the process has still to emit (then `Tr.cease`) -/
  todo : List Ev
  /-- ghost: `none` = started by `StartAll`; `some id` = instantiated by `run` for a message of throw event `id` -/
  origin : Option Nat := none
  /-- ghost: everything emitted so far -/
  emitted : List Tr := []
  /-- ghost: the `CeaseFlowTrace` was emitted -/
  ceased : Bool := false
  /-- the process sits at catch event `c` and waits for its event -/
  blocked : Option Nat := none
  /-- `wg.Add(1)` done and the watcher goroutine spawned -/
  counted : Bool := false
  subscribed : Bool := false
  /-- the watcher's subscription channel -/
  queue : List Tr := []
  /-- the watcher has returned (`wg.Done()`) -/
  finished : Bool := false
  /-- ghost: registered with the wait group when `done` was already closed -/
  lateJoin : Bool := false
  /-- ghost: traces emitted while the watcher was not subscribed -/
  missed : List Tr := []
deriving Repr, DecidableEq

/-- a member at the moment its process is started; `reg`: its watcher is already registered with the wait group -/
def Member.fresh (str : List Ev) (origin : Option Nat) (sub reg closed : Bool) : Member :=
  { todo := str, origin := origin, subscribed := sub, counted := reg, lateJoin := reg && closed }

/-- the goroutine a watcher spawns on an `ActiveListeningTrace`: waits for `ready` to be closed, then feeds the
catch event's own definitions to the member process -/
structure Waker where
  c : Nat
  member : Nat
  ready : Bool := false
  done : Bool := false
deriving Repr, DecidableEq

structure Wait where
  /-- the goroutine `wg.Wait(); close(done)` of this call has run -/
  closerDone : Bool := false
  /-- `none` = the caller is still in the `select` -/
  result : Option Bool := none
deriving Repr, DecidableEq

structure State where
  members : List Member := []
  /-- `StartAll`: executable processes not yet started -/
  toStart : List (List Ev)
  /-- `StartAll` has started member `i` and not yet done `wg.Add(1); go tracerProcess` -/
  saPending : Option Nat := none
  /-- `run` has started member `i` (instantiation) and not yet done `wg.Add(1); go tracerProcess` -/
  runPending : Option Nat := none
  wg : Nat := 0
  /-- number of `close(ps.done)` executed without panicking -/
  closes : Nat := 0
  panicked : Bool := false
  /-- `ps.mch`: ids of throw events -/
  mch : List Nat := []
  runAlive : Bool := true
  /-- number of `CeaseProcessSetTrace` sent -/
  ceaseSet : Nat := 0
  /-- `ps.catchCh`: catch event ↦ index of its waker -/
  catches : List (Nat × Nat) := []
  wakers : List Waker := []
  waits : List Wait := []
  /-- ghost: throw events emitted by members, in order -/
  thrown : List Nat := []
  /-- ghost: messages `run` turned into an instantiation of a waiting process -/
  instantiated : List Nat := []
  /-- ghost: messages `run` turned into the wake-up of a listening catch event -/
  woken : List Nat := []
  /-- ghost: messages `run` handled without effect (no message flow, unknown target, catch event not listening) -/
  dropped : List Nat := []
  /-- ghost: a wait was called while `StartAll` had not returned -/
  earlyWait : Bool := false
  /-- ghost: `done` was closed while a throw message was on its way (emitted and not yet fully handled) -/
  closedInFlight : Bool := false
deriving Repr

def init (su : Setup) : State := { toStart := su.execs }

inductive Choice where
  /-- `StartAll` starts the next executable process -/
  | saStart
  /-- `StartAll`: `wg.Add(1); go ps.tracerProcess(...)` for the process it has just started -/
  | saRegister
  /-- member `i` emits its next trace -/
  | proc (i : Nat)
  /-- the watcher of member `i` subscribes -/
  | subscribe (i : Nat)
  /-- the watcher of member `i` handles the next trace of its channel -/
  | watcher (i : Nat)
  /-- `run` takes a message from `mch` -/
  | runMsg
  /-- `run`: `wg.Add(1); go ps.tracerProcess(...)` for the process it has just instantiated -/
  | runRegister
  /-- `run` takes the `<-ps.done` branch -/
  | runDone
  /-- waker `k` sees its channel closed and feeds the event to its process -/
  | waker (k : Nat)
  /-- a caller enters `WaitUntilComplete` (its index is the number of earlier calls) -/
  | waitCall
  /-- `wg.Wait()` of call `w` returns and `close(ps.done)` is executed -/
  | closer (w : Nat)
  /-- call `w` returns `true` -/
  | waitReturn (w : Nat)
  /-- call `w` returns `false` (its context expired) -/
  | waitTimeout (w : Nat)
deriving DecidableEq, Repr

/-- choices of the environment: a caller enters `WaitUntilComplete`, a caller's context expires -/
def Choice.isEnv : Choice → Bool
  | .waitCall => true
  | .waitTimeout _ => true
  | _ => false

/-- a throw message is on its way: emitted by a member and not yet turned into its effect -/
def Member.hasThrowQueued (m : Member) : Bool := m.queue.any (fun t => match t with | .ev (.throw _) => true | _ => false)

def State.inFlight (s : State) : Bool :=
  !s.mch.isEmpty || s.runPending.isSome || s.members.any (·.hasThrowQueued)

/-- `wg.Add(1); go ps.tracerProcess(...)` for member `i` -/
def regMember (ms : List Member) (i : Nat) (closed : Bool) : List Member :=
  match ms[i]? with
  | some m => ms.set i { m with counted := true, lateJoin := closed }
  | none => ms

/-- the next trace of a member process -/
def Member.nextTr (m : Member) : Tr :=
  match m.todo with
  | e :: _ => .ev e
  | [] => .cease

/-- the member emits its next trace: into the watcher's channel if it is subscribed, else lost to it -/
def Member.emit (m : Member) : Member :=
  { m with
    todo := m.todo.tail
    emitted := m.emitted ++ [m.nextTr]
    ceased := decide (m.nextTr = .cease)
    blocked := match m.nextTr with | .ev (.listen c) => some c | _ => none
    queue := if m.subscribed then m.queue ++ [m.nextTr] else m.queue
    missed := if m.subscribed then m.missed else m.missed ++ [m.nextTr] }

def thrownBy : Tr → List Nat
  | .ev (.throw id) => [id]
  | _ => []

/-- the waker's `ConsumeEvent`: the catch event fires and the process goes on -/
def unblock (ms : List Member) (i c : Nat) : List Member :=
  match ms[i]? with
  | some m => if m.blocked = some c then ms.set i { m with blocked := none } else ms
  | none => ms

/-- what `run` does with a throw message -/
inductive Routed where
  /-- instantiate the waiting process with this stream -/
  | inst (str : List Ev)
  /-- close the channel of waker `k`, registered for catch event `c` -/
  | wake (c k : Nat) (wk : Waker)
  /-- nothing: no message flow from this throw event, or its catch event is not listening -/
  | drop
deriving Repr

def route (su : Setup) (s : State) (id : Nat) : Routed :=
  match su.target id with
  | some (.start w) =>
    match su.waitings[w]? with
    | some str => .inst str
    | none => .drop
  | some (.catch_ c) =>
    match s.catches.find? (·.1 == c) with
    | some (_, k) =>
      match s.wakers[k]? with
      | some wk => .wake c k wk
      | none => .drop
    | none => .drop
  | none => .drop

/-- the transition of one choice; `none` = not enabled -/
def next (cfg : Cfg) (su : Setup) (s : State) (c : Choice) : Option State :=
  if s.panicked then none else
  match c with
  | .saStart =>
    match s.toStart, s.saPending with
    | str :: rest, none =>
      some { s with members := s.members ++ [Member.fresh str none cfg.subBeforeStart cfg.addBeforeStart (decide (1 ≤ s.closes))],
                    toStart := rest,
                    wg := s.wg + (if cfg.addBeforeStart then 1 else 0),
                    saPending := if cfg.addBeforeStart then none else some s.members.length }
    | _, _ => none
  | .saRegister =>
    match s.saPending with
    | some i => some { s with members := regMember s.members i (decide (1 ≤ s.closes)), wg := s.wg + 1, saPending := none }
    | none => none
  | .proc i =>
    match s.members[i]? with
    | some m =>
      if m.ceased || m.blocked.isSome then none else
      some { s with members := s.members.set i m.emit, thrown := s.thrown ++ thrownBy m.nextTr }
    | none => none
  | .subscribe i =>
    match s.members[i]? with
    | some m => if m.counted && !m.subscribed then some { s with members := s.members.set i { m with subscribed := true } }
                else none
    | none => none
  | .watcher i =>
    match s.members[i]? with
    | some m =>
      if m.counted && m.subscribed && !m.finished then
        match m.queue with
        | [] => none
        | .ev .tau :: q => some { s with members := s.members.set i { m with queue := q } }
        | .ev (.throw id) :: q => some { s with members := s.members.set i { m with queue := q }, mch := s.mch ++ [id] }
        | .ev (.listen c) :: q =>
          some { s with members := s.members.set i { m with queue := q },
                        catches := (c, s.wakers.length) :: s.catches.filter (·.1 != c),
                        wakers := s.wakers ++ [{ c := c, member := i }],
                        wg := s.wg + 1 }
        | .cease :: q => some { s with members := s.members.set i { m with queue := q, finished := true }, wg := s.wg - 1 }
      else none
    | none => none
  | .runMsg =>
    if s.runAlive && s.runPending.isNone then
      match s.mch with
      | [] => none
      | id :: rest =>
        match route su s id with
        | .inst str =>
          some { s with mch := rest, instantiated := s.instantiated ++ [id],
                        members := s.members ++ [Member.fresh str (some id) cfg.instSubBeforeStart cfg.instAddBeforeStart (decide (1 ≤ s.closes))],
                        wg := s.wg + (if cfg.instAddBeforeStart then 1 else 0),
                        runPending := if cfg.instAddBeforeStart then none else some s.members.length }
        | .wake c k wk =>
          some { s with mch := rest, woken := s.woken ++ [id],
                        catches := s.catches.filter (·.1 != c),
                        wakers := s.wakers.set k { wk with ready := true } }
        | .drop => some { s with mch := rest, dropped := s.dropped ++ [id] }
    else none
  | .runRegister =>
    match s.runPending with
    | some i => some { s with members := regMember s.members i (decide (1 ≤ s.closes)), wg := s.wg + 1, runPending := none }
    | none => none
  | .runDone =>
    if s.runAlive && s.runPending.isNone && decide (1 ≤ s.closes) then
      some { s with runAlive := false, ceaseSet := s.ceaseSet + 1 }
    else none
  | .waker k =>
    match s.wakers[k]? with
    | some wk =>
      if wk.ready && !wk.done then
        some { s with wakers := s.wakers.set k { wk with done := true }, wg := s.wg - 1,
                      members := unblock s.members wk.member wk.c }
      else none
    | none => none
  | .waitCall =>
    some { s with waits := s.waits ++ [{}],
                  earlyWait := s.earlyWait || !s.toStart.isEmpty || s.saPending.isSome }
  | .closer w =>
    match s.waits[w]? with
    | some wt =>
      if !wt.closerDone && s.wg == 0 then
        if s.closes == 0 then
          some { s with waits := s.waits.set w { wt with closerDone := true }, closes := 1, closedInFlight := s.inFlight }
        else if cfg.closeOnce then some { s with waits := s.waits.set w { wt with closerDone := true } }
        else some { s with waits := s.waits.set w { wt with closerDone := true }, panicked := true }
      else none
    | none => none
  | .waitReturn w =>
    match s.waits[w]? with
    | some wt => if wt.result.isNone && decide (1 ≤ s.closes) then
                   some { s with waits := s.waits.set w { wt with result := some true } }
                 else none
    | none => none
  | .waitTimeout w =>
    match s.waits[w]? with
    | some wt => if wt.result.isNone then some { s with waits := s.waits.set w { wt with result := some false } } else none
    | none => none

def enabled (cfg : Cfg) (su : Setup) (s : State) (c : Choice) : Bool := (next cfg su s c).isSome

def step (cfg : Cfg) (su : Setup) (s : State) (c : Choice) : State := (next cfg su s c).getD s

/-- run a schedule from a state -/
def runFrom (cfg : Cfg) (su : Setup) (s : State) (sch : List Choice) : State := sch.foldl (step cfg su) s

def exec (cfg : Cfg) (su : Setup) (sch : List Choice) : State := runFrom cfg su (init su) sch

/-- states reachable under some schedule -/
inductive Reach (cfg : Cfg) (su : Setup) : State → Prop where
  | init : Reach cfg su (init su)
  | step {s : State} (c : Choice) : Reach cfg su s → Reach cfg su (step cfg su s c)

/-- no goroutine of the set can take a step: only the environment can act (a new call, an expiring context) -/
def Quiescent (cfg : Cfg) (su : Setup) (s : State) : Prop := ∀ c, enabled cfg su s c = true → c.isEnv = true

/-- the choices that are not the environment's and whose indices are in range -/
def internalChoices (s : State) : List Choice :=
  [.saStart, .saRegister, .runMsg, .runRegister, .runDone]
  ++ (List.range s.members.length).flatMap (fun i => [.proc i, .subscribe i, .watcher i])
  ++ (List.range s.wakers.length).map .waker
  ++ (List.range s.waits.length).flatMap (fun w => [.closer w, .waitReturn w])

/-- executable form of `Quiescent` -/
def quiescentB (cfg : Cfg) (su : Setup) (s : State) : Bool := (internalChoices s).all (fun c => !enabled cfg su s c)

/-! observations -/

def State.waitResults (s : State) : List (Option Bool) := s.waits.map (·.result)
def State.allCeased (s : State) : Bool := s.members.all (·.ceased)
/-- members created by `run` for throw event `id` -/
def State.instances (s : State) (id : Nat) : Nat := (s.members.filter (·.origin == some id)).length

end Bpmn.Model.ProcessSet
