/-!
# Process set (layer 1): `process_set.go`

A port of what `ProcessSet` does, at the granularity of the goroutines that race in it.

* A **member** is one process instance of the set: an executable process started by `StartAll`, or a waiting
  process instantiated by the `run` loop for a message flow. The member process itself is abstract: a stream of
  the traces the set's watcher looks at (`Ev.throw id` — a `FlowTrace` whose source is the throw event `id`;
  `Ev.listen c` — an `ActiveListeningTrace` of catch event `c`, after which the process waits for that event;
  `Ev.tau` — any other trace), followed by the `CeaseFlowTrace` (`Tr.cease`).
* The **watcher** of a member is `tracerProcess`: `wg.Add(1)` and `go` happen in `StartAll` / `run` AFTER the
  process was started; its first action is `process.Tracer().Subscribe()`. Whatever the member emits before the
  subscription is lost to the watcher (`Member.missed`). `Cfg.subBeforeStart` / `Cfg.instSubBeforeStart` (extracted
  facts) say whether the subscription is established before the process is started.
* `WaitUntilComplete` spawns, on EVERY call, a goroutine `wg.Wait(); close(ps.done)` (a **closer**). A second
  `close` of the channel panics unless the close is guarded (`Cfg.closeOnce`, extracted).
* `run` handles throw messages (`mch`) — instantiate the waiting process at the referenced start event, or wake
  the referenced catch event through the registry `catchCh` — and, once `done` is closed, sends the one
  `CeaseProcessSetTrace` and returns. Go's `select` picks among ready cases at random: both `runMsg` and `runDone`
  may be enabled.

Scheduling is explicit: a run of the model is a `List Choice`; a choice that is not enabled is a no-op.
Ghost fields (they influence no transition) are marked as such.

Not modelled: cancellation of the context; the bound of `mch` (capacity `len(executes)+1`, extracted and recorded;
the watcher's send is taken as never blocking); the bound 10 of the subscription channel; `sync.WaitGroup`
misuse panics (`Add` concurrent with a `Wait` that sees zero).
-/
namespace Bpmn.Model.ProcessSet

inductive Ev where
  | tau
  | throw (id : Nat)
  | listen (c : Nat)
deriving DecidableEq, Repr

inductive Tr where
  | ev (e : Ev)
  | cease
deriving DecidableEq, Repr

/-- target of a message flow: the start event of waiting process `w`, or catch event `c` -/
inductive Target where
  | start (w : Nat)
  | catch_ (c : Nat)
deriving DecidableEq, Repr

/-- facts of the source (regenerated on every run) -/
structure Cfg where
  /-- `StartAll`: the watcher's subscription is established before `process.StartAll(ctx)` -/
  subBeforeStart : Bool
  /-- `run`: the watcher's subscription is established before `process.StartWith(ctx, startFlowNode)` -/
  instSubBeforeStart : Bool
  /-- `close(ps.done)` is executed at most once (sync.Once / a single closing goroutine) -/
  closeOnce : Bool
deriving DecidableEq, Repr

/-- the code as it should be -/
def Cfg.repaired : Cfg := { subBeforeStart := true, instSubBeforeStart := true, closeOnce := true }

structure Setup where
  /-- trace streams of the executable processes, in `StartAll` order -/
  execs : List (List Ev)
  /-- trace streams of the waiting (non-executable) processes -/
  waitings : List (List Ev)
  /-- message flows: throw event id ↦ target -/
  flows : List (Nat × Target)
deriving Repr

def Setup.target (su : Setup) (id : Nat) : Option Target := (su.flows.find? (·.1 == id)).map (·.2)

structure Member where
  /-- what the process has still to emit (then `Tr.cease`) -/
  todo : List Ev
  /-- ghost: `none` = started by `StartAll`; `some id` = instantiated by `run` for a message of throw event `id` -/
  origin : Option Nat := none
  /-- ghost: everything emitted so far -/
  emitted : List Tr := []
  /-- ghost: the `CeaseFlowTrace` was emitted -/
  ceased : Bool := false
  /-- the process sits at catch event `c` and waits for its event -/
  blocked : Option Nat := none
  /-- `wg.Add(1)` done and the watcher goroutine spawned -/
  counted : Bool := false
  subscribed : Bool := false
  /-- the watcher's subscription channel -/
  queue : List Tr := []
  /-- the watcher has returned (`wg.Done()`) -/
  finished : Bool := false
  /-- ghost: registered with the wait group when `done` was already closed -/
  lateJoin : Bool := false
  /-- ghost: traces emitted while the watcher was not subscribed -/
  missed : List Tr := []
deriving Repr

/-- the goroutine a watcher spawns on an `ActiveListeningTrace`: waits for `ready` to be closed, then feeds the
catch event's own definitions to the member process -/
structure Waker where
  c : Nat
  member : Nat
  ready : Bool := false
  done : Bool := false
deriving Repr

structure Wait where
  /-- the goroutine `wg.Wait(); close(done)` of this call has run -/
  closerDone : Bool := false
  /-- `none` = the caller is still in the `select` -/
  result : Option Bool := none
deriving Repr

structure State where
  members : List Member := []
  /-- `StartAll`: executable processes not yet started -/
  toStart : List (List Ev)
  /-- `StartAll` has started member `i` and not yet done `wg.Add(1); go tracerProcess` -/
  saPending : Option Nat := none
  /-- `run` has started member `i` (instantiation) and not yet done `wg.Add(1); go tracerProcess` -/
  runPending : Option Nat := none
  wg : Nat := 0
  /-- number of `close(ps.done)` executed without panicking -/
  closes : Nat := 0
  panicked : Bool := false
  /-- `ps.mch`: ids of throw events -/
  mch : List Nat := []
  runAlive : Bool := true
  /-- number of `CeaseProcessSetTrace` sent -/
  ceaseSet : Nat := 0
  /-- `ps.catchCh`: catch event ↦ index of its waker -/
  catches : List (Nat × Nat) := []
  wakers : List Waker := []
  waits : List Wait := []
  /-- ghost: throw events emitted by members, in order -/
  thrown : List Nat := []
  /-- ghost: messages `run` turned into an instantiation or a wake-up -/
  delivered : List Nat := []
  /-- ghost: messages `run` handled without effect (no message flow, unknown target, catch event not listening) -/
  dropped : List Nat := []
  /-- ghost: a wait was called while `StartAll` had not returned -/
  earlyWait : Bool := false
  /-- ghost: `done` was closed while a throw message was on its way (emitted and not yet fully handled) -/
  closedInFlight : Bool := false
deriving Repr

def init (su : Setup) : State := { toStart := su.execs }

inductive Choice where
  /-- `StartAll` starts the next executable process -/
  | saStart
  /-- `StartAll`: `wg.Add(1); go ps.tracerProcess(...)` for the process it has just started -/
  | saRegister
  /-- member `i` emits its next trace -/
  | proc (i : Nat)
  /-- the watcher of member `i` subscribes -/
  | subscribe (i : Nat)
  /-- the watcher of member `i` handles the next trace of its channel -/
  | watcher (i : Nat)
  /-- `run` takes a message from `mch` -/
  | runMsg
  /-- `run`: `wg.Add(1); go ps.tracerProcess(...)` for the process it has just instantiated -/
  | runRegister
  /-- `run` takes the `<-ps.done` branch -/
  | runDone
  /-- waker `k` sees its channel closed and feeds the event to its process -/
  | waker (k : Nat)
  /-- a caller enters `WaitUntilComplete` (its index is the number of earlier calls) -/
  | waitCall
  /-- `wg.Wait()` of call `w` returns and `close(ps.done)` is executed -/
  | closer (w : Nat)
  /-- call `w` returns `true` -/
  | waitReturn (w : Nat)
  /-- call `w` returns `false` (its context expired) -/
  | waitTimeout (w : Nat)
deriving DecidableEq, Repr

def Choice.isTimeout : Choice → Bool
  | .waitTimeout _ => true
  | _ => false

/-- a throw message is on its way: emitted by a member and not yet turned into its effect -/
def Member.hasThrowQueued (m : Member) : Bool := m.queue.any (fun t => match t with | .ev (.throw _) => true | _ => false)

def State.inFlight (s : State) : Bool :=
  !s.mch.isEmpty || s.runPending.isSome || s.members.any (·.hasThrowQueued)

def register (s : State) (i : Nat) : State :=
  match s.members[i]? with
  | some m => { s with members := s.members.set i { m with counted := true, lateJoin := decide (1 ≤ s.closes) },
                       wg := s.wg + 1 }
  | none => s

/-- the transition of one choice; `none` = not enabled -/
def next (cfg : Cfg) (su : Setup) (s : State) (c : Choice) : Option State :=
  if s.panicked then none else
  match c with
  | .saStart =>
    match s.toStart, s.saPending with
    | str :: rest, none =>
      some { s with members := s.members ++ [{ todo := str, subscribed := cfg.subBeforeStart }],
                    toStart := rest, saPending := some s.members.length }
    | _, _ => none
  | .saRegister =>
    match s.saPending with
    | some i => some { register s i with saPending := none }
    | none => none
  | .proc i =>
    match s.members[i]? with
    | some m =>
      if m.ceased || m.blocked.isSome then none else
      let tr : Tr := match m.todo with | e :: _ => .ev e | [] => .cease
      let m' : Member := { m with
        todo := m.todo.tail
        emitted := m.emitted ++ [tr]
        ceased := decide (tr = .cease)
        blocked := match tr with | .ev (.listen c) => some c | _ => none
        queue := if m.subscribed then m.queue ++ [tr] else m.queue
        missed := if m.subscribed then m.missed else m.missed ++ [tr] }
      some { s with members := s.members.set i m',
                    thrown := match tr with | .ev (.throw id) => s.thrown ++ [id] | _ => s.thrown }
    | none => none
  | .subscribe i =>
    match s.members[i]? with
    | some m => if m.counted && !m.subscribed then some { s with members := s.members.set i { m with subscribed := true } }
                else none
    | none => none
  | .watcher i =>
    match s.members[i]? with
    | some m =>
      if m.counted && m.subscribed && !m.finished then
        match m.queue with
        | [] => none
        | .ev .tau :: q => some { s with members := s.members.set i { m with queue := q } }
        | .ev (.throw id) :: q => some { s with members := s.members.set i { m with queue := q }, mch := s.mch ++ [id] }
        | .ev (.listen c) :: q =>
          some { s with members := s.members.set i { m with queue := q },
                        catches := (c, s.wakers.length) :: s.catches.filter (·.1 != c),
                        wakers := s.wakers ++ [{ c := c, member := i }],
                        wg := s.wg + 1 }
        | .cease :: q => some { s with members := s.members.set i { m with queue := q, finished := true }, wg := s.wg - 1 }
      else none
    | none => none
  | .runMsg =>
    if s.runAlive && s.runPending.isNone then
      match s.mch with
      | [] => none
      | id :: rest =>
        match su.target id with
        | some (.start w) =>
          match su.waitings[w]? with
          | some str =>
            some { s with mch := rest, delivered := s.delivered ++ [id],
                          members := s.members ++ [{ todo := str, origin := some id, subscribed := cfg.instSubBeforeStart }],
                          runPending := some s.members.length }
          | none => some { s with mch := rest, dropped := s.dropped ++ [id] }
        | some (.catch_ c) =>
          match s.catches.find? (·.1 == c) with
          | some (_, k) =>
            match s.wakers[k]? with
            | some wk => some { s with mch := rest, delivered := s.delivered ++ [id],
                                       catches := s.catches.filter (·.1 != c),
                                       wakers := s.wakers.set k { wk with ready := true } }
            | none => some { s with mch := rest, dropped := s.dropped ++ [id] }
          | none => some { s with mch := rest, dropped := s.dropped ++ [id] }
        | none => some { s with mch := rest, dropped := s.dropped ++ [id] }
    else none
  | .runRegister =>
    match s.runPending with
    | some i => some { register s i with runPending := none }
    | none => none
  | .runDone =>
    if s.runAlive && s.runPending.isNone && decide (1 ≤ s.closes) then
      some { s with runAlive := false, ceaseSet := s.ceaseSet + 1 }
    else none
  | .waker k =>
    match s.wakers[k]? with
    | some wk =>
      if wk.ready && !wk.done then
        let ms := match s.members[wk.member]? with
          | some m => if m.blocked = some wk.c then s.members.set wk.member { m with blocked := none } else s.members
          | none => s.members
        some { s with wakers := s.wakers.set k { wk with done := true }, wg := s.wg - 1, members := ms }
      else none
    | none => none
  | .waitCall =>
    some { s with waits := s.waits ++ [{}],
                  earlyWait := s.earlyWait || !s.toStart.isEmpty || s.saPending.isSome }
  | .closer w =>
    match s.waits[w]? with
    | some wt =>
      if !wt.closerDone && s.wg == 0 then
        let s1 := { s with waits := s.waits.set w { wt with closerDone := true } }
        if s.closes == 0 then some { s1 with closes := 1, closedInFlight := s.inFlight }
        else if cfg.closeOnce then some s1
        else some { s1 with panicked := true }
      else none
    | none => none
  | .waitReturn w =>
    match s.waits[w]? with
    | some wt => if wt.result.isNone && decide (1 ≤ s.closes) then
                   some { s with waits := s.waits.set w { wt with result := some true } }
                 else none
    | none => none
  | .waitTimeout w =>
    match s.waits[w]? with
    | some wt => if wt.result.isNone then some { s with waits := s.waits.set w { wt with result := some false } } else none
    | none => none

def enabled (cfg : Cfg) (su : Setup) (s : State) (c : Choice) : Bool := (next cfg su s c).isSome

def step (cfg : Cfg) (su : Setup) (s : State) (c : Choice) : State := (next cfg su s c).getD s

/-- run a schedule from a state -/
def runFrom (cfg : Cfg) (su : Setup) (s : State) (sch : List Choice) : State := sch.foldl (step cfg su) s

def exec (cfg : Cfg) (su : Setup) (sch : List Choice) : State := runFrom cfg su (init su) sch

/-- states reachable under some schedule -/
inductive Reach (cfg : Cfg) (su : Setup) : State → Prop where
  | init : Reach cfg su (init su)
  | step {s : State} (c : Choice) : Reach cfg su s → Reach cfg su (step cfg su s c)

/-- nothing but the expiry of a caller's context can happen -/
def Quiescent (cfg : Cfg) (su : Setup) (s : State) : Prop := ∀ c, enabled cfg su s c = true → c.isTimeout = true

/-! observations -/

def State.waitResults (s : State) : List (Option Bool) := s.waits.map (·.result)
def State.allCeased (s : State) : Bool := s.members.all (·.ceased)
/-- members created by `run` for throw event `id` -/
def State.instances (s : State) (id : Nat) : Nat := (s.members.filter (·.origin == some id)).length

end Bpmn.Model.ProcessSet
