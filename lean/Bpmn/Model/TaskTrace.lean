/-
Layer 1: one task request (`taskTrace` in activity.go) at channel-operation granularity, plus the layer-0 pieces
the flow loop uses when an answer carries an error (`Retry` of retry.go and the error switch of `flow.Start`).

A port of what the Go code DOES:

```
func (t *taskTrace) Do(options ...DoOption) {
    select { case <-t.done: return; default: }          -- Act.check   (start → passed | returned)
    response := newDoOption(options...)
    t.forward <- *response                               -- Act.send    (passed → sent), blocking on the current tree
}                                                        -- Act.ret     (sent → returned)

func (t *taskTrace) process() {
    select {
    case <-t.ctx.Done(): rsp := err(ctx)                 -- Act.fireCtx      (waiting → got errCtx)
    case <-timeoutCh:    rsp := err(timed out)           -- Act.fireTimeout  (waiting → got errTimeout)
    case rsp := <-t.forward:                             -- Act.recv         (waiting → got (val i))
    }
    t.response <- rsp                                    -- Act.respond      (got v → forwarded)
    close(t.done)                                        -- Act.close        (forwarded → closed)
}
```

and of the reader of `t.response` (the task goroutine in task_generic.go: `select { case <-ctx.Done(): return;
case out := <-at.out(): … }` — `Act.leave` / `Act.consume`).

The capacities of `forward` and `response` and the shape of the send in `Do` are PARAMETERS (`Cfg`), regenerated
from the source on every run. Every `Do` call is a caller index `i : Nat` (its value is `Val.val i`); a schedule is
a list of `Act`; an act that is not enabled leaves the state unchanged.
-/
namespace Bpmn.Model.TaskTrace

/-- how `Do` performs its send on `forward` -/
inductive SendMode where
  | blocking      -- plain `t.forward <- v`
  | selDefault    -- `select { case t.forward <- v: default: }`
  | selDone       -- `select { case t.forward <- v: case <-t.done: }`
deriving Repr, BEq, DecidableEq

structure Cfg where
  forwardCap : Nat
  responseCap : Nat
  doSendHasDefault : Bool
  doSendHasDoneAlt : Bool
deriving Repr, BEq, DecidableEq

def Cfg.mode (c : Cfg) : SendMode :=
  if c.doSendHasDefault then .selDefault else if c.doSendHasDoneAlt then .selDone else .blocking

/-- what travels on `forward` / `response`: the answer of caller `i`, or an error made by `process` itself -/
inductive Val where
  | val (caller : Nat)
  | errCtx
  | errTimeout
deriving Repr, BEq, DecidableEq

/-- program counter of one `Do` call -/
inductive Pc where
  | start | passed | sent | returned
deriving Repr, BEq, DecidableEq

/-- the `process` goroutine -/
inductive Proc where
  | waiting | got (v : Val) | forwarded | closed
deriving Repr, BEq, DecidableEq

/-- the reader of `response` -/
inductive Cons where
  | waiting | got (v : Val) | gone
deriving Repr, BEq, DecidableEq

structure St where
  pc : Nat → Pc
  fwd : List Nat          -- buffer of `forward` (caller indices), oldest first
  proc : Proc
  resp : List Val         -- buffer of `response`
  done : Bool             -- `done` closed
  ctxDone : Bool
  timerFired : Bool
  cons : Cons
  sendLog : List Nat      -- ghost: callers whose send completed, in order
  respLog : List Val      -- ghost: every value ever sent on `response`, in order

def init : St :=
  { pc := fun _ => .start, fwd := [], proc := .waiting, resp := [], done := false, ctxDone := false,
    timerFired := false, cons := .waiting, sendLog := [], respLog := [] }

inductive Act where
  | check (i : Nat) | send (i : Nat) | bail (i : Nat) | ret (i : Nat)
  | recv | fireCtx | fireTimeout | respond | close
  | consume | leave
  | cancel | expire
deriving Repr, BEq, DecidableEq

def St.setPc (s : St) (i : Nat) (p : Pc) : St := { s with pc := fun j => if j = i then p else s.pc j }

/-- one step; `none` = the act is not enabled (a blocked goroutine, or an act that does not apply) -/
def step (cfg : Cfg) (s : St) : Act → Option St
  | .check i =>
    match s.pc i with
    | .start => some (s.setPc i (if s.done then .returned else .passed))
    | _ => none
  | .send i =>
    match s.pc i with
    | .passed =>
      if s.fwd.length < cfg.forwardCap then
        some { s.setPc i .sent with fwd := s.fwd ++ [i], sendLog := s.sendLog ++ [i] }
      else if cfg.forwardCap = 0 ∧ s.proc = .waiting then
        -- unbuffered channel: the value is handed to the receiver parked in `process`'s select
        some { s.setPc i .sent with proc := .got (.val i), sendLog := s.sendLog ++ [i] }
      else none
    | _ => none
  | .bail i =>
    match s.pc i with
    | .passed =>
      match cfg.mode with
      | .blocking => none
      | .selDefault => if s.fwd.length < cfg.forwardCap then none else some (s.setPc i .returned)
      | .selDone => if s.done then some (s.setPc i .returned) else none
    | _ => none
  | .ret i =>
    match s.pc i with
    | .sent => some (s.setPc i .returned)
    | _ => none
  | .recv =>
    match s.proc, s.fwd with
    | .waiting, v :: rest => some { s with proc := .got (.val v), fwd := rest }
    | _, _ => none
  | .fireCtx => if s.proc = .waiting ∧ s.ctxDone = true then some { s with proc := .got .errCtx } else none
  | .fireTimeout => if s.proc = .waiting ∧ s.timerFired = true then some { s with proc := .got .errTimeout } else none
  | .respond =>
    match s.proc with
    | .got v =>
      if s.resp.length < cfg.responseCap then
        some { s with proc := .forwarded, resp := s.resp ++ [v], respLog := s.respLog ++ [v] }
      else if cfg.responseCap = 0 ∧ s.cons = .waiting then
        some { s with proc := .forwarded, cons := .got v, respLog := s.respLog ++ [v] }
      else none
    | _ => none
  | .close =>
    match s.proc with
    | .forwarded => some { s with proc := .closed, done := true }
    | _ => none
  | .consume =>
    match s.cons, s.resp with
    | .waiting, v :: rest => some { s with cons := .got v, resp := rest }
    | _, _ => none
  | .leave => if s.cons = .waiting ∧ s.ctxDone = true then some { s with cons := .gone } else none
  | .cancel => if s.ctxDone then none else some { s with ctxDone := true }
  | .expire => if s.timerFired then none else some { s with timerFired := true }

def stepD (cfg : Cfg) (s : St) (a : Act) : St := (step cfg s a).getD s

/-- run a schedule (a scheduler choice list); acts that are not enabled are skipped -/
def run (cfg : Cfg) (s : St) (sched : List Act) : St := sched.foldl (stepD cfg) s

def pcRank : Pc → Nat
  | .start => 0 | .passed => 1 | .sent => 2 | .returned => 3

def procRank : Proc → Nat
  | .waiting => 0 | .got _ => 1 | .forwarded => 2 | .closed => 3

/-- the acts caller `i` can wait for: its own, and the three of `process` that need no outside event -/
def coreActs (i : Nat) : List Act := [.check i, .send i, .bail i, .ret i, .recv, .respond, .close]

/-- a fixed continuation that lets caller `i` and `process` (nobody else) run: at most five own attempts
(three of which can be effective) and three steps of `process` -/
def drive (i : Nat) : List Act :=
  [.check i, .send i, .bail i, .recv, .respond, .close, .send i, .bail i, .ret i]

/-- side condition on the facts under which no `Do` can block for ever -/
def Ok (cfg : Cfg) : Bool :=
  match cfg.mode with
  | .blocking => false
  | .selDefault => true
  | .selDone => decide (1 ≤ cfg.responseCap)

/-- `n` further callers `b, b+1, …` each pass the `done` check and send -/
def fill : Nat → Nat → List Act
  | _, 0 => []
  | b, n + 1 => .check b :: .send b :: fill (b + 1) n

/-- witness schedule for a blocking send: caller 0 passes the check; caller 1's value is taken by `process`;
callers 2 … cap+1 fill the buffer. Caller 0 (the (cap+2)-th caller — the third on the current tree) then blocks
for ever. -/
def witnessBlocking (cap : Nat) : List Act :=
  [.check 0, .check 1, .send 1, .recv] ++ fill 2 cap

/-- witness schedule for `select { case forward <- v: case <-done: }` with an UNBUFFERED response channel: the
context is cancelled, the reader of `response` leaves, `process` can never deliver its error and never closes
`done`; callers 1 … cap fill the buffer and caller 0 blocks for ever. -/
def witnessNoReader (cap : Nat) : List Act :=
  [.cancel, .leave, .fireCtx, .check 0] ++ fill 1 cap

def witness (cfg : Cfg) : List Act :=
  match cfg.mode with
  | .blocking => witnessBlocking cfg.forwardCap
  | _ => witnessNoReader cfg.forwardCap

/-- the witness of DESIGN.md for the current tree (forward capacity 1, blocking send): three callers pass the
`done` check before `process` runs; one value is forwarded, one sits in the buffer, the third sender blocks -/
def witnessThree : List Act :=
  [.check 0, .check 1, .check 2, .send 0, .recv, .send 1, .respond, .close, .ret 0, .ret 1, .consume]

/-! ## Layer 0: `Retry` (retry.go) and the error switch of the flow loop (flow.go) -/

/-- `Retry{limit, attempts int32}`; arithmetic is modelled over `Int` (fewer than 2^31 attempts) -/
structure Retry where
  limit : Int := 0
  attempts : Int := 0
deriving Repr, BEq, DecidableEq

/-- the limit that means "for ever" -/
def retrySentinel : Int := -1

def Retry.isContinue (r : Retry) : Bool := r.limit == retrySentinel || decide (r.limit > r.attempts)
def Retry.reset (r : Retry) (retries : Int) : Retry := { r with limit := retries }
def Retry.stepR (r : Retry) : Retry := { r with attempts := r.attempts + 1 }

/-- what the driver's answer carries besides the error: `res.handler == nil`, or the `ErrHandler` read from it -/
inductive Handler where
  | none
  | mode (m : Nat) (retries : Int)      -- m: 1 RetryMode, 2 SkipMode, 3 ExitMode, anything else: no case of the switch
deriving Repr, BEq, DecidableEq

inductive Ans where
  | ok
  | err (h : Handler)
deriving Repr, BEq, DecidableEq

/-- what the token does next -/
inductive Outcome where
  | continue_     -- results / data outputs are applied, the outgoing flows are evaluated
  | rerequest     -- `goto await`: `NextAction` is called again, the task is requested once more
  | endToken      -- `return`: the token ends
deriving Repr, BEq, DecidableEq

inductive Ev where
  | request | errorTrace | continued | ended
deriving Repr, BEq, DecidableEq

/-- `f.retry` (`nil` until the first retry handler); `td` = `taskDefinition.Retries` of the current node -/
def errSwitch (td : Int) (r : Option Retry) : Handler → Outcome × Option Retry
  | .none => (.continue_, r)
  | .mode 1 retries =>
    let r0 : Retry := match r with
      | some x => x
      | none => ({} : Retry).reset td
    let r1 := r0.reset retries            -- `f.retry.Reset(handler.Retries)`: every time
    if r1.isContinue then (.rerequest, some r1.stepR) else (.endToken, some r1)
  | .mode 3 _ => (.endToken, r)
  | .mode _ _ => (.continue_, r)

/-- one answer handled by the token: the events it emits, in order, then what it does -/
def onAnswer (td : Int) (r : Option Retry) : Ans → List Ev × Outcome × Option Retry
  | .ok => ([], .continue_, r)
  | .err h =>
    let (o, r') := errSwitch td r h
    ([.errorTrace], o, r')

/-- the token stands at a task and receives the answers in order (one answer per request) -/
def tokenRun (td : Int) : Option Retry → List Ans → List Ev × Option Retry
  | r, [] => ([.request], r)
  | r, a :: rest =>
    match onAnswer td r a with
    | (evs, .continue_, r') => (.request :: evs ++ [.continued], r')
    | (evs, .endToken, r') => (.request :: evs ++ [.ended], r')
    | (evs, .rerequest, r') =>
      let (more, r'') := tokenRun td r' rest
      (.request :: evs ++ more, r'')

def Ev.isRequest : Ev → Bool
  | .request => true
  | _ => false

def requests (evs : List Ev) : Nat := evs.countP Ev.isRequest

/-- `ApplyTaskResult` / `ApplyTaskDataOutput`: for each DECLARED name, in order, store the supplied value if there
is one (first match of the name among the supplied pairs) -/
def restrictTo {α β : Type} (declared : List String) (set : α → String → β → α) (store : α)
    (supplied : List (String × β)) : α :=
  declared.foldl (fun st name =>
    match supplied.find? (·.1 == name) with
    | some (_, v) => set st name v
    | none => st) store

/-- attempts made so far by the token (`f.retry == nil`: none) -/
def attemptsOf : Option Retry → Int
  | none => 0
  | some r => r.attempts

/-- `f` failures answered with the retry handler `n`, then a success -/
def failThenOk (n : Int) (f : Nat) : List Ans := List.replicate f (.err (.mode 1 n)) ++ [.ok]

/-- every retry handler in the history carries a bounded count `≤ n` (and not the sentinel) -/
def BoundedBy (n : Int) (answers : List Ans) : Prop :=
  ∀ k, Ans.err (.mode 1 k) ∈ answers → k ≠ -1 ∧ k ≤ n

/-- the value supplied under a name -/
def supplied? (supplied : List (String × Int)) (k : String) : Option Int := (supplied.find? (·.1 == k)).map (·.2)

end Bpmn.Model.TaskTrace
