/-!
# Completion reporting: StartAll / StartWith, the cease-flow monitor(s), the completion lock, WaitUntilComplete

A small-step port of what `/repo/process.go` does (not of what it should do), at the granularity of channel and
lock operations, with an explicit scheduler choice so that theorems quantify over all schedules and over all
histories of `WaitUntilComplete` calls.

Go code                                                     | here
----------------------------------------------------------- | -------------------------------------------------
`StartAll`: `for each start event: StartWith`                | `program P` — the instruction list of the starter
`StartWith`: `Trigger`; `ceaseFlowMonitor(..)` (= Subscribe, | `SI.trigger`, `SI.subscribe`, `SI.lock` in the order
  then `complete.Lock()`, both in the caller's goroutine);   |   the facts give (`subBefore`, `perStart`)
  `go closure`                                               | the monitor goroutine starts in `MPc.counting`
monitor loop: `len(activated) == len(StartEvents)` / recv    | `MPc.counting`: count check, else pop own buffer
  (counts every Flow/TerminationTrace whose source is a      |   (`Trace.start`; start events are anonymous because
  start event, without de-duplication)                       |   the code only counts)
`tracer.Unsubscribe` (drains its channel while offering the  | `MPc.unsub`: request accepted only while the tracer is
  request to the tracer's select loop; swap-removal)         |   in its select loop, else drain one; `swapRemove`
`flowWaitGroup.Wait()`                                       | `MPc.wgwait`: enabled when `wg = 0`
`tracer.Send(CeaseFlowTrace)`; deferred `complete.Unlock()`  | `MPc.ceasing`, `MPc.unlocking`
tracer goroutine: one trace at a time, `subscriber <- trace` | `pending`: the trace being broadcast and the subscribers
  to each subscriber in list order, blocking on a full       |   still to be served (`Choice.deliver` = one send);
  buffer; Subscribe/Unsubscribe/Send served only in `select` |   `subBuf` = capacity of `Subscribe()`'s channel
`flow.Start`: `wg.Add(1)` … traces … `wg.Done()`             | environment choices `fire`, `startTrace`, `other`,
                                                             |   `birth`, `death` (the wait group as a counter)
`activity.go harness.run`: a goroutine per activation that   | `spawnStray` (a live token entered an activity),
  hands the answer to the token (`out <- rsp`) and THEN      |   `strayTrace`: a trace sent by a goroutine that is not
  sends `ActiveBoundaryTrace{Start:false}` (fact `detached`) |   counted by the wait group, so it can follow the cease
`WaitUntilComplete`: helper goroutine `Lock(); signal<-true; | `Wait.helper` (`wantLock`/`holding`/`done`), `Wait.sig`
  Unlock()`, caller `select { ctx.Done | <-signal }`         |   (buffered value, `sigCap`), `Wait.caller`

Only monitors subscribe in the model: the relay of the instance's tracer and outside observers always read, so they
never stall the broadcaster. Cancellation (`ctx.Done()` alternatives) is not modelled here (C07).
A disabled choice leaves the state unchanged (a goroutine that cannot move).
-/
namespace Bpmn.Model.Completion

/-- facts about `/repo/process.go` and `pkg/tracing/tracer.go` (regenerated into `Bpmn.Gen.C02`) plus the number of
start events of the process -/
structure Params where
  /-- `ceaseFlowMonitor(...)` is called before `eventNode.Trigger(ctx)` in `StartWith` -/
  subBefore : Bool
  /-- the monitor is created in `StartWith`, once per start event (today), not once per instance -/
  perStart : Bool
  /-- capacity of `signal` in `WaitUntilComplete` -/
  sigCap : Nat
  /-- capacity of the channel `tracer.Subscribe()` makes -/
  subBuf : Nat
  /-- `harness.run` announces the end of the boundary phase (`ActiveBoundaryTrace{Start:false}`) from its own goroutine
  AFTER handing the answer to the token, so that trace is not ordered before the token's further traces -/
  detached : Bool
  /-- number of start events of the process -/
  n : Nat
deriving DecidableEq, Repr

/-- number of monitors one `StartAll` creates -/
def Params.monitorsPerStartAll (P : Params) : Nat := if P.perStart then P.n else 1

inductive Trace
  | start   -- FlowTrace / TerminationTrace whose source is a start event
  | other   -- any other trace sent by a live token
  | stray   -- a trace sent by a goroutine outside the wait group (`ActiveBoundaryTrace{Start:false}`)
  | cease   -- CeaseFlowTrace
deriving DecidableEq, Repr

/-- instructions of the goroutine that runs `StartAll` -/
inductive SI
  | trigger     -- `eventNode.Trigger(ctx)`: hands `startMessage` to the start event (buffered, never blocks)
  | subscribe   -- `tracer.Subscribe()` inside `ceaseFlowMonitor`
  | lock        -- `p.complete.Lock()` inside `ceaseFlowMonitor`, then `go closure`
deriving DecidableEq, Repr

def startWith (P : Params) (withMonitor : Bool) : List SI :=
  if withMonitor then
    (if P.subBefore then [.subscribe, .lock, .trigger] else [.trigger, .subscribe, .lock])
  else [.trigger]

/-- `StartWith` number `i` (from 0) -/
def startWithAt (P : Params) (i : Nat) : List SI := startWith P (P.perStart || i == 0)

def programFrom (P : Params) : Nat → Nat → List SI
  | _, 0 => []
  | i, k + 1 => startWithAt P i ++ programFrom P (i + 1) k

/-- what `StartAll` executes -/
def program (P : Params) : List SI := programFrom P 0 P.n

inductive MPc
  | wantLock | counting | unsub | wgwait | ceasing | unlocking | done
deriving DecidableEq, Repr

structure Mon where
  pc : MPc := .wantLock
  count : Nat := 0
  buf : List Trace := []   -- its subscription channel, oldest first
deriving DecidableEq, Repr

inductive HPc | wantLock | holding | done
deriving DecidableEq, Repr

inductive CPc | waiting | gotTrue | expired
deriving DecidableEq, Repr

structure Wait where
  helper : HPc := .wantLock
  caller : CPc := .waiting
  sig : Bool := false      -- a value sits in the signal channel (only when `sigCap ≥ 1`)
  early : Bool := false    -- the call was issued before `StartAll` returned
deriving DecidableEq, Repr

inductive Owner | mon (k : Nat) | helper (w : Nat)
deriving DecidableEq, Repr

structure St where
  prog : List SI
  triggered : Nat := 0     -- start events triggered
  fired : Nat := 0         -- start events whose token exists (`wg.Add` done)
  sent : Nat := 0          -- start events whose Flow/TerminationTrace has been handed to the tracer
  wg : Nat := 0            -- flowWaitGroup counter
  strays : Nat := 0        -- goroutines outside the wait group that still owe their trace
  mons : List Mon := []
  subs : List Nat := []    -- tracer's subscriber list (monitor indices), in list order
  pending : Option (Trace × List Nat) := none   -- broadcast in progress
  lock : Option Owner := none
  waits : List Wait := []
  log : List Trace := []   -- traces accepted by the tracer, newest first
deriving DecidableEq, Repr

def init (P : Params) : St := { prog := program P }

inductive Choice
  | starter | mon (k : Nat) | deliver | helper (w : Nat) | recv (w : Nat) | strayTrace
  | fire | startTrace | other | birth | death | spawnStray | call | expire (w : Nat)
deriving DecidableEq, Repr

/-- choices of the engine's own goroutines (everything but the token stream, new calls and context expiry) -/
def Choice.internal : Choice → Bool
  | .starter | .mon _ | .deliver | .helper _ | .recv _ | .strayTrace => true
  | _ => false

def upd {α : Type} : List α → Nat → (α → α) → List α
  | [], _, _ => []
  | x :: xs, 0, f => f x :: xs
  | x :: xs, i + 1, f => x :: upd xs i f

/-- the tracer's removal of a subscriber: the slot is overwritten by the last element and the list truncated -/
def swapRemove : List Nat → Nat → List Nat
  | [], _ => []
  | x :: xs, k =>
    if x = k then (match xs.getLast? with | none => [] | some l => l :: xs.dropLast)
    else x :: swapRemove xs k

def mkPending (t : Trace) (subs : List Nat) : Option (Trace × List Nat) :=
  if subs.isEmpty then none else some (t, subs)

def isStart (t : Trace) : Nat := if t = .start then 1 else 0

def stepStarter (s : St) : St :=
  match s.prog with
  | [] => s
  | .trigger :: r => { s with triggered := s.triggered + 1, prog := r }
  | .subscribe :: r =>
    if s.pending.isNone then
      { s with mons := s.mons ++ [{}], subs := s.subs ++ [s.mons.length], prog := r }
    else s
  | .lock :: r =>
    if s.lock.isNone then
      { s with mons := upd s.mons (s.mons.length - 1) (fun m => { m with pc := .counting }),
               lock := some (.mon (s.mons.length - 1)), prog := r }
    else s

def stepMon (P : Params) (s : St) (k : Nat) : St :=
  match s.mons[k]? with
  | none => s
  | some m =>
    match m.pc with
    | .wantLock => s
    | .counting =>
      if m.count = P.n then { s with mons := upd s.mons k (fun m => { m with pc := .unsub }) }
      else match m.buf with
        | [] => s
        | t :: r => { s with mons := upd s.mons k (fun m => { m with buf := r, count := m.count + isStart t }) }
    | .unsub =>
      if s.pending.isNone then
        { s with subs := swapRemove s.subs k, mons := upd s.mons k (fun m => { m with buf := [], pc := .wgwait }) }
      else match m.buf with
        | [] => s
        | _ :: r => { s with mons := upd s.mons k (fun m => { m with buf := r }) }
    | .wgwait => if s.wg = 0 then { s with mons := upd s.mons k (fun m => { m with pc := .ceasing }) } else s
    | .ceasing =>
      if s.pending.isNone then
        { s with log := .cease :: s.log, pending := mkPending .cease s.subs,
                 mons := upd s.mons k (fun m => { m with pc := .unlocking }) }
      else s
    | .unlocking => { s with lock := none, mons := upd s.mons k (fun m => { m with pc := .done }) }
    | .done => s

def stepDeliver (P : Params) (s : St) : St :=
  match s.pending with
  | none => s
  | some (_, []) => { s with pending := none }
  | some (t, k :: ks) =>
    match s.mons[k]? with
    | none => s
    | some m =>
      if m.buf.length < P.subBuf then
        { s with mons := upd s.mons k (fun m => { m with buf := m.buf ++ [t] }),
                 pending := if ks.isEmpty then none else some (t, ks) }
      else s

def stepHelper (P : Params) (s : St) (w : Nat) : St :=
  match s.waits[w]? with
  | none => s
  | some x =>
    match x.helper with
    | .wantLock =>
      if s.lock.isNone then
        { s with lock := some (.helper w), waits := upd s.waits w (fun x => { x with helper := .holding }) }
      else s
    | .holding =>
      if 1 ≤ P.sigCap then
        { s with lock := none, waits := upd s.waits w (fun x => { x with helper := .done, sig := true }) }
      else if x.caller = .waiting then
        { s with lock := none, waits := upd s.waits w (fun x => { x with helper := .done, caller := .gotTrue }) }
      else s
    | .done => s

def stepRecv (s : St) (w : Nat) : St :=
  match s.waits[w]? with
  | none => s
  | some x =>
    if x.caller = .waiting ∧ x.sig = true then
      { s with waits := upd s.waits w (fun x => { x with caller := .gotTrue, sig := false }) }
    else s

def stepExpire (s : St) (w : Nat) : St :=
  match s.waits[w]? with
  | none => s
  | some x =>
    if x.caller = .waiting then { s with waits := upd s.waits w (fun x => { x with caller := .expired }) } else s

def step (P : Params) (s : St) : Choice → St
  | .starter => stepStarter s
  | .mon k => stepMon P s k
  | .deliver => stepDeliver P s
  | .helper w => stepHelper P s w
  | .recv w => stepRecv s w
  | .expire w => stepExpire s w
  | .call => { s with waits := s.waits ++ [{ early := !s.prog.isEmpty }] }
  | .fire => if s.fired < s.triggered then { s with fired := s.fired + 1, wg := s.wg + 1 } else s
  | .startTrace =>
    if s.sent < s.fired ∧ s.pending.isNone then
      { s with sent := s.sent + 1, log := .start :: s.log, pending := mkPending .start s.subs }
    else s
  | .other =>
    if 0 < s.wg ∧ s.pending.isNone then { s with log := .other :: s.log, pending := mkPending .other s.subs } else s
  | .birth => if 0 < s.wg then { s with wg := s.wg + 1 } else s
  | .spawnStray => if P.detached = true ∧ 0 < s.wg then { s with strays := s.strays + 1 } else s
  | .strayTrace =>
    if 0 < s.strays ∧ s.pending.isNone then
      { s with strays := s.strays - 1, log := .stray :: s.log, pending := mkPending .stray s.subs }
    else s
  | .death => if s.fired - s.sent < s.wg then { s with wg := s.wg - 1 } else s

def run (P : Params) (s : St) (sched : List Choice) : St := sched.foldl (step P) s

/-- states reachable from the start of `StartAll` under some schedule and some history of calls -/
def Reachable (P : Params) (s : St) : Prop := ∃ sched, run P (init P) sched = s

/-! ## Observables -/

def ceases (s : St) : Nat := s.log.count .cease

/-- `StartAll` has returned -/
def St.returned (s : St) : Bool := s.prog.isEmpty

/-- every start event has fired (and reported it) and no token is left -/
def quiet (P : Params) (s : St) : Prop := s.fired = P.n ∧ s.sent = P.n ∧ s.wg = 0

instance (P : Params) (s : St) : Decidable (quiet P s) := by unfold quiet; infer_instance

/-- nothing of the completion protocol is left to do: the cease trace is out, the lock is free, every helper is gone
and no caller is still waiting -/
def Finished (s : St) : Prop :=
  .cease ∈ s.log ∧ s.lock = none ∧ ∀ x ∈ s.waits, x.helper = .done ∧ x.caller ≠ .waiting

/-! ## Driver support: run the engine's own goroutines until nothing moves (bounded) -/

def internalChoices (s : St) : List Choice :=
  [.deliver, .starter, .strayTrace] ++ (List.range s.mons.length).map .mon ++
    (List.range s.waits.length).map .helper ++ (List.range s.waits.length).map .recv

def settleRound (P : Params) (s : St) : St := (internalChoices s).foldl (step P) s

def settle (P : Params) : Nat → St → St
  | 0, s => s
  | fuel + 1, s =>
    let s' := settleRound P s
    if s' = s then s else settle P fuel s'

end Bpmn.Model.Completion
