/-
Model of the value layer of olive-io/bpmn (property C16):

* schema/schema_item.go : `Value.ValueFrom` (encode by declared or inferred kind), `Value.ValueFor`
  (decode by item type), `NewValue`;
* pkg/data/impl.go      : `FlowDataLocator.SetVariable / GetVariable / CloneVariables`;
* activity.go           : `locatorJSONGet` (`$name.path` references) and the property / header
  assembly of `FetchTaskDataInput`.

It is a port of what the Go code DOES, panics included: `valueFrom` returns `Except Panic Value` and
is `.error` exactly where the Go code panics.  The places where the current code is known to misbehave
are governed by a record of facts `Cfg` which the extractor regenerates from /repo on every run
(`Bpmn.Gen.C16`), so the model follows the code when it is repaired.

Texts are `List Char` (kernel-reducible).  JSON printing/parsing of composite values (sonic) is NOT
modelled character by character: a `Codec` supplies `print`/`parse`, and the theorems take the single
law `parse (print j) = some (canon j)` as a hypothesis (`Codec.Lawful`).

Floats: a float64 is `±m·2^e` (exact) together with the text `%v` prints for it; `%f` (six decimals,
round half even on the exact value) is computed here; reading a decimal text back is judged by
`roundsTo` (the text's exact decimal value lies in the rounding interval of the float), i.e.
`strconv.ParseFloat` is assumed to round correctly.
-/
namespace Bpmn.Model.Value

abbrev Text := List Char

/-! ## Item types, reflect kinds, facts -/

inductive ItemType | object | array | integer | string | boolean | float | other (s : Text)
deriving DecidableEq, Repr

/-- `reflect.Kind` -/
inductive Kind
  | invalid | bool | int | int8 | int16 | int32 | int64 | uint | uint8 | uint16 | uint32 | uint64
  | uintptr | float32 | float64 | complex | array | slice | map | struct | string | pointer | other
deriving DecidableEq, Repr

def Kind.isSigned : Kind → Bool
  | .int | .int8 | .int16 | .int32 | .int64 => true | _ => false
def Kind.isUnsigned : Kind → Bool
  | .uint | .uint8 | .uint16 | .uint32 | .uint64 => true | _ => false
def Kind.isFloat : Kind → Bool
  | .float32 | .float64 => true | _ => false

/-- what the body of a `case` of the kind switch in the inferred branch does with `rv` -/
inductive Accessor | int | uint | float | bool | string | marshalArray | marshalObject
deriving DecidableEq, Repr

/-- is calling this accessor on a `reflect.Value` of that kind what the model can follow without a panic -/
def Accessor.fits : Accessor → Kind → Bool
  | .int, k => k.isSigned
  | .uint, k => k.isUnsigned
  | .float, k => k.isFloat
  | .bool, k => k == .bool
  | .string, k => k == .string
  | .marshalArray, k => k == .slice || k == .array
  | .marshalObject, k => k == .map || k == .struct

/-- `rv.Int()`, `rv.Uint()`, `rv.Float()`, `rv.Bool()` panic on a value of another kind class;
`rv.String()` and `json.Marshal` never panic -/
def Accessor.panics (a : Accessor) (k : Kind) : Bool :=
  match a with
  | .int | .uint | .float | .bool => !a.fits k
  | _ => false

/-- facts read from the source of `ValueFrom` (see extract/facts_c16.go) -/
structure Cfg where
  /-- kind switch of the inferred (`default:`) branch: handled kind ↦ accessor used by that case -/
  inferred : List (Kind × Accessor)
  /-- kinds listed in the type switch of the `ItemTypeInteger` branch -/
  declInt : List Kind
  /-- the `ItemTypeFloat` branch prints with `%f` (six decimals) -/
  floatSix : Bool
  /-- … and passes the value widened to float64 (`rv.Float()` / `float64(v)`) -/
  floatWide : Bool
  /-- `reflect.TypeOf(value).Kind()` in the array / object branch is protected against `value == nil` -/
  nilGuardArray : Bool
  nilGuardObject : Bool
  /-- the `value.(*Value)` shortcut checks the pointer before dereferencing it -/
  nilGuardValuePtr : Bool
deriving Repr, DecidableEq

def Cfg.accessor (cfg : Cfg) (k : Kind) : Option Accessor :=
  (cfg.inferred.find? (·.1 == k)).map (·.2)

/-! ### decoding of the generated facts (`Bpmn.Gen.C16`) -/

def kindOfNat : Nat → Kind
  | 1 => .bool | 2 => .int | 3 => .int8 | 4 => .int16 | 5 => .int32 | 6 => .int64 | 7 => .uint | 8 => .uint8
  | 9 => .uint16 | 10 => .uint32 | 11 => .uint64 | 12 => .uintptr | 13 => .float32 | 14 => .float64
  | 15 => .complex | 17 => .array | 23 => .slice | 21 => .map | 25 => .struct | 24 => .string | 22 => .pointer
  | 0 => .invalid | _ => .other

def accessorOfNat : Nat → Option Accessor
  | 1 => some .int | 2 => some .uint | 3 => some .float | 4 => some .bool | 5 => some .string
  | 6 => some .marshalArray | 7 => some .marshalObject | _ => none

/-- the record of facts, or `none` when the extractor could not read one of them -/
def cfgOf (inferred : Option (List (Nat × Nat))) (declInt : Option (List Nat))
    (floatSix floatWide nilGuardArray nilGuardObject nilGuardValuePtr : Option Bool) : Option Cfg := do
  let inf ← inferred
  let inf ← inf.mapM fun (k, a) => (accessorOfNat a).map fun a => (kindOfNat k, a)
  let di ← declInt
  pure { inferred := inf, declInt := di.map kindOfNat, floatSix := ← floatSix, floatWide := ← floatWide,
         nilGuardArray := ← nilGuardArray, nilGuardObject := ← nilGuardObject, nilGuardValuePtr := ← nilGuardValuePtr }

/-! ## Exact dyadic / decimal arithmetic for floats -/

/-- a finite float64: value `±m·2^e`; `g` is the text `%v` prints for it (shortest repr, trusted) -/
structure F64 where
  neg : Bool
  m : Nat
  e : Int
  g : Text
deriving DecidableEq, Repr

/-- an exact decimal `±d·10^x` -/
structure Dec where
  neg : Bool
  d : Nat
  x : Int
deriving DecidableEq, Repr

def isDigits (l : Text) : Bool := !l.isEmpty && l.all Char.isDigit

def parseNat (l : Text) : Option Nat := if isDigits l then some (Nat.ofDigitChars 10 l 0) else none

def printNat (n : Nat) : Text := Nat.toDigits 10 n

def printInt (n : Int) : Text := if n < 0 then '-' :: printNat n.natAbs else printNat n.natAbs

def splitSign : Text → Bool × Text
  | '-' :: r => (true, r)
  | '+' :: r => (false, r)
  | r => (false, r)

/-- `strconv.ParseInt(s, 10, 64)` with the error dropped: syntax error ↦ 0, range error ↦ clamped -/
def parseInt64 (s : Text) : Option Int :=
  let (neg, r) := splitSign s
  (parseNat r).map fun n =>
    if neg then (if n > 9223372036854775808 then -9223372036854775808 else -(n : Int))
    else (if n > 9223372036854775807 then 9223372036854775807 else (n : Int))

/-- does `strconv.ParseInt(s, 10, 64)` succeed -/
def parseInt64Ok (s : Text) : Bool :=
  let (neg, r) := splitSign s
  match parseNat r with
  | none => false
  | some n => if neg then n ≤ 9223372036854775808 else n ≤ 9223372036854775807

def splitAt (c : Char) : Text → Option (Text × Text)
  | [] => none
  | x :: xs => if x == c then some ([], xs) else (splitAt c xs).map fun (a, b) => (x :: a, b)

def splitExp : Text → Text × Option Text
  | [] => ([], none)
  | x :: xs => if x == 'e' || x == 'E' then ([], some xs) else let (a, b) := splitExp xs; (x :: a, b)

/-- exact value of a plain decimal text `[+-]digits[.digits][(e|E)[+-]digits]` (the subset of the
`strconv.ParseFloat` grammar the model follows; anything else is `none`) -/
def decVal (s : Text) : Option Dec :=
  let (neg, r) := splitSign s
  let (mant, ex) := splitExp r
  let exv : Option Int := match ex with
    | none => some 0
    | some t => let (en, er) := splitSign t; (parseNat er).map fun n => if en then -(n : Int) else (n : Int)
  let parts : Option (Text × Text) := match splitAt '.' mant with
    | none => some (mant, [])
    | some (a, b) => some (a, b)
  match exv, parts with
  | some x, some (ip, fp) =>
    if (ip ++ fp).isEmpty || !(ip ++ fp).all Char.isDigit then none
    else some { neg, d := Nat.ofDigitChars 10 (ip ++ fp) 0, x := x - fp.length }
  | _, _ => none

/-- is the decimal `dc` rounded to the float `f` by a correctly rounding parser (ties to even) -/
def roundsTo (dc : Dec) (f : F64) : Bool :=
  if dc.neg != f.neg then false else
  -- everything in units of u = 2^(e-2): X = 4m, upper bound 4m+2, lower bound 4m-2 (4m-1 at a binade edge)
  let (dn, dd) : Nat × Nat := if dc.x ≥ 0 then (dc.d * 10 ^ dc.x.toNat, 1) else (dc.d, 10 ^ (-dc.x).toNat)
  let s := f.e - 2
  let (a, b) : Nat × Nat := if s ≥ 0 then (dn, dd * 2 ^ s.toNat) else (dn * 2 ^ (-s).toNat, dd)
  let even := f.m % 2 == 0
  let hi := (4 * f.m + 2) * b
  let edge := f.m == 2 ^ 52 && f.e > -1074
  let lo := (if edge then 4 * f.m - 1 else 4 * f.m - 2) * b
  (a < hi || (even && a == hi)) && (lo < a || ((even || edge) && a == lo) || f.m == 0)

def pad6 (t : Text) : Text := List.replicate (6 - t.length) '0' ++ t

/-- `fmt.Sprintf("%f", x)`: the exact value rounded half-even to six decimals -/
def f6 (f : F64) : Text :=
  let n := f.m * 1000000
  let q : Nat :=
    if f.e ≥ 0 then n * 2 ^ f.e.toNat
    else
      let d := 2 ^ (-f.e).toNat
      let q := n / d
      let r := n % d
      if 2 * r > d then q + 1 else if 2 * r == d then (if q % 2 == 0 then q else q + 1) else q
  (if f.neg then ['-'] else []) ++ printNat (q / 1000000) ++ '.' :: pad6 (printNat (q % 1000000))

/-- strip factors of two: canonical dyadic `(m odd or 0, e)` -/
def normDy : Nat → Nat → Int → Nat × Int
  | 0, m, e => (m, e)
  | fuel + 1, m, e => if m == 0 then (0, 0) else if m % 2 == 0 then normDy fuel (m / 2) (e + 1) else (m, e)

/-- round an exact dyadic to 53 significant bits (ties to even), as reading a JSON number into float64 does -/
def round53 (m : Nat) (e : Int) : Nat × Int :=
  let bits := if m == 0 then 0 else Nat.log2 m + 1
  if bits ≤ 53 then (m, e) else
    let k := bits - 53
    let q := m / 2 ^ k
    let r := m % 2 ^ k
    let half := 2 ^ (k - 1)
    let q' := if r > half then q + 1 else if r == half then (if q % 2 == 0 then q else q + 1) else q
    (q', e + k)

/-! ## JSON documents and Go values (mutual inductives with their own list types, so that equality is
decidable by the derived instances and all functions are structurally recursive) -/

mutual
inductive Json
  | null
  | bool (b : Bool)
  | num (neg : Bool) (m : Nat) (e : Int)      -- ±m·2^e, exact
  | str (s : Text)
  | arr (xs : JList)
  | obj (kvs : JFields)
deriving DecidableEq, Repr
inductive JList | nil | cons (x : Json) (xs : JList)
deriving DecidableEq, Repr
inductive JFields | nil | cons (k : Text) (v : Json) (rest : JFields)
deriving DecidableEq, Repr
end

inductive IntKind | int | int8 | int16 | int32 | int64 | uint | uint8 | uint16 | uint32 | uint64
deriving DecidableEq, Repr

def IntKind.kind : IntKind → Kind
  | .int => .int | .int8 => .int8 | .int16 => .int16 | .int32 => .int32 | .int64 => .int64
  | .uint => .uint | .uint8 => .uint8 | .uint16 => .uint16 | .uint32 => .uint32 | .uint64 => .uint64

def IntKind.signed (k : IntKind) : Bool := k.kind.isSigned

def IntKind.bits : IntKind → Nat
  | .int | .int64 | .uint | .uint64 => 64 | .int8 | .uint8 => 8 | .int16 | .uint16 => 16 | .int32 | .uint32 => 32

/-- the values of that Go type -/
def IntKind.inRange (k : IntKind) (n : Int) : Bool :=
  if k.signed then -(2 ^ (k.bits - 1) : Int) ≤ n && n < (2 ^ (k.bits - 1) : Int)
  else 0 ≤ n && n < (2 ^ k.bits : Int)

mutual
/-- a Go value handed to the value layer as `any` -/
inductive GoVal
  | nil                                         -- untyped nil
  | bool (b : Bool)
  | int (k : IntKind) (n : Int)
  | float (is32 : Bool) (f : F64) (short : Text) -- `f` is the value widened to float64; `short` = `%v` of the value at its own width
  | str (s : Text)
  | slice (xs : GList)                          -- slice or array
  | map (kvs : GFields)                         -- map with string keys
  | struct (fs : GFields)                       -- exported fields under their JSON names
  | ptr (v : GoVal)                             -- non-nil pointer
  | nilPtr (elem : Kind)                        -- nil pointer to a type of that kind
  | valuePtr (ty : ItemType) (s : Text)         -- a `*schema.Value`
  | nilValuePtr                                 -- `(*schema.Value)(nil)`
  | opaque (k : Kind)                           -- any other kind (chan, func, complex, uintptr…); content irrelevant
deriving DecidableEq, Repr
inductive GList | nil | cons (x : GoVal) (xs : GList)
deriving DecidableEq, Repr
inductive GFields | nil | cons (k : Text) (v : GoVal) (rest : GFields)
deriving DecidableEq, Repr
end

def GoVal.kind : GoVal → Kind
  | .nil => .invalid
  | .bool _ => .bool
  | .int k _ => k.kind
  | .float is32 _ _ => if is32 then .float32 else .float64
  | .str _ => .string
  | .slice _ => .slice
  | .map _ => .map
  | .struct _ => .struct
  | .ptr _ | .nilPtr _ | .valuePtr _ _ | .nilValuePtr => .pointer
  | .opaque k => k

def itemTypeText : ItemType → Text
  | .object => "object".toList | .array => "array".toList | .integer => "integer".toList
  | .string => "string".toList | .boolean => "boolean".toList | .float => "float".toList | .other s => s

def itemTypeOfText (s : Text) : ItemType :=
  if s == "object".toList then .object else if s == "array".toList then .array
  else if s == "integer".toList then .integer else if s == "string".toList then .string
  else if s == "boolean".toList then .boolean else if s == "float".toList then .float else .other s

mutual
/-- what `json.Marshal` produces (as a document; key order as given) -/
def GoVal.toJson : GoVal → Json
  | .nil => .null
  | .bool b => .bool b
  | .int _ n => .num (decide (n < 0)) n.natAbs 0
  | .float _ f _ => .num f.neg f.m f.e
  | .str s => .str s
  | .slice xs => .arr xs.toJson
  | .map kvs => .obj kvs.toJson
  | .struct fs => .obj fs.toJson
  | .ptr v => v.toJson
  | .nilPtr _ => .null
  | .valuePtr ty s => .obj (.cons "type".toList (.str (itemTypeText ty)) (.cons "value".toList (.str s) .nil))
  | .nilValuePtr => .null
  | .opaque _ => .null
def GList.toJson : GList → JList
  | .nil => .nil
  | .cons x xs => .cons x.toJson xs.toJson
def GFields.toJson : GFields → JFields
  | .nil => .nil
  | .cons k v r => .cons k v.toJson r.toJson
end

/-- lexicographic order on texts by code point (Go's byte order on UTF-8 agrees with it) -/
def textLt : Text → Text → Bool
  | [], [] => false
  | [], _ :: _ => true
  | _ :: _, [] => false
  | a :: as, b :: bs => if a.toNat < b.toNat then true else if a.toNat > b.toNat then false else textLt as bs

/-- insert keeping keys sorted; an equal key is replaced (last one wins) -/
def JFields.insert (k : Text) (v : Json) : JFields → JFields
  | .nil => .cons k v .nil
  | .cons k' v' r =>
    if textLt k k' then .cons k v (.cons k' v' r)
    else if k == k' then .cons k v r
    else .cons k' v' (JFields.insert k v r)

def canonNum (neg : Bool) (m : Nat) (e : Int) : Json :=
  let (m1, e1) := round53 m e
  let (m2, e2) := normDy 1200 m1 e1
  .num neg m2 e2

mutual
/-- canonical form of a document: numbers as float64 (what decoding into `any` yields), keys sorted -/
def Json.canon : Json → Json
  | .null => .null
  | .bool b => .bool b
  | .num s m e => canonNum s m e
  | .str s => .str s
  | .arr xs => .arr xs.canon
  | .obj kvs => .obj kvs.canon
def JList.canon : JList → JList
  | .nil => .nil
  | .cons x xs => .cons x.canon xs.canon
def JFields.canon : JFields → JFields
  | .nil => .nil
  | .cons k v r => JFields.insert k v.canon r.canon
end

/-- sonic `Marshal` / `Unmarshal` of composite values, abstractly -/
structure Codec where
  T : Type
  /-- `json.Marshal` -/
  print : Json → T
  /-- `json.Unmarshal` of a marshalled text -/
  parse : T → Option Json
  /-- `json.Unmarshal` of a text supplied by the user -/
  parseText : Text → Option Json

/-- the single law assumed of the JSON library -/
def Codec.Lawful (C : Codec) : Prop := ∀ j, C.parse (C.print j) = some j.canon

/-- a codec for which the law holds by construction (shows the hypothesis is satisfiable) -/
def Codec.ideal : Codec := { T := Json, print := id, parse := fun j => some j.canon, parseText := fun _ => none }

theorem Codec.ideal_lawful : Codec.ideal.Lawful := fun _ => rfl

/-! ## `schema.Value` -/

/-- `ItemValue`: plain characters, or the text `json.Marshal` produced -/
inductive IV (T : Type) | chars (s : Text) | doc (t : T)

structure Value (T : Type) where
  ty : ItemType
  val : IV T

def Value.empty (T : Type) (ty : ItemType := .other []) : Value T := { ty, val := .chars [] }

inductive Panic
  | reflectAccessor (a : Accessor) (k : Kind)   -- e.g. `reflect: call of reflect.Value.Int on uint8 Value`
  | nilType (ty : ItemType)                     -- `reflect.TypeOf(nil).Kind()`
  | nilValuePtr                                 -- `vv.ItemType` on a nil `*Value`
deriving DecidableEq, Repr

def boolText (b : Bool) : Text := if b then "true".toList else "false".toList

/-- `json.Unmarshal(text, &arr)` into `[]any` succeeds -/
def isArrayDoc : Option Json → Bool
  | some (.arr _) => true
  | some .null => true
  | _ => false

/-- the kind `reflect.TypeOf(value)` reports after one `Elem()` on a pointer (object branch) -/
def GoVal.elemKind : GoVal → Kind
  | .ptr v => v.kind
  | .nilPtr k => k
  | .valuePtr _ _ | .nilValuePtr => .struct
  | v => v.kind

/-- `rv := reflect.ValueOf(value)`, one `Elem()` through a pointer: the kind switched on and the value read -/
def reflectOf : GoVal → Kind × GoVal
  | .ptr w => (w.kind, w)
  | .nilPtr _ | .nilValuePtr => (.invalid, .nil)
  | w => (w.kind, w)

/-- what a non-panicking case of the inferred kind switch stores -/
def inferStore (C : Codec) (iv : Value C.T) (v : GoVal) (a : Accessor) (inner : GoVal) : Value C.T :=
  match a, inner with
  | .marshalArray, _ => { ty := .array, val := .doc (C.print v.toJson) }
  | .marshalObject, _ => { ty := .object, val := .doc (C.print v.toJson) }
  | .string, .str s => { ty := .string, val := .chars s }
  | .bool, .bool b => { ty := .boolean, val := .chars (boolText b) }
  | .int, .int _ n => { ty := .integer, val := .chars (printInt n) }
  | .uint, .int _ n => { ty := .integer, val := .chars (printInt n) }
  | .float, .float _ f _ => { ty := .float, val := .chars f.g }
  | _, _ => iv      -- accessor / kind combinations the model does not follow

/-- the inferred (`default:`) branch of `ValueFrom` -/
def inferFrom (cfg : Cfg) (C : Codec) (iv : Value C.T) (v : GoVal) : Except Panic (Value C.T) :=
  match cfg.accessor (reflectOf v).1 with
  | none => .ok iv
  | some a =>
    if a.panics (reflectOf v).1 then .error (.reflectAccessor a (reflectOf v).1)
    else .ok (inferStore C iv v a (reflectOf v).2)

/-- `(*Value).ValueFrom(value)` -/
def valueFrom (cfg : Cfg) (C : Codec) (iv : Value C.T) (v : GoVal) : Except Panic (Value C.T) :=
  match v with
  | .valuePtr ty s => .ok { ty, val := .chars s }
  | .nilValuePtr => if cfg.nilGuardValuePtr then .ok iv else .error .nilValuePtr   -- guarded: `if vv == nil { return }`
  | _ =>
  match iv.ty with
  | .string =>
    match v with
    | .str s => .ok { iv with val := .chars s }
    | _ => .ok iv
  | .integer =>
    match v with
    | .int k n => if cfg.declInt.contains k.kind then .ok { iv with val := .chars (printInt n) } else .ok iv
    | .str s => if parseInt64Ok s then .ok { iv with val := .chars s } else .ok iv
    | _ => .ok iv
  | .boolean =>
    match v with
    | .bool b => .ok { iv with val := .chars (boolText b) }
    | .str s => if s == "true".toList || s == "false".toList then .ok { iv with val := .chars s } else .ok iv
    | _ => .ok iv
  | .float =>
    match v with
    | .float _ f short =>
      .ok { iv with val := .chars (if cfg.floatSix then f6 f else if cfg.floatWide then f.g else short) }
    | .str s => if (decVal s).isSome then .ok { iv with val := .chars s } else .ok iv
    | _ => .ok iv
  | .array =>
    match v with
    | .nil => if cfg.nilGuardArray then .ok iv else .error (.nilType .array)
    | .slice _ => .ok { iv with val := .doc (C.print v.toJson) }
    | .str s => if isArrayDoc (C.parseText s) then .ok { iv with val := .chars s } else .ok iv
    | _ => .ok iv
  | .object =>
    match v with
    | .nil => if cfg.nilGuardObject then .ok iv else .error (.nilType .object)
    | _ =>
      if v.elemKind == .struct || v.elemKind == .map then .ok { iv with val := .doc (C.print v.toJson) }
      else .ok iv
  | .other _ => inferFrom cfg C iv v

/-- `schema.NewValue(value)` -/
def newValue (cfg : Cfg) (C : Codec) (v : GoVal) : Except Panic (Value C.T) :=
  valueFrom cfg C (Value.empty C.T) v

/-- what `Value()` returns -/
inductive RVal
  | str (s : Text)
  | int (n : Int)
  | bool (b : Bool)
  | dec (d : Option Dec)    -- float64 nearest to that decimal (`none`: the text did not parse, 0)
  | json (j : Json)         -- `[]any` / `map[string]any` (canonical), `null` for a nil slice / map
  | opaque                  -- a marshalled text read as a scalar (not reachable through `valueFrom`)
deriving DecidableEq, Repr

/-- `(*Value).ValueFor()` -/
def valueFor (C : Codec) (v : Value C.T) : RVal :=
  match v.ty, v.val with
  | .integer, .chars s => .int ((parseInt64 s).getD 0)
  | .boolean, .chars s => .bool (s == "true".toList)
  | .float, .chars s => .dec (decVal s)
  | .array, val =>
    let j := match val with | .chars s => C.parseText s | .doc t => C.parse t
    match j with
    | some (.arr xs) => .json (.arr xs)
    | _ => .json .null
  | .object, val =>
    let j := match val with | .chars s => C.parseText s | .doc t => C.parse t
    match j with
    | some (.obj kvs) => .json (.obj kvs)
    | some .null => .json .null
    | _ => .json (.obj .nil)
  | _, .chars s => .str s
  | _, .doc _ => .opaque

/-! ## The specification side: what a stored value must read back as -/

/-- item type a supported value must be stored under -/
def GoVal.itemType : GoVal → Option ItemType
  | .bool _ => some .boolean
  | .int _ _ => some .integer
  | .float _ _ _ => some .float
  | .str _ => some .string
  | .slice _ => some .array
  | .map _ | .struct _ => some .object
  | .ptr v => match v with
    | .ptr _ | .nilPtr _ | .valuePtr _ _ | .nilValuePtr | .nil | .opaque _ => none
    | w => w.itemType
  | _ => none

/-- does the read-back `r` denote the value `v` in canonical form -/
def sameValue (r : RVal) : GoVal → Bool
  | .bool b => r == .bool b
  | .int _ n => r == .int n
  | .float _ f _ => match r with
    | .dec (some d) => roundsTo d f
    | _ => false
  | .str s => r == .str s
  | .slice xs => r == .json (GoVal.slice xs).toJson.canon
  | .map kvs => r == .json (GoVal.map kvs).toJson.canon
  | .struct fs => r == .json (GoVal.struct fs).toJson.canon
  | .ptr v => match v with
    | .ptr _ | .nilPtr _ | .valuePtr _ _ | .nilValuePtr | .nil | .opaque _ => false
    | w => sameValue r w
  | _ => false

/-! ## Variable store (`pkg/data.FlowDataLocator.variables`) with explicit addresses, so that
aliasing between an instance's store and a clone is expressible -/

abbrev Store (T : Type) := List (Text × Value T)

def Store.get {T : Type} (s : Store T) (k : Text) : Option (Value T) := (s.find? (·.1 == k)).map (·.2)

def Store.set {T : Type} (s : Store T) (k : Text) (v : Value T) : Store T :=
  match s with
  | [] => [(k, v)]
  | (k', v') :: r => if k' == k then (k, v) :: r else (k', v') :: Store.set r k v

def Store.erase {T : Type} (s : Store T) (k : Text) : Store T := s.filter (·.1 != k)

structure Heap (T : Type) where
  stores : List (Store T)

def Heap.new {T : Type} (h : Heap T) : Nat × Heap T := (h.stores.length, { stores := h.stores ++ [[]] })

def Heap.read {T : Type} (h : Heap T) (a : Nat) (k : Text) : Option (Value T) := (h.stores.getD a []).get k

/-- `SetVariable` on the store at address `a` (the value already encoded) -/
def Heap.write {T : Type} (h : Heap T) (a : Nat) (k : Text) (v : Value T) : Heap T :=
  { stores := h.stores.set a ((h.stores.getD a []).set k v) }

def Heap.erase {T : Type} (h : Heap T) (a : Nat) (k : Text) : Heap T :=
  { stores := h.stores.set a ((h.stores.getD a []).erase k) }

/-- `CloneVariables`: a fresh map with the same entries -/
def Heap.clone {T : Type} (h : Heap T) (a : Nat) : Nat × Heap T :=
  (h.stores.length, { stores := h.stores ++ [h.stores.getD a []] })

/-- `SetVariable(name, value)` for a plain Go value: `variables[name] = NewValue(value)` -/
def setVariable (cfg : Cfg) (C : Codec) (s : Store C.T) (k : Text) (v : GoVal) : Except Panic (Store C.T) :=
  (newValue cfg C v).map (s.set k ·)

/-- `GetVariable(name)` -/
def getVariable (C : Codec) (s : Store C.T) (k : Text) : Option RVal := (s.get k).map (valueFor C)

/-! ## `$name.path` references (`locatorJSONGet`) -/

def RVal.toJson : RVal → Json
  | .str s => .str s
  | .int n => .num (decide (n < 0)) n.natAbs 0
  | .bool b => .bool b
  | .dec _ => .null      -- float variables are not followed through references by the model
  | .json j => j
  | .opaque => .null

def JFields.lookup (k : Text) : JFields → Option Json
  | .nil => none
  | .cons k' v r => if k' == k then some v else JFields.lookup k r

def JList.nth : JList → Nat → Option Json
  | .nil, _ => none
  | .cons x _, 0 => some x
  | .cons _ xs, n + 1 => JList.nth xs n

/-- gjson path of plain components (object keys, array indices) -/
def pathGet : Json → List Text → Option Json
  | j, [] => some j
  | .obj kvs, k :: r => match kvs.lookup k with
    | some v => pathGet v r
    | none => none
  | .arr xs, k :: r => match parseNat k with
    | some i => match xs.nth i with
      | some v => pathGet v r
      | none => none
    | none => none
  | _, _ :: _ => none

def splitDotsAux : Text → Text → List Text
  | [], cur => [cur.reverse]
  | c :: r, cur => if c == '.' then cur.reverse :: splitDotsAux r [] else splitDotsAux r (c :: cur)

def splitDots (s : Text) : List Text := splitDotsAux s []

/-- result of `locatorJSONGet`: `none` = `(nil, false)`; `some none` = `(nil, true)`; `some (some j)` = a value -/
def locatorRef (C : Codec) (s : Store C.T) (ref : Text) : Option (Option Json) :=
  match ref with
  | '$' :: rest =>
    if rest.isEmpty then none else
    match splitAt '.' rest with
    | none => none
    | some (name, path) =>
      match getVariable C s name with
      | none => none
      | some r =>
        match pathGet r.toJson (splitDots path) with
        | some .null => some none
        | some j => some (some j)
        | none => some none
  | _ => none

mutual
/-- the `any` that gjson's `Value()` hands back, as a Go value (numbers are float64; their `%v` text is
not reconstructed) -/
def jsonAsGo : Json → GoVal
  | .null => .nil
  | .bool b => .bool b
  | .num s m e => .float false { neg := s, m, e, g := [] } []
  | .str s => .str s
  | .arr xs => .slice (jlistAsGo xs)
  | .obj kvs => .map (jfieldsAsGo kvs)
def jlistAsGo : JList → GList
  | .nil => .nil
  | .cons x xs => .cons (jsonAsGo x) (jlistAsGo xs)
def jfieldsAsGo : JFields → GFields
  | .nil => .nil
  | .cons k v r => .cons k (jsonAsGo v) (jfieldsAsGo r)
end

/-- one `olive:property` of `FetchTaskDataInput`: declared type `ty`, empty value, reference `ref` -/
def fetchProperty (cfg : Cfg) (C : Codec) (s : Store C.T) (ty : ItemType) (ref : Text) : Except Panic (Value C.T) :=
  let v0 : Value C.T := { ty, val := .chars [] }
  match locatorRef C s ref with
  | none => .ok v0
  | some none => valueFrom cfg C v0 .nil
  | some (some j) => valueFrom cfg C v0 (jsonAsGo j)

end Bpmn.Model.Value
