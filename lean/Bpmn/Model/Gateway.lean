/-
Layer 0 kernels of the gateways.

`distribute a s` is a port of gateway.go `distributeFlows(awaitingActions, sequenceFlows)` with
`a = len(awaitingActions)`, `s = len(sequenceFlows)`: the i-th waiting token receives either
`completeAction` or a `flowAction` carrying the slice `[lo, hi)` of the outgoing flows (all unconditional).
-/
namespace Bpmn.Model.Gateway

inductive Reply where
  | complete
  | flows (lo hi : Nat)
deriving Repr, DecidableEq

/-- the body of the Go loop for index `i` -/
def reply (a s i : Nat) : Reply :=
  let rangeEnd := if i + 1 == a then s else i + 1
  if rangeEnd ≤ s then
    if i ≥ rangeEnd then .complete else .flows i rangeEnd
  else .complete

def distribute (a s : Nat) : List Reply := (List.range a).map (reply a s)

/-- indices of outgoing flows a reply carries -/
def Reply.indices : Reply → List Nat
  | .complete => []
  | .flows lo hi => (List.range (hi - lo)).map (· + lo)

/-! Layer 0: gateway decisions. `nonDefault` is the gateway's outgoing list with the default flow removed
(order preserved), each with the outcome of its condition as reported by the probing token. -/

inductive Decision where
  | take (flow : String)
  | error
deriving Repr, DecidableEq

/-- gateway_exclusive.go, `gatewayProbingReport` branch: the first reported index wins, else the default,
else `ExclusiveNoEffectiveSequenceFlows` -/
def xgDecide (nonDefault : List (String × Bool)) (dflt : Option String) : Decision :=
  match (nonDefault.filter (·.2)).head? with
  | some (fl, _) => .take fl
  | none =>
    match dflt with
    | some d => .take d
    | none => .error

/-- gateway_inclusive.go: all reported flows, else the default alone, else (empty list) the error trace -/
def igDecide (nonDefault : List (String × Bool)) (dflt : Option String) : List String :=
  match (nonDefault.filter (·.2)).map (·.1) with
  | [] => (dflt.map ([·])).getD []
  | fls => fls

/-! Layer 1: the exclusive gateway actor (gateway_exclusive.go `run`): per token a two-phase probe.
Messages of token `t`: `na t` (a `nextActionMessage`; the first one is answered with a probe action, the
second one carries the reply channel for the decision) and `report t results` (the probing report).
The report and the second `na` may arrive in either order; a report that finds no reply channel yet is
re-queued at the back of the inbox. -/

inductive XMsg where
  | na (tok : Nat)
  | report (tok : Nat) (results : List (String × Bool))
deriving Repr

inductive XOut where
  | probe (tok : Nat)
  | reply (tok : Nat) (d : Decision)       -- `.error` = error trace, no reply sent
deriving Repr, DecidableEq

def XMsg.tok : XMsg → Nat
  | .na t => t
  | .report t _ => t

def XOut.tok : XOut → Nat
  | .probe t => t
  | .reply t _ => t

structure XG where
  dflt : Option String
  /-- `probing` map: token ↦ reply channel present? -/
  probing : List (Nat × Bool) := []
deriving Repr

def XG.lookup (g : XG) (t : Nat) : Option Bool := (g.probing.find? (·.1 == t)).map (·.2)
def XG.erase (g : XG) (t : Nat) : XG := { g with probing := g.probing.filter (·.1 != t) }
def XG.put (g : XG) (t : Nat) (b : Bool) : XG := { (g.erase t) with probing := (g.erase t).probing ++ [(t, b)] }

/-- handle one message; returns outputs and messages re-queued at the back of the inbox -/
def XG.step (g : XG) : XMsg → XG × List XOut × List XMsg
  | .na t =>
    match g.lookup t with
    | some _ => (g.put t true, [], [])
    | none => (g.put t false, [.probe t], [])
  | .report t res =>
    match g.lookup t with
    | some true => (g.erase t, [.reply t (xgDecide res g.dflt)], [])
    | some false => (g, [], [.report t res])
    | none => (g, [], [])                     -- error trace "probing[...] is to be present"

/-- run an inbox to exhaustion (fuel bounds the re-queues) -/
def XG.run (g : XG) : Nat → List XMsg → List XOut → XG × List XOut
  | 0, _, acc => (g, acc)
  | _, [], acc => (g, acc)
  | fuel + 1, m :: inbox, acc =>
    let (g', outs, back) := g.step m
    XG.run g' fuel (inbox ++ back) (acc ++ outs)

/-! Layer 1: the inclusive JOIN of a flat block, counting abstraction of `trySync`: the awaiting set is the
cohort of the fork's tokens that are still alive; each of them either arrives at the join or ends elsewhere
(then the tracker removes it and the gateway recomputes). `live` counts cohort tokens that have done neither. -/

inductive JEv where
  | arrive     -- a token of the fork activation reaches the join
  | ended      -- a token of the fork activation terminates elsewhere (branch ending before the join)
deriving Repr, DecidableEq

structure IJ where
  live : Nat
  arrived : Nat := 0
  releases : Nat := 0
deriving Repr, DecidableEq

def IJ.fire (j : IJ) : IJ :=
  if j.live == 0 && j.arrived != 0 then { j with arrived := 0, releases := j.releases + 1 } else j

def IJ.step (j : IJ) : JEv → IJ
  | .arrive => ({ j with live := j.live - 1, arrived := j.arrived + 1 } : IJ).fire
  | .ended => ({ j with live := j.live - 1 } : IJ).fire

def IJ.run (j : IJ) (evs : List JEv) : IJ := evs.foldl IJ.step j

/-! Layer 1: the parallel gateway actor -/

/-- gateway_parallel.go: `reportedIncomingFlows`, `awaitingActions` (token ids in arrival order) -/
structure PG where
  n : Nat            -- number of incoming flows
  m : Nat            -- number of outgoing flows
  waiting : List Nat := []
deriving Repr

/-- one `nextActionMessage`: returns the replies sent (token, reply), in order -/
def PG.step (g : PG) (tok : Nat) : PG × List (Nat × Reply) :=
  let w := g.waiting ++ [tok]
  if w.length == g.n then ({ g with waiting := [] }, w.zip (distribute w.length g.m))
  else ({ g with waiting := w }, [])

def PG.run (g : PG) : List Nat → PG × List (List (Nat × Reply))
  | [] => (g, [])
  | t :: ts =>
    let (g', out) := g.step t
    let (g'', outs) := g'.run ts
    (g'', out :: outs)

end Bpmn.Model.Gateway
