/-
Layer 0 kernels of the gateways.

`distribute a s` is a port of gateway.go `distributeFlows(awaitingActions, sequenceFlows)` with
`a = len(awaitingActions)`, `s = len(sequenceFlows)`: the i-th waiting token receives either
`completeAction` or a `flowAction` carrying the slice `[lo, hi)` of the outgoing flows (all unconditional).
-/
namespace Bpmn.Model.Gateway

inductive Reply where
  | complete
  | flows (lo hi : Nat)
deriving Repr, DecidableEq

/-- the body of the Go loop for index `i` -/
def reply (a s i : Nat) : Reply :=
  let rangeEnd := if i + 1 == a then s else i + 1
  if rangeEnd ≤ s then
    if i ≥ rangeEnd then .complete else .flows i rangeEnd
  else .complete

def distribute (a s : Nat) : List Reply := (List.range a).map (reply a s)

/-- indices of outgoing flows a reply carries -/
def Reply.indices : Reply → List Nat
  | .complete => []
  | .flows lo hi => (List.range (hi - lo)).map (· + lo)

/-! Layer 1: the parallel gateway actor -/

/-- gateway_parallel.go: `reportedIncomingFlows`, `awaitingActions` (token ids in arrival order) -/
structure PG where
  n : Nat            -- number of incoming flows
  m : Nat            -- number of outgoing flows
  waiting : List Nat := []
deriving Repr

/-- one `nextActionMessage`: returns the replies sent (token, reply), in order -/
def PG.step (g : PG) (tok : Nat) : PG × List (Nat × Reply) :=
  let w := g.waiting ++ [tok]
  if w.length == g.n then ({ g with waiting := [] }, w.zip (distribute w.length g.m))
  else ({ g with waiting := w }, [])

def PG.run (g : PG) : List Nat → PG × List (List (Nat × Reply))
  | [] => (g, [])
  | t :: ts =>
    let (g', out) := g.step t
    let (g'', outs) := g'.run ts
    (g'', out :: outs)

end Bpmn.Model.Gateway
