import Bpmn.Model.Cancel
import Bpmn.Gen.C07
/-!
The tables extracted from the current /repo tree (`Bpmn.Gen.C07`, regenerated on every run) read as a table of
goroutine kinds of the cancellation protocol model. Definitions only (the theorems about them are in
`Props/C07Current.lean`; the driver uses the same definitions to say what the model predicts for a leftover
goroutine). A table the extractor could not read is empty here; `Props/C07Current.lean` has the obligation that
all of them were read.

Whether the partner of an operation WITHOUT a cancellation alternative is guaranteed cannot be read off the
syntax alone; `justification` is the hand-maintained list of the reasons accepted (each with what is still
checked on the extracted row). Everything not justified counts as failing.
-/
namespace Bpmn.Model.CancelCurrent
open Bpmn.Model.Cancel

abbrev GoRow := String × String × Bool × Bool × Bool
abbrev OpRow := String × String × String × String × Bool × Option Nat

def GoRow.site (g : GoRow) : String := g.1
def GoRow.body (g : GoRow) : String := g.2.1
def GoRow.sends (g : GoRow) : Bool := g.2.2.1
def GoRow.registers (g : GoRow) : Bool := g.2.2.2.1
def GoRow.callsDone (g : GoRow) : Bool := g.2.2.2.2
def OpRow.body (r : OpRow) : String := r.1
def OpRow.fn (r : OpRow) : String := r.2.1
def OpRow.kind (r : OpRow) : String := r.2.2.1
def OpRow.chan (r : OpRow) : String := r.2.2.2.1
def OpRow.cancelAlt (r : OpRow) : Bool := r.2.2.2.2.1
def OpRow.cap (r : OpRow) : Option Nat := r.2.2.2.2.2
def OpRow.key (r : OpRow) : String × String × String := (r.fn, r.kind, r.chan)

inductive Why where
  /-- a reply channel created with capacity ≥ 1 by the requester for exactly one reply; checked: capacity ≥ 1 -/
  | bufferedReply
  /-- a node inbox of capacity 2·incoming+1; assumed never full (a token has at most one message outstanding per
  node); checked: capacity ≥ 1 -/
  | inbox
  /-- the receiver is a loop that serves this channel until the tracer has terminated -/
  | servedUntilDone
  /-- the requester waits synchronously, without alternative, for exactly this message -/
  | syncRequester
  /-- a subscriber must keep reading until it unsubscribes (API contract of `SubscribeChannel`); checked: no function
  of the engine subscribes without ever unsubscribing (`subscribersWithoutUnsubscribe = []`) -/
  | subscriberContract
deriving DecidableEq, Repr

def justification : List ((String × String × String) × Why) := [
  (("endEvent.run", "send", "_.response"), .bufferedReply),
  (("exclusiveGateway.run", "send", "_"), .bufferedReply),
  (("exclusiveGateway.run", "send", "_.response"), .bufferedReply),
  (("harness.run", "send", "_.response"), .bufferedReply),
  (("harness.run$1", "send", "_"), .bufferedReply),
  (("genericTask.run$1", "send", "_.response"), .bufferedReply),
  (("subProcess.run$1", "send", "_.response"), .bufferedReply),
  (("taskTrace.process", "send", "_.response"), .bufferedReply),
  (("Process.WaitUntilComplete$1", "send", "_"), .bufferedReply),
  -- node loops answering a token: one reply per channel; fine once the channel made by NextAction is buffered
  (("startEvent.run", "send", "_.response"), .bufferedReply),
  (("throwEvent.run", "send", "_.response"), .bufferedReply),
  (("catchEvent.run", "send", "_"), .bufferedReply),
  (("eventBasedGateway.run", "send", "_.response"), .bufferedReply),
  (("inclusiveGateway.trySync", "send", "_.activated.response"), .bufferedReply),
  (("distributeFlows", "send", "_"), .bufferedReply),   -- buffered since the fix of D2 (3a1abd8)
  (("catchEvent.NextAction", "send", "_.mch"), .inbox),
  (("catchEvent.ConsumeEvent", "send", "_.mch"), .inbox),
  (("endEvent.NextAction", "send", "_.mch"), .inbox),
  (("startEvent.NextAction", "send", "_.mch"), .inbox),
  (("startEvent.ConsumeEvent", "send", "_.mch"), .inbox),
  (("startEvent.Trigger", "send", "_.mch"), .inbox),
  (("throwEvent.NextAction", "send", "_.mch"), .inbox),
  (("throwEvent.ConsumeEvent", "send", "_.mch"), .inbox),
  (("throwEvent.Trigger", "send", "_.mch"), .inbox),
  (("eventBasedGateway.NextAction", "send", "_.mch"), .inbox),
  (("exclusiveGateway.NextAction", "send", "_.mch"), .inbox),
  (("exclusiveGateway.run$1", "send", "_.mch"), .inbox),
  (("exclusiveGateway.run$lit", "send", "_.mch"), .inbox),
  (("inclusiveGateway.NextAction", "send", "_.mch"), .inbox),
  (("inclusiveGateway.run$1", "send", "_.mch"), .inbox),
  (("inclusiveGateway.trySync$lit", "send", "_.mch"), .inbox),
  (("parallelGateway.NextAction", "send", "_.mch"), .inbox),
  (("harness.NextAction", "send", "_.mch"), .inbox),
  (("genericTask.NextAction", "send", "_.mch"), .inbox),
  (("genericTask.Cancel", "send", "_.mch"), .inbox),
  (("subProcess.NextAction", "send", "_.mch"), .inbox),
  (("subProcess.Cancel", "send", "_.mch"), .inbox),
  (("ProcessSet.tracerProcess", "send", "_.mch"), .inbox),
  (("genericTask.run", "send", "_.response"), .syncRequester),     -- reply to `<-node.activity.Cancel()`
  (("subProcess.run", "send", "_.response"), .syncRequester),
  (("tracing.tracer.run", "send", "_.ok"), .syncRequester),      -- SubscribeChannel waits on `<-okCh`
  (("tracing.tracer.run", "send", "_.ok"), .syncRequester),    -- Unsubscribe loops on `<-okChan`
  (("tracing.tracer.run", "send", "_"), .subscriberContract),
  (("tracing.tracer.run$1", "send", "_.terminate"), .servedUntilDone)]

/-- functions that subscribe to a tracer and never unsubscribe (extracted) -/
def deadSubscribers : List String := Bpmn.Gen.C07.subscribersWithoutUnsubscribe.getD []

def partnerOf (r : OpRow) : Bool :=
  match justification.lookup r.key with
  | some .bufferedReply | some .inbox =>
    (match r.cap with
     | some c => decide (1 ≤ c)
     | none => false)
  | some .subscriberContract => deadSubscribers.isEmpty
  | some _ => true
  | none => false

def opOf (r : OpRow) : Op := ⟨r.cancelAlt, partnerOf r⟩

/-- `sync.WaitGroup.Wait` rows are not actor operations (see Model/Cancel.lean) -/
def isActorOp (r : OpRow) : Bool := r.kind != "wgwait"

/-- go sites whose handle comes from ANOTHER tracer than the one the body sends on (extracted): with respect to the
tracer it sends on, such a goroutine is not a registered sender -/
def otherTracer : List String := Bpmn.Gen.C07.registrationOnOtherTracer.getD []

/-- registered with the tracer it sends on -/
def GoRow.registered (g : GoRow) : Bool := g.registers && !otherTracer.contains g.site

def kindOf (ops : List OpRow) (g : GoRow) : Kind :=
  { name := g.site,
    ops := (ops.filter (fun r => r.body == g.body && isActorOp r)).map opOf,
    sends := g.sends, registered := g.registered,
    -- `Done()` on a handle of another tracer does nothing for this one
    callsDone := g.callsDone && !otherTracer.contains g.site }

def tableOf (gs : List GoRow) (ops : List OpRow) : List Kind := gs.map (kindOf ops)

/-- the extracted tables (`none` = the extractor found no `go` statement at all: this does not elaborate) -/
def goRows : List GoRow := Bpmn.Gen.C07.goroutines.getD []
def opRows : List OpRow := Bpmn.Gen.C07.blockingOps.getD []
def carries : Bool := Bpmn.Gen.C07.taskRequestCarriesRunCtx.getD false
def hotPolls : List (String × String) := Bpmn.Gen.C07.hotPollAfterCancel.getD []
def subTracerDetached : Bool := Bpmn.Gen.C07.subProcessTracerDetached.getD true

def current : List Kind := tableOf goRows opRows

/-- goroutine sites that send traces without being registered senders -/
def failingSenderBodies : List String :=
  ((goRows.filter (fun g => g.sends && !g.registered)).map GoRow.body).eraseDups

def failingSenders : List String :=
  (goRows.filter (fun g => g.sends && !g.registered)).map GoRow.site

/-- sites where registration and `Done()` do not go together -/
def unbalanced : List String :=
  (goRows.filter (fun g => g.registers != g.callsDone)).map GoRow.site

/-- operations with neither a cancellation alternative nor a justified partner -/
def failingOps : List (String × String × String) :=
  ((opRows.filter (fun r => isActorOp r && !(opOf r).passable)).map OpRow.key).eraseDups

/-- the inner tracer of an embedded sub-process: its `select` has a `ctx.Done()` alternative, but `ctx` is the
sub-process's own (derived from `context.Background()`, cancelled by `defer sp.cancel()` in `subProcess.run`). For
a sub-process the token never entered nobody cancels it: with respect to the INSTANCE's cancel the alternative is
not there. -/
def subTracerKind : Kind :=
  { name := "newSubProcess→tracing.tracer.run", ops := [⟨!subTracerDetached, false⟩],
    sends := false, registered := false, callsDone := false }


/-- every table was found by the extractor -/
def tablesFound : Bool :=
  Bpmn.Gen.C07.goroutines.isSome && Bpmn.Gen.C07.blockingOps.isSome && Bpmn.Gen.C07.taskRequestCarriesRunCtx.isSome &&
  Bpmn.Gen.C07.hotPollAfterCancel.isSome && Bpmn.Gen.C07.subProcessTracerDetached.isSome &&
  Bpmn.Gen.C07.subscribersWithoutUnsubscribe.isSome && Bpmn.Gen.C07.registrationOnOtherTracer.isSome

end Bpmn.Model.CancelCurrent
