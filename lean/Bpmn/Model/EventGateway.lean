/-!
# Event-based gateway — winner / loser hand-off at channel granularity (layer 1, property C06)

A port of what `/repo/gateway_event_based.go`, the `select` loop of `flow.Start` (`/repo/flow.go`) and the catch
event node (`/repo/event_catch.go`) DO, defects included. Core Lean only.

The gateway hands the arriving token one `flowAction` with `k` sequence flows, one termination channel per flow
(`terminationChannels[id] = make(chan bool[, ebgTermCap])`), a `terminate` closure that looks the channel up in the
(captured, later REASSIGNED) map variable, and an action transformer. The token continues on the first flow and forks
one flow per further alternative; each of these `k` flows then loops in

    select { case <-ctx.Done(): …
             case terminate := <-f.termination(): …           -- evaluated first
             case action := <-f.current.NextAction(ctx, f): … -- registers a fresh reply channel at the catch node }

Actors and their program counters:

* flow `i` (`Pc`): `starting` (forked, select not evaluated yet) → `selecting` (inside the select: may receive `true`
  on its termination channel or its catch event's action) → `gotAction` (its event fired; about to run the
  transformer — hook `flow.action`) → `inTransformer` (hook `ebg.transformer.enter`, before the compare-and-swap)
  → either `notifying` (it won the CAS — hook `ebg.transformer.won`; it loops over ALL channels: `ch <- true` to
  every other one — hook `ebg.transformer.before_notify` — then `close(ch)`; Go's map iteration order is
  unspecified, so the loop index is represented by the set of channels already closed plus the channel the loop is
  at (`target`): the scheduler picks the next channel among the unclosed ones WHETHER OR NOT its flow can receive,
  and the winner is then committed to it) → `continued` (the transformer returned the original action: the branch continues, exactly here)
  or `completed` (it lost the CAS, got `completeAction`, the flow ends);
  `selecting` → `terminated` when it reads `true` from its termination channel.
* catch node `j`: inbox of capacity `inboxCap` (`len(incoming)*2+1`) holding `reg` (the flow's `nextActionMessage`
  with its parked reply channel) and `ev a` (`processEventMessage`); `active` (`activated`, which here coincides with
  "one reply channel is parked": each flow registers once); `sending` while it executes `actionChan <- flowAction{…}`
  on the parked reply channel of capacity `replyCap` (0 today: a rendezvous with the flow's select).
* deliveries: `Process.ConsumeEvent` forwards the event to every consumer's inbox in registration order, blocking on a
  full inbox; several may be in flight (`dels`).
* the CAS flag `first` (with the identity of the flow that set it), the captured map variable (`mapGone`: it has been
  replaced by an empty map, so `terminate` returns a nil channel from now on — only if `mapReplaced`), the flow
  wait group `wg`.

A schedule is an explicit list of labels; a label that is not enabled is skipped by `exec` (so every list is a
schedule and theorems quantify over all of them) and rejected by `run` (used for witnesses).
-/
namespace Bpmn.Model.EventGateway

inductive Pc where
  | starting | selecting | gotAction | inTransformer | notifying | continued | terminated | completed
  deriving DecidableEq, Repr, Inhabited

inductive NodePc where
  | idle | sending
  deriving DecidableEq, Repr, Inhabited

inductive Msg where
  | ev (a : Nat)
  | reg
  deriving DecidableEq, Repr, Inhabited

/-- the program parameter `k` and the facts read from the source -/
structure Cfg where
  k : Nat
  /-- capacity of each termination channel (`ebgTermCap`; 0 today) -/
  termCap : Nat
  /-- the winner assigns a fresh empty map to the captured `terminationChannels` variable after its loop -/
  mapReplaced : Bool
  /-- capacity of the reply channel made by `catchEvent.NextAction` (0 today) -/
  replyCap : Nat
  /-- capacity of a catch node's inbox -/
  inboxCap : Nat
  deriving Repr

def upd {α : Type} (f : Nat → α) (i : Nat) (v : α) : Nat → α := fun j => if j = i then v else f j

@[simp] theorem upd_same {α : Type} (f : Nat → α) (i : Nat) (v : α) : upd f i v i = v := by simp [upd]
@[simp] theorem upd_other {α : Type} (f : Nat → α) (i j : Nat) (v : α) (h : j ≠ i) : upd f i v j = f j := by
  simp [upd, h]

structure St where
  pc : Nat → Pc
  /-- the compare-and-swap flag: `none` = 0, `some w` = 1, set by flow `w` -/
  first : Option Nat
  /-- termination channel `t` has been closed by the winner -/
  closed : Nat → Bool
  /-- number of values buffered in termination channel `t` -/
  termBuf : Nat → Nat
  /-- flow `i` evaluated `f.termination()` after the map had been replaced: its select waits on a nil channel -/
  nilChan : Nat → Bool
  mapGone : Bool
  /-- the channel the winner's loop is at (`none`: between two iterations) -/
  target : Option Nat
  npc : Nat → NodePc
  active : Nat → Bool
  /-- number of values buffered in the reply channel parked at node `j` -/
  replyBuf : Nat → Nat
  inbox : Nat → List Msg
  /-- deliveries in flight: (event, index of the next consumer to forward to) -/
  dels : List (Nat × Nat)
  /-- the flow wait group restricted to the gateway's flows -/
  wg : Nat

def init (c : Cfg) : St :=
  { pc := fun _ => .starting, first := none, closed := fun _ => false, termBuf := fun _ => 0,
    nilChan := fun _ => false, mapGone := false, target := none, npc := fun _ => .idle, active := fun _ => false,
    replyBuf := fun _ => 0, inbox := fun _ => [], dels := [], wg := c.k }

/-- scheduler choices -/
inductive Lbl where
  | enterSelect (i : Nat)        -- flow i evaluates its select: termination(), then NextAction (registers)
  | node (j : Nat)               -- catch node j takes the next inbox message
  | send (j : Nat)               -- catch node j completes `actionChan <- flowAction`
  | takeAction (j : Nat)         -- flow j takes the buffered action out of its reply channel (replyCap ≥ 1)
  | enterTransformer (i : Nat)   -- flow i calls the action transformer
  | cas (i : Nat)                -- compare-and-swap
  | pick (i t : Nat)             -- winner i: the map iteration yields channel t next
  | notify (i t : Nat)           -- winner i: `ch_t <- true; close(ch_t)` for another alternative t
  | closeOwn (i : Nat)           -- winner i: `close(ch_i)`
  | finish (i : Nat)             -- winner i: loop done, map variable reassigned, original action returned
  | recvTerm (t : Nat)           -- flow t reads `true` from its (buffered) termination channel
  | deliver (a : Nat)            -- INPUT: somebody calls ConsumeEvent(event of alternative a)
  | forward (d : Nat)            -- delivery d pushes its event into the next consumer's inbox
  deriving DecidableEq, Repr, Inhabited

def Lbl.isInput : Lbl → Bool
  | .deliver _ => true
  | _ => false

/-- the `d`-th delivery in flight: (event, next consumer) -/
def delAt (s : St) (d : Nat) : Nat × Nat := (s.dels[d]?).getD (0, 0)

def allClosed (c : Cfg) (s : St) : Bool := (List.range c.k).all (fun t => s.closed t)

/-- is the label enabled -/
def enabled (c : Cfg) (s : St) : Lbl → Bool
  | .enterSelect i => decide (i < c.k) && decide (s.pc i = .starting) && decide ((s.inbox i).length < c.inboxCap)
  | .node j => decide (j < c.k) && decide (s.npc j = .idle) && !(s.inbox j).isEmpty
  | .send j =>
    decide (j < c.k) && decide (s.npc j = .sending) &&
      (if c.replyCap = 0 then decide (s.pc j = .selecting) else decide (s.replyBuf j < c.replyCap))
  | .takeAction j => decide (j < c.k) && decide (s.pc j = .selecting) && decide (0 < s.replyBuf j)
  | .enterTransformer i => decide (i < c.k) && decide (s.pc i = .gotAction)
  | .cas i => decide (i < c.k) && decide (s.pc i = .inTransformer)
  | .pick i t =>
    decide (i < c.k) && decide (t < c.k) && decide (s.pc i = .notifying) && decide (s.target = none) && !s.closed t
  | .notify i t =>
    decide (i < c.k) && decide (t < c.k) && decide (t ≠ i) && decide (s.pc i = .notifying) &&
      decide (s.target = some t) &&
      (if c.termCap = 0 then decide (s.pc t = .selecting) && !s.nilChan t else decide (s.termBuf t < c.termCap))
  | .closeOwn i => decide (i < c.k) && decide (s.pc i = .notifying) && decide (s.target = some i)
  | .finish i => decide (i < c.k) && decide (s.pc i = .notifying) && decide (s.target = none) && allClosed c s
  | .recvTerm t => decide (t < c.k) && decide (s.pc t = .selecting) && !s.nilChan t && decide (0 < s.termBuf t)
  | .deliver a => decide (a < c.k)
  | .forward d =>
    decide (d < s.dels.length) && decide ((delAt s d).2 < c.k) &&
      decide ((s.inbox (delAt s d).2).length < c.inboxCap)

/-- effect of an enabled label (conditions are pushed into the field values: easier to project) -/
def fire (c : Cfg) (s : St) : Lbl → St
  | .enterSelect i =>
    { s with pc := upd s.pc i .selecting, nilChan := upd s.nilChan i s.mapGone,
             inbox := upd s.inbox i (s.inbox i ++ [.reg]) }
  | .node j =>
    -- `reg`: the flow's reply channel is parked, the node is activated; `ev j` while activated: the node starts
    -- sending the action on the parked channel; anything else is dropped
    { s with inbox := upd s.inbox j (s.inbox j).tail,
             active := if (s.inbox j).head? = some .reg then upd s.active j true else s.active,
             npc := if (s.inbox j).head? = some (.ev j) ∧ s.active j = true then upd s.npc j .sending else s.npc }
  | .send j =>
    { s with npc := upd s.npc j .idle, active := upd s.active j false,
             pc := if c.replyCap = 0 then upd s.pc j .gotAction else s.pc,
             replyBuf := if c.replyCap = 0 then s.replyBuf else upd s.replyBuf j (s.replyBuf j + 1) }
  | .takeAction j => { s with pc := upd s.pc j .gotAction, replyBuf := upd s.replyBuf j (s.replyBuf j - 1) }
  | .enterTransformer i => { s with pc := upd s.pc i .inTransformer }
  | .cas i =>
    { s with first := if s.first = none then some i else s.first,
             pc := upd s.pc i (if s.first = none then .notifying else .completed),
             wg := if s.first = none then s.wg else s.wg - 1 }
  | .pick _ t => { s with target := some t }
  | .notify _ t =>
    { s with closed := upd s.closed t true, target := none,
             pc := if c.termCap = 0 then upd s.pc t .terminated else s.pc,
             wg := if c.termCap = 0 then s.wg - 1 else s.wg,
             termBuf := if c.termCap = 0 then s.termBuf else upd s.termBuf t (s.termBuf t + 1) }
  | .closeOwn i => { s with closed := upd s.closed i true, target := none }
  | .finish i => { s with pc := upd s.pc i .continued, mapGone := s.mapGone || c.mapReplaced }
  | .recvTerm t =>
    { s with pc := upd s.pc t .terminated, termBuf := upd s.termBuf t (s.termBuf t - 1), wg := s.wg - 1 }
  | .deliver a => { s with dels := s.dels ++ [(a, 0)] }
  | .forward d =>
    { s with inbox := upd s.inbox (delAt s d).2 (s.inbox (delAt s d).2 ++ [.ev (delAt s d).1]),
             dels := if (delAt s d).2 + 1 = c.k then s.dels.eraseIdx d
                     else s.dels.set d ((delAt s d).1, (delAt s d).2 + 1) }

def step (c : Cfg) (l : Lbl) (s : St) : Option St := if enabled c s l then some (fire c s l) else none

/-- every list of labels is a schedule: a label that is not enabled is skipped -/
def exec (c : Cfg) (s : St) (sch : List Lbl) : St := sch.foldl (fun s l => (step c l s).getD s) s

/-- strict execution for witnesses: every label must be enabled -/
def run (c : Cfg) (s : St) : List Lbl → Option St
  | [] => some s
  | l :: ls => (step c l s).bind (fun s' => run c s' ls)

/-! ## observables -/

/-- the flow passed the compare-and-swap -/
def Pc.won : Pc → Bool
  | .notifying | .continued => true
  | _ => false

/-- the flow's goroutine has ended (its deferred `flowWaitGroup.Done()` ran) -/
def Pc.gone : Pc → Bool
  | .terminated | .completed => true
  | _ => false

/-- the flow has observed its competing event -/
def Pc.observed : Pc → Bool
  | .gotAction | .inTransformer | .notifying | .continued | .completed => true
  | _ => false

def liveCount (c : Cfg) (s : St) : Nat := (List.range c.k).countP (fun i => !(s.pc i).gone)

/-- nothing but an input can happen -/
def terminal (c : Cfg) (s : St) : Prop := ∀ l : Lbl, l.isInput = false → enabled c s l = false

/-- the outcome C06 asks for: one branch continued, every other flow withdrawn, the wait group down to the winner -/
def settled (c : Cfg) (s : St) : Prop :=
  ∃ w, w < c.k ∧ s.pc w = .continued ∧ (∀ j, j < c.k → j ≠ w → (s.pc j).gone = true) ∧ s.wg = 1

/-- candidate labels (the enabled ones are among them) -/
def labels (c : Cfg) (s : St) : List Lbl :=
  (List.range c.k).flatMap (fun i =>
    [.enterSelect i, .node i, .send i, .takeAction i, .enterTransformer i, .cas i, .closeOwn i, .finish i, .recvTerm i]
      ++ (List.range c.k).flatMap (fun t => [.pick i t, .notify i t]))
  ++ (List.range s.dels.length).map .forward

def enabledLabels (c : Cfg) (s : St) : List Lbl := (labels c s).filter (enabled c s)

/-- run internal steps (first enabled candidate first) until none is enabled or the fuel runs out -/
def quiesce (c : Cfg) : Nat → St → St
  | 0, s => s
  | n + 1, s =>
    match enabledLabels c s with
    | [] => s
    | l :: _ => quiesce c n (fire c s l)

/-- canonical key of a state (for the driver's reachability search) -/
def Pc.code : Pc → Nat
  | .starting => 0 | .selecting => 1 | .gotAction => 2 | .inTransformer => 3 | .notifying => 4
  | .continued => 5 | .terminated => 6 | .completed => 7

def Msg.code : Msg → Nat
  | .reg => 0
  | .ev a => a + 1

def key (c : Cfg) (s : St) : List Nat :=
  (List.range c.k).flatMap (fun i =>
    [(s.pc i).code, (if s.closed i then 1 else 0), s.termBuf i, (if s.nilChan i then 1 else 0),
     (if s.npc i = .sending then 1 else 0), (if s.active i then 1 else 0), s.replyBuf i, 99]
    ++ (s.inbox i).map Msg.code ++ [98])
  ++ [match s.first with | none => 0 | some w => w + 1, (if s.mapGone then 1 else 0), s.wg,
      match s.target with | none => 0 | some t => t + 1, 97]
  ++ s.dels.flatMap (fun d => [d.1, d.2])

/-! ## the witness schedules (replayed on the real engine by the harness, family `c06`) -/

/-- all flows reach their select and register; the nodes take the registrations -/
def setupSched (k : Nat) : List Lbl :=
  (List.range k).map .enterSelect ++ (List.range k).map .node

/-- delivery of event `a` to all `k` inboxes when it is the only delivery in flight -/
def deliverSched (k a : Nat) : List Lbl := .deliver a :: (List.range k).map (fun _ => .forward 0)

/-- D5 (`ebgTermCap = 0`, reply channels unbuffered): alternative `w` wins the CAS and, before it offers `true`
(hook `ebg.transformer.before_notify`: its loop is at channel `l`), alternative `l`'s own event is delivered; `l` takes its action, loses the CAS
and goes away with `completeAction`; the winner's `ch_l <- true` can never be received. `k = 2`, `w = 0`, `l = 1`. -/
def deadlockSched : List Lbl :=
  setupSched 2 ++ deliverSched 2 0 ++ [.node 0, .send 0, .enterTransformer 0, .cas 0, .node 1, .pick 0 1]
    ++ deliverSched 2 1 ++ [.node 0, .node 1, .send 1, .enterTransformer 1, .cas 1]

/-- the same with buffered reply channels (`replyCap ≥ 1`) -/
def deadlockSchedBuffered : List Lbl :=
  setupSched 2 ++ deliverSched 2 0 ++ [.node 0, .send 0, .takeAction 0, .enterTransformer 0, .cas 0, .node 1, .pick 0 1]
    ++ deliverSched 2 1 ++ [.node 0, .node 1, .send 1, .takeAction 1, .enterTransformer 1, .cas 1]

/-- the witness schedule of D5 for the given facts -/
def deadlockWitness (c : Cfg) : List Lbl := if c.replyCap = 0 then deadlockSched else deadlockSchedBuffered

/-- both alternatives reach the transformer before either executes the compare-and-swap (hook
`ebg.transformer.enter` held for both, harness mode `wit2`): the compare-and-swap lets exactly one of them through -/
def bothInTransformerSched (replyBuffered : Bool) : List Lbl :=
  setupSched 2 ++ deliverSched 2 0 ++ deliverSched 2 1 ++ [.node 0, .send 0, .node 0, .node 1, .node 1, .send 1]
    ++ (if replyBuffered then [.takeAction 0, .takeAction 1] else [])
    ++ [.enterTransformer 0, .enterTransformer 1, .cas 0, .cas 1]

/-- buffered termination channels but the map variable still reassigned: flow 1 evaluates its select only after the
winner has finished; it waits on a nil channel and is never withdrawn. -/
def lateSelectSched (replyBuffered : Bool) : List Lbl :=
  [.enterSelect 0, .node 0] ++ deliverSched 2 0 ++ [.node 0, .send 0]
    ++ (if replyBuffered then [.takeAction 0] else [])
    ++ [.enterTransformer 0, .cas 0, .pick 0 1, .notify 0 1, .pick 0 0, .closeOwn 0, .finish 0, .node 1, .enterSelect 1,
        .node 1]

/-- the good run: alternative 0's event arrives alone, 0 wins, 1 is withdrawn through its termination channel
(`termBuffered`: `ebgTermCap ≥ 1`, the loser reads the buffered `true`; `replyBuffered`: `catchReplyCap ≥ 1`) -/
def settleSched (termBuffered replyBuffered : Bool) : List Lbl :=
  setupSched 2 ++ deliverSched 2 0 ++ [.node 0, .send 0] ++ (if replyBuffered then [.takeAction 0] else [])
    ++ [.enterTransformer 0, .cas 0, .node 1, .pick 0 1, .notify 0 1]
    ++ (if termBuffered then [.recvTerm 1] else []) ++ [.pick 0 0, .closeOwn 0, .finish 0]

/-- D21 (`replyCap = 0`), first half: after the gateway has settled the event of the withdrawn alternative 1 is
delivered; node 1 is still activated and starts sending on the reply channel of the dead flow — forever. -/
def lateEventSched : List Lbl := deliverSched 2 1 ++ [.node 0, .node 1]

/-- D21, second half: `inboxCap` further deliveries fill the stuck node's inbox and the next one blocks its caller -/
def lateFillSched (inboxCap : Nat) : List Lbl :=
  (List.range inboxCap).flatMap (fun _ => deliverSched 2 1 ++ [.node 0]) ++ [.deliver 1, .forward 0, .node 0]

def lateBlockSched (termBuffered : Bool) (inboxCap : Nat) : List Lbl :=
  settleSched termBuffered false ++ lateEventSched ++ lateFillSched inboxCap

end Bpmn.Model.EventGateway
