/-
Model of schema/builder.go: `ProcessBuilder` (`NewProcessBuilder`, `AddActivity`, `link`, `Out`),
`DefinitionBuilder` (`NewDefinitionsBuilder`, `AddProcess`, `AutoLayout`, `Out`) and the layout
(`collectProcessFlowNodes`, `collectProcessFlowEdges`, `computeFlowNodeLevels`, `computeFlowNodeRows`,
`desiredRow`, `buildAlignedWaypoints`, `buildProcessLayout`).

A port of what the Go code DOES:
* ids: every generated id is `prefix ++ "_" ++ RandBytes(7)`. `RandBytes` is the oracle `o : Nat → Nat`
  (the k-th call of the run returns token `o k`); nothing in the model assumes `o` injective — the theorems do.
* `link` updates the cursor object (`ptr`, the caller's pointer) and, separately, the copy stored in the process,
  which it looks up with `FindBy(ExactId …)`: first hit of a scan over the process itself, then the flow
  elements in the order of the generated struct fields (`Kind.rank`), sequence flows included.
* `AddActivity` stores the activity only for the types named in its type switch; any other `ActivityInterface`
  is linked but NOT stored. WHICH types the switch names is a fact extracted from the source on every run
  (`Bpmn.Gen.C19.addActivityStored`); the model takes it as the parameter `st : Kind → Bool` (`storedBy names`).
* layout arithmetic: Go uses float64. Coordinates here are `Int` in units of 1/`scale`; on the configuration
  grid of the harness (all values multiples of 1/4, scale 8) every Go intermediate is exactly representable, `/ 2`
  is exact, and `math.Abs(a-b) < 0.001` is `|a-b| * 1000 < scale`. `desiredRow` (a float quotient of small
  integers) is the pair (total, count); comparisons cross-multiply and `math.Round` is `(2t+c)/(2c)`.
-/
namespace Bpmn.Model.Builder

/-- the prefixes builder.go puts in front of `RandBytes(7)` -/
inductive Pfx
  | definitions | process | collaboration | participant | diagram | plane | shape | edge | event | activity | flow
deriving DecidableEq, Repr

inductive Id
  | gen (p : Pfx) (tok : Nat)
  | preset (n : Nat)
deriving DecidableEq, Repr

inductive Kind
  | startEvent | endEvent
  | task | businessRuleTask | userTask | callActivity | manualTask | sendTask | scriptTask | serviceTask
  | receiveTask | subProcess
  | adHocSubProcess | transaction | activity
deriving DecidableEq, Repr

/-- Go type name of a kind -/
def Kind.goName : Kind → String
  | .task => "Task" | .businessRuleTask => "BusinessRuleTask" | .userTask => "UserTask"
  | .callActivity => "CallActivity" | .manualTask => "ManualTask" | .sendTask => "SendTask"
  | .scriptTask => "ScriptTask" | .serviceTask => "ServiceTask" | .receiveTask => "ReceiveTask"
  | .subProcess => "SubProcess" | .adHocSubProcess => "AdHocSubProcess" | .transaction => "Transaction"
  | .activity => "Activity" | .startEvent => "StartEvent" | .endEvent => "EndEvent"

/-- the type switch of `AddActivity`, given the type names it lists: does it append an activity of this kind to
a field of the process? (Start and end events never go through `AddActivity`; the builder stores them itself.) -/
def storedBy (names : List String) : Kind → Bool := fun k => names.contains k.goName

/-- position of the kind's field in `(*Process).FlowElements()` / `(*Process).FindBy` -/
def Kind.rank : Kind → Nat
  | .adHocSubProcess => 0 | .businessRuleTask => 2 | .callActivity => 3 | .endEvent => 10
  | .manualTask => 18 | .receiveTask => 20 | .scriptTask => 21 | .sendTask => 22
  | .serviceTask => 24 | .startEvent => 25 | .subProcess => 27 | .task => 28 | .transaction => 29
  | .userTask => 30 | .activity => 31

/-- position of `SequenceFlowField` in the same scan -/
def flowRank : Nat := 23

/-- `flowNodeDefaultSize`, in plain units -/
def Kind.size : Kind → Nat × Nat
  | .startEvent | .endEvent => (36, 36)
  | .subProcess | .adHocSubProcess | .transaction => (120, 100)
  | _ => (100, 80)

structure Node where
  id : Id
  kind : Kind
  incoming : List Id
  outgoing : List Id
deriving DecidableEq, Repr

structure Flow where
  id : Id
  src : Id
  tgt : Id
deriving DecidableEq, Repr

/-- a `schema.Process`; `nodes` in insertion order (each struct field keeps insertion order) -/
structure Proc where
  id : Id
  executable : Option Bool
  nodes : List Node
  flows : List Flow
deriving DecidableEq, Repr

/-- `ProcessBuilder`: the process plus the cursor object (`ptr`: its id and ITS OWN outgoing list) -/
structure PB where
  proc : Proc
  ptrId : Id
  ptrOut : List Id
deriving DecidableEq, Repr

/-! ### flow element order -/

/-- insert in front of the first element whose field rank is not smaller -/
def insertByRank (n : Node) : List Node → List Node
  | [] => [n]
  | m :: ms => if n.kind.rank ≤ m.kind.rank then n :: m :: ms else m :: insertByRank n ms

/-- stable sort of the nodes by field rank (insertion order is kept inside one struct field) -/
def sortByRank : List Node → List Node
  | [] => []
  | n :: ns => insertByRank n (sortByRank ns)

/-- `process.FlowElements()` restricted to flow nodes -/
def flowNodes (p : Proc) : List Node := sortByRank p.nodes

/-! ### ProcessBuilder -/

/-- the flow node `builder.FindBy(ExactId(id))` yields, if the first hit of the scan is a flow node -/
def findNode (p : Proc) (id : Id) : Option Node :=
  if p.id = id then none
  else match (flowNodes p).find? (fun n => n.id = id) with
    | none => none
    | some nd => if p.flows.any (fun f => f.id = id) && flowRank < nd.kind.rank then none else some nd

def modifyFirst (q : Node → Bool) (f : Node → Node) : List Node → List Node
  | [] => []
  | n :: ns => if q n then f n :: ns else n :: modifyFirst q f ns

/-- `vv.SetOutgoings(*outgoings)` on what `FindBy` found -/
def setOutgoing (p : Proc) (id : Id) (out : List Id) : Proc :=
  match findNode p id with
  | none => p
  | some nd =>
    { p with nodes := modifyFirst (fun n => n.id = id && n.kind.rank = nd.kind.rank)
                        (fun n => { n with outgoing := out }) p.nodes }

/-- `NewProcessBuilder` at call counter `n`: two `RandBytes` calls -/
def newPB (o : Nat → Nat) (n : Nat) : PB × Nat :=
  let pid := Id.gen .process (o n)
  let sid := Id.gen .event (o (n + 1))
  ({ proc := { id := pid, executable := none, nodes := [⟨sid, .startEvent, [], []⟩], flows := [] },
     ptrId := sid, ptrOut := [] }, n + 2)

/-- `link(node)` for a node that arrives with empty incoming/outgoing lists; returns the builder (cursor moved)
and the node as the caller's object now looks (incoming filled in). One `RandBytes` call. -/
def link (o : Nat → Nat) (n : Nat) (b : PB) (id : Id) (kind : Kind) : PB × Node × Nat :=
  let sid := Id.gen .flow (o n)
  let out := b.ptrOut ++ [sid]
  let p1 := setOutgoing b.proc b.ptrId out
  let node : Node := ⟨id, kind, [sid], []⟩
  ({ proc := { p1 with flows := p1.flows ++ [⟨sid, b.ptrId, id⟩] }, ptrId := id, ptrOut := [] }, node, n + 1)

/-- `AddActivity(act)`; `preset = none` when the activity has no id (one more `RandBytes` call) -/
def addActivity (st : Kind → Bool) (o : Nat → Nat) (n : Nat) (b : PB) (kind : Kind) (preset : Option Nat) : PB × Nat :=
  let (id, n1) := match preset with
    | some p => (Id.preset p, n)
    | none => (Id.gen .activity (o n), n + 1)
  let (b1, node, n2) := link o n1 b id kind
  if st kind then ({ b1 with proc := { b1.proc with nodes := b1.proc.nodes ++ [node] } }, n2)
  else (b1, n2)

/-- `Out()`: end event, link, store, hand out the process, reset the builder (`NewProcessBuilder` again) -/
def outPB (o : Nat → Nat) (n : Nat) (b : PB) : Proc × PB × Nat :=
  let eid := Id.gen .event (o n)
  let (b1, node, n1) := link o (n + 1) b eid .endEvent
  let p := { b1.proc with nodes := b1.proc.nodes ++ [node] }
  let (b2, n2) := newPB o n1
  (p, b2, n2)

/-- a whole `AddActivity` script on one builder -/
def addAll (st : Kind → Bool) (o : Nat → Nat) : Nat → PB → List (Kind × Option Nat) → PB × Nat
  | n, b, [] => (b, n)
  | n, b, (k, pre) :: rest =>
    let (b1, n1) := addActivity st o n b k pre
    addAll st o n1 b1 rest

/-- `NewProcessBuilder(); AddActivity…; Out()` starting at call counter `n` -/
def buildProcess (st : Kind → Bool) (o : Nat → Nat) (n : Nat) (acts : List (Kind × Option Nat)) : Proc × Nat :=
  let (b, n1) := newPB o n
  let (b2, n2) := addAll st o n1 b acts
  let (p, _, n3) := outPB o n2 b2
  (p, n3)

/-! ### layout -/

structure Cfg where
  sx : Int
  sy : Int
  cg : Int
  rg : Int
  pg : Int
  /-- units per 1.0 -/
  scale : Nat
deriving DecidableEq, Repr

structure LNode where
  id : Id
  order : Nat
  w : Int
  h : Int
deriving DecidableEq, Repr

structure LEdge where
  id : Id
  src : Id
  tgt : Id
deriving DecidableEq, Repr

/-- `collectProcessFlowNodes`: flow elements order, first occurrence of an id wins, `order` = position -/
def collectNodesAux (scale : Nat) : List Node → List LNode → List LNode
  | [], acc => acc
  | n :: ns, acc =>
    if acc.any (fun m => m.id = n.id) then collectNodesAux scale ns acc
    else collectNodesAux scale ns
      (acc ++ [⟨n.id, acc.length, (n.kind.size.1 * scale : Nat), (n.kind.size.2 * scale : Nat)⟩])

def collectNodes (scale : Nat) (p : Proc) : List LNode := collectNodesAux scale (flowNodes p) []

/-- `collectProcessFlowEdges` -/
def collectEdges (p : Proc) : List LEdge := p.flows.map (fun f => ⟨f.id, f.src, f.tgt⟩)

/-- a Go `map[string]T` as an association list; the newest binding of a key is the one in force -/
abbrev Map (β : Type) := List (Id × β)

def upd {β : Type} (m : Map β) (i : Id) (v : β) : Map β := (i, v) :: m

/-- `levels[id]` (0 for a missing key) -/
def lvOf (m : Map Nat) (i : Id) : Nat := (m.lookup i).getD 0

/-- `rows[id]` with the `ok` flag -/
def rowOf (m : Map Nat) (i : Id) : Option Nat := m.lookup i

/-- one `for _, edge := range edges` sweep of `computeFlowNodeLevels` -/
def relaxPass (known : Id → Bool) : List LEdge → Map Nat → Bool → Map Nat × Bool
  | [], lv, u => (lv, u)
  | e :: es, lv, u =>
    if known e.src && known e.tgt then
      if lvOf lv e.src + 1 > lvOf lv e.tgt then relaxPass known es (upd lv e.tgt (lvOf lv e.src + 1)) true
      else relaxPass known es lv u
    else relaxPass known es lv u

/-- the outer loop: at most `fuel = len(nodes)` sweeps, stop after a sweep without update -/
def relax (known : Id → Bool) (edges : List LEdge) : Nat → Map Nat → Map Nat
  | 0, lv => lv
  | f + 1, lv =>
    let r := relaxPass known edges lv false
    if r.2 then relax known edges f r.1 else r.1

def computeLevels (nodes : List LNode) (edges : List LEdge) : Map Nat :=
  relax (fun i => nodes.any (fun n => n.id = i)) edges nodes.length []

/-- `desiredRow`: (total, count) over the predecessors that already have a row; count 0 means 0 -/
def desired (edges : List LEdge) (rows : Map Nat) (id : Id) : Nat × Nat :=
  let rs := ((edges.filter (fun e => e.tgt = id)).map (fun e => e.src)).filterMap (rowOf rows)
  (rs.sum, rs.length)

/-- `a < b` as quotients (x/0 read as 0) -/
def dLess (a b : Nat × Nat) : Bool :=
  match a.2, b.2 with
  | 0, 0 => false
  | 0, _ => 0 < b.1
  | _, 0 => false
  | ca, cb => a.1 * cb < b.1 * ca

def dEq (a b : Nat × Nat) : Bool := !dLess a b && !dLess b a

/-- `int(math.Round(x))` for x = t/c ≥ 0 -/
def dRound (a : Nat × Nat) : Nat := if a.2 = 0 then 0 else (2 * a.1 + a.2) / (2 * a.2)

/-- the `less` of the `sort.Slice` call -/
def nodeLess (edges : List LEdge) (rows : Map Nat) (a b : LNode) : Bool :=
  let l := desired edges rows a.id
  let r := desired edges rows b.id
  if dEq l r then a.order < b.order else dLess l r

def insertSorted (lt : LNode → LNode → Bool) (x : LNode) : List LNode → List LNode
  | [] => [x]
  | y :: ys => if lt x y then x :: y :: ys else y :: insertSorted lt x ys

/-- the result of `sort.Slice` (unique, the key (desired, order) being a strict total order) -/
def sortNodes (lt : LNode → LNode → Bool) : List LNode → List LNode
  | [] => []
  | x :: xs => insertSorted lt x (sortNodes lt xs)

/-- `for { if _, exists := occupied[r]; !exists { break }; r++ }` -/
def firstFree : Nat → Nat → List Nat → Nat
  | 0, r, _ => r
  | f + 1, r, occ => if occ.contains r then firstFree f (r + 1) occ else r

/-- the placement loop of one level -/
def placeLevel (edges : List LEdge) : List LNode → Map Nat → List Nat → Map Nat
  | [], rows, _ => rows
  | nd :: rest, rows, occ =>
    let r := firstFree (occ.length + 1) (dRound (desired edges rows nd.id)) occ
    placeLevel edges rest (upd rows nd.id r) (r :: occ)

/-- `for level := 0; level <= maxLevel; level++` — `todo` levels starting at `level` -/
def rowsLoop (nodes : List LNode) (lv : Map Nat) (edges : List LEdge) : Nat → Nat → Map Nat → Map Nat
  | 0, _, rows => rows
  | todo + 1, level, rows =>
    let levelNodes := nodes.filter (fun n => lvOf lv n.id = level)
    let sorted := sortNodes (nodeLess edges rows) levelNodes
    rowsLoop nodes lv edges todo (level + 1) (placeLevel edges sorted rows [])

def maxLevel (nodes : List LNode) (lv : Map Nat) : Nat := nodes.foldl (fun m n => max m (lvOf lv n.id)) 0

def computeRows (nodes : List LNode) (lv : Map Nat) (edges : List LEdge) : Map Nat :=
  rowsLoop nodes lv edges (maxLevel nodes lv + 1) 0 []

structure Shape where
  id : Id
  elem : Id
  x : Int
  y : Int
  w : Int
  h : Int
deriving DecidableEq, Repr

structure Edge where
  id : Id
  elem : Id
  src : Id
  tgt : Id
  wps : List (Int × Int)
deriving DecidableEq, Repr

/-- `buildAlignedWaypoints` on the bounds of source and target -/
def waypoints (scale : Nat) (s t : Shape) : List (Int × Int) :=
  let startX := s.x + s.w
  let startY := s.y + s.h / 2
  let endX := t.x
  let endY := t.y + t.h / 2
  if (startY - endY).natAbs * 1000 < scale then [(startX, startY), (endX, endY)]
  else
    let midX := (startX + endX) / 2
    [(startX, startY), (midX, startY), (midX, endY), (endX, endY)]

/-- position of one node (the first loop of `buildProcessLayout`); the shape id is filled in later -/
def position (cfg : Cfg) (startY : Int) (lv : Map Nat) (rows : Map Nat) (n : LNode) : Shape :=
  let level := lvOf lv n.id
  let row := (rowOf rows n.id).getD 0
  { id := n.id, elem := n.id, x := cfg.sx + (level : Int) * cfg.cg,
    y := startY + (row : Int) * cfg.rg - n.h / 2, w := n.w, h := n.h }

/-- the second loop: one `Shape_` id per node, `RandBytes` calls `n, n+1, …` -/
def nameShapes (o : Nat → Nat) : Nat → List Shape → List Shape
  | _, [] => []
  | n, s :: ss => { s with id := Id.gen .shape (o n) } :: nameShapes o (n + 1) ss

/-- the third loop: one edge per flow whose two ends have bounds; one `Edge_` id each -/
def buildEdges (o : Nat → Nat) (scale : Nat) (bounds : List Shape) : Nat → List LEdge → List Edge × Nat
  | n, [] => ([], n)
  | n, e :: es =>
    match bounds.find? (fun s => s.elem = e.src), bounds.find? (fun s => s.elem = e.tgt) with
    | some s, some t =>
      let r := buildEdges o scale bounds (n + 1) es
      (⟨Id.gen .edge (o n), e.id, e.src, e.tgt, waypoints scale s t⟩ :: r.1, r.2)
    | _, _ => buildEdges o scale bounds n es

def minProcessHeight (scale : Nat) : Int := (160 * scale : Nat)

/-- `buildProcessLayout`: shapes, edges, processHeight, next call counter -/
def layoutProcess (o : Nat → Nat) (n : Nat) (cfg : Cfg) (startY : Int) (p : Proc) :
    List Shape × List Edge × Int × Nat :=
  let nodes := collectNodes cfg.scale p
  if nodes.isEmpty then ([], [], minProcessHeight cfg.scale, n)
  else
    let edges := collectEdges p
    let lv := computeLevels nodes edges
    let rows := computeRows nodes lv edges
    let pos := nodes.map (position cfg startY lv rows)
    let shapes := nameShapes o n pos
    let (es, n2) := buildEdges o cfg.scale pos (n + nodes.length) edges
    let maxBottom := pos.foldl (fun m s => if s.y + s.h > m then s.y + s.h else m) startY
    let h := maxBottom - startY
    (shapes, es, (if h < minProcessHeight cfg.scale then minProcessHeight cfg.scale else h), n2)

/-- the `for i := range builder.ProcessField` loop of `AutoLayout` -/
def layoutAll (o : Nat → Nat) (cfg : Cfg) : Nat → Int → List Proc → List Shape × List Edge × Nat
  | n, _, [] => ([], [], n)
  | n, y, p :: ps =>
    let (ss, es, h, n1) := layoutProcess o n cfg y p
    let (ss', es', n2) := layoutAll o cfg n1 (y + h + cfg.pg) ps
    (ss ++ ss', es ++ es', n2)

/-! ### DefinitionBuilder -/

structure Diagram where
  id : Id
  plane : Id
  planeElem : Id
  shapes : List Shape
  edges : List Edge
deriving DecidableEq, Repr

structure Defs where
  id : Id
  procs : List Proc
  collab : Option Id
  /-- (participant id, processRef) -/
  parts : List (Id × Id)
  diagram : Option Diagram
deriving DecidableEq, Repr

def newDB (o : Nat → Nat) (n : Nat) : Defs × Nat :=
  ({ id := Id.gen .definitions (o n), procs := [], collab := none, parts := [], diagram := none }, n + 1)

def nameParts (o : Nat → Nat) : Nat → List Proc → List (Id × Id) × Nat
  | n, [] => ([], n)
  | n, p :: ps => let r := nameParts o (n + 1) ps; ((Id.gen .participant (o n), p.id) :: r.1, r.2)

/-- `AddProcess(p)` for a process that has an id -/
def addProcess (o : Nat → Nat) (n : Nat) (d : Defs) (p : Proc) : Defs × Nat :=
  let p := if d.procs.isEmpty then { p with executable := some true } else p
  let procs := d.procs ++ [p]
  if procs.length > 1 then
    let (collab, n1) := match d.collab with
      | some c => (c, n)
      | none => (Id.gen .collaboration (o n), n + 1)
    let (ps, n2) := nameParts o n1 (procs.drop d.parts.length)
    ({ d with procs := procs, collab := some collab, parts := d.parts ++ ps }, n2)
  else ({ d with procs := procs }, n)

/-- `AutoLayout(cfg)` -/
def autoLayout (o : Nat → Nat) (n : Nat) (cfg : Cfg) (d : Defs) : Defs × Nat :=
  match d.procs with
  | [] => ({ d with diagram := none }, n)
  | p0 :: _ =>
    let did := Id.gen .diagram (o n)
    let pid := Id.gen .plane (o (n + 1))
    let elem := match d.collab with
      | some c => if d.procs.length > 1 then c else p0.id
      | none => p0.id
    let (ss, es, n2) := layoutAll o cfg (n + 2) cfg.sy d.procs
    ({ d with diagram := some ⟨did, pid, elem, ss, es⟩ }, n2)

/-! ### the script level: what the harness drives -/

inductive Op
  | newpb
  | act (k : Kind) (preset : Option Nat)
  /-- `db.AddProcess(*pb.Out())` -/
  | out
  | layout (cfg : Cfg)
  /-- `db.Out()` -/
  | dbout
deriving DecidableEq, Repr

structure World where
  n : Nat
  db : Defs
  pb : PB
  result : Option Defs
deriving Repr

/-- `db := NewDefinitionsBuilder(); pb := NewProcessBuilder()` -/
def World.start (o : Nat → Nat) : World :=
  let (d, n1) := newDB o 0
  let (b, n2) := newPB o n1
  { n := n2, db := d, pb := b, result := none }

def World.step (st : Kind → Bool) (o : Nat → Nat) (w : World) : Op → World
  | .newpb => let (b, n) := newPB o w.n; { w with pb := b, n := n }
  | .act k pre => let (b, n) := addActivity st o w.n w.pb k pre; { w with pb := b, n := n }
  | .out =>
    let (p, b, n1) := outPB o w.n w.pb
    let (d, n2) := addProcess o n1 w.db p
    { w with pb := b, db := d, n := n2 }
  | .layout cfg => let (d, n) := autoLayout o w.n cfg w.db; { w with db := d, n := n }
  | .dbout => let (d, n) := newDB o w.n; { w with result := some w.db, db := d, n := n }

def World.run (st : Kind → Bool) (o : Nat → Nat) (ops : List Op) : World :=
  ops.foldl (World.step st o) (World.start o)

/-! ### the C19 predicates, executable (the driver evaluates the same definitions on the implementation's output) -/

def Proc.ids (p : Proc) : List Id := p.id :: (p.nodes.map (·.id) ++ p.flows.map (·.id))

def Defs.ids (d : Defs) : List Id :=
  d.id :: (d.procs.flatMap Proc.ids ++ d.collab.toList ++ d.parts.map (·.1) ++
    (match d.diagram with
     | none => []
     | some g => g.id :: g.plane :: (g.shapes.map (·.id) ++ g.edges.map (·.id))))

/-- both ends of the flow exist and list it -/
def flowOk (p : Proc) (f : Flow) : Bool :=
  p.nodes.any (fun s => s.id = f.src && s.outgoing.contains f.id) &&
  p.nodes.any (fun t => t.id = f.tgt && t.incoming.contains f.id)

def procWellFormed (p : Proc) : Bool :=
  p.flows.all (flowOk p) &&
  p.nodes.all (fun n => (n.kind != .startEvent || n.incoming.isEmpty) && (n.kind != .endEvent || n.outgoing.isEmpty))

/-- closed rectangles with disjoint interiors -/
def disjoint (a b : Shape) : Bool :=
  a.x + a.w ≤ b.x || b.x + b.w ≤ a.x || a.y + a.h ≤ b.y || b.y + b.h ≤ a.y

/-- the point lies on the border of the shape -/
def onBorder (s : Shape) (pt : Int × Int) : Bool :=
  s.x ≤ pt.1 && pt.1 ≤ s.x + s.w && s.y ≤ pt.2 && pt.2 ≤ s.y + s.h &&
  (pt.1 = s.x || pt.1 = s.x + s.w || pt.2 = s.y || pt.2 = s.y + s.h)

/-- the token walk of a chain: follow the single outgoing flow from the start event; the ids of the visited
activities (everything that is neither start nor end), `fuel` steps -/
def walk (p : Proc) : Nat → Id → List Id
  | 0, _ => []
  | fuel + 1, cur =>
    match p.nodes.find? (fun n => n.id = cur) with
    | none => []
    | some nd =>
      let here := if nd.kind = .startEvent || nd.kind = .endEvent then [] else [nd.id]
      match nd.outgoing with
      | [f] => match p.flows.find? (fun g => g.id = f) with
        | some g => here ++ walk p fuel g.tgt
        | none => here
      | _ => here

end Bpmn.Model.Builder
