/-
Model of pkg/clock/mock.go (the mock clock's wake-up delivery) and of pkg/timer/timer.go
(`dateTimeTimer`, `recurringTimer`), a port of what the Go code does.

Times are `Int` (any unit; the harness uses nanoseconds relative to the mock's initial time).

Mock clock.  `Mock.timers` is the Go field of the same name: pending wake-ups `(due, channel id)`.
`Until`/`After` make a fresh channel of capacity 1; if the time has already come the channel gets
`now` at once, otherwise the wake-up is appended.  `Set`/`Add` (`lockedSet`) sort the pending
wake-ups by due time, send THE NEW TIME `t` (not the due time) into the channel of every wake-up
with `due ≤ t`, in that order, and keep the others (in sorted order).  `box` holds the values
sitting in channels that nobody has received yet.

Timer goroutines.  One state machine per `timer.New`; the goroutine(s) move only on a `tick`
event, so a run of the model is an arbitrary interleaving of clock operations, cancellation and
goroutine steps.  A `select` with several ready cases takes the case `choice % #ready` (cases in
source order): the `choice` carried by the tick is the explicit nondeterminism of Go's `select`.

Atomicity (see DESIGN.md section 5): from a wake-up being taken out of its channel to the next
`select` is one step (the `ch <- definition` rendezvous with the consumer is inside that step: the
consumer is always ready, as the harness is); `timer.New` up to the first `select` is part of `init`.
-/
namespace Bpmn.Model.Timer

/-! ## the mock clock -/

structure Mock where
  now    : Int
  /-- pending wake-ups `(due, channel)`, Go: `Mock.timers` -/
  timers : List (Int × Nat)
  /-- delivered and not yet received `(channel, value)` -/
  box    : List (Nat × Int)
  /-- next fresh channel id -/
  next   : Nat
deriving Repr, DecidableEq

def Mock.at (t : Int) : Mock := { now := t, timers := [], box := [], next := 0 }

/-- `Mock.Until(t)`: `if m.now.Equal(t) || m.now.After(t) { ch <- m.now } else append` -/
def Mock.until (m : Mock) (t : Int) : Mock × Nat :=
  if t ≤ m.now then
    ({ m with box := m.box ++ [(m.next, m.now)], next := m.next + 1 }, m.next)
  else
    ({ m with timers := m.timers ++ [(t, m.next)], next := m.next + 1 }, m.next)

/-- `Mock.After(d)`: `if d <= 0 { ch <- m.now } else append (now+d)` -/
def Mock.after (m : Mock) (d : Int) : Mock × Nat :=
  if d ≤ 0 then
    ({ m with box := m.box ++ [(m.next, m.now)], next := m.next + 1 }, m.next)
  else
    ({ m with timers := m.timers ++ [(m.now + d, m.next)], next := m.next + 1 }, m.next)

def insertDue (x : Int × Nat) : List (Int × Nat) → List (Int × Nat)
  | [] => [x]
  | y :: ys => if x.1 ≤ y.1 then x :: y :: ys else y :: insertDue x ys

/-- `sort.Sort(m.timers)` by due time (the order among equal due times is not observable: each
wake-up has its own channel) -/
def sortDue : List (Int × Nat) → List (Int × Nat)
  | [] => []
  | x :: xs => insertDue x (sortDue xs)

/-- the wake-ups `lockedSet t` delivers, in delivery order -/
def Mock.dueAt (m : Mock) (t : Int) : List (Int × Nat) :=
  (sortDue m.timers).filter (fun e => decide (e.1 ≤ t))

/-- `lockedSet(t)` -/
def Mock.set (m : Mock) (t : Int) : Mock :=
  { now := t
    timers := (sortDue m.timers).filter (fun e => !decide (e.1 ≤ t))
    box := m.box ++ (m.dueAt t).map (fun e => (e.2, t))
    next := m.next }

/-- `Mock.Add(d)` -/
def Mock.add (m : Mock) (d : Int) : Mock := m.set (m.now + d)

/-- is there a value to receive on channel `c` -/
def Mock.peek (m : Mock) (c : Nat) : Option Int :=
  (m.box.find? (fun e => e.1 == c)).map (·.2)

/-- receive from channel `c` -/
def Mock.take (m : Mock) (c : Nat) : Mock :=
  { m with box := m.box.filter (fun e => e.1 != c) }

/-! ## timer definitions and the goroutine state -/

/-- a parsed timer definition as `timer.New` sees it; `reps < 0` is unbounded (`R/…`) -/
inductive Def
  | date (t : Int)
  | duration (d : Int)
  | cycle (reps : Int) (start : Option Int) (interval : Int) (endB : Option Int)
deriving Repr, DecidableEq

def Def.interval : Def → Int
  | .cycle _ _ i _ => i
  | _ => 0

def Def.endB : Def → Option Int
  | .cycle _ _ _ e => e
  | _ => none

def Def.reps : Def → Int
  | .cycle r _ _ _ => r
  | _ => 1

def Def.isCycle : Def → Bool
  | .cycle .. => true
  | _ => false

/-- the first due time: the date, `now + duration`, or the cycle's start (`now` if absent) -/
def Def.origin (d : Def) (now0 : Int) : Int :=
  match d with
  | .date t => t
  | .duration x => now0 + x
  | .cycle _ s _ _ => s.getD now0

inductive Phase
  /-- `dateTimeTimer` of a date / duration timer, blocked in `select` on channel `c` -/
  | oneShot (c : Nat)
  /-- cycle: inner `dateTimeTimer` blocked on `c` (start), `recurringTimer` blocked on its `ch` -/
  | waitStart (c : Nat) (start : Int)
  /-- `recurringTimer` blocked in the loop's `select`; `t` is the last delivered time -/
  | loop (reps : Int) (t : Int) (timer : Nat) (endT : Option Nat)
  /-- goroutine returned; `closed` = the channel given out by `timer.New` was closed -/
  | stopped (closed : Bool)
deriving Repr, DecidableEq

/-- a firing: the value the wake-up carried and `clock.Now()` when the firing was sent -/
structure Firing where
  wake  : Int
  clock : Int
deriving Repr, DecidableEq

structure St where
  m : Mock
  ph : Phase
  /-- `ctx.Done()` is closed -/
  cancelled : Bool
  fired : List Firing
deriving Repr, DecidableEq

/-- top of the `for` in `recurringTimer`: `if repetitions == 0 {return}`, arm the interval
wake-up from the last delivered time, arm a NEW end wake-up if there is an end bound -/
def iterate (d : Def) (s : St) (reps : Int) (t : Int) : St :=
  if reps = 0 then { s with ph := .stopped true }
  else
    let r := s.m.until (t + d.interval)
    match d.endB with
    | none => { s with m := r.1, ph := .loop reps t r.2 none }
    | some e =>
      let r2 := r.1.until e
      { s with m := r2.1, ph := .loop reps t r.2 (some r2.2) }

/-- `timer.New` at clock reading `now0`, up to the first `select` -/
def init (d : Def) (now0 : Int) : St :=
  let r := (Mock.at now0).until (d.origin now0)
  match d with
  | .cycle .. => { m := r.1, ph := .waitStart r.2 (d.origin now0), cancelled := false, fired := [] }
  | _ => { m := r.1, ph := .oneShot r.2, cancelled := false, fired := [] }

inductive Alt | endT | done | timer
deriving Repr, DecidableEq

/-- Go's `select` among the ready cases -/
def pick (alts : List Alt) (choice : Nat) : Option Alt := alts[choice % alts.length]?

def altIf (b : Bool) (a : Alt) : List Alt := if b then [a] else []

/-- one step of the timer's goroutine(s); `none` = blocked (or returned) -/
def step (d : Def) (choice : Nat) (s : St) : Option St :=
  match s.ph with
  | .stopped _ => none
  | .oneShot c =>
    -- select { case <-ctx.Done(): return; case <-timer: f(); return }   f = { ch <- def; close(ch) }
    match pick (altIf s.cancelled .done ++ altIf (s.m.peek c).isSome .timer) choice with
    | none => none
    | some .timer =>
      match s.m.peek c with
      | none => none
      | some v => some { s with m := s.m.take c, ph := .stopped true,
                                fired := s.fired ++ [{ wake := v, clock := s.m.now }] }
    | some _ => some { s with ph := .stopped false }
  | .waitStart c st =>
    match pick (altIf s.cancelled .done ++ altIf (s.m.peek c).isSome .timer) choice with
    | none => none
    | some .timer => some (iterate d { s with m := s.m.take c } d.reps st)
    | some _ => some { s with ph := .stopped false }
  | .loop reps _ c ce =>
    -- select { case <-endTimer: return; case <-ctx.Done(): return; case t = <-timer: … }
    match pick (altIf (ce.bind s.m.peek).isSome .endT ++ altIf s.cancelled .done
                ++ altIf (s.m.peek c).isSome .timer) choice with
    | none => none
    | some .timer =>
      match s.m.peek c with
      | none => none
      | some v =>
        -- if End == nil || End.After(clock.Now()) { f() }
        let fire := d.endB.all (fun e => decide (s.m.now < e))
        let s1 : St := { s with m := s.m.take c,
                                fired := if fire then s.fired ++ [{ wake := v, clock := s.m.now }]
                                         else s.fired }
        some (iterate d s1 (if 0 < reps then reps - 1 else reps) v)
    | some _ => some { s with ph := .stopped true }

/-! ## histories -/

inductive Ev
  /-- `Mock.Add(d)` -/
  | advance (d : Int)
  /-- `Mock.Set(t)` -/
  | set (t : Int)
  /-- the context given to `timer.New` is cancelled -/
  | cancel
  /-- the timer goroutine(s) run one step, if they can -/
  | tick (choice : Nat)
deriving Repr, DecidableEq

def apply (d : Def) (s : St) : Ev → St
  | .advance x => { s with m := s.m.add x }
  | .set t => { s with m := s.m.set t }
  | .cancel => { s with cancelled := true }
  | .tick c => (step d c s).getD s

def run (d : Def) (s : St) (evs : List Ev) : St := evs.foldl (apply d) s

/-- the history `evs` on a timer created at clock reading `now0` -/
def exec (d : Def) (now0 : Int) (evs : List Ev) : St := run d (init d now0) evs

/-- let the goroutine(s) run until blocked (at most `fuel` steps), all selects resolved by `choice` -/
def settle (d : Def) (choice : Nat) : Nat → St → St
  | 0, s => s
  | fuel + 1, s =>
    match step d choice s with
    | none => s
    | some s' => settle d choice fuel s'

def blocked (d : Def) (s : St) : Bool := (step d 0 s).isNone

/-- pending due times, sorted (what the `verif` export of the mock shows) -/
def armed (s : St) : List Int := (sortDue s.m.timers).map (·.1)

def closed (s : St) : Bool :=
  match s.ph with
  | .stopped b => b
  | _ => false

end Bpmn.Model.Timer
