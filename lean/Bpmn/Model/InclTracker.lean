/-
Layer 1 model for C05: the inclusive gateway's FLOW TRACKER (gateway_inclusive.go `flowTracker`) and the
join decision (`nextActionMessage` / `trySync`) taken on the tracker's picture.

The tracker is a trace subscriber: a goroutine of its own that folds every `FlowTrace` / `TerminationTrace` of the
instance into a map token ↦ origin (`handleTrace`). The gateway asks it for the COHORT of the token that activated
the join (`activeFlowsInCohort`: all tokens recorded with the same origin) and fires when every token of the cohort
has arrived. What the gateway sees is therefore a PREFIX of the global trace order — however far the tracker goroutine
has got. The model makes that explicit: every gateway step carries the length of the prefix the tracker had processed.

Core Lean only. Tokens and nodes are `Nat`s.
-/
namespace Bpmn.Model.InclTracker

/-- a trace as the tracker sees it -/
inductive Tr where
  /-- `FlowTrace{Source, Flows}`: source node, whether it is an inclusive gateway, and for every listed token the
  target node of the sequence flow it is on -/
  | flow (src : Nat) (srcIncl : Bool) (toks : List (Nat × Nat))
  /-- `TerminationTrace{FlowId}` -/
  | term (tok : Nat)
deriving DecidableEq, Repr, Inhabited

/-- the tracker's map token ↦ origin, as an association list (first entry wins on lookup) -/
abbrev Map := List (Nat × Nat)

def Map.get? (m : Map) (t : Nat) : Option Nat := List.lookup t m
def Map.set (m : Map) (t o : Nat) : Map := (t, o) :: m.filter (·.1 != t)
def Map.del (m : Map) (t : Nat) : Map := m.filter (·.1 != t)

/-- `handleTrace` on the map: a token is recorded with the source of the FIRST FlowTrace that lists it, and
re-recorded whenever the source is an inclusive gateway; a termination deletes it -/
def step (m : Map) : Tr → Map
  | .flow src incl toks =>
    toks.foldl (fun m (p : Nat × Nat) => if (m.get? p.1).isNone || incl then m.set p.1 src else m) m
  | .term t => m.del t

def track (log : List Tr) : Map := log.foldl step []

/-- `reachedNode`: some FlowTrace seen so far lists a token on a sequence flow into the gateway `gw` -/
def reached (gw : Nat) (log : List Tr) : Bool :=
  log.any fun
    | .flow _ _ toks => toks.any (·.2 == gw)
    | .term _ => false

/-- `activeFlowsInCohort`: the tokens recorded with the same origin as `t` (in map order) -/
def cohort (m : Map) (t : Nat) : List Nat :=
  match m.get? t with
  | none => []
  | some loc => (m.filter (·.2 == loc)).map (·.1)

/-! ## The join -/

/-- the fields of `inclusiveGateway` that the synchronisation uses -/
structure Join where
  activated : Option Nat := none
  arrived : List Nat := []
  /-- what the gateway has released so far: the tokens of each firing, in arrival order -/
  fired : List (List Nat) := []
deriving DecidableEq, Repr, Inhabited

/-- `trySync` against the cohort computed from the tracker's picture `m`; on success the probing round follows
and the gateway is idle again (`synchronized`, probing report, `activated = nil`) -/
def Join.trySync (j : Join) (m : Map) : Join :=
  match j.activated with
  | none => j
  | some a =>
    let awaiting := cohort m a
    if awaiting.all (j.arrived.contains ·) then
      { activated := none, arrived := [], fired := j.fired ++ [j.arrived] }
    else j

/-- a token arrives (`nextActionMessage`) while the tracker has processed `log.take view` -/
def Join.arrive (j : Join) (log : List Tr) (view : Nat) (t : Nat) : Join :=
  let m := track (log.take view)
  match j.activated with
  | none => ({ j with activated := some t, arrived := [t] } : Join).trySync m
  | some _ => ({ j with arrived := j.arrived ++ [t] } : Join).trySync m

/-- the tracker announces activity (`case <-activity`): the cohort is recomputed -/
def Join.activity (j : Join) (log : List Tr) (view : Nat) : Join := j.trySync (track (log.take view))

/-- arrivals of `ts` one after the other, each with the tracker fully caught up -/
def Join.arriveAllFresh (j : Join) (log : List Tr) : List Nat → Join
  | [] => j
  | t :: ts => (j.arrive log log.length t).arriveAllFresh log ts

end Bpmn.Model.InclTracker
