import Bpmn.Model.Satisfier
/-
Layer 1: event nodes as inbox consumers, and the process-level delivery.

Port of
  * event_catch.go  `catchEvent` : `mch` (bounded inbox), `run` (the reader), `ConsumeEvent`, `NextAction`
  * event_start.go  `startEvent` : the same inbox pattern; the reader is started by `Trigger` / `NextAction`
  * pkg/event/consumer.go `ForwardEvent` : a sequential loop over the registered consumers
  * process.go `ConsumeEvent` / `RegisterEventConsumer` : consumers in registration order

Granularity: the reader's handling of ONE inbox message is one atomic step (`handle`), and between two driver
actions every running reader has handled everything in its inbox ("quiescence"). The caller of `ConsumeEvent`
is modelled at the granularity of its channel sends: a send completes, is dropped, or blocks the caller.
A blocked caller stays in the node's FIFO of blocked senders (Go's `sendq`) and goes on with the consumers
registered after that node once the node's reader starts.

What the code does is parametrised by facts read from the source (`InboxFacts`); nothing here knows their values.

An event is identified by a number the driver assigns to a (kind, name) pair; a definition of a node is the
number of the event it matches, so "matches" is equality and `matchIdx` is the index of the FIRST matching
definition — what `Satisfy` looks at (see Bpmn.Model.Satisfier).
-/
namespace Bpmn.Model.CatchEvent
open Bpmn.Model.Satisfier

abbrev Ev := Nat
abbrev TokId := Nat

/-- facts about one node type's inbox -/
structure InboxFacts where
  /-- `make(chan imessage, len(wr.incoming)*capMul+capAdd)` -/
  capMul : Nat
  capAdd : Nat
  /-- the reader goroutine is started by the constructor (it is not: `once.Do` in `NextAction` / `Trigger`) -/
  readerAtConstruction : Bool
  /-- `ConsumeEvent` sends inside a `select` with a `default` branch -/
  sendNonBlocking : Bool
  /-- `ConsumeEvent` returns at once unless the reader has been started -/
  sendOnlyWhenRunning : Bool
deriving Repr, DecidableEq

def InboxFacts.cap (f : InboxFacts) (incoming : Nat) : Nat := incoming * f.capMul + f.capAdd

/-- the side condition of boundedness: some mechanism keeps a send to a never-reached node from blocking -/
def InboxFacts.ok (f : InboxFacts) : Bool := f.readerAtConstruction || f.sendNonBlocking || f.sendOnlyWhenRunning

inductive NodeKind where
  | catch_ | start
deriving Repr, DecidableEq

structure Facts where
  catch_ : InboxFacts
  start  : InboxFacts
deriving Repr, DecidableEq

def Facts.of (f : Facts) : NodeKind → InboxFacts
  | .catch_ => f.catch_
  | .start => f.start

def Facts.ok (f : Facts) : Bool := f.catch_.ok && f.start.ok

/-- inbox messages: `processEventMessage` / `eventMessage`, `nextActionMessage` (carrying the token whose
reply channel it holds), `startMessage` -/
inductive Msg where
  | event (e : Ev)
  | next (t : TokId)
  | start
deriving Repr, DecidableEq

/-- what the reader does that others can see -/
inductive Out where
  | listening                       -- ActiveListeningTrace
  | observed                        -- EventObservedTrace
  | released (toks : List TokId)    -- a flowAction on the reply channel of every token in the list
  | completed (t : TokId)           -- start event re-entered: completeAction
  | spawn                           -- start event: a new flow is started
deriving Repr, DecidableEq

structure Node where
  kind        : NodeKind
  incoming    : Nat
  /-- event definitions in the order the satisfier holds them -/
  defs        : List Ev
  inbox       : List Msg := []
  loopStarted : Bool := false
  activated   : Bool := false
  /-- `awaitingActions`: tokens waiting, in arrival order -/
  parked      : List TokId := []
  sat         : Sat
deriving Repr, DecidableEq

def matchIdx : List Ev → Ev → Option Nat
  | [], _ => none
  | d :: ds, e => if d = e then some 0 else (matchIdx ds e).map (· + 1)

def Node.init (f : Facts) (kind : NodeKind) (incoming : Nat) (defs : List Ev) (par : Bool) : Node :=
  { kind, incoming, defs, loopStarted := (f.of kind).readerAtConstruction, sat := Sat.init defs.length par }

/-- One iteration of `run`: the reader takes message `m` out of the inbox and handles it. -/
def handle (n : Node) (m : Msg) : Node × List Out :=
  match n.kind, m with
  | .catch_, .event e =>
    if n.activated then
      let r := satisfy n.sat (matchIdx n.defs e)
      if r.2.1 then
        ({ n with sat := r.1, parked := [], activated := false }, [.observed, .released n.parked])
      else ({ n with sat := r.1 }, [.observed])
    else (n, [])
  | .catch_, .next t =>
    ({ n with activated := true, parked := n.parked ++ [t] }, if n.activated then [] else [.listening])
  | .catch_, .start => (n, [])
  | .start, .event e =>
    if n.activated then (n, [])
    else
      let r := satisfy n.sat (matchIdx n.defs e)
      ({ n with sat := r.1 }, if r.2.1 then [.spawn] else [])
  | .start, .next t =>
    if n.activated then (n, [.completed t]) else ({ n with activated := true }, [.released [t]])
  | .start, .start => (n, [.spawn])

/-- the reader handles a sequence of messages -/
def runMsgs (n : Node) : List Msg → Node × List Out
  | [] => (n, [])
  | m :: ms =>
    let r := handle n m
    let r' := runMsgs r.1 ms
    (r'.1, r.2 ++ r'.2)

/-- all tokens released by a list of outputs, in order -/
def releasedOf : List Out → List TokId
  | [] => []
  | .released ts :: os => ts ++ releasedOf os
  | _ :: os => releasedOf os

/-- the tokens whose `nextActionMessage` is in a message list, in order -/
def arrivalsOf : List Msg → List TokId
  | [] => []
  | .next t :: ms => t :: arrivalsOf ms
  | _ :: ms => arrivalsOf ms

/-- what a `ConsumeEvent` call on one node comes to -/
inductive Sent where
  | handled (n' : Node) (outs : List Out)   -- reader running: the message is taken and handled
  | queued (n' : Node)                      -- reader not running, room in the buffer
  | dropped                                 -- nothing was sent
  | blocks                                  -- buffer full and nobody will ever drain it: the caller parks
deriving Repr, DecidableEq

/-- `ConsumeEvent` on node `n` at quiescence. -/
def consume (f : InboxFacts) (n : Node) (e : Ev) : Sent :=
  if n.loopStarted then
    let r := handle n (.event e)
    .handled r.1 r.2
  else if f.sendOnlyWhenRunning then .dropped
  else if n.inbox.length < f.cap n.incoming then .queued { n with inbox := n.inbox ++ [.event e] }
  else if f.sendNonBlocking then .dropped
  else .blocks

/-- result of `ForwardEvent` over a list of consumers -/
structure Fwd where
  nodes   : List Node
  /-- outputs per consumer, aligned with `nodes` -/
  outs    : List (List Out)
  /-- position of the consumer whose inbox the caller is blocked on -/
  blocked : Option Nat
  /-- `ConsumeEvent` calls that returned -/
  sends   : Nat
deriving Repr, DecidableEq

/-- `event.ForwardEvent`: `for _, consumer := range consumers { consumer.ConsumeEvent(ev) }`.
One blocked consumer blocks the whole delivery and everything registered after it. -/
def forward (f : Facts) (e : Ev) : List Node → Fwd
  | [] => { nodes := [], outs := [], blocked := none, sends := 0 }
  | n :: ns =>
    match consume (f.of n.kind) n e with
    | .blocks => { nodes := n :: ns, outs := (n :: ns).map (fun _ => []), blocked := some 0, sends := 0 }
    | .handled n' o =>
      let r := forward f e ns
      { nodes := n' :: r.nodes, outs := o :: r.outs, blocked := r.blocked.map (· + 1), sends := r.sends + 1 }
    | .queued n' =>
      let r := forward f e ns
      { nodes := n' :: r.nodes, outs := [] :: r.outs, blocked := r.blocked.map (· + 1), sends := r.sends + 1 }
    | .dropped =>
      let r := forward f e ns
      { nodes := n :: r.nodes, outs := [] :: r.outs, blocked := r.blocked.map (· + 1), sends := r.sends + 1 }

/-- a delivery whose caller is blocked on the inbox of consumer `pos` -/
structure Waiting where
  ev : Ev
  pos : Nat
deriving Repr, DecidableEq

/-- the consumers of one instance in registration order, and the blocked callers in the order they blocked
(restricted to one node this is that node's FIFO of blocked senders) -/
structure Sys where
  nodes   : List Node
  waiting : List Waiting := []
deriving Repr, DecidableEq

/-- what `NewProcess` is told about one event node -/
structure NodeSpec where
  kind     : NodeKind
  incoming : Nat
  defs     : List Ev
  par      : Bool := false
deriving Repr, DecidableEq

/-- the consumers of a freshly created instance -/
def Sys.init (f : Facts) (specs : List NodeSpec) : Sys :=
  { nodes := specs.map (fun sp => Node.init f sp.kind sp.incoming sp.defs sp.par) }

/-- outputs tagged with the position of the node that produced them -/
abbrev Tagged := List (Nat × Out)

def tag (k : Nat) : List (List Out) → Tagged
  | [] => []
  | os :: rest => os.map (fun o => (k, o)) ++ tag (k + 1) rest

/-- a caller goes on with the consumers from position `k` -/
def forwardFrom (f : Facts) (e : Ev) (k : Nat) (s : Sys) : Sys × Tagged :=
  let r := forward f e (s.nodes.drop k)
  ({ nodes := s.nodes.take k ++ r.nodes,
     waiting := s.waiting ++ (match r.blocked with | some j => [{ ev := e, pos := k + j }] | none => []) },
   tag k r.outs)

/-- `Process.ConsumeEvent` -/
def deliver (f : Facts) (e : Ev) (s : Sys) : Sys × Tagged := forwardFrom f e 0 s

/-- did the delivery just made return? (no caller was added to the blocked ones) -/
def returned (s s' : Sys) : Bool := s'.waiting.length == s.waiting.length

/-- blocked senders of node `i` are let in one by one (FIFO): node `i` handles the event, the caller goes on
with the consumers registered after `i` -/
def wake (f : Facts) (i : Nat) : List Waiting → Sys → Tagged → Sys × Tagged
  | [], s, acc => (s, acc)
  | w :: ws, s, acc =>
    match s.nodes[i]? with
    | none => (s, acc)
    | some n =>
      let r := handle n (.event w.ev)
      let s1 : Sys := { s with nodes := s.nodes.set i r.1 }
      let (s2, o2) := forwardFrom f w.ev (i + 1) s1
      wake f i ws s2 (acc ++ r.2.map (fun o => (i, o)) ++ o2)

/-- A token reaches node `i` (`NextAction`; for a start event `Trigger` followed by the flow's `NextAction`):
`once.Do` starts the reader, which works off the buffer, then the blocked senders in the order they blocked,
and only then the `nextActionMessage` of this token, which was sent last. -/
def arrive (f : Facts) (i : Nat) (t : TokId) (s : Sys) : Sys × Tagged :=
  match s.nodes[i]? with
  | none => (s, [])
  | some n =>
    let r1 := runMsgs { n with loopStarted := true, inbox := [] } n.inbox
    let mine := s.waiting.filter (fun w => w.pos == i)
    let others := s.waiting.filter (fun w => w.pos != i)
    let s1 : Sys := { nodes := s.nodes.set i r1.1, waiting := others }
    let (s2, o2) := wake f i mine s1 (r1.2.map (fun o => (i, o)))
    match s2.nodes[i]? with
    | none => (s2, o2)
    | some n2 =>
      let r3 := handle n2 (if n.kind = .start then .start else .next t)
      let r4 := if n.kind = .start then handle r3.1 (.next t) else (r3.1, [])
      ({ s2 with nodes := s2.nodes.set i r4.1 }, o2 ++ (r3.2 ++ r4.2).map (fun o => (i, o)))

/-- driver-level operations on the consumers of one instance -/
inductive Op where
  | deliver (e : Ev)
  | arrive (i : Nat) (t : TokId)
deriving Repr, DecidableEq

def step (f : Facts) (s : Sys) : Op → Sys × Tagged
  | .deliver e => deliver f e s
  | .arrive i t => arrive f i t s

def runOps (f : Facts) (s : Sys) : List Op → Sys × Tagged
  | [] => (s, [])
  | op :: ops =>
    let r := step f s op
    let r' := runOps f r.1 ops
    (r'.1, r.2 ++ r'.2)

end Bpmn.Model.CatchEvent
