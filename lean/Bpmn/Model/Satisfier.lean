/-
Model of pkg/logic/catch_event.go `CatchEventSatisfier.Satisfy` and
pkg/logic/throw_event.go `ThrowEventSatisfier.Satisfy`.

An event is abstracted to `Option Nat`: the index of the FIRST event definition
instance it matches (the Go loop `break`s / `return`s at the first match), or `none`.
Bit sets are `List Bool` of length `len`.
-/
namespace Bpmn.Model.Satisfier

abbrev Chain := List Bool

structure Sat where
  len    : Nat
  /-- catch: `ParallelMultiple()`; throw: always `true` (the throw satisfier has no such test) -/
  par    : Bool
  chains : List Chain
deriving Repr, DecidableEq

def Sat.init (len : Nat) (par : Bool) : Sat := { len, par, chains := [] }

def full (c : Chain) : Bool := c.all id

def has (c : Chain) (i : Nat) : Bool := c.getD i false

def fresh (len i : Nat) : Chain := (List.replicate len false).set i true

/-- Split a list at the first element satisfying `p` (the Go `for j := range chains` scan). -/
def splitFirst {α : Type} (p : α → Bool) : List α → Option (List α × α × List α)
  | [] => none
  | x :: xs =>
    if p x then some ([], x, xs)
    else match splitFirst p xs with
      | none => none
      | some (l1, y, l2) => some (x :: l1, y, l2)

/-- `chains[j] = chains[last]; chains = chains[:last]` where the list is `l1 ++ c :: l2`, `j = |l1|` -/
def swapRemove (l1 l2 : List Chain) : List Chain :=
  match l2.getLast? with
  | none => l1
  | some z => l1 ++ z :: l2.dropLast

/-- the `EventDidNotMatch` sentinel -/
def didNotMatch : Int := -1

/-- One call of `Satisfy`. Returns the new state, `matched`, `chain`. -/
def satisfy (s : Sat) (ev : Option Nat) : Sat × Bool × Int :=
  match ev with
  | none => (s, false, didNotMatch)
  | some i =>
    if !s.par || s.len == 1 then (s, true, 0)
    else
      match splitFirst (fun c => !has c i) s.chains with
      | some (l1, c, l2) =>
        let c' := c.set i true
        if full c' then ({ s with chains := swapRemove l1 l2 }, true, (l1.length : Int))
        else ({ s with chains := l1 ++ c' :: l2 }, false, (l1.length : Int))
      | none =>
        ({ s with chains := s.chains ++ [fresh s.len i] }, false, (s.chains.length : Int))

/-- Run a whole history; returns final state and the list of `matched` flags. -/
def run (s : Sat) : List (Option Nat) → Sat × List Bool
  | [] => (s, [])
  | e :: es =>
    let (s', m, _) := satisfy s e
    let (s'', ms) := run s' es
    (s'', m :: ms)

def fires (ms : List Bool) : Nat := ms.count true

/-- how many events of the history matched definition `i` -/
def matchCount (h : List (Option Nat)) (i : Nat) : Nat := h.count (some i)

end Bpmn.Model.Satisfier
