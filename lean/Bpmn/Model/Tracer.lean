/-!
# Layer 1 model of the tracer (pkg/tracing/tracer.go) — a port of what the Go code does

One broadcaster goroutine (`tracer.run`) owns the ordered list `subscribers` and serves three UNBUFFERED channels
(`traces`, `subscription`, `unSubscription`) from one `select`; a trace it has taken is pushed to every subscriber
channel, in list order, before anything else is taken (`for _, subscriber := range t.subscribers { subscriber <- trace }`),
so a full subscriber buffer blocks the broadcaster and, through it, every `Send`, `Subscribe` and `Unsubscribe`.

Clients:
* `Send(trace)`            `t.traces <- trace`; returns when the broadcaster has TAKEN the trace.
* `SubscribeChannel(ch)`   `t.subscription <- {ch, ok}` then `<-ok` (`ok` has capacity 1: the broadcaster never
                           waits for the client to pick the acknowledgement up). `Subscribe()` is
                           `SubscribeChannel(make(chan ITrace, 10))`.
* `Unsubscribe(ch)`        a loop over `select { <-channel (drain one) | t.unSubscription <- {ch, ok} | <-ok (return) }`;
                           `ok` is unbuffered: after the removal the broadcaster waits in `unsch.ok <- struct{}{}`
                           until the client's loop takes it. The removal is
                           `subscribers[pos] = subscribers[l]; subscribers = subscribers[:l]` with `pos` the first
                           index holding the channel. A channel that is NOT in the list gets no acknowledgement: the
                           loop offers the request again, for ever.

The model is a small-step machine. Every step is one channel operation of one goroutine; which goroutine moves is
an explicit `Act` chosen by the scheduler, and the theorems quantify over ALL action lists (`run`): actions that
are not enabled in the current state are skipped, so every list is a schedule.

Ghost state (read by no step): `log` — the traces in the order the broadcaster took them (the global send order);
per channel `start`/`stop` — the length of `log` when the broadcaster appended / removed the channel; `recvd`
and `drained` — what left the channel through the subscriber's consumer / through the `Unsubscribe` loop;
`misuse` — set when `Unsubscribe` is called on a channel that is not subscribed.

Usage discipline built into the enabledness of the client actions (what /repo's callers do): a channel is created
for one subscription (`callSub` allocates a fresh channel id); its consumer reads only between the return of
`SubscribeChannel` and the call of `Unsubscribe` (the consumer goroutine is the one that calls `Unsubscribe`);
a sender is a sequential goroutine (one `Send` in flight per sender id).

Not modelled: termination (`ctx.Done`, `terminate`, `Done()`, closing of the subscriber channels) — C07's subject.
-/
namespace Bpmn.Model.Tracer

/-- a trace: who sent it and its number in that sender's program order -/
structure Msg where
  sender : Nat
  seq : Nat
deriving DecidableEq, Repr, Inhabited

/-- where the client that owns a channel is in its calls -/
inductive CStat
  | absent        -- channel id not allocated
  | subWait       -- in `SubscribeChannel`, blocked on `t.subscription <- sub`
  | subAcked      -- the broadcaster appended the channel and put `ok` into the (capacity 1) ok channel; the client has not yet returned
  | active        -- subscribed; `SubscribeChannel` has returned; the consumer reads
  | unsubOffer    -- in the `Unsubscribe` loop, the request not (or, for a channel that is not subscribed: never effectively) taken
  | unsubWaitOk   -- the broadcaster removed the channel and waits in `unsch.ok <- struct{}{}`
  | done          -- `Unsubscribe` has returned
deriving DecidableEq, Repr, Inhabited

structure Chan where
  cap : Nat := 0
  stat : CStat := .absent
  buf : List Msg := []
  recvd : List Msg := []
  drained : List Msg := []
  start : Nat := 0
  stop : Option Nat := none
deriving Repr

/-- the broadcaster's program counter -/
inductive Pc
  | idle                          -- in the `select`
  | push (x : Msg) (i : Nat)      -- in the range loop: `subscribers[i] <- x` is the operation it is blocked on / about to do
  | ackUnsub (c : Nat)            -- in `unsch.ok <- struct{}{}` for channel c
deriving DecidableEq, Repr, Inhabited

/-- facts of the code the behaviour depends on (regenerated from /repo, see `Props/C09Current.lean`) -/
structure Cfg where
  /-- the `Unsubscribe` loop has a `case <-channel` alternative -/
  unsubDrains : Bool := true
  /-- capacity of the channel `Subscribe()` makes -/
  defaultCap : Nat := 10
deriving Repr, DecidableEq

structure St where
  chan : Nat → Chan := fun _ => {}
  nchan : Nat := 0
  subs : List Nat := []
  pc : Pc := .idle
  log : List Msg := []
  pending : List Msg := []        -- `Send` calls blocked on `t.traces <- trace`
  next : Nat → Nat := fun _ => 0  -- per sender: how many `Send` calls it has begun
  misuse : Bool := false

def init : St := {}

inductive Act
  -- clients begin a call (the environment)
  | callSub (cap : Nat)
  | callUnsub (c : Nat)
  | callSend (s : Nat)
  -- the broadcaster's `select` takes something
  | recvTrace (k : Nat)       -- `case trace := <-t.traces`, from the k-th blocked `Send`
  | recvSub (c : Nat)         -- `case sch := <-t.subscription`: append, acknowledge
  | recvUnsub (c : Nat)       -- `case unsch := <-t.unSubscription`: find, swap-remove, then `ackUnsub`
  -- the broadcaster's range loop
  | push                      -- `subscriber <- trace` goes into the buffer
  -- channel reads
  | consume (c : Nat)         -- the subscriber's consumer takes one trace (from the buffer, or directly from the blocked broadcaster)
  | drain (c : Nat)           -- `case <-channel` of the `Unsubscribe` loop
  -- clients finish a call
  | subReturn (c : Nat)       -- `<-okCh`; `SubscribeChannel` returns
  | takeOk (c : Nat)          -- `case <-okChan: return`, the rendezvous with `ackUnsub`
deriving DecidableEq, Repr, Inhabited

/-- environment actions begin a new client call; everything else is a step of a goroutine already inside the protocol -/
def Act.isEnv : Act → Bool
  | .callSub _ | .callUnsub _ | .callSend _ => true
  | _ => false

def St.upd (s : St) (c : Nat) (f : Chan → Chan) : St :=
  { s with chan := fun j => if j = c then f (s.chan j) else s.chan j }

/-- `subscribers[pos] = subscribers[l]; subscribers[l] = nil; subscribers = subscribers[:l]` -/
def swapRemove (l : List Nat) (pos : Nat) : List Nat :=
  (l.set pos (l.getLastD 0)).dropLast

/-- the range loop moves on after `subscribers[i]` got the trace -/
def St.advance (s : St) (x : Msg) (i : Nat) : St :=
  if i + 1 < s.subs.length then { s with pc := .push x (i + 1) } else { s with pc := .idle }

/-- is the broadcaster blocked on / about to do `c <- x` ? -/
def St.offering (s : St) (c : Nat) : Option (Msg × Nat) :=
  match s.pc with
  | .push x i => if s.subs[i]? = some c then some (x, i) else none
  | _ => none

/-- `subscribers[i] <- x` completes for `subscribers[i] = d`: x joins d's queue and the range loop moves on -/
def St.deliver (s : St) (d : Nat) (x : Msg) (i : Nat) : St :=
  (s.upd d (fun ch => { ch with buf := ch.buf ++ [x] })).advance x i

/-- the reader of channel c takes the oldest queued trace; `drain`: the reader is the `Unsubscribe` loop -/
def St.take (s : St) (c : Nat) (drain : Bool) : Option St :=
  match (s.chan c).buf with
  | h :: t =>
    some (s.upd c (fun ch =>
      if drain then { ch with buf := t, drained := ch.drained ++ [h] }
      else { ch with buf := t, recvd := ch.recvd ++ [h] }))
  | [] => none

/-- a receive on channel c: from the queue, or — queue empty and the broadcaster blocked on / about to do `c <- x` —
directly from the broadcaster (the rendezvous of an unbuffered channel; with a buffer it is a push followed at once by
the take) -/
def St.read (s : St) (c : Nat) (drain : Bool) : Option St :=
  match s.take c drain with
  | some s' => some s'
  | none =>
    match s.offering c with
    | some (x, i) => (s.deliver c x i).take c drain
    | none => none

/-- `case trace := <-t.traces`: the k-th blocked `Send` hands `x` over; the range loop starts -/
def St.takeTrace (s : St) (k : Nat) (x : Msg) : St :=
  { s with pending := s.pending.eraseIdx k, log := s.log ++ [x],
           pc := if s.subs.isEmpty then .idle else .push x 0 }

/-- `case sch := <-t.subscription`: `append(t.subscribers, sch.channel)`; `sch.ok <- struct{}{}` (capacity 1) -/
def St.acceptSub (s : St) (c : Nat) : St :=
  { s.upd c (fun ch => { ch with stat := .subAcked, start := s.log.length }) with subs := s.subs ++ [c] }

/-- `case unsch := <-t.unSubscription` with the channel in the list: swap-remove, then `unsch.ok <- struct{}{}` -/
def St.removeSub (s : St) (c : Nat) : St :=
  { s.upd c (fun ch => { ch with stat := .unsubWaitOk, stop := some s.log.length }) with
    subs := swapRemove s.subs (s.subs.idxOf c), pc := .ackUnsub c }

/-- the `Unsubscribe` loop takes the acknowledgement and returns; the broadcaster is back in its `select` -/
def St.finishUnsub (s : St) (c : Nat) : St :=
  { s.upd c (fun ch => { ch with stat := .done }) with pc := .idle }

def step (cfg : Cfg) (s : St) : Act → Option St
  | .callSub cap =>
    some { s.upd s.nchan (fun _ => { cap := cap, stat := .subWait }) with nchan := s.nchan + 1 }
  | .callUnsub c =>
    match (s.chan c).stat with
    | .active => some (s.upd c (fun ch => { ch with stat := .unsubOffer }))
    | .done => some { s.upd c (fun ch => { ch with stat := .unsubOffer }) with misuse := true }
    | _ => none
  | .callSend sd =>
    if s.pending.any (fun m => m.sender == sd) then none
    else some { s with pending := s.pending ++ [⟨sd, s.next sd⟩],
                       next := fun j => if j = sd then s.next sd + 1 else s.next j }
  | .recvTrace k =>
    match s.pc, s.pending[k]? with
    | .idle, some x => some (s.takeTrace k x)
    | _, _ => none
  | .recvSub c =>
    match s.pc, (s.chan c).stat with
    | .idle, .subWait => some (s.acceptSub c)
    | _, _ => none
  | .recvUnsub c =>
    match s.pc, (s.chan c).stat with
    | .idle, .unsubOffer =>
      if c ∈ s.subs then some (s.removeSub c)
      else some s   -- `pos = -1`: no acknowledgement; the client's loop will offer the request again
    | _, _ => none
  | .push =>
    match s.pc with
    | .push x i =>
      match s.subs[i]? with
      | some d => if (s.chan d).buf.length < (s.chan d).cap then some (s.deliver d x i) else none
      | none => none
    | _ => none
  | .consume c =>
    match (s.chan c).stat with
    | .active => s.read c false
    | _ => none
  | .drain c =>
    if cfg.unsubDrains && ((s.chan c).stat == .unsubOffer || (s.chan c).stat == .unsubWaitOk) then s.read c true
    else none
  | .subReturn c =>
    match (s.chan c).stat with
    | .subAcked => some (s.upd c (fun ch => { ch with stat := .active }))
    | _ => none
  | .takeOk c =>
    match s.pc, (s.chan c).stat with
    | .ackUnsub d, .unsubWaitOk =>
      if d = c then some (s.finishUnsub c) else none
    | _, _ => none

/-- a schedule is any list of actions; an action that is not enabled where it is scheduled is skipped -/
def step' (cfg : Cfg) (s : St) (a : Act) : St := (step cfg s a).getD s

def run (cfg : Cfg) (s : St) (sched : List Act) : St := sched.foldl (step' cfg) s

/-- the segment of the global order a channel is entitled to so far: from its `start` up to its `stop`, or, while it
is subscribed, up to the last trace the range loop has already carried past it -/
def St.upto (s : St) (c : Nat) : Nat :=
  match (s.chan c).stop with
  | some e => e
  | none =>
    match s.pc with
    | .push _ i => if c ∈ s.subs.drop i then s.log.length - 1 else s.log.length
    | _ => s.log.length

def St.segment (s : St) (c : Nat) : List Msg :=
  (s.log.take (s.upto c)).drop (s.chan c).start

/-! ### progress measure

`mu` bounds the number of steps the goroutines that are inside the protocol can still take when no new call is begun:
every blocked `Send` costs its hand-over plus a push and a read per subscriber there can be (`smax`: the list plus
the subscriptions still waiting to be appended), the running range loop its remaining pushes (and their reads),
every queued trace one read, every client inside `SubscribeChannel` / `Unsubscribe` its remaining hand-shakes. -/

def sumTo (n : Nat) (w : Nat → Nat) : Nat := ((List.range n).map w).sum

def CStat.weight : CStat → Nat
  | .subWait => 2
  | .subAcked => 1
  | .unsubOffer => 2
  | .unsubWaitOk => 1
  | _ => 0

def St.waiting (s : St) : Nat := sumTo s.nchan (fun c => if (s.chan c).stat = .subWait then 1 else 0)
def St.smax (s : St) : Nat := s.subs.length + s.waiting
def St.load (s : St) : Nat := sumTo s.nchan (fun c => (s.chan c).buf.length + (s.chan c).stat.weight)
def St.pushRem (s : St) : Nat :=
  match s.pc with
  | .push _ i => s.subs.length - i
  | _ => 0
def St.mu (s : St) : Nat := s.pending.length * (1 + 2 * s.smax) + 2 * s.pushRem + s.load

/-- some client is inside a call, or the broadcaster is not in its `select` -/
def St.Busy (s : St) : Prop :=
  s.pending ≠ [] ∨ s.pc ≠ .idle ∨ ∃ c, (s.chan c).stat.weight ≠ 0

/-- every action of the list is enabled where it is scheduled -/
def allEnabled (cfg : Cfg) : St → List Act → Prop
  | _, [] => True
  | s, a :: l => ∃ s', step cfg s a = some s' ∧ allEnabled cfg s' l

end Bpmn.Model.Tracer
