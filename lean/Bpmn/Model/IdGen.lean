/-
Model of /repo/pkg/id: the fallback generator (`fallback.go`) and the sno generator (`sno.go`, which embeds
`github.com/muyo/sno.Generator`; `SnoGenerator.New` is `g.Generator.New(0)`).

The sno part is a port of `sno.Generator.New` (generator.go of muyo/sno v1.2.1) at the granularity of its atomic
operations: every `atomic.Load/Add/Store/CompareAndSwap`, the clock read `snotime()`, and the lock/unlock of the
regression mutex is one step of one thread; a schedule is an explicit list of events (`Ev`): which thread moves,
when the 4 ms clock advances, when the overflow ticker goroutine runs, when the generator is snapshotted and
replaced by the generator restored from that snapshot. Nothing is repaired: with `ser = false` (no lock around
`SnoGenerator.New`, which is what the code does) the model admits duplicate ids.

Abstractions (stated, not proved):
* the wall clock is a counter of 4 ms units that only moves forward (`Ev.tick`); clock regressions are out of scope
  of the theorems, the regression branch is nevertheless ported because it is reachable without any regression
  (a failed CAS falls through into it);
* `seq` is a `uint32` in Go; the model does not wrap it (a wrap needs 2^32 − 65536 failed attempts within one tick);
* the body of `seqOverflowLoop` (one ticker firing) is one step; a thread waiting on the overflow condition may
  re-check it at any time (a superset of the wake-ups `sync.Cond` allows);
* `meta` is always 0 (`SnoGenerator.New` passes 0) and is left out of the id;
* a snapshot is taken between draws (no `New` in flight), which is how /repo uses it (`Snapshot()` then
  `RestoreIdGenerator` in another run of the program); the JSON round trip of the snapshot is the identity.
-/
namespace Bpmn.Model.IdGen

/-! ## Fallback generator (`pkg/id/fallback.go`) -/

/-- The prefix of a fallback generator: the creation-time clock reading (`time.Now().UnixNano()`) and, when
`NewFallbackGenerator` mixes one in, the value of the package-level atomic counter of fallback generators
(`serial = 0`: no serial component — the counter is incremented before use, so a real serial is ≥ 1).
Rendered `<clock base 36>` or `<clock base 36>.<serial base 36>`. -/
structure FbPrefix where
  clock  : Nat
  serial : Nat
deriving DecidableEq, Repr

instance (n : Nat) : OfNat FbPrefix n := ⟨⟨n, 0⟩⟩

/-- `"fallback-" + prefix + "-" + n(decimal)` as the data it encodes (the harness checks that re-encoding gives
back the string, so the data determine the string and conversely). -/
structure FbId where
  pfx : FbPrefix
  n   : Nat
deriving DecidableEq, Repr

def u64 : Nat := 18446744073709551616

inductive FbPc where
  | idle
  | loaded (v : Nat)   -- only reachable when the increment is NOT atomic
deriving DecidableEq, Repr

/-- update of a per-thread table -/
def upd {α : Type} (f : Nat → α) (i : Nat) (v : α) : Nat → α := fun j => if j = i then v else f j

structure FbGen where
  pfx     : FbPrefix       -- fixed at creation
  counter : Nat            -- uint64
  pcs     : Nat → FbPc
  out     : List FbId      -- ids handed out, newest first

/-- a fallback generator with prefix `p` -/
def fbNew (p : FbPrefix) : FbGen := { pfx := p, counter := 0, pcs := fun _ => .idle, out := [] }

/-- `NewFallbackGenerator()` called once per entry of `gs` = (clock reading, schedule of draws on that generator), in
the order of the atomic increments of the package-level counter `fallbackGenerators` (value so far: `created`).
The clock readings are arbitrary — in particular equal when generators are created within one nanosecond.
`withSerial = true`: the prefix is (clock, serial) with `serial := atomic.AddUint64(&fallbackGenerators, 1)`;
`withSerial = false`: the prefix is the clock reading alone. -/
def fbProgram (withSerial : Bool) (created : Nat) : List (Nat × List Nat) → List (FbPrefix × List Nat)
  | [] => []
  | (c, s) :: rest =>
    if withSerial then
      let n := (created + 1) % u64
      (⟨c, n⟩, s) :: fbProgram withSerial n rest
    else (⟨c, 0⟩, s) :: fbProgram withSerial created rest

/-- One step of thread `i` inside `fallbackGenerator.New`. `atomic = true`: `atomic.AddUint64(&g.counter, 1)` is a
single step. `atomic = false` (the counter incremented by a plain load and store): two steps. -/
def fbStep (atomic : Bool) (g : FbGen) (i : Nat) : FbGen :=
  if atomic then
    let n := (g.counter + 1) % u64
    { g with counter := n, out := ⟨g.pfx, n⟩ :: g.out }
  else
    match g.pcs i with
    | .idle => { g with pcs := upd g.pcs i (.loaded g.counter) }
    | .loaded v =>
      let n := (v + 1) % u64
      { g with counter := n, pcs := upd g.pcs i .idle, out := ⟨g.pfx, n⟩ :: g.out }

/-- a schedule is the list of thread numbers in the order they move -/
def fbRun (atomic : Bool) (g : FbGen) (sched : List Nat) : FbGen := sched.foldl (fbStep atomic) g

/-! ## sno generator -/

/-- a decoded sno id: 39 bit time (4 ms units), tick-tock bit, 16 bit partition, 16 bit sequence -/
structure SnoId where
  time : Nat
  tick : Nat
  part : Nat
  seq  : Nat
deriving DecidableEq, Repr

/-- the shared fields of `sno.Generator` -/
structure Gen where
  part     : Nat
  seqMin   : Nat
  seqMax   : Nat
  wallHi   : Nat
  wallSafe : Nat
  seq      : Nat
  drifts   : Nat
deriving DecidableEq, Repr

/-- `newGeneratorFromDefaults`: everything zero, `seqMax = MaxSequence` -/
def freshGen (part : Nat) : Gen :=
  { part, seqMin := 0, seqMax := 65535, wallHi := 0, wallSafe := 0, seq := 0, drifts := 0 }

/-- `genPartition`: `seed + uint16(n)` in uint16 arithmetic, `n` the value of an atomic counter -/
def genPartition (seed n : Nat) : Nat := (seed + n) % 65536

/-- where a thread is inside `Generator.New` -/
inductive Pc where
  | idle                         -- not inside New
  | start                        -- at `retry:`
  | gotHi  (hi : Nat)            -- after `atomic.LoadUint64(&g.wallHi)`
  | gotNow (hi now : Nat)        -- after `snotime()`
  | added  (now s : Nat)         -- after `atomic.AddUint32(&g.seq, 1)` returned `s ≤ seqMax`
  | ovf                          -- sequence overflow: counted in `seqOverflowCount`, in the cond loop
  | casOk  (now : Nat)           -- `CompareAndSwapUint64(&g.wallHi, wallHi, wallNow)` succeeded
  | reset  (now : Nat)           -- after `atomic.StoreUint32(&g.seq, g.seqMin)`
  | regWant (now : Nat)          -- before `g.regression.Lock()`
  | regHeld (now : Nat)          -- holds the regression lock
  | regA (now hi : Nat)          -- about to store wallSafe
  | regB (now : Nat)             -- about to store wallHi
  | regC (now : Nat)             -- about to store seq
  | regD (now : Nat)             -- about to add to drifts and stamp the id
  | regE                         -- about to unlock
deriving DecidableEq, Repr

structure St where
  g        : Gen
  now      : Nat                -- the wall clock in 4 ms units
  pcs      : Nat → Pc
  active   : Nat                -- number of threads inside New (ghost; gates snapshot/restore)
  mutex    : Option Nat         -- the lock a serialised `SnoGenerator.New` holds (used only when `ser`)
  regLock  : Option Nat         -- `g.regression`
  ovfCount : Nat                -- `g.seqOverflowCount`
  out      : List SnoId         -- ids handed out (by this generator and the generators it was restored from), newest first

def init (g : Gen) (now : Nat) : St :=
  { g, now, pcs := fun _ => .idle, active := 0, mutex := none, regLock := none, ovfCount := 0, out := [] }

/-- thread `i` returns from New with `id` -/
def finish (ser : Bool) (st : St) (i : Nat) (id : Option SnoId) : St :=
  { st with pcs := upd st.pcs i .idle, active := st.active - 1,
            mutex := if ser then none else st.mutex,
            out := match id with | some x => x :: st.out | none => st.out }

def setPc (st : St) (i : Nat) (pc : Pc) : St := { st with pcs := upd st.pcs i pc }

/-- one atomic operation of thread `i`. `ser`: is `SnoGenerator.New` wrapped in a mutex. -/
def stepThr (ser : Bool) (st : St) (i : Nat) : St :=
  let g := st.g
  match st.pcs i with
  | .idle =>
    if ser && st.mutex.isSome then st   -- blocked on the mutex
    else { st with pcs := upd st.pcs i .start, active := st.active + 1,
                   mutex := if ser then some i else st.mutex }
  | .start => setPc st i (.gotHi g.wallHi)
  | .gotHi hi => setPc st i (.gotNow hi st.now)
  | .gotNow hi now =>
    if now = hi then
      -- fastest branch: seq := atomic.AddUint32(&g.seq, 1)
      let s := g.seq + 1
      if s ≤ g.seqMax then { st with g := { g with seq := s }, pcs := upd st.pcs i (.added now s) }
      else { st with g := { g with seq := s }, pcs := upd st.pcs i .ovf, ovfCount := st.ovfCount + 1 }
    else if hi < now then
      -- time progression branch: CAS(&g.wallHi, wallHi, wallNow)
      if g.wallHi = hi then { st with g := { g with wallHi := now }, pcs := upd st.pcs i (.casOk now) }
      else setPc st i (.regWant now)
    else setPc st i (.regWant now)
  | .added now s => finish ser st i (some ⟨now, g.drifts % 2, g.part, s⟩)
  | .ovf =>
    -- `for atomic.LoadUint32(&g.seq) > g.seqMax { Wait() }`, then count-- and `goto retry`
    if g.seqMax < g.seq then st
    else { st with pcs := upd st.pcs i .start, ovfCount := st.ovfCount - 1 }
  | .casOk now => { st with g := { g with seq := g.seqMin }, pcs := upd st.pcs i (.reset now) }
  | .reset now => finish ser st i (some ⟨now, g.drifts % 2, g.part, g.seqMin⟩)
  | .regWant now =>
    match st.regLock with
    | none => { st with regLock := some i, pcs := upd st.pcs i (.regHeld now) }
    | some _ => st
  | .regHeld now =>
    -- check again under the lock
    if g.wallHi ≤ now then { st with regLock := none, pcs := upd st.pcs i .start }
    else if g.wallSafe < now then setPc st i (.regA now g.wallHi)
    else { st with regLock := none, pcs := upd st.pcs i .start }   -- unlock, sleep, retry
  | .regA now hi => { st with g := { g with wallSafe := hi }, pcs := upd st.pcs i (.regB now) }
  | .regB now => { st with g := { g with wallHi := now }, pcs := upd st.pcs i (.regC now) }
  | .regC now => { st with g := { g with seq := g.seqMin }, pcs := upd st.pcs i (.regD now) }
  | .regD now =>
    let d := g.drifts + 1
    { st with g := { g with drifts := d }, pcs := upd st.pcs i .regE,
              out := ⟨now, d % 2, g.part, g.seqMin⟩ :: st.out }
  | .regE => finish ser { st with regLock := none } i none

/-- one firing of the overflow ticker (`seqOverflowLoop`), as one step -/
def stepOvfLoop (st : St) : St :=
  if st.ovfCount = 0 then st
  else if st.g.seq ≤ st.g.seqMax then st            -- broadcast only
  else if st.g.wallHi < st.now then { st with g := { st.g with seq := st.g.seqMin } }
  else st

/-- `Generator.Snapshot()` at clock reading `now` -/
def snapshot (g : Gen) (now : Nat) : Gen :=
  { g with seq := if now = g.wallHi then g.seq else g.seqMin }

/-- `newGeneratorFromSnapshot` after `sanitizeSnapshotBounds` (`Sequence == 0` becomes `SequenceMin`) -/
def restoreGen (s : Gen) : Gen := { s with seq := if s.seq = 0 then s.seqMin else s.seq }

/-- snapshot the generator and continue with the generator restored from the snapshot (only between draws) -/
def stepRestore (st : St) : St :=
  if st.active = 0 then
    { st with g := restoreGen (snapshot st.g st.now), ovfCount := 0, regLock := none }
  else st

inductive Ev where
  | tick              -- the clock moves to the next 4 ms unit
  | thr (i : Nat)     -- thread i performs its next atomic operation
  | ovfLoop           -- the overflow ticker fires
  | restore           -- snapshot + restore
deriving DecidableEq, Repr

def step (ser : Bool) (st : St) : Ev → St
  | .tick => { st with now := st.now + 1 }
  | .thr i => stepThr ser st i
  | .ovfLoop => stepOvfLoop st
  | .restore => stepRestore st

def run (ser : Bool) (st : St) (sched : List Ev) : St := sched.foldl (step ser) st

/-- `New` executed by thread 0 alone, reading the clock as `now`: runs thread 0 until it is idle again
(at most `fuel` operations). Used by the driver to replay single-goroutine traces. -/
def soloNew (st : St) (now : Nat) (fuel : Nat := 24) : St :=
  let st := stepThr false { st with now := now } 0
  let rec go (st : St) : Nat → St
    | 0 => st
    | n + 1 => match st.pcs 0 with
      | .idle => st
      | _ => go (stepThr false st 0) n
  go st fuel

end Bpmn.Model.IdGen
