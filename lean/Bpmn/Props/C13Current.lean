import Bpmn.Props.C13
import Bpmn.Gen.C13
/-! C13 instantiated at the facts extracted from the current /repo tree: the structural assumptions
the model `Bpmn.Model.Timer` is built on, re-read from the Go source on every run. -/
namespace Bpmn.Props.C13
open Bpmn.Gen.C13

/-- the mock clock's wake-up channels have capacity 1: `lockedSet` never blocks on a delivery (every
channel receives exactly one value), which is how `Mock.set` is modelled -/
theorem current_mock_channel_caps : mockUntilCap = some 1 ∧ mockAfterCap = some 1 := by decide

/-- `timer.New` hands out unbuffered channels (in each of its three branches): a firing is a
rendezvous with the consumer, so nothing can be received after the goroutine has returned -/
theorem current_timer_channel_unbuffered : newChanCap = some 0 ∧ newChanMakes = some 3 := by decide

/-- the recurring loop's `select` has the three cases of `Model.Timer.step` and no default -/
theorem current_loop_select_shape :
    loopSelectCases = some 3 ∧ loopSelectHasDefault = some false := by decide

/-- a repetition is guarded by `End.After(clock.Now())`, the next interval counts from the delivered
time, the loop stops at 0 repetitions and decrements only a positive counter -/
theorem current_loop_body_shape :
    endCheckedBeforeFiring = some true ∧ intervalFromDelivered = some true ∧
    stopsAtZeroRepetitions = some true ∧ decrementsWhenPositive = some true := by decide

end Bpmn.Props.C13
