import Bpmn.Lemmas.CompletionSafety
import Bpmn.Lemmas.CompletionLive
import Bpmn.Lemmas.CompletionStuck
/-!
# C02 — completion is reported iff all start events fired and no token remains

Property theorems only. Model: `Bpmn.Model.Completion` (a port of `StartAll`/`StartWith`, the cease-flow monitor(s),
the tracer's broadcast with bounded subscriber buffers, the completion lock and `WaitUntilComplete`, with an explicit
scheduler choice). Every theorem quantifies over all schedules (`Reachable`), hence over all interleavings of start-up,
token progress and monitor subscription and over all histories of calls (repeated, concurrent, expired).
The facts `subBefore`, `perStart`, `sigCap`, `subBuf` are regenerated from /repo (`Bpmn.Gen.C02`).
-/
namespace Bpmn.Props.C02
open Bpmn.Model.Completion

/-! ## Safety (all facts, all schedules) -/

/-- the only choice that adds a cease trace is a monitor in `ceasing` -/
theorem ceases_step (P : Params) (s : St) (c : Choice) :
    ceases (step P s c) = ceases s ∨
    ∃ k m, c = .mon k ∧ s.mons[k]? = some m ∧ m.pc = .ceasing ∧ ceases (step P s c) = ceases s + 1 := by
  cases c with
  | starter => left; simp only [step, stepStarter, ceases]; repeat' split
               all_goals rfl
  | mon k =>
    simp only [step, stepMon]
    split
    · exact Or.inl rfl
    · next m hm =>
      split
      · exact Or.inl rfl
      · left; simp only [ceases]; repeat' split
        all_goals rfl
      · left; simp only [ceases]; repeat' split
        all_goals rfl
      · left; simp only [ceases]; repeat' split
        all_goals rfl
      · next hpc =>
        split
        · right; exact ⟨k, m, rfl, hm, hpc, by simp [ceases]⟩
        · exact Or.inl rfl
      · exact Or.inl rfl
      · exact Or.inl rfl
  | deliver => left; simp only [ceases, step, (stepDeliver_frame P s).2.2.2.2.2.2.2.1]
  | helper w => left; simp only [ceases, step, (stepHelper_frame P s w).2.2.2.2.2.2.2.2]
  | recv w => left; simp only [ceases, step, (stepRecv_frame s w).2.2.2.2.2.2.2.2.1]
  | expire w => left; simp only [ceases, step, (stepExpire_frame s w).2.2.2.2.2.2.2.2.1]
  | call => exact Or.inl rfl
  | fire => left; simp only [step, ceases]; split <;> rfl
  | startTrace => left; simp only [step, ceases]; split <;> simp
  | other => left; simp only [step, ceases]; split <;> simp
  | strayTrace => left; simp only [step, ceases]; split <;> simp
  | spawnStray => left; simp only [step, ceases]; split <;> rfl
  | birth => left; simp only [step, ceases]; split <;> rfl
  | death => left; simp only [step, ceases]; split <;> rfl

/-- **cease_sound.** In every reachable state, under every schedule and whatever the facts are:
(1) a choice that emits the cease-flow trace is taken in a state in which every start event has fired and reported it
    and the wait-group counter is 0;
(2) once a cease trace is in the log, that stays so (no token can appear any more);
(3) each monitor emits it at most once: the number of cease traces is the number of monitors that got past `ceasing`,
    at most the number of monitors;
(4) nothing follows the first cease trace in the trace stream but cease traces and traces of goroutines that are not
    counted by the wait group (`LogOk`); there are none of the latter unless the fact `detached` holds, and then
    nothing but cease traces follows (`cease_last`). -/
theorem cease_sound (P : Params) (hn : 1 ≤ P.n) (s : St) (hr : Reachable P s) :
    (∀ c, ceases (step P s c) ≠ ceases s → quiet P s) ∧
    (Trace.cease ∈ s.log → quiet P s) ∧
    (ceases s = s.mons.countP (fun m => m.pc.pastCease) ∧ ceases s ≤ s.mons.length) ∧
    LogOk s.log := by
  have I := inv_reachable hn hr
  refine ⟨?_, quiet_of_cease I.log I.pc, ⟨I.log.cnt, ?_⟩, I.log.ok⟩
  · intro c hc
    rcases ceases_step P s c with h | ⟨k, m, _, hm, hpc, _⟩
    · exact absurd h hc
    · exact I.pc.past k m hm (by simp [hpc, MPc.pastWg])
  · rw [I.log.cnt]; exact List.countP_le_length

/-- **wait_sound.** A `WaitUntilComplete` call issued after `StartAll` returned returns true only after a cease-flow
trace has been emitted — under every schedule, whatever the facts, for any number of earlier, concurrent or expired
calls. -/
theorem wait_sound (P : Params) (hn : 1 ≤ P.n) (s : St) (hr : Reachable P s) :
    ∀ x ∈ s.waits, x.early = false → x.caller = .gotTrue → Trace.cease ∈ s.log ∧ quiet P s := by
  intro x hx he hg
  have I := inv_reachable hn hr
  have hd : x.helper = .done := I.wait.done x hx (Or.inl hg)
  have hc := I.wait.cease x hx he (by simp [hd])
  exact ⟨hc, quiet_of_cease I.log I.pc hc⟩

/-- the hypothesis of `wait_sound` is needed: a call issued while `StartAll` is still running can find the lock free
and return true before anything has happened (today's facts, one start event) -/
example :
    let P : Params := { subBefore := false, perStart := true, sigCap := 0, subBuf := 10, detached := true, n := 1 }
    let s := run P (init P) [.call, .helper 0, .helper 0]
    (s.waits.map (·.caller)) = [.gotTrue] ∧ s.log = [] := by decide

/-- at most one cease trace per monitor, and `StartAll` creates `monitorsPerStartAll` monitors: with one monitor
the cease-flow trace appears at most once, in every run -/
theorem cease_at_most_monitors (P : Params) (hn : 1 ≤ P.n) (s : St) (hr : Reachable P s) :
    ceases s ≤ s.mons.length ∧ s.mons.length ≤ P.monitorsPerStartAll := by
  have := monsLen_reachable hn hr
  exact ⟨(cease_sound P hn s hr).2.2.1.2, by omega⟩

/-- the cease-flow trace comes after every other trace of the instance, provided no goroutine outside the wait group
sends traces (`detached = false`) -/
theorem cease_last (P : Params) (hn : 1 ≤ P.n) (hd : P.detached = false) (s : St) (hr : Reachable P s) :
    LogStrict s.log :=
  logStrict_of (cease_sound P hn s hr).2.2.2 (noStray_reachable hd hr).2

/-! ## Liveness as bounded progress, under the three facts

`mu` (`Bpmn.Lemmas.CompletionLive`) bounds the number of moves the engine's goroutines still have to make: twice the
number of subscribers the running broadcast still has to serve, plus, for the monitor, the traces in its buffer and the
program points it still has to pass, plus, for every call, 2/1/0 for a helper that still has to lock / signal / nothing
and 1 for a caller still in its `select`. `effective` counts the choices of engine goroutines in a schedule that moved;
`calls` the new `WaitUntilComplete` calls. -/

def Live (P : Params) : Prop :=
  -- `StartAll` is never blocked for good
  (∀ s, Reachable P s → ∃ sched, (run P s sched).returned = true) ∧
  -- from every state in which every start event has fired and no token is left
  (∀ s, Reachable P s → quiet P s →
    -- (1) unless the protocol is finished, some engine goroutine can move, and its move counts the measure down
    (¬ Finished s → ∃ c, c.internal = true ∧ mu (step P s c) < mu s) ∧
    -- (2) for every schedule and every history of calls (new calls add 3, expiries nothing, stuttering nothing)
    (∀ sched, mu (run P s sched) + effective P s sched ≤ mu s + 3 * calls sched) ∧
    -- (3) hence after `mu s + 3 * calls` effective moves the cease trace is out, the lock is free and every present and
    --     future call has returned (true, unless its own context expired first)
    (∀ sched, mu s + 3 * calls sched ≤ effective P s sched → Finished (run P s sched)) ∧
    -- (4) in particular completion is reachable
    (∃ sched, Finished (run P s sched)))

/-- **complete_live.** -/
theorem complete_live (P : Params)
    (h : P.subBefore = true ∧ P.monitorsPerStartAll = 1 ∧ 1 ≤ P.sigCap) (hb : 1 ≤ P.subBuf) (hn : 1 ≤ P.n) :
    Live P := by
  have hL : LiveHyp P := ⟨h.1, h.2.1, h.2.2, hb, hn⟩
  refine ⟨fun s hr => live_can_return (startCtx_of_reachable hL hr), fun s hr hq => ?_⟩
  have ctx := liveCtx_of_reachable hL hr hq
  refine ⟨live_progress ctx, live_bound ctx, fun sched hs => ?_, live_can_finish ctx⟩
  have := live_bound ctx sched
  exact finished_of_mu_zero (liveCtx_run ctx sched) (by omega)

/-- a finished state: exactly what the callers got -/
theorem finished_callers (s : St) (h : Finished s) : ∀ x ∈ s.waits, x.caller = .gotTrue ∨ x.caller = .expired := by
  intro x hx
  have := (h.2.2 x hx).2
  cases hc : x.caller <;> simp_all

/-! ## The negations at today's facts (each parametric in the facts it does not depend on) -/

def missedSched : List Choice := [.starter, .fire, .startTrace, .death, .starter, .starter]

/-- **D3.** `subscribeBeforeTrigger = false`, one start event: the start event's flow trace is broadcast (to nobody)
before the monitor subscribes. `StartAll` returns, every start event has fired, no token is left — and under every
continuation no cease trace is ever emitted and no call ever returns true. Whatever the other facts are. -/
def MissedStartWitness (P : Params) : Prop :=
  ∃ s, Reachable P s ∧ s.returned = true ∧ quiet P s ∧ Starved P s ∧
    ∀ sched, ceases (run P s sched) = 0 ∧ (∀ x ∈ (run P s sched).waits, x.caller ≠ .gotTrue) ∧
      ¬ Finished (run P s sched)

theorem C02_counterexample_missed_start (ps : Bool) (cap buf : Nat) (det : Bool) :
    MissedStartWitness ⟨false, ps, cap, buf, det, 1⟩ := by
  let P : Params := ⟨false, ps, cap, buf, det, 1⟩
  show MissedStartWitness P
  let P0 : Params := ⟨false, ps, 0, 10, det, 1⟩
  have hbase : starvedB P0 (run P0 (init P0) missedSched) = true ∧ quiet P0 (run P0 (init P0) missedSched) ∧
      (run P0 (init P0) missedSched).returned = true := by cases ps <;> cases det <;> decide
  have hrun : run P (init P) missedSched = run P0 (init P0) missedSched := by
    have e1 : run P (init P) missedSched = run { P0 with sigCap := cap } (init P) missedSched :=
      run_subBuf { P0 with sigCap := cap } buf (init P) missedSched (by decide)
    have e2 := run_sigCap P0 cap (init P) missedSched (by decide)
    rw [e1, e2]; rfl
  have hS0 := starved_of_B hbase.1
  have hS : Starved P (run P (init P) missedSched) := by
    rw [hrun]; exact ⟨hS0.prog, hS0.mons, hS0.lock, hS0.noCease, hS0.waits⟩
  have hr : Reachable P (run P (init P) missedSched) := ⟨missedSched, rfl⟩
  refine ⟨_, hr, by rw [hrun]; exact hbase.2.2, by rw [hrun]; exact hbase.2.1, hS, fun sched => ?_⟩
  have hS' := starved_run (inv_reachable (show (1 : Nat) ≤ 1 by decide) hr) hS sched
  have hnc : ceases (run P (run P (init P) missedSched) sched) = 0 := by
    simpa [ceases, List.count_eq_zero] using hS'.noCease
  exact ⟨hnc, fun x hx => (hS'.waits x hx).2.1, fun hf => hS'.noCease hf.1⟩

def rep {α : Type} (k : Nat) (l : List α) : List α := (List.replicate k l).flatten

/-- up to here the tracer has accepted `subBuf` = 10 traces since the second monitor subscribed, and is idle -/
def twoStartsPre (sb : Bool) : List Choice :=
  if sb then
    [.starter, .starter, .starter, .starter, .fire, .startTrace, .deliver, .deliver, .mon 0] ++
      rep 9 [.other, .deliver, .deliver, .mon 0]
  else
    [.starter, .starter, .starter, .starter, .starter, .fire, .fire, .startTrace, .deliver, .deliver,
      .startTrace, .deliver, .deliver, .mon 0, .mon 0, .mon 0, .mon 0] ++ rep 8 [.other, .deliver]

/-- the eleventh trace -/
def twoStartsLast (sb : Bool) : List Choice := if sb then [.other, .deliver, .deliver] else [.other, .deliver]

/-- **D4.** `monitorPerStartWith = true`, two start events, subscriber buffers of 10: the second `StartWith` subscribes
and then blocks in `complete.Lock()` (the first monitor holds the lock), so nobody reads its subscription. The first
10 traces after that subscription fit into its buffer and the tracer stays idle; the 11th trace is accepted by the
tracer and never leaves it: from then on, under every continuation, `StartAll` does not return, the tracer accepts
no further trace (the log is frozen, so no cease trace either) and no call returns true. For both orders of
Subscribe/Trigger and any signal capacity. -/
def TwoStartsWitness (P : Params) : Prop :=
  let s10 := run P (init P) (twoStartsPre P.subBefore)
  let s := run P s10 (twoStartsLast P.subBefore)
  (s10.pending = none ∧ (s10.mons.map (·.buf.length)) = [0, P.subBuf] ∧ s10.log.length = P.subBuf) ∧
  (s.log.length = P.subBuf + 1 ∧ Reachable P s ∧ TracerStuck P s 0 1) ∧
  ∀ sched, (run P s sched).returned = false ∧ (run P s sched).log = s.log ∧
    (∀ x ∈ (run P s sched).waits, x.caller ≠ .gotTrue)

theorem C02_counterexample_two_starts (sb : Bool) (cap : Nat) (det : Bool) :
    TwoStartsWitness ⟨sb, true, cap, 10, det, 2⟩ := by
  let P : Params := ⟨sb, true, cap, 10, det, 2⟩
  show let s10 := run P (init P) (twoStartsPre sb)
    let s := run P s10 (twoStartsLast sb)
    (s10.pending = none ∧ (s10.mons.map (·.buf.length)) = [0, 10] ∧ s10.log.length = 10) ∧
    (s.log.length = 11 ∧ Reachable P s ∧ TracerStuck P s 0 1) ∧
    ∀ sched, (run P s sched).returned = false ∧ (run P s sched).log = s.log ∧
      (∀ x ∈ (run P s sched).waits, x.caller ≠ .gotTrue)
  intro s10 s
  let P0 : Params := ⟨sb, true, 0, 10, det, 2⟩
  have hrun : ∀ sched, (∀ c ∈ sched, c.isHelper = false) → run P (init P) sched = run P0 (init P0) sched :=
    fun sched h => run_sigCap P0 cap (init P) sched h
  have h10 : s10 = run P0 (init P0) (twoStartsPre sb) := hrun _ (by cases sb <;> decide)
  have hs : s = run P0 (init P0) (twoStartsPre sb ++ twoStartsLast sb) := by
    show run P (run P (init P) (twoStartsPre sb)) (twoStartsLast sb) = _
    rw [← run_append]; exact hrun _ (by cases sb <;> decide)
  have hbase : ((run P0 (init P0) (twoStartsPre sb)).pending = none ∧
      ((run P0 (init P0) (twoStartsPre sb)).mons.map (·.buf.length)) = [0, 10] ∧
      (run P0 (init P0) (twoStartsPre sb)).log.length = 10) ∧
      (run P0 (init P0) (twoStartsPre sb ++ twoStartsLast sb)).log.length = 11 ∧
      tracerStuckB P0 (run P0 (init P0) (twoStartsPre sb ++ twoStartsLast sb)) 0 1 = true := by
    cases sb <;> cases det <;> (set_option maxRecDepth 20000 in decide)
  have hr : Reachable P s := ⟨twoStartsPre sb ++ twoStartsLast sb, (run_append P _ _ _)⟩
  have hT0 := tracerStuck_of_B hbase.2.2
  have hT : TracerStuck P s 0 1 := by
    rw [hs]; exact ⟨hT0.prog, hT0.pend, hT0.full, hT0.lock, hT0.holder, hT0.waits⟩
  refine ⟨by rw [h10]; exact hbase.1, ⟨by rw [hs]; exact hbase.2.1, hr, hT⟩, fun sched => ?_⟩
  obtain ⟨hT', hlog⟩ := tracerStuck_run (inv_reachable (show (1 : Nat) ≤ 2 by decide) hr) hT sched
  refine ⟨?_, hlog, fun x hx => (hT'.waits x hx).2.1⟩
  have := hT'.prog
  cases hp : (run P s sched).prog with
  | nil => simp [hp] at this
  | cons a r => simp [St.returned, hp]

def expiredSched : List Choice :=
  [.starter, .starter, .starter, .fire, .startTrace, .deliver, .call, .expire 0, .death,
   .mon 0, .mon 0, .mon 0, .mon 0, .mon 0, .mon 0, .helper 0, .helper 0]

/-- **D2.** `waitSignalCap = 0`, one start event: a call issued while the token is alive gives up (context expiry);
its helper keeps waiting for the lock, gets it once the monitor has emitted the cease trace and released it, and then
blocks for ever in `signal <- true` holding the lock. The instance is complete (cease trace out, no token) — and under
every continuation the lock is never free again and no call, present or future, returns true. For both orders of
Subscribe/Trigger and both ways of creating the monitor. -/
def ExpiredWaitWitness (P : Params) : Prop :=
  let s := run P (init P) expiredSched
  Reachable P s ∧ quiet P s ∧ Trace.cease ∈ s.log ∧ HelperStuck P s 0 ∧ trueCount s = 0 ∧
  ∀ sched, (run P s sched).lock = some (.helper 0) ∧ trueCount (run P s sched) = 0 ∧ ¬ Finished (run P s sched)

theorem C02_counterexample_expired_wait (sb ps det : Bool) : ExpiredWaitWitness ⟨sb, ps, 0, 10, det, 1⟩ := by
  let P : Params := ⟨sb, ps, 0, 10, det, 1⟩
  show let s := run P (init P) expiredSched
    Reachable P s ∧ quiet P s ∧ Trace.cease ∈ s.log ∧ HelperStuck P s 0 ∧ trueCount s = 0 ∧
    ∀ sched, (run P s sched).lock = some (.helper 0) ∧ trueCount (run P s sched) = 0 ∧ ¬ Finished (run P s sched)
  intro s
  have hbase : helperStuckB P s 0 = true ∧ quiet P s ∧ Trace.cease ∈ s.log ∧ trueCount s = 0 := by
    cases sb <;> cases ps <;> cases det <;> decide
  have hr : Reachable P s := ⟨expiredSched, rfl⟩
  have hH := helperStuck_of_B hbase.1
  refine ⟨hr, hbase.2.1, hbase.2.2.1, hH, hbase.2.2.2, fun sched => ?_⟩
  obtain ⟨hH', htc⟩ := helperStuck_run (inv_reachable (show (1 : Nat) ≤ 1 by decide) hr) hH sched
  exact ⟨hH'.lock, by rw [htc]; exact hbase.2.2.2, fun hf => by have := hf.2.1; rw [hH'.lock] at this; cases this⟩

def lateTraceSched : List Choice :=
  [.starter, .starter, .starter, .fire, .spawnStray, .startTrace, .deliver, .death,
   .mon 0, .mon 0, .mon 0, .mon 0, .mon 0, .mon 0, .strayTrace]

def LateTraceWitness (P : Params) : Prop :=
  ∃ s, Reachable P s ∧ s.log = [.stray, .cease, .start] ∧ ¬ LogStrict s.log

/-- **D33.** `detached = true` (`harness.run` hands the answer to the token and only then announces the end of the
boundary phase from its own goroutine): that trace can be broadcast after the cease-flow trace, even with the other
three facts repaired. -/
theorem C02_counterexample_late_boundary_trace (ps : Bool) (cap : Nat) :
    LateTraceWitness ⟨true, ps, cap, 10, true, 1⟩ := by
  let P : Params := ⟨true, ps, cap, 10, true, 1⟩
  let P0 : Params := ⟨true, ps, 0, 10, true, 1⟩
  have hrun : run P (init P) lateTraceSched = run P0 (init P0) lateTraceSched :=
    run_sigCap P0 cap (init P) lateTraceSched (by decide)
  have hlog : (run P0 (init P0) lateTraceSched).log = [.stray, .cease, .start] := by cases ps <;> decide
  have hlogP : (run P (init P) lateTraceSched).log = [.stray, .cease, .start] := by rw [hrun]; exact hlog
  refine ⟨run P (init P) lateTraceSched, ⟨lateTraceSched, rfl⟩, hlogP, ?_⟩
  rw [hlogP]
  intro h
  have := h.1 (by simp)
  cases this

/-! ## The statement -/

/-- the facts about the code the model is parametric in -/
structure Facts where
  subBefore : Bool
  perStart : Bool
  sigCap : Nat
  subBuf : Nat
  detached : Bool
deriving DecidableEq, Repr

def Facts.at (F : Facts) (n : Nat) : Params := ⟨F.subBefore, F.perStart, F.sigCap, F.subBuf, F.detached, n⟩

/-- safety half: the cease trace only when every start event has fired and no token is left, at most once per monitor,
last in the trace stream; a call (issued after `StartAll` returned) returns true only after it -/
def Safe (P : Params) : Prop :=
  ∀ s, Reachable P s →
    (∀ c, ceases (step P s c) ≠ ceases s → quiet P s) ∧
    (Trace.cease ∈ s.log → quiet P s) ∧
    (ceases s ≤ s.mons.length ∧ s.mons.length ≤ P.monitorsPerStartAll) ∧
    LogOk s.log ∧
    (∀ x ∈ s.waits, x.early = false → x.caller = .gotTrue → Trace.cease ∈ s.log)

def C02_statementFor (P : Params) : Prop :=
  Safe P ∧ Live P ∧
  -- exactly once
  (∀ s, Reachable P s → ceases s ≤ 1) ∧
  -- after every other trace of the instance
  (∀ s, Reachable P s → LogStrict s.log)

/-- C02 on the model at the facts `F`: for every number of start events -/
def C02_statement (F : Facts) : Prop := ∀ n, 1 ≤ n → C02_statementFor (F.at n)

/-- the safety half holds whatever the facts are -/
theorem C02_safe (P : Params) (hn : 1 ≤ P.n) : Safe P := by
  intro s hr
  obtain ⟨a, b, c, d⟩ := cease_sound P hn s hr
  exact ⟨a, b, cease_at_most_monitors P hn s hr, d, fun x hx he hg => (wait_sound P hn s hr x hx he hg).1⟩

/-- the side condition on the facts -/
def C02ok (F : Facts) : Bool :=
  F.subBefore && !F.perStart && decide (1 ≤ F.sigCap) && decide (1 ≤ F.subBuf) && !F.detached

/-- C02 for one process: the three facts, where "one monitor" may also come from having a single start event -/
theorem C02_for_partial (P : Params) (h : P.subBefore = true ∧ P.monitorsPerStartAll = 1 ∧ 1 ≤ P.sigCap)
    (hb : 1 ≤ P.subBuf) (hd : P.detached = false) (hn : 1 ≤ P.n) : C02_statementFor P := by
  refine ⟨C02_safe P hn, complete_live P h hb hn, fun s hr => ?_, cease_last P hn hd⟩
  have := cease_at_most_monitors P hn s hr
  omega

/-- **C02 holds on the model under the hypothesis that excludes the three witnesses** (monitor subscribed before
`Trigger`, one monitor per instance, buffered signal): for every number of start events, every schedule, every history
of calls. -/
theorem C02_holds_partial (F : Facts) (h : C02ok F = true) : C02_statement F := by
  simp only [C02ok, Bool.and_eq_true, Bool.not_eq_true', decide_eq_true_eq] at h
  obtain ⟨⟨⟨⟨h1, h2⟩, h3⟩, h4⟩, h5⟩ := h
  intro n hn
  exact C02_for_partial (F.at n) ⟨h1, by simp [Facts.at, Params.monitorsPerStartAll, h2], h3⟩ h4 h5 hn

/-- with the monitor still created per `StartWith`, C02 holds for processes with ONE start event as soon as the other
two facts are repaired -/
theorem C02_single_start_partial (F : Facts) (h1 : F.subBefore = true) (h3 : 1 ≤ F.sigCap) (h4 : 1 ≤ F.subBuf)
    (h5 : F.detached = false) : C02_statementFor (F.at 1) :=
  C02_for_partial (F.at 1) ⟨h1, by unfold Params.monitorsPerStartAll Facts.at; split <;> rfl, h3⟩ h4 h5 (Nat.le_refl 1)

/-- **the full statement is false on the faithful model whenever a fact points the wrong way** (subscriber buffers as
in the code: 10) -/
theorem missed_start_at (F : Facts) (h : F.subBefore = false) : MissedStartWitness (F.at 1) := by
  obtain ⟨sb, ps, cap, buf, det⟩ := F
  simp only at h; subst h
  exact C02_counterexample_missed_start ps cap buf det

theorem two_starts_at (F : Facts) (h : F.perStart = true) (hb : F.subBuf = 10) : TwoStartsWitness (F.at 2) := by
  obtain ⟨sb, ps, cap, buf, det⟩ := F
  simp only at h hb; subst h; subst hb
  exact C02_counterexample_two_starts sb cap det

theorem expired_wait_at (F : Facts) (h : F.sigCap = 0) (hb : F.subBuf = 10) : ExpiredWaitWitness (F.at 1) := by
  obtain ⟨sb, ps, cap, buf, det⟩ := F
  simp only at h hb; subst h; subst hb
  exact C02_counterexample_expired_wait sb ps det

theorem late_trace_at (F : Facts) (h1 : F.subBefore = true) (h5 : F.detached = true) (hb : F.subBuf = 10) :
    LateTraceWitness (F.at 1) := by
  obtain ⟨sb, ps, cap, buf, det⟩ := F
  simp only at h1 h5 hb; subst h1; subst h5; subst hb
  exact C02_counterexample_late_boundary_trace ps cap

/-- processes with one start event: false on the model as soon as the monitor subscribes late or the signal is
unbuffered, however the monitor is created -/
theorem C02_single_start_cex (F : Facts) (hb : F.subBuf = 10)
    (h : ¬ (F.subBefore = true ∧ 1 ≤ F.sigCap ∧ F.detached = false)) : ¬ C02_statementFor (F.at 1) := by
  intro hst
  by_cases h1 : F.subBefore = true
  · by_cases h2 : 1 ≤ F.sigCap
    · have h5 : F.detached = true := by
        cases hd : F.detached with
        | true => rfl
        | false => exact absurd ⟨h1, h2, hd⟩ h
      obtain ⟨s, hr, _, hns⟩ := late_trace_at F h1 h5 hb
      exact hns (hst.2.2.2 s hr)
    · obtain ⟨hr, hq, _, _, _, hall⟩ := expired_wait_at F (by omega) hb
      obtain ⟨sched, hf⟩ := (hst.2.1.2 _ hr hq).2.2.2
      exact (hall sched).2.2 hf
  · obtain ⟨s, hr, _, hq, _, hall⟩ := missed_start_at F (by simpa using h1)
    obtain ⟨sched, hf⟩ := (hst.2.1.2 s hr hq).2.2.2
    exact (hall sched).2.2 hf

/-- **the full statement is false on the faithful model whenever a fact points the wrong way** (subscriber buffers as
in the code: 10) -/
theorem C02_cex (F : Facts) (hb : F.subBuf = 10) (h : C02ok F = false) : ¬ C02_statement F := by
  intro hst
  by_cases h1 : F.subBefore = true
  · by_cases h2 : F.perStart = true
    · -- D4: two start events
      obtain ⟨_, ⟨_, hr, _⟩, hall⟩ := two_starts_at F h2 hb
      obtain ⟨sched, hret⟩ := (hst 2 (by decide)).2.1.1 _ hr
      exact Bool.noConfusion ((hall sched).1.symm.trans hret)
    · by_cases h3 : 1 ≤ F.sigCap
      · -- D33: the detached boundary-end trace
        have h5 : F.detached = true := by
          cases hd : F.detached with
          | true => rfl
          | false => simp [C02ok, h1, h2, h3, hb, hd] at h
        obtain ⟨s, hr, _, hns⟩ := late_trace_at F h1 h5 hb
        exact hns ((hst 1 (Nat.le_refl 1)).2.2.2 s hr)
      · -- D2: one start event, a call that expired
        obtain ⟨hr, hq, _, _, _, hall⟩ := expired_wait_at F (by omega) hb
        obtain ⟨sched, hf⟩ := ((hst 1 (Nat.le_refl 1)).2.1.2 _ hr hq).2.2.2
        exact (hall sched).2.2 hf
  · -- D3: one start event
    obtain ⟨s, hr, _, hq, _, hall⟩ := missed_start_at F (by simpa using h1)
    obtain ⟨sched, hf⟩ := ((hst 1 (Nat.le_refl 1)).2.1.2 s hr hq).2.2.2
    exact (hall sched).2.2 hf

/-- today's code: all four facts point the wrong way -/
theorem C02_not_holds_today : ¬ C02_statement ⟨false, true, 0, 10, true⟩ := C02_cex _ rfl (by decide)

/-! ## Non-vacuity (tests, not the claim) -/

/-- the hypotheses of `complete_live` / `C02_holds_partial` are satisfiable, and reachable quiet states exist -/
example : C02ok ⟨true, false, 1, 10, false⟩ = true := by decide
example :
    let P : Params := ⟨true, false, 1, 10, false, 2⟩
    let s := run P (init P) [.starter, .starter, .starter, .starter, .fire, .fire, .startTrace, .deliver,
      .startTrace, .deliver, .death, .death, .call, .call, .expire 0]
    quiet P s ∧ mu s = 12 ∧ ¬ Finished s := by
  refine ⟨by decide, by decide, fun h => ?_⟩
  have := h.1; revert this; decide
/-- … and from there a fair schedule finishes: the cease trace is out once, the expired caller stays expired (its helper
leaves its value in the buffered channel and releases the lock), the other caller gets true -/
example :
    let P : Params := ⟨true, false, 1, 10, false, 2⟩
    let s := run P (init P) [.starter, .starter, .starter, .starter, .fire, .fire, .startTrace, .deliver,
      .startTrace, .deliver, .death, .death, .call, .call, .expire 0,
      .mon 0, .mon 0, .mon 0, .mon 0, .mon 0, .mon 0, .mon 0, .helper 0, .helper 0, .helper 1, .helper 1, .recv 1]
    ceases s = 1 ∧ s.lock = none ∧ s.waits.map (·.caller) = [.expired, .gotTrue] ∧ mu s = 0 := by decide
/-- hypotheses of `wait_sound`: a non-early call that got true exists in a reachable state -/
example :
    let P : Params := ⟨true, false, 1, 10, false, 1⟩
    let s := run P (init P) [.starter, .starter, .starter, .fire, .startTrace, .deliver, .death,
      .mon 0, .mon 0, .mon 0, .mon 0, .mon 0, .mon 0, .call, .helper 0, .helper 0, .recv 0]
    s.waits.map (fun x => (x.early, x.caller)) = [(false, .gotTrue)] ∧ Trace.cease ∈ s.log := by decide

end Bpmn.Props.C02
