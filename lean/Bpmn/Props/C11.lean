import Bpmn.Lemmas.CatchEvent
/-!
# C11 — events reach every listening catch event exactly once and delivery never blocks

Property theorems only. Model: `Bpmn.Model.CatchEvent` (port of event_catch.go / event_start.go inboxes and readers,
pkg/event `ForwardEvent`, process.go `ConsumeEvent`), parametric in the facts `Facts` read from the source.
All statements are for any number of consumers, any incoming-flow counts, any definitions, any history length.

What the code does with SEVERAL tokens waiting at one catch event is stated as it is: one matching event gives
EVERY waiting token its continuation (once each) and disarms the listener — also for message events, where BPMN
would hand one message to one waiting token.
-/
namespace Bpmn.Props.C11
open Bpmn.Model.CatchEvent Bpmn.Model.Satisfier

/-- (a) One delivery over ANY list of registered consumers: every catch event in front of a blocking consumer
(all of them, if the delivery returns) gets exactly one copy; a listening, matching one releases all its waiting
tokens exactly once and is disarmed; a non-matching one does not react; one that is not listening is unchanged
(if it was never reached the event may sit in its inbox — see (c)). -/
def DeliverOnce (f : Facts) : Prop :=
  ∀ (e : Ev) (ns : List Node) (i : Nat) (n : Node), ns[i]? = some n → n.kind = .catch_ →
    (∀ b, (forward f e ns).blocked = some b → i < b) →
    ∃ n' o, (forward f e ns).nodes[i]? = some n' ∧ (forward f e ns).outs[i]? = some o ∧
      (n.loopStarted = true → n.activated = true → Plain n → (matchIdx n.defs e).isSome = true →
        o = [.observed, .released n.parked] ∧ n' = { n with parked := [], activated := false }) ∧
      (matchIdx n.defs e = none →
        releasedOf o = [] ∧ n'.parked = n.parked ∧ n'.activated = n.activated ∧ n'.sat = n.sat) ∧
      (n.activated = false → o = [] ∧ n'.parked = n.parked ∧ n'.activated = false ∧ n'.sat = n.sat)

/-- (b) a blocked consumer stops the delivery: it and everything registered after it sees nothing -/
def DeliverStops (f : Facts) : Prop :=
  ∀ (e : Ev) (ns : List Node) (b i : Nat), (forward f e ns).blocked = some b → b ≤ i →
    (forward f e ns).nodes[i]? = ns[i]? ∧ (forward f e ns).outs[i]? = (ns[i]?).map (fun _ => [])

/-- (c) events that reach a catch event's inbox while it is not activated — in particular everything delivered
before the node was ever reached, which the reader works off BEFORE the activating `nextActionMessage` that was
enqueued behind it — have no effect on anything that follows -/
def StaleInert : Prop :=
  ∀ (n : Node) (evs : List Ev) (rest : List Msg), n.kind = .catch_ → n.activated = false →
    runMsgs n (evs.map Msg.event ++ rest) = runMsgs n rest

/-- (d) over any sequence of inbox messages: every token that arrived is either released or still waiting, in
arrival order, never both and never twice -/
def Conserved : Prop :=
  ∀ (n : Node) (ms : List Msg), n.kind = .catch_ →
    releasedOf (runMsgs n ms).2 ++ (runMsgs n ms).1.parked = n.parked ++ arrivalsOf ms

/-- (c') the same for a whole instance and any history: when a token reaches a catch event whose reader was never
started, whatever was delivered before — the buffer and the callers still blocked on it — is worked off while the
node is not activated; the node becomes exactly what it would have become in a fresh instance (listening, holding
this token), and shows only the listening trace -/
def StaleInertSys (f : Facts) : Prop :=
  ∀ (specs : List NodeSpec) (ops : List Op) (i : Nat) (t : TokId) (sp : NodeSpec) (n : Node),
    specs[i]? = some sp → sp.kind = .catch_ →
    (runOps f (Sys.init f specs) ops).1.nodes[i]? = some n → n.loopStarted = false →
    (arrive f i t (runOps f (Sys.init f specs) ops).1).1.nodes[i]? =
        some { Node.init f sp.kind sp.incoming sp.defs sp.par with loopStarted := true, activated := true, parked := [t] } ∧
      outsAt i (arrive f i t (runOps f (Sys.init f specs) ops).1).2 = [.listening]

/-- (d') for a whole instance and any history of deliveries and arrivals: at every catch event, the tokens released
so far followed by the tokens still waiting are exactly the tokens that arrived, in order -/
def ConservedSys (f : Facts) : Prop :=
  ∀ (specs : List NodeSpec) (ops : List Op) (i : Nat) (sp : NodeSpec), specs[i]? = some sp → sp.kind = .catch_ →
    ∃ n, (runOps f (Sys.init f specs) ops).1.nodes[i]? = some n ∧
      releasedOf (outsAt i (runOps f (Sys.init f specs) ops).2) ++ n.parked = arrivedAt i ops

/-- (e) in every reachable state nobody is blocked, and a delivery returns after exactly one completed
`ConsumeEvent` per registered consumer -/
def Bounded (f : Facts) : Prop :=
  ∀ (specs : List NodeSpec) (ops : List Op) (e : Ev),
    (runOps f (Sys.init f specs) ops).1.waiting = [] ∧
    (deliver f e (runOps f (Sys.init f specs) ops).1).1.waiting = [] ∧
    (forward f e (runOps f (Sys.init f specs) ops).1.nodes).sends = (runOps f (Sys.init f specs) ops).1.nodes.length

/-- the full statement of C11 on the model, for given facts about the source -/
def C11_statement (f : Facts) : Prop :=
  DeliverOnce f ∧ DeliverStops f ∧ StaleInert ∧ StaleInertSys f ∧ Conserved ∧ ConservedSys f ∧ Bounded f

theorem deliver_once (f : Facts) : DeliverOnce f := by
  intro e ns i n hi hk hb
  obtain ⟨n', o, h1, h2, hr⟩ := forward_pointwise f e ns i n hi hb
  refine ⟨n', o, h1, h2, ?_, ?_, ?_⟩
  · intro hl ha hp hm
    obtain ⟨j, hj⟩ := Option.isSome_iff_exists.mp hm
    rcases hr with ⟨_, hh⟩ | ⟨hnl, _⟩
    · rw [handle_event_match n e j hk ha hp hj] at hh
      simp only [Prod.mk.injEq] at hh
      exact ⟨hh.2, hh.1⟩
    · rw [hl] at hnl; cases hnl
  · intro hm
    rcases hr with ⟨_, hh⟩ | ⟨_, ho, hn'⟩
    · have := handle_event_nomatch n e hk hm
      rw [← hh] at this
      simp only at this
      obtain ⟨h3, h4⟩ := this
      rw [h3]; exact ⟨h4, rfl, rfl, rfl⟩
    · subst ho
      rcases hn' with rfl | rfl <;> simp [releasedOf]
  · intro ha
    rcases hr with ⟨_, hh⟩ | ⟨_, ho, hn'⟩
    · rw [handle_event_inactive n e hk ha] at hh
      simp only [Prod.mk.injEq] at hh
      obtain ⟨rfl, rfl⟩ := hh
      exact ⟨rfl, rfl, ha, rfl⟩
    · subst ho
      rcases hn' with rfl | rfl <;> simp [ha]

/-- `Process.ConsumeEvent` on an instance IS that forwarding over its registered consumers: (a) and (b) speak about
every delivery in every state of every instance -/
theorem deliver_is_forward (f : Facts) (e : Ev) (s : Sys) (i : Nat) :
    (deliver f e s).1.nodes = (forward f e s.nodes).nodes ∧
    outsAt i (deliver f e s).2 = ((forward f e s.nodes).outs[i]?).getD [] ∧
    (deliver f e s).1.waiting = s.waiting ++
      (match (forward f e s.nodes).blocked with | some j => [{ ev := e, pos := j }] | none => []) := by
  refine ⟨by simp [deliver, forwardFrom_nodes], ?_, ?_⟩
  · simp [deliver, forwardFrom_outs, outsAt_tag]
  · simp only [deliver, forwardFrom_waiting, List.drop_zero]
    cases (forward f e s.nodes).blocked <;> simp

theorem deliver_stops (f : Facts) : DeliverStops f := fun e ns b i hb hbi => forward_beyond f e ns b i hb hbi

theorem stale_inert : StaleInert := by
  intro n evs rest hk ha
  rw [runMsgs_append, runMsgs_events_inactive n _ hk ha (by
    intro m hm
    obtain ⟨e, _, rfl⟩ := List.mem_map.mp hm
    exact ⟨e, rfl⟩)]
  simp

theorem stale_inert_sys (f : Facts) : StaleInertSys f := by
  intro specs ops i t sp n hsp hk hn hnr
  have h0 : (Sys.init f specs).nodes[i]? = some (Node.init f sp.kind sp.incoming sp.defs sp.par) := by
    rw [init_getElem?, hsp]; rfl
  obtain ⟨_, hfresh⟩ := runOps_unreached f ops (Sys.init f specs) i _ n h0 hn hnr
  have hw : WF n := runOps_wf f ops (Sys.init f specs) (wf_init f specs) n (List.mem_of_getElem? hn)
  have hkn : n.kind = .catch_ := by
    have : ({ n with inbox := [] } : Node).kind = sp.kind := by rw [hfresh]; rfl
    rw [← hk, ← this]
  obtain ⟨h1, h2⟩ := arrive_unreached f i t _ n hn hkn hnr hw
  refine ⟨?_, h2⟩
  rw [h1]
  have : ({ n with loopStarted := true, inbox := [], activated := true, parked := [t] } : Node) =
      { ({ n with inbox := [] } : Node) with loopStarted := true, activated := true, parked := [t] } := rfl
  rw [this, hfresh]
  rfl

theorem tokens_conserved : Conserved := fun n ms hk => runMsgs_conserve n ms hk

theorem tokens_conserved_sys (f : Facts) : ConservedSys f := by
  intro specs ops i sp hsp hk
  have h0 : (Sys.init f specs).nodes[i]? = some (Node.init f sp.kind sp.incoming sp.defs sp.par) := by
    rw [init_getElem?, hsp]; rfl
  obtain ⟨n', h1, _, h2⟩ := runOps_conserve f ops (Sys.init f specs) (wf_init f specs) i _ h0 hk
  exact ⟨n', h1, by simpa [Node.init] using h2⟩

/-- "exactly once" for a whole instance: with distinct token ids no token is released twice at a catch event, and
a released token is not waiting there any more -/
theorem released_once_sys (f : Facts) (specs : List NodeSpec) (ops : List Op) (i : Nat) (sp : NodeSpec)
    (hsp : specs[i]? = some sp) (hk : sp.kind = .catch_) (hd : (arrivedAt i ops).Nodup) :
    (releasedOf (outsAt i (runOps f (Sys.init f specs) ops).2)).Nodup ∧
    ∀ n, (runOps f (Sys.init f specs) ops).1.nodes[i]? = some n →
      ∀ t ∈ releasedOf (outsAt i (runOps f (Sys.init f specs) ops).2), t ∉ n.parked := by
  obtain ⟨n, h1, h2⟩ := tokens_conserved_sys f specs ops i sp hsp hk
  rw [← h2, List.nodup_append] at hd
  refine ⟨hd.1, ?_⟩
  intro n' hn' t ht ht'
  rw [h1] at hn'; cases hn'
  exact (hd.2.2 t ht t ht') rfl

/-- "exactly once": with distinct token ids nothing is released twice, and nothing released is still waiting -/
theorem released_once (n : Node) (ms : List Msg) (hk : n.kind = .catch_) (hd : (n.parked ++ arrivalsOf ms).Nodup) :
    (releasedOf (runMsgs n ms).2).Nodup ∧ ∀ t ∈ releasedOf (runMsgs n ms).2, t ∉ (runMsgs n ms).1.parked := by
  rw [← runMsgs_conserve n ms hk] at hd
  rw [List.nodup_append] at hd
  exact ⟨hd.1, fun t ht ht' => (hd.2.2 t ht t ht') rfl⟩

/-- the positive side of the dichotomy: reader always running, or a send that cannot block ⇒ every delivery returns
in every reachable state, after one completed send per consumer -/
theorem deliver_bounded (f : Facts) (hok : f.ok = true) : Bounded f := by
  intro specs ops e
  obtain ⟨h1, h2⟩ := runOps_no_waiting f hok ops (Sys.init f specs) rfl (ctorRunning_init f specs)
  have hnb : ∀ n ∈ (runOps f (Sys.init f specs) ops).1.nodes, consume (f.of n.kind) n e ≠ .blocks :=
    fun n hn => no_block_of_ok f hok n (h2 n hn) e
  refine ⟨h1, ?_, (forward_returns f e _ hnb).2⟩
  rw [deliver_returns f e _ hnb]; exact h1

/-- the negative side, with an explicit witness for every incoming-flow count: a node of a type without an escape that
is never reached takes as many events as its inbox holds (`incoming * capMul + capAdd`; 3 for a catch event with one
incoming flow today); the next delivery blocks its caller, and the caller stays blocked through every continuation
in which the node is not reached -/
theorem C11_counterexample_unreached_inbox (f : Facts) (kind : NodeKind) (hbad : (f.of kind).ok = false)
    (incoming : Nat) (defs : List Ev) (e : Ev) :
    (runOps f (Sys.init f [{ kind, incoming, defs }])
        (List.replicate ((f.of kind).cap incoming) (Op.deliver e))).1.waiting = [] ∧
    (deliver f e (runOps f (Sys.init f [{ kind, incoming, defs }])
        (List.replicate ((f.of kind).cap incoming) (Op.deliver e))).1).1.waiting = [{ ev := e, pos := 0 }] ∧
    ∀ ops : List Op, (∀ op ∈ ops, ∀ t, op ≠ Op.arrive 0 t) →
      { ev := e, pos := 0 } ∈ (runOps f (deliver f e (runOps f (Sys.init f [{ kind, incoming, defs }])
        (List.replicate ((f.of kind).cap incoming) (Op.deliver e))).1).1 ops).1.waiting := by
  unfold InboxFacts.ok at hbad
  simp only [Bool.or_eq_false_iff] at hbad
  obtain ⟨⟨hr, hnb⟩, hg⟩ := hbad
  have hfill := fill_unreached f e ((f.of kind).cap incoming) (Node.init f kind incoming defs false)
    (by simp [Node.init, hr]) (by simpa [Node.init] using hg) (by simp [Node.init])
  have hs : Sys.init f [{ kind, incoming, defs }] = { nodes := [Node.init f kind incoming defs false], waiting := [] } := rfl
  rw [hs, hfill]
  have hblk := deliver_single_blocks f
    { Node.init f kind incoming defs false with
      inbox := (Node.init f kind incoming defs false).inbox ++ List.replicate ((f.of kind).cap incoming) (Msg.event e) }
    e [] (by simp [Node.init, hr]) (by simpa [Node.init] using hg) (by simpa [Node.init] using hnb)
    (by simp [Node.init])
  refine ⟨rfl, ?_, ?_⟩
  · rw [hblk]; rfl
  · intro ops hops
    apply blocked_forever f { ev := e, pos := 0 } ops _ _ hops
    rw [hblk]; simp

/-- the facts decide: without any of the three mechanisms the statement is false -/
theorem C11_cex (f : Facts) (hbad : f.ok = false) : ¬ C11_statement f := by
  intro ⟨_, _, _, _, _, _, hb⟩
  have hk : ∃ kind, (f.of kind).ok = false := by
    unfold Facts.ok at hbad
    simp only [Bool.and_eq_false_iff] at hbad
    rcases hbad with h | h
    · exact ⟨.catch_, h⟩
    · exact ⟨.start, h⟩
  obtain ⟨kind, hk⟩ := hk
  have hw := (C11_counterexample_unreached_inbox f kind hk 0 [] 0).2.1
  have := (hb [{ kind, incoming := 0, defs := [] }] (List.replicate ((f.of kind).cap 0) (Op.deliver 0)) 0).2.1
  rw [this] at hw
  cases hw

theorem C11_general (f : Facts) (hok : f.ok = true) : C11_statement f :=
  ⟨deliver_once f, deliver_stops f, stale_inert, stale_inert_sys f, tokens_conserved, tokens_conserved_sys f,
    deliver_bounded f hok⟩

/-- what holds whatever the facts are: everything except boundedness, and boundedness under the side condition -/
theorem C11_holds_partial (f : Facts) :
    DeliverOnce f ∧ DeliverStops f ∧ StaleInert ∧ StaleInertSys f ∧ Conserved ∧ ConservedSys f ∧
      (f.ok = true → Bounded f) :=
  ⟨deliver_once f, deliver_stops f, stale_inert, stale_inert_sys f, tokens_conserved, tokens_conserved_sys f,
    deliver_bounded f⟩

/-! Non-vacuity: concrete states meeting the hypotheses (tests, not the claim). -/

/-- the facts the code had when this was written: capacity 2·incoming+1, reader started on first arrival, plain send -/
def codeFacts : Facts :=
  { catch_ := { capMul := 2, capAdd := 1, readerAtConstruction := false, sendNonBlocking := false, sendOnlyWhenRunning := false },
    start := { capMul := 2, capAdd := 1, readerAtConstruction := false, sendNonBlocking := false, sendOnlyWhenRunning := false } }

def sampleCatch : NodeSpec := { kind := .catch_, incoming := 1, defs := [7] }

-- the side condition of `C11_cex` holds for the code's facts, that of `deliver_bounded` for each repair
example : codeFacts.ok = false := by decide
example : ({ codeFacts with catch_ := { codeFacts.catch_ with sendOnlyWhenRunning := true },
                            start := { codeFacts.start with sendNonBlocking := true } } : Facts).ok = true := by decide
-- one incoming flow: three deliveries fit, the fourth blocks (the number seen on the real engine)
example : (runOps codeFacts (Sys.init codeFacts [sampleCatch]) (List.replicate 3 (Op.deliver 7))).1.waiting = [] := by decide
example : (runOps codeFacts (Sys.init codeFacts [sampleCatch]) (List.replicate 4 (Op.deliver 7))).1.waiting =
    [{ ev := 7, pos := 0 }] := by decide
-- a listening, matching, plain catch event with two waiting tokens releases both on one event
example : (runOps codeFacts (Sys.init codeFacts [{ sampleCatch with incoming := 2 }])
    [.arrive 0 1, .arrive 0 2, .deliver 7, .deliver 7]).2 =
    [(0, .listening), (0, .observed), (0, .released [1, 2])] := by decide
-- events delivered before the node is reached (the fourth one blocked) do not fire it when it is reached
example : (runOps codeFacts (Sys.init codeFacts [sampleCatch])
    [.deliver 7, .deliver 7, .deliver 7, .deliver 7, .arrive 0 1]).2 = [(0, .listening)] := by decide
example : (runOps codeFacts (Sys.init codeFacts [sampleCatch])
    [.deliver 7, .deliver 7, .deliver 7, .deliver 7, .arrive 0 1, .deliver 7]).2 =
    [(0, .listening), (0, .observed), (0, .released [1])] := by decide
-- hypotheses of `deliver_once`: a listening plain matching node exists
example : Plain (Node.init codeFacts .catch_ 1 [7] false) ∧ (matchIdx [7] 7).isSome = true := by
  exact ⟨Or.inl rfl, rfl⟩

end Bpmn.Props.C11
