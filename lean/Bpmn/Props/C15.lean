import Bpmn.Lemmas.Xml
import Bpmn.Lemmas.XmlRoundTrip
/-!
# C15 — XML round trip

Model: `Bpmn.Model.Xml`, a generic codec (`marshal`, `parse`) over a schema table. Everything here
is for an ARBITRARY table `S` (and an arbitrary text-trimming function `tr`); the instantiation at
the table extracted from /repo is `Bpmn.Props.C15Current`.
-/
namespace Bpmn.Props.C15
open Bpmn.Model.Xml

/-- the table-level side conditions, all decidable -/
def WF (S : Schema) : Prop := wfB S = true
def PrefixesDeclared (S : Schema) : Prop := prefixesDeclaredB S = true
def XsiDeclared (S : Schema) : Prop := xsiDeclaredB S = true
def NoValueExprFields (S : Schema) : Prop := valueExprFields S = []

/-- the decidable table check the tree-level theorem needs (`Lemmas/XmlRoundTrip`): per type the
element and attribute tags are pairwise distinguishable, every element is written with a head (a
prefix declared on the root, or a default-namespace declaration) that the decoder resolves to the
namespace of the field's tag, no value-typed `AnExpression` field falls under the default
encoding rules, marshal and unmarshal defaults agree; the `xsi` prefix is declared on the root;
the formal / informal / wrapper / root types are distinct as needed and the informal type value
is not mistaken for the formal one -/
def RtTable (S : Schema) : Prop := rtTableB S = true

/-- the full statement of C15 on the model, kept visible. (a) round trip of every well-typed
definitions tree (any size, any depth); (b) serialising leaves the model alone up to text
trimming, and is a function of the model only; (c) the generated `FindBy` traversals visit every
place an id-carrying element can be. -/
def C15_statement (S : Schema) : Prop :=
  (∀ (tr : String → String) (n : Node), WellTyped S n → n.ty = S.rootTy →
      parse S (marshal S tr n) = some (normRoot S tr n)) ∧
  (∀ (tr : String → String) (n : Node), (∀ s, tr (tr s) = tr s) →
      skel (stored S tr n) = skel n ∧ stored S tr (stored S tr n) = stored S tr n) ∧
  findByCoversB S = true

/-- **Tree-level round trip (positive side of the dichotomy on the table).** For EVERY schema table
that passes the check, every trimming function and every well-typed definitions tree of any size
and depth: parsing what was marshalled returns the tree, with the text of elements `PreMarshal`
runs on trimmed and the olive `Item` defaults applied — nothing else changes. -/
theorem roundtrip_general (S : Schema) (h : RtTable S) (tr : String → String) (n : Node)
    (hwt : WellTyped S n) (hroot : n.ty = S.rootTy) :
    parse S (marshal S tr n) = some (normRoot S tr n) :=
  roundtrip S tr h n hwt hroot

/-- what the round trip may change is text and defaulted attributes only: the result has the shape
of the original (same element types, same number of attributes and children everywhere) … -/
theorem roundtrip_keeps_shape (S : Schema) (tr : String → String) (n : Node) (hwt : WellTyped S n) :
    shape (normRoot S tr n) = shape n :=
  norm_shape S tr n _ hwt

/-- … and with nothing to trim (`tr = id`) on a table without defaults it is the tree itself -/
theorem roundtrip_identity (S : Schema) (h : RtTable S) (hd : ∀ ty, unmarshalDefaults S ty = [])
    (n : Node) (hwt : WellTyped S n) (hroot : n.ty = S.rootTy) :
    parse S (marshal S id n) = some n :=
  roundtrip_exact S h hd n hwt hroot

/-- **C15 on the model**: for every table that passes the two decidable checks. -/
theorem C15_holds (S : Schema) (h : RtTable S) (hf : findByCoversB S = true) : C15_statement S :=
  ⟨fun tr n hwt hroot => roundtrip S tr h n hwt hroot,
   fun tr n hid => ⟨stored_skel S tr n, stored_idem S tr hid n⟩, hf⟩

/-! ## One-level theorems, for every table -/

/-- Dispatch is unambiguous: under `WF`-style distinctness of the element tags of a struct, the
element written for a child of field number `i` is routed by the decoder to field `i` and to no
other, whatever the child is. -/
theorem dispatch_unambiguous (env : List (Nat × Nat)) (efs : List FField) (i : Nat)
    (f : FField) (x : Xml)
    (hdist : pairwiseNoClash efs = true) (hi : efs[i]? = some f)
    (hname : x.name.loc = f.f.name)
    (hres : resolveElem (x.decls ++ env) x.name = some f.f.ns) :
    findField env x efs 0 = some (i, f.f) :=
  by simpa using findField_of_distinct env x efs i f 0 hdist hi hname hres

/-- An attribute that was written is read back: with pairwise distinct attribute names, the
decoder finds, for every attribute field, exactly the value the encoder wrote for it (defaults
applied), and nothing for a field that was omitted. -/
theorem attrs_roundtrip (env : List (Nat × Nat)) (d : List (Nat × String)) (afs : List FField)
    (vals : List (Option String)) (hlen : vals.length = afs.length)
    (hdist : pairwiseNoClash afs = true) (hns : ∀ f ∈ afs, f.f.ns = 0) :
    afs.map (fun f => findAttr env f.f (encodeAttrs d afs vals)) = normAttrs d afs vals :=
  findAttr_encodeAttrs env d afs vals hlen hdist hns

/-- `xsi` undeclared ⇒ the type attribute written for a formal expression is not recognised:
whatever the table, an element whose only XSI-looking attribute uses an undeclared prefix is
parsed as an informal expression. -/
theorem undeclared_type_attr_is_informal (S : Schema) (env : List (Nat × Nat)) (v : String)
    (hx : S.xsiPrefix ≠ 0) (hund : env.lookup S.xsiPrefix = none) :
    isFormal S env [(⟨S.xsiPrefix, S.typeLocal⟩, v)] = false := by
  simp [isFormal, resolveAttr, hx, hund]

/-- and when it is declared (bound to the XSI namespace) the formal value is recognised -/
theorem declared_type_attr_is_formal (S : Schema) (env : List (Nat × Nat))
    (hx : S.xsiPrefix ≠ 0) (hdecl : env.lookup S.xsiPrefix = some S.xsiNs) :
    isFormal S env [(⟨S.xsiPrefix, S.typeLocal⟩, S.formalValue)] = true := by
  simp [isFormal, resolveAttr, hx, hdecl, isFormalValue]

/-- **Serialising leaves the model alone, text trimming aside** (trees of any size, any table):
what `PreMarshal` stores back has the same skeleton — types, attributes, children — as the model
being serialised, and a second serialisation stores nothing new (for an idempotent trim such as
`strings.TrimSpace`). -/
theorem marshal_pure (S : Schema) (tr : String → String) (h : ∀ s, tr (tr s) = tr s) (n : Node) :
    skel (stored S tr n) = skel n ∧ stored S tr (stored S tr n) = stored S tr n :=
  ⟨stored_skel S tr n, stored_idem S tr h n⟩

example : ∀ s : String, id (id s) = id s := fun _ => rfl

/-! ## A miniature table on which the whole statement is decided (non-vacuity and the defect) -/

/-- names: 1 SequenceFlow 2 id 3 conditionExpression 4 FormalExpression 5 Expression 6 language
7 text 8 AnExpression 9 type 10 definitions 11 flow 12 Definitions; namespaces: 1 MODEL 2 XSI;
prefixes: 1 bpmn 2 xsi. Structs: 0 Definitions 1 SequenceFlow 2 AnExpression 3 FormalExpression
4 Expression. -/
def mini (xsi : Bool) : Schema := {
  structs := [
    ⟨12, [⟨102,0,2,.attr,true,.ptr,9⟩, ⟨111,1,11,.elem,false,.slice,1⟩], .pre, false, .none, 0, none, some [111], false⟩,
    ⟨1, [⟨102,0,2,.attr,true,.ptr,9⟩, ⟨103,1,3,.elem,false,.ptr,2⟩], .pre, false, .none, 1, none, some [103], true⟩,
    ⟨8, [⟨105,0,5,.elem,false,.val,8⟩], .anExpr, false, .anExpr, 2, none, some [105], false⟩,
    ⟨4, [⟨102,0,2,.attr,true,.ptr,9⟩, ⟨106,0,6,.attr,true,.ptr,9⟩, ⟨107,0,7,.chardata,false,.ptr,9⟩], .pre, false, .none, 3, some 107, some [], true⟩,
    ⟨5, [⟨102,0,2,.attr,true,.ptr,9⟩, ⟨107,0,7,.chardata,false,.ptr,9⟩], .pre, false, .none, 4, some 107, some [], true⟩],
  nsPrefix := [(1, 1)],
  rootDecls := if xsi then [(1, 1), (2, 2)] else [(1, 1)],
  xsiPrefix := 2, typeLocal := 9, xsiNs := 2,
  anExprTy := 2, formalTy := 3, informalTy := 4,
  rootTy := 0, rootPrefix := 1, rootLocal := 10,
  simpleMarshal := [], formalValue := "tFormalExpression", informalValue := "tExpression" }

/-- a definitions with one sequence flow whose condition is the FORMAL expression `x > 1` -/
def miniDoc : Node :=
  .mk 0 [some "D"] [[.mk 1 [some "f1"] [[.mk 3 [some "e", none] [] "x > 1"]] ""]] ""

/-- the same with an INFORMAL condition -/
def miniDocInformal : Node :=
  .mk 0 [some "D"] [[.mk 1 [some "f1"] [[.mk 4 [some "e"] [] "x > 1"]] ""]] ""

/-- **Counterexample (D11).** With the `xsi` prefix not declared on the root (as in /repo) the
formal condition comes back as an informal one: the round trip does not preserve the model. -/
theorem C15_counterexample_xsi :
    xsiDeclaredB (mini false) = false ∧ wfB (mini false) = true ∧ prefixesDeclaredB (mini false) = true ∧
    parse (mini false) (marshal (mini false) id miniDoc) = some miniDocInformal ∧
    normRoot (mini false) id miniDoc = miniDoc ∧ miniDocInformal ≠ miniDoc := by
  refine ⟨by decide, by decide, by decide, by rfl, by rfl, by simp [miniDocInformal, miniDoc]⟩

/-- the table check separates the two miniature tables: it fails exactly because of the undeclared
prefix, and the hypotheses of `roundtrip_general` are met by the repaired one (non-vacuity) -/
theorem mini_table_check : rtTableB (mini false) = false ∧ rtTableB (mini true) = true ∧
    WellTyped (mini true) miniDoc ∧ miniDoc.ty = (mini true).rootTy := by
  refine ⟨by decide, by decide, by unfold WellTyped; decide, rfl⟩

/-- with the prefix declared the same document round-trips -/
theorem mini_roundtrip_declared :
    xsiDeclaredB (mini true) = true ∧
    parse (mini true) (marshal (mini true) id miniDoc) = some (normRoot (mini true) id miniDoc) := by
  refine ⟨by decide, by rfl⟩

/-- informal expressions round-trip either way (the `_partial` side of the dichotomy on the
miniature table) -/
theorem mini_roundtrip_informal_partial (xsi : Bool) :
    parse (mini xsi) (marshal (mini xsi) id miniDocInformal) = some (normRoot (mini xsi) id miniDocInformal) := by
  cases xsi <;> rfl

/-- marshal is a function of the model, and storing the trimmed text back changes nothing a
second time (for an idempotent trim) on the miniature document -/
theorem mini_marshal_pure :
    marshal (mini false) id (stored (mini false) id miniDoc) = marshal (mini false) id miniDoc ∧
    stored (mini false) id miniDoc = miniDoc := by
  refine ⟨by rfl, by rfl⟩

/-! Non-vacuity of the one-level theorems: their hypotheses hold on the miniature table. -/
example : pairwiseNoClash (elemFields (mini false) 0) = true ∧ pairwiseNoClash (attrFields (mini false) 3) = true ∧
    (∀ f ∈ attrFields (mini false) 3, f.f.ns = 0) := by decide
example : ∃ f, (elemFields (mini false) 1)[0]? = some f ∧
    resolveElem ([] ++ (mini false).rootDecls) ⟨1, 3⟩ = some f.f.ns := ⟨_, rfl, by decide⟩
example : (mini false).xsiPrefix ≠ 0 ∧ (mini false).rootDecls.lookup (mini false).xsiPrefix = none ∧
    (mini true).rootDecls.lookup (mini true).xsiPrefix = some (mini true).xsiNs := by decide
example : WellTyped (mini false) miniDoc ∧ WellTyped (mini false) miniDocInformal := by
  unfold WellTyped; decide

/-! ### value-typed expression fields (second defect found on the unchanged tree) -/

/-- as `mini`, but the flow-like struct 1 holds its expression BY VALUE (`From AnExpression`, as
`Assignment.from`, `ConditionalEventDefinition.condition`, … in /repo); `byValue` says whether
`AnExpression.MarshalXML` has a value receiver. The `xsi` prefix is declared here. -/
def mini2 (byValue : Bool) : Schema := {
  structs := [
    ⟨12, [⟨102,0,2,.attr,true,.ptr,9⟩, ⟨111,1,11,.elem,false,.slice,1⟩], .pre, false, .none, 0, none, some [111], false⟩,
    ⟨1, [⟨102,0,2,.attr,true,.ptr,9⟩, ⟨103,1,3,.elem,false,.val,2⟩], .pre, false, .none, 1, none, some [103], true⟩,
    ⟨8, [⟨105,0,5,.elem,false,.val,8⟩], .anExpr, byValue, .anExpr, 2, none, some [105], false⟩,
    ⟨4, [⟨102,0,2,.attr,true,.ptr,9⟩, ⟨106,0,6,.attr,true,.ptr,9⟩, ⟨107,0,7,.chardata,false,.ptr,9⟩], .pre, false, .none, 3, some 107, some [], true⟩,
    ⟨5, [⟨102,0,2,.attr,true,.ptr,9⟩, ⟨107,0,7,.chardata,false,.ptr,9⟩], .pre, false, .none, 4, some 107, some [], true⟩],
  nsPrefix := [(1, 1)],
  rootDecls := [(1, 1), (2, 2)],
  xsiPrefix := 2, typeLocal := 9, xsiNs := 2,
  anExprTy := 2, formalTy := 3, informalTy := 4,
  rootTy := 0, rootPrefix := 1, rootLocal := 10,
  simpleMarshal := [], formalValue := "tFormalExpression", informalValue := "tExpression" }

def miniDoc2 : Node :=
  .mk 0 [some "D"] [[.mk 1 [some "a1"] [[.mk 3 [some "e", some "lang"] [] "1+1"]] ""]] ""

/-- **Counterexample (value-typed expression field).** With a pointer-receiver
`AnExpression.MarshalXML` (as in /repo) the expression of a value-typed field is written as a nested
`<Expression>` element by the default rules and the decoder returns an empty informal expression:
id, language, text and formal kind are all lost — although `xsi` is declared and the table is
well-formed. -/
theorem C15_counterexample_value_field :
    xsiDeclaredB (mini2 false) = true ∧ wfB (mini2 false) = true ∧ valueExprFields (mini2 false) ≠ [] ∧
    parse (mini2 false) (marshal (mini2 false) id miniDoc2) =
      some (.mk 0 [some "D"] [[.mk 1 [some "a1"] [[.mk 4 [none] [] ""]] ""]] "") := by
  refine ⟨by decide, by decide, by decide, by rfl⟩

/-- the table check also rejects the value-typed expression field under a pointer receiver -/
theorem mini2_table_check : rtTableB (mini2 false) = false ∧ rtTableB (mini2 true) = true := by
  refine ⟨by decide, by decide⟩

/-- with a value receiver the same document round-trips -/
theorem mini2_roundtrip_by_value :
    valueExprFields (mini2 true) = [] ∧
    parse (mini2 true) (marshal (mini2 true) id miniDoc2) = some (normRoot (mini2 true) id miniDoc2) := by
  refine ⟨by decide, by rfl⟩

example : WellTyped (mini2 false) miniDoc2 := by unfold WellTyped; decide

end Bpmn.Props.C15
