import Bpmn.Gen.C03
import Bpmn.Props.C03
/-!
# C03 — the kernel IS the source: `distributeFlows` translated from gateway.go on every run

`Gen/C03.replyGen` is not written by hand: the extractor translates the loop body of gateway.go `distributeFlows` statement
by statement (assignments, the conditional re-assignment of `rangeEnd`, the nested `if`s, the two kinds of `action <- …`).
The obligations below say that this translation is, for EVERY number of waiting tokens, EVERY number of outgoing flows and
EVERY loop index, the hand-written kernel `Gateway.reply` that `Props/C03` reasons about — so `distribute_partition`,
`distribute_completions`, `pg_run` … are theorems about what the source says today. An edit of `distributeFlows` either
keeps the equation (a harmless rewrite the translator understands), breaks it (the obligation fails, the differential harness
looks for the failing N × M), or leaves the translator's fragment (`replyGen = none`, the obligation fails as well).
-/
namespace Bpmn.Props.C03Current
open Bpmn.Model.Gateway

/-- the translation exists -/
theorem translated : Bpmn.Gen.C03.replyGen.isSome = true ∧ Bpmn.Gen.C03.uncondGen.isSome = true := by decide

/-- **the source's loop body is the kernel**, for all a, s, i -/
theorem reply_is_source : ∀ (f : Nat → Nat → Nat → Reply), Bpmn.Gen.C03.replyGen = some f → ∀ a s i, f a s i = reply a s i := by
  intro f hf a s i
  unfold Bpmn.Gen.C03.replyGen at hf
  injection hf with hf
  subst hf
  -- semantic, not syntactic: any way of writing the same case analysis over linear conditions is accepted
  unfold reply
  simp only [decide_eq_true_eq, beq_iff_eq, ge_iff_le]
  all_goals grind

/-- every flow a token is handed is marked unconditional: the count of unconditional indices is the length of the slice
(the engine model lets the released tokens leave over their flows without evaluating conditions) -/
theorem all_handed_flows_unconditional : ∀ (f : Nat → Nat → Nat → Reply) (g : Nat → Nat → Nat → Option Nat),
    Bpmn.Gen.C03.replyGen = some f → Bpmn.Gen.C03.uncondGen = some g →
    ∀ a s i, (∀ lo hi, f a s i = .flows lo hi → g a s i = some (hi - lo)) ∧ (f a s i = .complete → g a s i = none) := by
  intro f g hf hg a s i
  unfold Bpmn.Gen.C03.replyGen at hf
  unfold Bpmn.Gen.C03.uncondGen at hg
  injection hf with hf
  injection hg with hg
  subst hf hg
  simp only [decide_eq_true_eq, beq_iff_eq, ge_iff_le]
  constructor
  · intro lo hi
    grind
  · grind

/-- non-vacuity and a reading aid: three waiting tokens, two outgoing flows — the first two get one flow each, the third
is consumed -/
example : (Bpmn.Gen.C03.replyGen.map (fun f => [f 3 2 0, f 3 2 1, f 3 2 2])) =
    some [.flows 0 1, .flows 1 2, .complete] := by decide

end Bpmn.Props.C03Current
