import Bpmn.Gen.C03
import Bpmn.Props.C03
/-!
# C03 — the kernel IS the source: `distributeFlows` translated from gateway.go on every run

`Gen/C03.replyGen` is not written by hand: the extractor translates the loop body of gateway.go `distributeFlows` statement
by statement (assignments, the conditional re-assignment of `rangeEnd`, the nested `if`s, the two kinds of `action <- …`).
The obligations below say that this translation is, for EVERY number of waiting tokens, EVERY number of outgoing flows and
EVERY loop index, the hand-written kernel `Gateway.reply` that `Props/C03` reasons about — so `distribute_partition`,
`distribute_completions`, `pg_run` … are theorems about what the source says today. An edit of `distributeFlows` either
keeps the equation (a harmless rewrite the translator understands), breaks it (the obligation fails, the differential harness
looks for the failing N × M), or leaves the translator's fragment (`replyGen = none`, the obligation fails as well).
-/
namespace Bpmn.Props.C03Current
open Bpmn.Model.Gateway

/-- the translation exists -/
theorem translated : Bpmn.Gen.C03.replyGen.isSome = true ∧ Bpmn.Gen.C03.uncondGen.isSome = true := by decide

/-- **the source's loop body is the kernel**, for all a, s, i -/
theorem reply_is_source : ∀ (f : Nat → Nat → Nat → Reply), Bpmn.Gen.C03.replyGen = some f → ∀ a s i, f a s i = reply a s i := by
  intro f hf a s i
  have : f = fun a s i =>
      let v_rangeEnd := (i + 1)
      let v_rangeEnd := if (v_rangeEnd == a) then s else v_rangeEnd
      if decide (v_rangeEnd ≤ s) then (if decide (i ≥ v_rangeEnd) then Reply.complete else Reply.flows i v_rangeEnd)
      else Reply.complete := by
    have h := hf
    unfold Bpmn.Gen.C03.replyGen at h
    exact (Option.some.inj h).symm
  subst this
  unfold reply
  simp only [decide_eq_true_eq]

/-- every flow a token is handed is marked unconditional: the count of unconditional indices is the length of the slice
(the engine model lets the released tokens leave over their flows without evaluating conditions) -/
theorem all_handed_flows_unconditional : ∀ (f : Nat → Nat → Nat → Reply) (g : Nat → Nat → Nat → Option Nat),
    Bpmn.Gen.C03.replyGen = some f → Bpmn.Gen.C03.uncondGen = some g →
    ∀ a s i, (∀ lo hi, f a s i = .flows lo hi → g a s i = some (hi - lo)) ∧ (f a s i = .complete → g a s i = none) := by
  intro f g hf hg a s i
  have h1 := (Option.some.inj (by unfold Bpmn.Gen.C03.replyGen at hf; exact hf)).symm
  have h2 := (Option.some.inj (by unfold Bpmn.Gen.C03.uncondGen at hg; exact hg)).symm
  subst h1 h2
  simp only [decide_eq_true_eq, beq_iff_eq, ge_iff_le]
  generalize (if i + 1 = a then s else i + 1) = r
  by_cases c1 : r ≤ s
  · by_cases c2 : r ≤ i
    · simp [c1, c2]
    · simp only [c1, c2, if_true, if_false]
      refine ⟨?_, by simp⟩
      intro lo hi h
      injection h with h3 h4
      subst h3 h4
      rfl
  · simp [c1]

/-- non-vacuity and a reading aid: three waiting tokens, two outgoing flows — the first two get one flow each, the third
is consumed -/
example : (Bpmn.Gen.C03.replyGen.map (fun f => [f 3 2 0, f 3 2 1, f 3 2 2])) =
    some [.flows 0 1, .flows 1 2, .complete] := by decide

end Bpmn.Props.C03Current
