import Bpmn.Props.C01Fragment
import Bpmn.Props.EngineCurrent
/-!
`Props/C01Fragment` at the configuration extracted from the current /repo tree (`Gen/Engine`, regenerated on every
run): the four repaired switches are off today, so for every program without inclusive gateways the engine model at
today's facts IS the token game. If an edit of /repo moves one of the four facts, `current_repaired` stops type-checking
(a broken obligation that names the fact).
-/
namespace Bpmn.Props.C01FragmentCurrent
open Bpmn.Model Bpmn.Model.Engine Bpmn.Props.C01Fragment Bpmn.Props.C01Conformance Bpmn.Props.EngineCurrent

/-- flow.Start continues on the first effective flow; the sub-process monitor listens on the inner tracer; the inner
start events are re-armed on every activation; every token passes an intermediate throw event -/
theorem current_repaired : Repaired faithful := ⟨by decide, by decide, by decide, by decide⟩

theorem current_variants : faithful.eagerSettle = false ∧ faithful.lateJoin = false := ⟨rfl, rfl⟩

/-- **Today's engine model is the token game on every program without inclusive gateways.** -/
theorem current_noIncl_conformance (p : Proc) (hp : NoIncl p) (vars : Vars) (ops : List (String × Nat × Answer)) :
    runOps faithful p vars ops = runOps Cfg.ideal p vars ops :=
  noIncl_conformance faithful current_repaired rfl rfl p hp vars ops

theorem current_noIncl_never_deviates (p : Proc) (hp : NoIncl p) (vars : Vars) (ops : List (String × Nat × Answer)) :
    (runOps faithful p vars ops).causes = [] :=
  noIncl_never_deviates faithful current_repaired p hp vars ops

end Bpmn.Props.C01FragmentCurrent
