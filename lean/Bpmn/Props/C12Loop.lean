import Bpmn.Props.C12Nest
import Bpmn.Lemmas.TaskTrace
/-!
# C12 — a sub-process entered again and again in a loop, any number of times

"… and when the sub-process is entered repeatedly in a loop." The program

    s → M → U[ us → B → ue ] → X ;  X → M while c < N ;  X → e otherwise          (B writes c)

for EVERY bound `N`, every round number and whatever values the answers carry:

* `loop_step` — one round, from any state in which the loop stands at its `j`-th round (`LoopAt j`): answering the inner
  task completes the inner end event, the sub-process returns exactly once, and then either (`c < N`) the sub-process is
  ENTERED AGAIN — a fresh inner token, the inner task requested for the `j+1`-th time, the same parent token held again —
  or the end event is reached and nothing is left alive;
* `loop_rounds` — any number of rounds: answering with values `v₁ … v_k < N` requests the inner task once per round, `k`
  more times, never twice in a round, never skipping the content;
* `loop_run` — a whole run from `start`: `k` rounds with values below `N`, then one at or above it: the inner task was
  requested exactly `k + 1` times and the instance completes.

This is the token game (`Cfg.ideal`); the code's known deviation on re-entry (`subStartSticky`, repaired: D37) is the witness
`Props/C12.C12_counterexample_reentry`. `Props/C12Steps.loop_run_current` carries `loop_run` to the configuration extracted
from today's /repo.
-/
namespace Bpmn.Props.C12Loop
open Bpmn.Model Bpmn.Model.Engine Bpmn.Props.C12Nest

/-- `s → M → U[ us → B → ue ] → X`, and from `X` back to `M` while `c < N`, else to `e`; `B` writes `c` -/
def loopProc (N : Int) : Proc :=
  { nodes := [
      { id := "s", kind := .start, ins := [], outs := ["f0"] },
      { id := "M", kind := .xor, ins := ["f0", "f4"], outs := ["f1"] },
      { id := "U", kind := .sub, ins := ["f1"], outs := ["f2"] },
      { id := "us", kind := .start, ins := [], outs := ["g0"], parent := "U" },
      { id := "B", kind := .task, ins := ["g0"], outs := ["g1"], parent := "U", results := ["c"], hasResults := true },
      { id := "ue", kind := .end_, ins := ["g1"], outs := [], parent := "U" },
      { id := "X", kind := .xor, ins := ["f2"], outs := ["f4", "f5"], dflt := some "f5" },
      { id := "e", kind := .end_, ins := ["f5"], outs := [] }],
    flows := [
      { id := "f0", src := "s", dst := "M", cond := .none }, { id := "f1", src := "M", dst := "U", cond := .none },
      { id := "f2", src := "U", dst := "X", cond := .none }, { id := "f4", src := "X", dst := "M", cond := .lt "c" N },
      { id := "f5", src := "X", dst := "e", cond := .none },
      { id := "g0", src := "us", dst := "B", cond := .none }, { id := "g1", src := "B", dst := "ue", cond := .none }] }

theorem u_goes (N : Int) : Goes (loopProc N) "U" .sub "-" "X" := ⟨_, "f2", _, rfl, rfl, rfl, rfl, rfl, rfl, rfl, rfl⟩
theorem us_goes (N : Int) : Goes (loopProc N) "us" .start "U" "B" := ⟨_, "g0", _, rfl, rfl, rfl, rfl, rfl, rfl, rfl, rfl⟩
theorem b_goes (N : Int) : Goes (loopProc N) "B" .task "U" "ue" := ⟨_, "g1", _, rfl, rfl, rfl, rfl, rfl, rfl, rfl, rfl⟩
theorem s_goes (N : Int) : Goes (loopProc N) "s" .start "-" "M" := ⟨_, "f0", _, rfl, rfl, rfl, rfl, rfl, rfl, rfl, rfl⟩
theorem ue_end (N : Int) : IsEnd (loopProc N) "ue" "U" := ⟨_, rfl, rfl, rfl, rfl⟩
theorem e_end (N : Int) : IsEnd (loopProc N) "e" "-" := ⟨_, rfl, rfl, rfl, rfl⟩
theorem noIncl (N : Int) : (loopProc N).nodes.filter (·.kind == .incl) = [] := rfl
theorem starts (N : Int) : (loopProc N).nodes.filter (fun x => x.parent == "U" && x.kind == .start) =
    [{ id := "us", kind := .start, ins := [], outs := ["g0"], parent := "U" }] := rfl

/-- the merge `M` passes every token on to the sub-process node -/
theorem arrive_M (N : Int) (s : St) (t : Tok) (ht : t.node = "M") :
    arrive Cfg.ideal (loopProc N) s t = ([{ t with node := "U" }], s.recordFlow (loopProc N) "M" [t.fid]) := by
  have hn : (loopProc N).node? t.node = some { id := "M", kind := .xor, ins := ["f0", "f4"], outs := ["f1"] } := by rw [ht]; rfl
  unfold arrive
  simp only [hn]
  simp [evalFlows, evalFlow, loopProc, Proc.flow?, Cond.eval, Cond.evalB, Gateway.xgDecide, selectFlows, forkToks, flowDst,
    St.inherit, Cfg.ideal, ht]

/-- the exclusive gateway `X` behind the sub-process: back to `M` while `c < N`, else to the end event -/
theorem arrive_X (N : Int) (s : St) (t : Tok) (v : Int) (ht : t.node = "X") (hv : s.vars.get "c" = some v) :
    arrive Cfg.ideal (loopProc N) s t =
      ([{ t with node := if v < N then "M" else "e" }], s.recordFlow (loopProc N) "X" [t.fid]) := by
  have hn : (loopProc N).node? t.node = some { id := "X", kind := .xor, ins := ["f2"], outs := ["f4", "f5"], dflt := some "f5" } := by
    rw [ht]; rfl
  unfold arrive
  simp only [hn]
  by_cases h : v < N
  · simp [evalFlows, evalFlow, loopProc, Proc.flow?, Cond.eval, Cond.evalB, Gateway.xgDecide, selectFlows, forkToks, flowDst,
      St.inherit, Cfg.ideal, ht, hv, h]
  · simp [evalFlows, evalFlow, loopProc, Proc.flow?, Cond.eval, Cond.evalB, Gateway.xgDecide, selectFlows, forkToks, flowDst,
      St.inherit, Cfg.ideal, ht, hv, h]

/-- the state in which the work list runs after `B` (the only pending request, occurrence `j`) was answered with `c = v` -/
def afterB (N : Int) (s : St) (t : Tok) (v : Int) : St :=
  ({ s with obs := [], pending := [], vars := s.vars.set "c" v } : St).recordFlow (loopProc N) "B" [t.fid]

theorem answer_B (N : Int) (s : St) (t : Tok) (j : Nat) (v : Int) (hp : s.pending = [(t, j)]) (ht : t.node = "B") :
    answer Cfg.ideal (loopProc N) s "B" j (.ok [("c", v)]) =
      runWork Cfg.ideal (loopProc N) (fuelFor (loopProc N)) [{ t with node := "ue" }] (afterB N s t v) := by
  unfold answer
  have hfind : (({ s with obs := [] } : St).pending.find? (fun q => q.1.node == "B" && q.2 == j)) = some (t, j) := by
    simp [hp, ht]
  have hn : (loopProc N).node? "B" = some { id := "B", kind := .task, ins := ["g0"], outs := ["g1"], parent := "U", results := ["c"], hasResults := true } := rfl
  simp only [hfind, hn]
  have hf : (loopProc N).flow? "g1" = some { id := "g1", src := "B", dst := "ue", cond := .none } := rfl
  rw [selectFlows_single (loopProc N) _ t "g1" _ hf rfl]
  have hfil : [(t, j)].filter (fun x => x != (t, j)) = [] := by
    have e : ((t, j) == (t, j)) = true := by
      show (t == t && j == j) = true
      simp [tok_beq_self]
    simp [List.filter, bne, e]
  simp [afterB, hp, hfil, applyDeclared, ht]

theorem fuel_eq (N : Int) : fuelFor (loopProc N) = 2600 := rfl

theorem rw_cons (p : Proc) (fuel : Nat) (hf : 0 < fuel) (t : Tok) (rest : List Tok) (s : St) :
    runWork Cfg.ideal p fuel (t :: rest) s =
      runWork Cfg.ideal p (fuel - 1) (rest ++ (arrive Cfg.ideal p s t).1) (arrive Cfg.ideal p s t).2 := by
  obtain ⟨f, rfl⟩ : ∃ f, fuel = f + 1 := ⟨fuel - 1, by omega⟩
  exact runWork_cons p f t rest s

theorem rw_stop (p : Proc) (fuel : Nat) (hf : 0 < fuel) (s : St) (h : settle Cfg.ideal p s = ([], s)) (hig : s.ig = []) :
    runWork Cfg.ideal p fuel [] s = s := by
  obtain ⟨f, rfl⟩ : ∃ f, fuel = f + 1 := ⟨fuel - 1, by omega⟩
  exact runWork_nil_stop p f s h hig

theorem rw_go (p : Proc) (fuel : Nat) (hf : 0 < fuel) (s s' : St) (t : Tok) (h : settle Cfg.ideal p s = ([t], s')) :
    runWork Cfg.ideal p fuel [] s = runWork Cfg.ideal p (fuel - 1) [t] s' := by
  obtain ⟨f, rfl⟩ : ∃ f, fuel = f + 1 := ⟨fuel - 1, by omega⟩
  exact runWork_nil_go p f s s' t h

/-- the loop is at its `j`-th round: the parent token `u` is held in the sub-process node, the inner task is the only
pending request, for the `j`-th time -/
structure LoopAt (j : Nat) (s : St) (u : Tok) : Prop where
  calm : Calm s
  subs : s.subs = [u]
  unode : u.node = "U"
  pend : ∃ t, s.pending = [(t, j)] ∧ t.node = "B"
  occ : s.occ = [("B", j)]

theorem inScope_U_U (N : Int) : inScope (loopProc N) "U" "U" = false := rfl
theorem inScope_U_B (N : Int) : inScope (loopProc N) "U" "B" = true := rfl

/-- **Entering the sub-process from the merge.** No level is open, nothing is pending, the token stands at `M`: the sub-process
is entered — the token is held, a fresh token runs from the inner start event to the inner task, which is requested (its
occurrence counter goes from `jo` to `jo + 1`) — and nothing else happens. -/
theorem enter_from_M (N : Int) (fuel : Nat) (hf : 5 ≤ fuel) (a : St) (u : Tok) (jo : Nat) (hc : Calm a) (hs : a.subs = [])
    (hp : a.pending = []) (ho1 : ((a.occ.find? (·.1 == "B")).map (·.2)).getD 0 = jo) (ho2 : a.occ.filter (·.1 != "B") = []) :
    (runWork Cfg.ideal (loopProc N) fuel [{ u with node := "M" }] a).obs = a.obs ++ [.req "B"] ∧
    LoopAt (jo + 1) (runWork Cfg.ideal (loopProc N) fuel [{ u with node := "M" }] a) { u with node := "U" } := by
  rw [rw_cons _ _ (by omega), arrive_M N a _ rfl]
  simp only [List.nil_append]
  generalize hM : a.recordFlow (loopProc N) "M" [({ u with node := "M" } : Tok).fid] = a4
  have a4c : Calm a4 := by
    subst hM
    exact ⟨by simp [St.recordFlow, hc.parked], by simp [St.recordFlow, hc.pg], by simp [St.recordFlow, hc.ig],
      by simp [St.recordFlow, hc.oos]⟩
  have a4s : a4.subs = [] := by subst hM; simp [St.recordFlow, hs]
  have a4p : a4.pending = [] := by subst hM; simp [St.recordFlow, hp]
  have a4o : a4.obs = a.obs := by subst hM; simp [St.recordFlow]
  have a4occ : a4.occ = a.occ := by subst hM; simp [St.recordFlow]
  have hgU : Goes (loopProc N) ({ u with node := "U" } : Tok).node .sub "-" "X" := u_goes N
  rw [rw_cons _ _ (by omega), arrive_sub _ a4 { u with node := "U" } _ _ _ hgU (starts N) (by simp [a4s])]
  simp only [List.nil_append]
  have hgS : Goes (loopProc N) ({ fid := a4.nextFid, node := "us" } : Tok).node .start "U" "B" := us_goes N
  have hfresh : (entered a4 { u with node := "U" } { id := "us", kind := .start, ins := [], outs := ["g0"], parent := "U" }).activated.contains
      ({ fid := a4.nextFid, node := "us" } : Tok).node = false := by simp [entered]
  have hst := arrive_start _ (entered a4 { u with node := "U" } { id := "us", kind := .start, ins := [], outs := ["g0"], parent := "U" })
    { fid := a4.nextFid, node := "us" } _ _ hgS hfresh
  unfold entered at hst
  rw [rw_cons _ _ (by omega), hst]
  simp only [List.nil_append]
  generalize hS : started (loopProc N) (entered a4 { u with node := "U" } { id := "us", kind := .start, ins := [], outs := ["g0"], parent := "U" })
    { fid := a4.nextFid, node := "us" } = a5
  have hS' := hS
  unfold started entered at hS'
  rw [hS']
  have a5c : Calm a5 := by
    subst hS
    exact ⟨by simp [started, entered, St.recordFlow, a4c.parked], by simp [started, entered, St.recordFlow, a4c.pg],
      by simp [started, entered, St.recordFlow, a4c.ig], by simp [started, entered, St.recordFlow, a4c.oos]⟩
  have a5s : a5.subs = [{ u with node := "U" }] := by subst hS; simp [started, entered, St.recordFlow, a4s]
  have a5p : a5.pending = [] := by subst hS; simp [started, entered, St.recordFlow, a4p]
  have a5o : a5.obs = a.obs := by subst hS; simp [started, entered, St.recordFlow, a4o]
  have a5occ : a5.occ = a.occ := by subst hS; simp [started, entered, St.recordFlow, a4occ]
  have hgB : Goes (loopProc N) ({ fid := a4.nextFid, node := "B" } : Tok).node .task "U" "ue" := b_goes N
  rw [rw_cons _ _ (by omega), arrive_task _ a5 _ _ _ hgB]
  simp only [List.nil_append]
  have hb : (bumpOcc a5 "B").1 = jo + 1 := by simp [bumpOcc, a5occ, ho1]
  have hsettle : settle Cfg.ideal (loopProc N) (requested a5 { fid := a4.nextFid, node := "B" }) =
      ([], requested a5 { fid := a4.nextFid, node := "B" }) := by
    apply settle_none _ _ (noIncl N)
    apply List.find?_eq_none.mpr
    intro x hx
    have hx' : x = { u with node := "U" } := by simpa [requested, bumpOcc, St.emit, a5s] using hx
    subst hx'
    rw [live_eq _ _ (by simp [requested, bumpOcc, St.emit, a5c.parked]) (by simp [requested, bumpOcc, St.emit, a5c.pg])
      (by simp [requested, bumpOcc, St.emit, a5c.ig])]
    simp [requested, bumpOcc, St.emit, a5p, inScope_U_B]
  have hstop := rw_stop (loopProc N) (fuel - 1 - 1 - 1 - 1) (by omega) _ hsettle (by simp [requested, bumpOcc, St.emit, a5c.ig])
  unfold requested at hstop
  rw [hstop]
  refine ⟨?_, ⟨⟨?_, ?_, ?_, ?_⟩, ?_, rfl, ⟨{ fid := a4.nextFid, node := "B" }, ?_, rfl⟩, ?_⟩⟩
  · simp [bumpOcc, St.emit, a5o]
  · simp [bumpOcc, St.emit, a5c.parked]
  · simp [bumpOcc, St.emit, a5c.pg]
  · simp [bumpOcc, St.emit, a5c.ig]
  · simp [bumpOcc, St.emit, a5c.oos]
  · simp [bumpOcc, St.emit, a5s]
  · simp only [hb]; simp [bumpOcc, a5p]
  · simp [bumpOcc, St.emit, a5occ, ho1, ho2]

/-- **One round.** Answering the inner task with `c = v`: the inner end event completes, the sub-process returns — once —
and then, if `v < N`, the loop goes round: the sub-process is ENTERED AGAIN and its inner task requested again (the `j+1`-th
time); otherwise the end event is reached and nothing is left alive. -/
theorem loop_step (N : Int) (j : Nat) (s : St) (u : Tok) (h : LoopAt j s u) (v : Int) :
    (v < N → (answer Cfg.ideal (loopProc N) s "B" j (.ok [("c", v)])).obs = [.complete "ue", .req "B"] ∧
      LoopAt (j + 1) (answer Cfg.ideal (loopProc N) s "B" j (.ok [("c", v)])) u) ∧
    (¬ v < N → (answer Cfg.ideal (loopProc N) s "B" j (.ok [("c", v)])).obs = [.complete "ue", .complete "e"] ∧
      (answer Cfg.ideal (loopProc N) s "B" j (.ok [("c", v)])).topLive (loopProc N) = false ∧
      (answer Cfg.ideal (loopProc N) s "B" j (.ok [("c", v)])).subs = [] ∧
      (answer Cfg.ideal (loopProc N) s "B" j (.ok [("c", v)])).outOfScope = none) := by
  obtain ⟨hc, hs, hu, ⟨t, hp, ht⟩, ho⟩ := h
  rw [answer_B N s t j v hp ht, fuel_eq]
  -- the inner end event
  have hgE : IsEnd (loopProc N) ({ t with node := "ue" } : Tok).node "U" := ue_end N
  rw [rw_cons _ _ (by decide), arrive_end _ _ _ _ hgE]
  simp only [List.nil_append]
  generalize hA : (({ (afterB N s t v) with activated := if (afterB N s t v).activated.contains ({ t with node := "ue" } : Tok).node
      then (afterB N s t v).activated else ({ t with node := "ue" } : Tok).node :: (afterB N s t v).activated } : St).emit
      (.complete ({ t with node := "ue" } : Tok).node)).recordTerm ({ t with node := "ue" } : Tok).fid = a1
  have a1c : Calm a1 := by
    subst hA
    exact ⟨by simp [St.recordTerm, St.emit, afterB, St.recordFlow, hc.parked], by simp [St.recordTerm, St.emit, afterB, St.recordFlow, hc.pg],
      by simp [St.recordTerm, St.emit, afterB, St.recordFlow, hc.ig], by simp [St.recordTerm, St.emit, afterB, St.recordFlow, hc.oos]⟩
  have a1s : a1.subs = [u] := by subst hA; simp [St.recordTerm, St.emit, afterB, St.recordFlow, hs]
  have a1p : a1.pending = [] := by subst hA; simp [St.recordTerm, St.emit, afterB, St.recordFlow]
  have a1o : a1.obs = [.complete "ue"] := by subst hA; simp [St.recordTerm, St.emit, afterB, St.recordFlow]
  have a1occ : a1.occ = [("B", j)] := by subst hA; simp [St.recordTerm, St.emit, afterB, St.recordFlow, ho]
  have a1v : a1.vars.get "c" = some v := by
    subst hA; simp [St.recordTerm, St.emit, afterB, St.recordFlow, Bpmn.Lemmas.TaskTrace.get_set_eq]
  -- the sub-process returns
  have hfind : a1.subs.find? (fun x => !liveInScope (loopProc N) a1 x.node []) = some u := by
    rw [a1s]
    simp [live_eq a1 _ a1c.parked a1c.pg a1c.ig, a1p, a1s, hu, inScope_U_U]
  have hgo : Goes (loopProc N) u.node .sub "-" "X" := by rw [hu]; exact u_goes N
  rw [rw_go _ _ (by decide) a1 _ _ (settle_return _ a1 u _ _ (noIncl N) hfind hgo a1c.parked)]
  generalize hR : returned (loopProc N) a1 u = a2
  have a2c : Calm a2 := by
    subst hR
    exact ⟨by simp [returned, St.recordFlow, a1c.parked], by simp [returned, St.recordFlow, a1c.pg],
      by simp [returned, St.recordFlow, a1c.ig], by simp [returned, St.recordFlow, a1c.oos]⟩
  have a2s : a2.subs = [] := by
    subst hR
    simp only [returned, St.recordFlow, a1s]
    have : (u != u) = false := by simp [bne, tok_beq_self]
    simp [List.filter, this]
  have a2p : a2.pending = [] := by subst hR; simp [returned, St.recordFlow, a1p]
  have a2o : a2.obs = [.complete "ue"] := by subst hR; simp [returned, St.recordFlow, a1o]
  have a2occ : a2.occ = [("B", j)] := by subst hR; simp [returned, St.recordFlow, a1occ]
  have a2v : a2.vars.get "c" = some v := by subst hR; simpa [returned, St.recordFlow] using a1v
  -- the exclusive gateway behind it
  rw [rw_cons _ _ (by decide), arrive_X N a2 { u with node := "X" } v rfl a2v]
  simp only [List.nil_append]
  generalize hX : a2.recordFlow (loopProc N) "X" [({ u with node := "X" } : Tok).fid] = a3
  have a3c : Calm a3 := by
    subst hX
    exact ⟨by simp [St.recordFlow, a2c.parked], by simp [St.recordFlow, a2c.pg], by simp [St.recordFlow, a2c.ig],
      by simp [St.recordFlow, a2c.oos]⟩
  have a3s : a3.subs = [] := by subst hX; simp [St.recordFlow, a2s]
  have a3p : a3.pending = [] := by subst hX; simp [St.recordFlow, a2p]
  have a3o : a3.obs = [.complete "ue"] := by subst hX; simp [St.recordFlow, a2o]
  have a3occ : a3.occ = [("B", j)] := by subst hX; simp [St.recordFlow, a2occ]
  constructor
  · -- once more round
    intro hv
    simp only [hv, if_true]
    have huu : ({ ({ ({ u with node := "X" } : Tok) with node := "M" } : Tok) with node := "U" } : Tok) = u := by
      cases u; simp_all
    obtain ⟨o, l⟩ := enter_from_M N (2600 - 1 - 1 - 1) (by decide) a3 { u with node := "X" } j a3c a3s a3p
      (by simp [a3occ]) (by simp [a3occ])
    rw [huu] at l
    exact ⟨by rw [o, a3o]; rfl, l⟩
  · -- out of the loop
    intro hv
    simp only [hv, if_false]
    have hgE2 : IsEnd (loopProc N) ({ ({ u with node := "X" } : Tok) with node := "e" } : Tok).node "-" := e_end N
    rw [rw_cons _ _ (by decide), arrive_end _ a3 _ _ hgE2]
    simp only [List.nil_append]
    rw [rw_stop]
    · refine ⟨?_, ?_, ?_, ?_⟩
      · simp [St.recordTerm, St.emit, a3o]
      · unfold St.topLive
        rw [live_eq _ _ (by simp [St.recordTerm, St.emit, a3c.parked]) (by simp [St.recordTerm, St.emit, a3c.pg])
          (by simp [St.recordTerm, St.emit, a3c.ig])]
        simp [St.recordTerm, St.emit, a3s, a3p]
      · simp [St.recordTerm, St.emit, a3s]
      · simp [St.recordTerm, St.emit, a3c.oos]
    · decide
    · apply settle_none _ _ (noIncl N)
      simp [St.recordTerm, St.emit, a3s]
    · simp [St.recordTerm, St.emit, a3c.ig]

/-- answer the inner task round after round with the given values (round numbers from `j` on), at configuration `cfg`: the
observations of each round and the state reached -/
def roundsC (cfg : Cfg) (N : Int) : Nat → St → List Int → List (List Obs) × St
  | _, s, [] => ([], s)
  | j, s, v :: vs =>
    ((answer cfg (loopProc N) s "B" j (.ok [("c", v)])).obs ::
       (roundsC cfg N (j + 1) (answer cfg (loopProc N) s "B" j (.ok [("c", v)])) vs).1,
     (roundsC cfg N (j + 1) (answer cfg (loopProc N) s "B" j (.ok [("c", v)])) vs).2)

/-- … under the token game -/
abbrev rounds (N : Int) := roundsC Cfg.ideal N

/-- **Any number of rounds.** Values below the bound keep the loop going: one request of the inner task per round. -/
theorem loop_rounds (N : Int) : ∀ (vs : List Int) (j : Nat) (s : St) (u : Tok), LoopAt j s u → (∀ v ∈ vs, v < N) →
    (rounds N j s vs).1 = vs.map (fun _ => [Obs.complete "ue", Obs.req "B"]) ∧ LoopAt (j + vs.length) (rounds N j s vs).2 u
  | [], j, s, u, h, _ => ⟨rfl, by simpa [rounds, roundsC] using h⟩
  | v :: vs, j, s, u, h, hv => by
    obtain ⟨o1, l1⟩ := (loop_step N j s u h v).1 (hv v (by simp))
    obtain ⟨o2, l2⟩ := loop_rounds N vs (j + 1) _ u l1 (fun w hw => hv w (by simp [hw]))
    refine ⟨by simp [rounds, roundsC, o1, o2], ?_⟩
    have : j + (v :: vs).length = j + 1 + vs.length := by simp; omega
    rw [this]
    simpa [rounds, roundsC] using l2

/-- starting the instance: the first round -/
theorem loop_start (N : Int) (vars : Vars) :
    (start Cfg.ideal (loopProc N) vars).obs = [.req "B"] ∧ LoopAt 1 (start Cfg.ideal (loopProc N) vars) { fid := 1, node := "U" } := by
  have hstarts : (loopProc N).nodes.filter (fun n => n.kind == .start && n.parent == "-") =
      [{ id := "s", kind := .start, ins := [], outs := ["f0"] }] := rfl
  unfold start
  simp only [hstarts, spawnStarts, List.foldl, List.nil_append, fuel_eq]
  have hgS : Goes (loopProc N) ({ fid := 1, node := "s" } : Tok).node .start "-" "M" := s_goes N
  rw [rw_cons _ _ (by decide), arrive_start _ _ _ _ _ hgS (by simp)]
  simp only [List.nil_append]
  obtain ⟨o, l⟩ := enter_from_M N (2600 - 1) (by decide)
    (({ vars := vars, nextFid := 1 + 1, activated := ["s"] } : St).recordFlow (loopProc N) "s" [1]) { fid := 1, node := "s" } 0
    ⟨by simp [St.recordFlow], by simp [St.recordFlow], by simp [St.recordFlow], by simp [St.recordFlow]⟩
    (by simp [St.recordFlow]) (by simp [St.recordFlow]) (by simp [St.recordFlow]) (by simp [St.recordFlow])
  exact ⟨by rw [o]; simp [St.recordFlow], l⟩

/-- **A whole run.** `k` rounds with values below the bound, then one at or above it: the inner task is requested on start
and once more per round that stays in the loop — `k + 1` times in all, every activation of the sub-process runs its content —
and the last answer ends the instance. -/
theorem loop_run (N : Int) (vars : Vars) (vs : List Int) (last : Int) (hvs : ∀ v ∈ vs, v < N) (hlast : ¬ last < N) :
    (start Cfg.ideal (loopProc N) vars).obs = [.req "B"] ∧
    (rounds N 1 (start Cfg.ideal (loopProc N) vars) vs).1 = vs.map (fun _ => [Obs.complete "ue", Obs.req "B"]) ∧
    (answer Cfg.ideal (loopProc N) (rounds N 1 (start Cfg.ideal (loopProc N) vars) vs).2 "B" (1 + vs.length) (.ok [("c", last)])).obs =
      [.complete "ue", .complete "e"] ∧
    (answer Cfg.ideal (loopProc N) (rounds N 1 (start Cfg.ideal (loopProc N) vars) vs).2 "B" (1 + vs.length) (.ok [("c", last)])).topLive
      (loopProc N) = false ∧
    (answer Cfg.ideal (loopProc N) (rounds N 1 (start Cfg.ideal (loopProc N) vars) vs).2 "B" (1 + vs.length) (.ok [("c", last)])).outOfScope = none := by
  obtain ⟨o0, l0⟩ := loop_start N vars
  obtain ⟨o1, l1⟩ := loop_rounds N vs 1 _ _ l0 hvs
  obtain ⟨o2, t2, _, oo2⟩ := (loop_step N (1 + vs.length) _ _ l1 last).2 hlast
  exact ⟨o0, o1, o2, t2, oo2⟩

/-- non-vacuity (executable): bound 3, answers 1, 2, 3 — three requests of the inner task -/
example : (let s0 := start Cfg.ideal (loopProc 3) []
           let r := rounds 3 1 s0 [1, 2]
           (s0.obs, r.1, (answer Cfg.ideal (loopProc 3) r.2 "B" 3 (.ok [("c", 3)])).obs)) =
    ([.req "B"], [[.complete "ue", .req "B"], [.complete "ue", .req "B"]], [.complete "ue", .complete "e"]) := by decide

end Bpmn.Props.C12Loop
