import Bpmn.Lemmas.Value
/-!
# C16 — Values survive storage; nothing panics

Property theorems only. Model: `Bpmn.Model.Value` (port of `schema.Value.ValueFrom / ValueFor / NewValue`,
the `pkg/data` variable store and `locatorJSONGet`), parametric in the facts `Cfg` re-read from the source
on every run and in a JSON `Codec` whose single law (`Codec.Lawful`) is a hypothesis.
Every fact-dependent statement is proved for ALL values of the facts as a dichotomy: side condition on
the facts holds → the property, for all values; side condition fails → an explicit witness.
-/
namespace Bpmn.Props.C16
open Bpmn.Model.Value

/-! ## Side conditions on the facts (decidable) -/

def allKinds : List Kind :=
  [.invalid, .bool, .int, .int8, .int16, .int32, .int64, .uint, .uint8, .uint16, .uint32, .uint64, .uintptr,
   .float32, .float64, .complex, .array, .slice, .map, .struct, .string, .pointer, .other]

/-- no case of the inferred kind switch calls a panicking accessor, and the three nil dereferences are guarded -/
def panicFree (cfg : Cfg) : Bool :=
  allKinds.all (fun k => match cfg.accessor k with | some a => !a.panics k | none => true)
  && cfg.nilGuardArray && cfg.nilGuardObject && cfg.nilGuardValuePtr

/-- the inferred kind switch handles kind `k` with the accessor of its own class -/
def kindOk (cfg : Cfg) (k : Kind) : Bool :=
  match cfg.accessor k with
  | some a => a.fits k
  | none => false

/-- a declared float is printed so that it can be read back (shortest form of the widened value) -/
def floatFaithful (cfg : Cfg) : Bool := !cfg.floatSix && cfg.floatWide

/-- the `%v` text of the token identifies the float (law of `strconv`, checked by the driver on every case) -/
def F64.wf (f : F64) : Bool :=
  match decVal f.g with
  | some d => roundsTo d f
  | none => false

/-- the Go values the property quantifies over: supported kinds, integers within int64, finite floats,
at most one pointer level on top -/
def storable : GoVal → Bool
  | .bool _ | .str _ | .slice _ | .map _ | .struct _ => true
  | .int _ n => decide (-9223372036854775808 ≤ n) && decide (n ≤ 9223372036854775807)
  | .float _ f _ => F64.wf f
  | .ptr w => match w with
    | .bool _ | .str _ | .slice _ | .map _ | .struct _ => true
    | .int _ n => decide (-9223372036854775808 ≤ n) && decide (n ≤ 9223372036854775807)
    | .float _ f _ => F64.wf f
    | _ => false
  | _ => false

/-- the value behind at most one pointer -/
def deref : GoVal → GoVal
  | .ptr w => w
  | w => w

/-- stored with the matching item type and reads back as the same value in canonical form -/
def survives (C : Codec) (r : Except Panic (Value C.T)) (v : GoVal) : Prop :=
  ∃ val, r = .ok val ∧ some val.ty = v.itemType ∧ sameValue (valueFor C val) v = true

/-! ## The statement of C16 on the model, for given facts -/

def C16_statement (cfg : Cfg) : Prop :=
  -- (a) any supported value stored as a variable / result / data object (inferred branch) survives
  (∀ (C : Codec), C.Lawful → ∀ v, storable v = true → survives C (newValue cfg C v) v) ∧
  -- (b) … and under the matching declared item type
  (∀ (C : Codec), C.Lawful → ∀ v t, storable v = true → v.kind ≠ .pointer → v.itemType = some t →
      survives C (valueFrom cfg C (Value.empty C.T t) v) v) ∧
  -- (c) no value and no declared type panics
  (∀ (C : Codec) (iv : Value C.T) (v : GoVal), ∃ val, valueFrom cfg C iv v = .ok val) ∧
  -- (d) references: never a panic, absent variable or path ⇒ no value; the property assembly never panics
  (∀ (C : Codec) (s : Store C.T) (ty : ItemType) (ref : Text), ∃ val, fetchProperty cfg C s ty ref = .ok val) ∧
  -- (e) instances are isolated: a write through one address is invisible through every other, and a clone is fresh
  (∀ (T : Type) (h : Heap T) (a b : Nat) (k k' : Text) (v : Value T), a ≠ b →
      (h.write a k v).read b k' = h.read b k')

/-! ## (c) no panic: dichotomy on the facts -/


theorem accessor_safe (cfg : Cfg) (h : panicFree cfg = true) (k : Kind) (a : Accessor)
    (ha : cfg.accessor k = some a) : a.panics k = false := by
  unfold panicFree at h
  simp only [Bool.and_eq_true, List.all_eq_true] at h
  have hk : k ∈ allKinds := by cases k <;> simp [allKinds]
  have := h.1.1.1 k hk
  rw [ha] at this
  simpa using this

theorem no_panic (cfg : Cfg) (h : panicFree cfg = true) (C : Codec) (iv : Value C.T) (v : GoVal) :
    ∃ val, valueFrom cfg C iv v = .ok val := by
  have hg : cfg.nilGuardArray = true ∧ cfg.nilGuardObject = true ∧ cfg.nilGuardValuePtr = true := by
    unfold panicFree at h; simp only [Bool.and_eq_true] at h; exact ⟨h.1.1.2, h.1.2, h.2⟩
  obtain ⟨h1, h2, h3⟩ := hg
  unfold valueFrom
  split
  · exact ⟨_, rfl⟩
  · simp [h3]
  · split
    all_goals (try (split <;> first | exact ⟨_, rfl⟩ | (split <;> exact ⟨_, rfl⟩)))
    unfold inferFrom
    split
    · exact ⟨_, rfl⟩
    · next a ha => rw [accessor_safe cfg h _ a ha]; exact ⟨_, rfl⟩


def one : F64 := { neg := false, m := 4503599627370496, e := -52, g := ['1'] }

/-- a value of each kind (as `reflect` sees it after one `Elem()`) -/
def sample : Kind → GoVal
  | .invalid => .nil
  | .bool => .bool true
  | .int => .int .int 1 | .int8 => .int .int8 1 | .int16 => .int .int16 1 | .int32 => .int .int32 1 | .int64 => .int .int64 1
  | .uint => .int .uint 1 | .uint8 => .int .uint8 1 | .uint16 => .int .uint16 1 | .uint32 => .int .uint32 1
  | .uint64 => .int .uint64 1
  | .float32 => .float true one ['1'] | .float64 => .float false one ['1']
  | .string => .str ['s']
  | .slice => .slice .nil | .map => .map .nil | .struct => .struct .nil
  | .pointer => .ptr (.nilPtr .int)
  | k => .opaque k

theorem reflectOf_sample (k : Kind) : (reflectOf (sample k)).1 = k := by cases k <;> rfl

def badKind (cfg : Cfg) (k : Kind) : Bool :=
  match cfg.accessor k with | some a => a.panics k | none => false

/-- a declared type and a value on which `ValueFrom` panics, computed from the facts -/
def panicWitness (cfg : Cfg) : ItemType × GoVal :=
  if !cfg.nilGuardValuePtr then (.other [], .nilValuePtr)
  else if !cfg.nilGuardArray then (.array, .nil)
  else if !cfg.nilGuardObject then (.object, .nil)
  else match allKinds.find? (badKind cfg) with
    | some k => (.other [], sample k)
    | none => (.other [], .nil)

theorem panics_of_not_panicFree (cfg : Cfg) (h : panicFree cfg = false) (C : Codec) :
    ∃ p, valueFrom cfg C (Value.empty C.T (panicWitness cfg).1) (panicWitness cfg).2 = .error p := by
  unfold panicWitness
  by_cases h3 : cfg.nilGuardValuePtr = true
  · by_cases h1 : cfg.nilGuardArray = true
    · by_cases h2 : cfg.nilGuardObject = true
      · simp only [h1, h2, h3, Bool.not_true, Bool.false_eq_true, if_false]
        have hbad : ∃ k, k ∈ allKinds ∧ badKind cfg k = true := by
          unfold panicFree at h
          simp only [h1, h2, h3, Bool.and_true, List.all_eq_false] at h
          obtain ⟨k, hk, hb⟩ := h
          refine ⟨k, hk, ?_⟩
          unfold badKind
          cases ha : cfg.accessor k with
          | none => simp [ha] at hb
          | some a => simpa [ha] using hb
        cases hf : allKinds.find? (badKind cfg) with
        | none =>
          obtain ⟨k, hk, hb⟩ := hbad
          have := List.find?_eq_none.mp hf k hk
          simp [hb] at this
        | some k =>
          have hb : badKind cfg k = true := List.find?_some hf
          unfold badKind at hb
          cases ha : cfg.accessor k with
          | none => simp [ha] at hb
          | some a =>
            simp only [ha] at hb
            have hv : valueFrom cfg C (Value.empty C.T (.other [])) (sample k) =
                inferFrom cfg C (Value.empty C.T (.other [])) (sample k) := by
              cases k <;> (unfold valueFrom; simp [sample, Value.empty])
            refine ⟨.reflectAccessor a k, ?_⟩
            show valueFrom cfg C (Value.empty C.T (.other [])) (sample k) = _
            rw [hv]
            unfold inferFrom
            rw [reflectOf_sample, ha]
            simp [hb]
      · refine ⟨.nilType .object, ?_⟩
        unfold valueFrom; simp [h1, h2, h3, Value.empty]
    · refine ⟨.nilType .array, ?_⟩
      unfold valueFrom; simp [h1, h3, Value.empty]
  · refine ⟨.nilValuePtr, ?_⟩
    unfold valueFrom; simp [h3, Value.empty]


/-! ## (a) values survive the inferred branch -/


theorem newValue_infer (cfg : Cfg) (C : Codec) (v : GoVal) (h1 : ∀ t s, v ≠ .valuePtr t s) (h2 : v ≠ .nilValuePtr) :
    newValue cfg C v = inferFrom cfg C (Value.empty C.T) v := by
  unfold newValue valueFrom
  cases v <;> simp_all [Value.empty]

/-- what the inferred branch does on a kind handled with a fitting accessor -/
theorem inferFrom_ok (cfg : Cfg) (C : Codec) (iv : Value C.T) (v : GoVal) (h : kindOk cfg (reflectOf v).1 = true) :
    ∃ a, cfg.accessor (reflectOf v).1 = some a ∧ a.fits (reflectOf v).1 = true ∧
      inferFrom cfg C iv v = .ok (inferStore C iv v a (reflectOf v).2) := by
  unfold kindOk at h
  cases ha : cfg.accessor (reflectOf v).1 with
  | none => simp [ha] at h
  | some a =>
    simp only [ha] at h
    refine ⟨a, rfl, h, ?_⟩
    unfold inferFrom
    rw [ha]
    have : a.panics (reflectOf v).1 = false := by
      unfold Accessor.panics; cases a <;> simp_all
    simp [this]

theorem valueFor_int (C : Codec) (n : Int) (h1 : -9223372036854775808 ≤ n) (h2 : n ≤ 9223372036854775807) :
    valueFor C { ty := .integer, val := .chars (printInt n) } = .int n := by
  unfold valueFor
  simp [parseInt64_printInt n h1 h2]

theorem valueFor_bool (C : Codec) (b : Bool) :
    valueFor C { ty := .boolean, val := .chars (boolText b) } = .bool b := by
  cases b <;> simp [valueFor, boolText] <;> decide

theorem sameValue_float (f : F64) (is32 : Bool) (sh : Text) (h : F64.wf f = true) :
    sameValue (.dec (decVal f.g)) (.float is32 f sh) = true := by
  unfold F64.wf at h
  unfold sameValue
  cases hd : decVal f.g with
  | none => simp [hd] at h
  | some d => simpa [hd] using h

/-- one supported non-pointer value through the inferred branch -/
theorem infer_core (cfg : Cfg) (C : Codec) (hC : C.Lawful) (iv : Value C.T) (w v : GoVal)
    (hw : reflectOf v = (w.kind, w)) (hj : v.toJson = w.toJson)
    (hs : storable w = true) (hp : w.kind ≠ .pointer) (hk : kindOk cfg w.kind = true) :
    ∃ val, inferFrom cfg C iv v = .ok val ∧ some val.ty = w.itemType ∧ sameValue (valueFor C val) w = true := by
  obtain ⟨a, _, hfit, hres⟩ := inferFrom_ok cfg C iv v (by rw [hw]; exact hk)
  rw [hw] at hfit hres
  refine ⟨_, hres, ?_⟩
  cases w with
  | bool b =>
    cases a <;> simp [Accessor.fits, GoVal.kind, Kind.isSigned, Kind.isUnsigned, Kind.isFloat] at hfit
    simp [inferStore, GoVal.itemType, valueFor_bool, sameValue]
  | str s =>
    cases a <;> simp [Accessor.fits, GoVal.kind, Kind.isSigned, Kind.isUnsigned, Kind.isFloat] at hfit
    simp [inferStore, GoVal.itemType, valueFor, sameValue]
  | int k n =>
    simp only [storable, Bool.and_eq_true, decide_eq_true_eq] at hs
    have hv := valueFor_int C n hs.1 hs.2
    cases a <;> cases k <;>
      simp [Accessor.fits, GoVal.kind, IntKind.kind, Kind.isSigned, Kind.isUnsigned, Kind.isFloat] at hfit <;>
      simp [inferStore, GoVal.itemType, hv, sameValue]
  | float is32 f sh =>
    simp only [storable] at hs
    cases a <;> cases is32 <;>
      simp [Accessor.fits, GoVal.kind, Kind.isSigned, Kind.isUnsigned, Kind.isFloat] at hfit <;>
      simp [inferStore, GoVal.itemType, valueFor, sameValue_float f _ sh hs]
  | slice xs =>
    cases a <;> simp [Accessor.fits, GoVal.kind, Kind.isSigned, Kind.isUnsigned, Kind.isFloat] at hfit
    simp [inferStore, GoVal.itemType, valueFor, sameValue, hj, hC _, GoVal.toJson, Json.canon]
  | map kvs =>
    cases a <;> simp [Accessor.fits, GoVal.kind, Kind.isSigned, Kind.isUnsigned, Kind.isFloat] at hfit
    simp [inferStore, GoVal.itemType, valueFor, sameValue, hj, hC _, GoVal.toJson, Json.canon]
  | struct kvs =>
    cases a <;> simp [Accessor.fits, GoVal.kind, Kind.isSigned, Kind.isUnsigned, Kind.isFloat] at hfit
    simp [inferStore, GoVal.itemType, valueFor, sameValue, hj, hC _, GoVal.toJson, Json.canon]
  | ptr w => exact absurd rfl hp
  | _ => simp [storable] at hs




theorem store_load (cfg : Cfg) (C : Codec) (hC : C.Lawful) (v : GoVal) (hs : storable v = true)
    (hk : kindOk cfg (deref v).kind = true) : survives C (newValue cfg C v) v := by
  unfold survives
  cases v with
  | ptr w =>
    have hw : storable w = true ∧ w.kind ≠ .pointer ∧ (GoVal.ptr w).itemType = w.itemType ∧
        (∀ r, sameValue r (.ptr w) = sameValue r w) := by
      cases w <;> simp_all [storable, GoVal.kind, GoVal.itemType, sameValue]
      · rename_i k _; cases k <;> simp [IntKind.kind]
      · rename_i b _ _; cases b <;> simp
    obtain ⟨h1, h2, h3, h4⟩ := hw
    rw [newValue_infer cfg C _ (by intro t s h; cases h) (by intro h; cases h), h3]
    simp only [h4]
    exact infer_core cfg C hC _ w (.ptr w) rfl rfl h1 h2 hk
  | bool b =>
    rw [newValue_infer cfg C _ (by intro t s h; cases h) (by intro h; cases h)]
    exact infer_core cfg C hC _ _ _ rfl rfl hs (by simp [GoVal.kind]) hk
  | str s =>
    rw [newValue_infer cfg C _ (by intro t s h; cases h) (by intro h; cases h)]
    exact infer_core cfg C hC _ _ _ rfl rfl hs (by simp [GoVal.kind]) hk
  | int k n =>
    rw [newValue_infer cfg C _ (by intro t s h; cases h) (by intro h; cases h)]
    exact infer_core cfg C hC _ _ _ rfl rfl hs (by cases k <;> simp [GoVal.kind, IntKind.kind]) hk
  | float is32 f sh =>
    rw [newValue_infer cfg C _ (by intro t s h; cases h) (by intro h; cases h)]
    exact infer_core cfg C hC _ _ _ rfl rfl hs (by cases is32 <;> simp [GoVal.kind]) hk
  | slice xs =>
    rw [newValue_infer cfg C _ (by intro t s h; cases h) (by intro h; cases h)]
    exact infer_core cfg C hC _ _ _ rfl rfl hs (by simp [GoVal.kind]) hk
  | map xs =>
    rw [newValue_infer cfg C _ (by intro t s h; cases h) (by intro h; cases h)]
    exact infer_core cfg C hC _ _ _ rfl rfl hs (by simp [GoVal.kind]) hk
  | struct xs =>
    rw [newValue_infer cfg C _ (by intro t s h; cases h) (by intro h; cases h)]
    exact infer_core cfg C hC _ _ _ rfl rfl hs (by simp [GoVal.kind]) hk
  | _ => simp [storable] at hs

def supportedKinds : List Kind :=
  [.bool, .int, .int8, .int16, .int32, .int64, .uint, .uint8, .uint16, .uint32, .uint64, .float32, .float64,
   .string, .slice, .map, .struct]

def intKinds : List Kind := [.int, .int8, .int16, .int32, .int64, .uint, .uint8, .uint16, .uint32, .uint64]

/-- every supported kind is handled by the inferred switch with the accessor of its class -/
def inferredComplete (cfg : Cfg) : Bool := supportedKinds.all (kindOk cfg)

/-- the declared branches keep every integer kind and print floats faithfully -/
def declOk (cfg : Cfg) : Bool := floatFaithful cfg && intKinds.all (cfg.declInt.contains ·)

theorem storable_kind_supported (v : GoVal) (hs : storable v = true) : (deref v).kind ∈ supportedKinds := by
  cases v with
  | ptr w => cases w <;> simp_all [storable, deref, GoVal.kind, supportedKinds] <;>
      first | (rename_i k _; cases k <;> simp [IntKind.kind]) | (rename_i b _ _; cases b <;> simp)
  | int k n => cases k <;> simp [deref, GoVal.kind, IntKind.kind, supportedKinds]
  | float b f s => cases b <;> simp [deref, GoVal.kind, supportedKinds]
  | _ => simp_all [storable, deref, GoVal.kind, supportedKinds]

theorem store_load_all (cfg : Cfg) (h : inferredComplete cfg = true) (C : Codec) (hC : C.Lawful) (v : GoVal)
    (hs : storable v = true) : survives C (newValue cfg C v) v := by
  unfold inferredComplete at h
  rw [List.all_eq_true] at h
  exact store_load cfg C hC v hs (h _ (storable_kind_supported v hs))

/-! ## (b) values survive under the matching declared type -/

theorem declared_load_core (cfg : Cfg) (hint : ∀ k ∈ intKinds, cfg.declInt.contains k = true)
    (C : Codec) (hC : C.Lawful) (v : GoVal) (t : ItemType)
    (hfl : floatFaithful cfg = true ∨ t ≠ .float)
    (hs : storable v = true) (hp : v.kind ≠ .pointer) (ht : v.itemType = some t) :
    survives C (valueFrom cfg C (Value.empty C.T t) v) v := by
  unfold survives
  cases v with
  | bool b =>
    simp only [GoVal.itemType, Option.some.injEq] at ht; subst ht
    refine ⟨{ ty := .boolean, val := .chars (boolText b) }, ?_, rfl, ?_⟩
    · unfold valueFrom; simp [Value.empty]
    · simp [valueFor_bool, sameValue]
  | str s =>
    simp only [GoVal.itemType, Option.some.injEq] at ht; subst ht
    refine ⟨{ ty := .string, val := .chars s }, ?_, rfl, ?_⟩
    · unfold valueFrom; simp [Value.empty]
    · simp [valueFor, sameValue]
  | int k n =>
    simp only [GoVal.itemType, Option.some.injEq] at ht; subst ht
    simp only [storable, Bool.and_eq_true, decide_eq_true_eq] at hs
    have hk : cfg.declInt.contains k.kind = true := hint k.kind (by cases k <;> simp [intKinds, IntKind.kind])
    refine ⟨{ ty := .integer, val := .chars (printInt n) }, ?_, rfl, ?_⟩
    · unfold valueFrom
      have hk' : k.kind ∈ cfg.declInt := by simpa using hk
      simp [Value.empty, hk']
    · simp [valueFor_int C n hs.1 hs.2, sameValue]
  | float is32 f sh =>
    simp only [GoVal.itemType, Option.some.injEq] at ht; subst ht
    simp only [storable] at hs
    have hff : floatFaithful cfg = true := hfl.resolve_right (by simp)
    unfold floatFaithful at hff
    simp only [Bool.and_eq_true, Bool.not_eq_true'] at hff
    obtain ⟨h6, hwide⟩ := hff
    refine ⟨{ ty := .float, val := .chars f.g }, ?_, rfl, ?_⟩
    · unfold valueFrom; simp [Value.empty, h6, hwide]
    · simp [valueFor, sameValue_float f _ sh hs]
  | slice xs =>
    simp only [GoVal.itemType, Option.some.injEq] at ht; subst ht
    refine ⟨{ ty := .array, val := .doc (C.print (GoVal.slice xs).toJson) }, ?_, rfl, ?_⟩
    · unfold valueFrom; simp [Value.empty]
    · simp [valueFor, sameValue, hC _, GoVal.toJson, Json.canon]
  | map xs =>
    simp only [GoVal.itemType, Option.some.injEq] at ht; subst ht
    refine ⟨{ ty := .object, val := .doc (C.print (GoVal.map xs).toJson) }, ?_, rfl, ?_⟩
    · unfold valueFrom; simp [Value.empty, GoVal.elemKind, GoVal.kind]
    · simp [valueFor, sameValue, hC _, GoVal.toJson, Json.canon]
  | struct xs =>
    simp only [GoVal.itemType, Option.some.injEq] at ht; subst ht
    refine ⟨{ ty := .object, val := .doc (C.print (GoVal.struct xs).toJson) }, ?_, rfl, ?_⟩
    · unfold valueFrom; simp [Value.empty, GoVal.elemKind, GoVal.kind]
    · simp [valueFor, sameValue, hC _, GoVal.toJson, Json.canon]
  | ptr w => exact absurd rfl hp
  | _ => simp [storable] at hs




theorem declared_load (cfg : Cfg) (h : declOk cfg = true) (C : Codec) (hC : C.Lawful) (v : GoVal) (t : ItemType)
    (hs : storable v = true) (hp : v.kind ≠ .pointer) (ht : v.itemType = some t) :
    survives C (valueFrom cfg C (Value.empty C.T t) v) v := by
  unfold declOk at h
  simp only [Bool.and_eq_true, List.all_eq_true] at h
  exact declared_load_core cfg h.2 C hC v t (Or.inl h.1) hs hp ht

/-! ## (d) references -/

/-- the property assembly never panics when `ValueFrom` does not -/
theorem fetchProperty_safe (cfg : Cfg) (h : panicFree cfg = true) (C : Codec) (s : Store C.T) (ty : ItemType)
    (ref : Text) : ∃ val, fetchProperty cfg C s ty ref = .ok val := by
  unfold fetchProperty
  split
  · exact ⟨_, rfl⟩
  · exact no_panic cfg h C _ _
  · exact no_panic cfg h C _ _

theorem splitAt_name (name path : Text) (h : '.' ∉ name) :
    splitAt '.' (name ++ '.' :: path) = some (name, path) := by
  induction name with
  | nil => simp [splitAt]
  | cons c r ih =>
    have hc : c ≠ '.' := fun e => h (by simp [e])
    have hr : '.' ∉ r := fun e => h (by simp [e])
    simp [splitAt, hc, ih hr]

/-- `locatorJSONGet` is total (it cannot panic: it is a function into `Option`), a reference to a variable
that does not exist is "not found", … -/
theorem missing_variable_not_found (C : Codec) (s : Store C.T) (name path : Text) (hn : '.' ∉ name)
    (h : s.get name = none) : locatorRef C s ('$' :: (name ++ '.' :: path)) = none := by
  unfold locatorRef
  simp only []
  split
  · rfl
  · rw [splitAt_name name path hn]
    simp [getVariable, h]

/-- … and a path that does not exist inside an existing variable yields no value (`nil`, reported as found) -/
theorem missing_path_no_value (C : Codec) (s : Store C.T) (name path : Text) (hn : '.' ∉ name) (v : Value C.T)
    (h : s.get name = some v) (hp : pathGet (valueFor C v).toJson (splitDots path) = none) :
    locatorRef C s ('$' :: (name ++ '.' :: path)) = some none := by
  unfold locatorRef
  simp only []
  split
  · next he => simp at he
  · rw [splitAt_name name path hn]
    simp [getVariable, h, hp]

/-- a malformed reference (no `$`, or no `.`) is "not found" -/
theorem malformed_ref_not_found (C : Codec) (s : Store C.T) (ref : Text) (h : ref.head? ≠ some '$') :
    locatorRef C s ref = none := by
  unfold locatorRef
  split
  · simp at h
  · rfl

/-! ## (e) instances are isolated -/

theorem write_other (T : Type) (h : Heap T) (a b : Nat) (k k' : Text) (v : Value T) (hab : a ≠ b) :
    (h.write a k v).read b k' = h.read b k' := by
  unfold Heap.write Heap.read
  simp only [List.getD_eq_getElem?_getD]
  rw [List.getElem?_set_ne hab]

theorem erase_other (T : Type) (h : Heap T) (a b : Nat) (k k' : Text) (hab : a ≠ b) :
    (h.erase a k).read b k' = h.read b k' := by
  unfold Heap.erase Heap.read
  simp only [List.getD_eq_getElem?_getD]
  rw [List.getElem?_set_ne hab]

/-- `CloneVariables` yields a fresh address holding the same entries … -/
theorem clone_fresh (T : Type) (h : Heap T) (a : Nat) (ha : a < h.stores.length) (k : Text) :
    (h.clone a).1 ≠ a ∧ (h.clone a).2.read (h.clone a).1 k = h.read a k ∧ (h.clone a).2.read a k = h.read a k := by
  unfold Heap.clone Heap.read
  refine ⟨by simp; omega, ?_, ?_⟩
  · simp [List.getD_eq_getElem?_getD]
  · simp [List.getD_eq_getElem?_getD, List.getElem?_append_left ha]

/-- … so later writes to the instance do not show in the clone, and writes to the clone do not show in the instance -/
theorem clone_isolated (T : Type) (h : Heap T) (a : Nat) (ha : a < h.stores.length) (k k' : Text) (v : Value T) :
    (((h.clone a).2.write a k v).read (h.clone a).1 k' = h.read a k') ∧
    (((h.clone a).2.write (h.clone a).1 k v).read a k' = h.read a k') := by
  obtain ⟨hne, h1, h2⟩ := clone_fresh T h a ha k'
  constructor
  · rw [write_other _ _ _ _ _ _ _ (Ne.symm hne)]; exact h1
  · rw [write_other _ _ _ _ _ _ _ hne]; exact h2




/-! ### instances created from ONE shared option (a reused `[]bpmn.Option`, a process set)

`WithVariables(m)` applied to a fresh `Options` allocates a new store and writes `m` into it; applying the SAME
option value again (second instance) allocates another one. -/

/-- one application of the option `WithVariables(vars)` (values already encoded) -/
def applyVariables {T : Type} (vars : List (Text × Value T)) (h : Heap T) : Nat × Heap T :=
  (h.stores.length, vars.foldl (fun h kv => h.write h.stores.length.pred kv.1 kv.2) { stores := h.stores ++ [[]] })

theorem write_length {T : Type} (h : Heap T) (a : Nat) (k : Text) (v : Value T) :
    (h.write a k v).stores.length = h.stores.length := by
  simp [Heap.write]

theorem foldl_write_length {T : Type} (vars : List (Text × Value T)) (f : Heap T → Nat) (h : Heap T) :
    (vars.foldl (fun h kv => h.write (f h) kv.1 kv.2) h).stores.length = h.stores.length := by
  induction vars generalizing h with
  | nil => rfl
  | cons kv r ih => simp only [List.foldl_cons]; rw [ih, write_length]

/-- two instances created from the same option value own different stores: a later write to one of them
(a task result, `SetVariable`) is invisible in the other, whichever was created first -/
theorem shared_option_instances_isolated {T : Type} (vars : List (Text × Value T)) (h : Heap T)
    (k k' : Text) (v : Value T) :
    let i1 := applyVariables vars h
    let i2 := applyVariables vars i1.2
    i1.1 ≠ i2.1 ∧
    (i2.2.write i1.1 k v).read i2.1 k' = i2.2.read i2.1 k' ∧
    (i2.2.write i2.1 k v).read i1.1 k' = i2.2.read i1.1 k' := by
  intro i1 i2
  have hlen : i1.2.stores.length = h.stores.length + 1 := by
    show (applyVariables vars h).2.stores.length = _
    unfold applyVariables
    rw [foldl_write_length vars (fun h => h.stores.length.pred)]; simp
  have hne : i1.1 ≠ i2.1 := by
    show h.stores.length ≠ i1.2.stores.length
    omega
  exact ⟨hne, write_other _ _ _ _ _ _ _ hne, write_other _ _ _ _ _ _ _ (Ne.symm hne)⟩

/-! ## The dichotomy -/

/-- side condition on the facts under which C16 holds on the model -/
def C16ok (cfg : Cfg) : Bool := panicFree cfg && inferredComplete cfg && declOk cfg

/-- facts satisfy the side condition ⇒ C16 holds, for all values, codecs, stores and references -/
theorem C16_general (cfg : Cfg) (h : C16ok cfg = true) : C16_statement cfg := by
  unfold C16ok at h
  simp only [Bool.and_eq_true] at h
  obtain ⟨⟨hp, hi⟩, hd⟩ := h
  exact ⟨fun C hC v hs => store_load_all cfg hi C hC v hs,
    fun C hC v t hs hpt ht => declared_load cfg hd C hC v t hs hpt ht,
    fun C iv v => no_panic cfg hp C iv v,
    fun C s ty ref => fetchProperty_safe cfg hp C s ty ref,
    fun T h a b k k' v hab => write_other T h a b k k' v hab⟩

/-- 1e-7 as a float64 (0x3E7AD7F29ABCAF48) -/
def tiny : F64 := { neg := false, m := 7555786372591432, e := -76, g := "1e-07".toList }
/-- float32(0.1) widened to float64 -/
def tenth32 : F64 := { neg := false, m := 7205759511166976, e := -56, g := "0.10000000149011612".toList }

theorem tiny_wf : F64.wf tiny = true := by decide
theorem tenth32_wf : F64.wf tenth32 = true := by decide
theorem one_wf : F64.wf one = true := by decide

/-- a declared float printed with six decimals loses 1e-7 (reads back as 0) -/
theorem float_six_loses (cfg : Cfg) (h : cfg.floatSix = true) (C : Codec) :
    ¬ survives C (valueFrom cfg C (Value.empty C.T .float) (.float false tiny tiny.g)) (.float false tiny tiny.g) := by
  have hv : valueFrom cfg C (Value.empty C.T .float) (.float false tiny tiny.g) =
      .ok { ty := .float, val := .chars (f6 tiny) } := by
    unfold valueFrom; simp [Value.empty, h]
  rintro ⟨val, hval, _, hsame⟩
  rw [hv] at hval
  cases hval
  have : sameValue (valueFor C { ty := .float, val := .chars (f6 tiny) }) (.float false tiny tiny.g) = false := by
    unfold valueFor; simp only []; decide
  rw [this] at hsame; cases hsame

/-- a float32 printed at its own width reads back as another float64 -/
theorem float_narrow_loses (cfg : Cfg) (h6 : cfg.floatSix = false) (hw : cfg.floatWide = false) (C : Codec) :
    ¬ survives C (valueFrom cfg C (Value.empty C.T .float) (.float true tenth32 "0.1".toList))
        (.float true tenth32 "0.1".toList) := by
  have hv : valueFrom cfg C (Value.empty C.T .float) (.float true tenth32 "0.1".toList) =
      .ok { ty := .float, val := .chars "0.1".toList } := by
    unfold valueFrom; simp [Value.empty, h6, hw]
  rintro ⟨val, hval, _, hsame⟩
  rw [hv] at hval
  cases hval
  have : sameValue (valueFor C { ty := .float, val := .chars "0.1".toList }) (.float true tenth32 "0.1".toList) = false := by
    unfold valueFor; simp only []; decide
  rw [this] at hsame; cases hsame


/-- a supported kind that the inferred switch does not handle with the accessor of its class: the sample
value of that kind panics, or is dropped, or is stored under another item type -/
theorem unhandled_kind_fails (cfg : Cfg) (k : Kind) (hk : k ∈ supportedKinds) (h : kindOk cfg k = false) :
    ¬ survives Codec.ideal (newValue cfg Codec.ideal (sample k)) (sample k) := by
  have hn : newValue cfg Codec.ideal (sample k) = inferFrom cfg Codec.ideal (Value.empty _) (sample k) :=
    newValue_infer cfg _ _ (by intro t s e; cases k <;> simp [sample] at e) (by intro e; cases k <;> simp [sample] at e)
  rw [hn]
  unfold inferFrom
  rw [reflectOf_sample]
  unfold kindOk at h
  rintro ⟨val, hval, hty, _⟩
  cases ha : cfg.accessor k with
  | none =>
    rw [ha] at hval
    cases hval
    simp only [supportedKinds, List.mem_cons, List.not_mem_nil, or_false] at hk
    rcases hk with rfl | rfl | rfl | rfl | rfl | rfl | rfl | rfl | rfl | rfl | rfl | rfl | rfl | rfl | rfl | rfl | rfl <;>
      simp [sample, GoVal.itemType, Value.empty] at hty
  | some a =>
    rw [ha] at hval h
    simp only [supportedKinds, List.mem_cons, List.not_mem_nil, or_false] at hk
    rcases hk with rfl | rfl | rfl | rfl | rfl | rfl | rfl | rfl | rfl | rfl | rfl | rfl | rfl | rfl | rfl | rfl | rfl <;>
      cases a <;>
      simp [Accessor.fits, Accessor.panics, Kind.isSigned, Kind.isUnsigned, Kind.isFloat] at h hval <;>
      (subst hval; simp [sample, reflectOf, inferStore, GoVal.itemType, GoVal.kind, Value.empty] at hty)

def intKindOf : Kind → IntKind
  | .int8 => .int8 | .int16 => .int16 | .int32 => .int32 | .int64 => .int64
  | .uint => .uint | .uint8 => .uint8 | .uint16 => .uint16 | .uint32 => .uint32 | .uint64 => .uint64
  | _ => .int

/-- an integer kind missing from the declared-integer type switch: the value is dropped (reads back 0) -/
theorem undeclared_int_fails (cfg : Cfg) (C : Codec) (k : IntKind) (h : cfg.declInt.contains k.kind = false) :
    ¬ survives C (valueFrom cfg C (Value.empty C.T .integer) (.int k 1)) (.int k 1) := by
  have hv : valueFrom cfg C (Value.empty C.T .integer) (.int k 1) = .ok (Value.empty C.T .integer) := by
    unfold valueFrom
    have : ¬ k.kind ∈ cfg.declInt := by simpa using h
    simp [Value.empty, this]
  rintro ⟨val, hval, _, hsame⟩
  rw [hv] at hval
  cases hval
  have : sameValue (valueFor C (Value.empty C.T .integer)) (.int k 1) = false := by
    unfold valueFor; simp only [Value.empty]; cases k <;> decide
  rw [this] at hsame; cases hsame

theorem sample_storable (k : Kind) (hk : k ∈ supportedKinds) : storable (sample k) = true := by
  simp only [supportedKinds, List.mem_cons, List.not_mem_nil, or_false] at hk
  rcases hk with rfl | rfl | rfl | rfl | rfl | rfl | rfl | rfl | rfl | rfl | rfl | rfl | rfl | rfl | rfl | rfl | rfl <;>
    first | rfl | exact one_wf | decide

/-- facts violate the side condition ⇒ C16 is false on the model (with the witnesses above) -/
theorem C16_cex (cfg : Cfg) (h : C16ok cfg = false) : ¬ C16_statement cfg := by
  rintro ⟨ha, hb, hc, _, _⟩
  by_cases hp : panicFree cfg = true
  · by_cases hi : inferredComplete cfg = true
    · have hd : declOk cfg = false := by
        unfold C16ok at h; simp [hp, hi] at h; exact h
      unfold declOk at hd
      by_cases hf : floatFaithful cfg = true
      · simp only [hf, Bool.true_and, List.all_eq_false] at hd
        obtain ⟨k, hk, hnot⟩ := hd
        have hik : (intKindOf k).kind = k := by
          simp only [intKinds, List.mem_cons, List.not_mem_nil, or_false] at hk
          rcases hk with rfl | rfl | rfl | rfl | rfl | rfl | rfl | rfl | rfl | rfl <;> rfl
        refine undeclared_int_fails cfg Codec.ideal (intKindOf k) (by rw [hik]; simpa using hnot)
          (hb Codec.ideal Codec.ideal_lawful (.int (intKindOf k) 1) .integer (by simp [storable]) ?_ rfl)
        rw [show (GoVal.int (intKindOf k) 1).kind = k from hik]
        simp only [intKinds, List.mem_cons, List.not_mem_nil, or_false] at hk
        rcases hk with rfl | rfl | rfl | rfl | rfl | rfl | rfl | rfl | rfl | rfl <;> simp
      · unfold floatFaithful at hf
        by_cases h6 : cfg.floatSix = true
        · exact float_six_loses cfg h6 Codec.ideal
            (hb Codec.ideal Codec.ideal_lawful _ .float (by simpa [storable] using tiny_wf) (by simp [GoVal.kind]) rfl)
        · have hw : cfg.floatWide = false := by
            cases h1 : cfg.floatSix <;> cases h2 : cfg.floatWide <;> simp_all
          exact float_narrow_loses cfg (by simpa using h6) hw Codec.ideal
            (hb Codec.ideal Codec.ideal_lawful _ .float (by simpa [storable] using tenth32_wf) (by simp [GoVal.kind]) rfl)
    · unfold inferredComplete at hi
      simp only [Bool.not_eq_true, List.all_eq_false] at hi
      obtain ⟨k, hk, hnot⟩ := hi
      exact unhandled_kind_fails cfg k hk (by simpa using hnot)
        (ha Codec.ideal Codec.ideal_lawful (sample k) (sample_storable k hk))
  · obtain ⟨p, hpw⟩ := panics_of_not_panicFree cfg (by simpa using hp) Codec.ideal
    obtain ⟨val, hval⟩ := hc Codec.ideal (Value.empty _ (panicWitness cfg).1) (panicWitness cfg).2
    rw [hpw] at hval
    cases hval


theorem C16_dichotomy (cfg : Cfg) :
    (C16ok cfg = true → C16_statement cfg) ∧ (C16ok cfg = false → ¬ C16_statement cfg) :=
  ⟨C16_general cfg, C16_cex cfg⟩

/-! ## Per-finding dichotomies (each governed by one fact) -/

def unsignedKinds : List Kind := [.uint, .uint8, .uint16, .uint32, .uint64]

theorem unsigned_survive (cfg : Cfg) (h : unsignedKinds.all (kindOk cfg) = true) (C : Codec) (hC : C.Lawful)
    (k : IntKind) (n : Int) (hu : k.signed = false) (h1 : -9223372036854775808 ≤ n) (h2 : n ≤ 9223372036854775807) :
    survives C (newValue cfg C (.int k n)) (.int k n) := by
  rw [List.all_eq_true] at h
  refine store_load cfg C hC _ (by simp [storable, h1, h2]) (h _ ?_)
  cases k <;> simp_all [IntKind.signed, IntKind.kind, Kind.isSigned, deref, GoVal.kind, unsignedKinds]

theorem unsigned_witness (cfg : Cfg) (h : unsignedKinds.all (kindOk cfg) = false) :
    ∃ k ∈ unsignedKinds, ¬ survives Codec.ideal (newValue cfg Codec.ideal (sample k)) (sample k) := by
  rw [List.all_eq_false] at h
  obtain ⟨k, hk, hn⟩ := h
  refine ⟨k, hk, unhandled_kind_fails cfg k ?_ (by simpa using hn)⟩
  simp only [unsignedKinds, List.mem_cons, List.not_mem_nil, or_false] at hk
  rcases hk with rfl | rfl | rfl | rfl | rfl <;> simp [supportedKinds]

/-- `nil` under a declared array / object type -/
theorem typed_nil (cfg : Cfg) (C : Codec) :
    valueFrom cfg C (Value.empty C.T .array) .nil =
      (if cfg.nilGuardArray then .ok (Value.empty C.T .array) else .error (.nilType .array)) ∧
    valueFrom cfg C (Value.empty C.T .object) .nil =
      (if cfg.nilGuardObject then .ok (Value.empty C.T .object) else .error (.nilType .object)) := by
  constructor <;> (unfold valueFrom; simp [Value.empty])

/-- a nil `*schema.Value` (with the guard, `no_panic` applies) -/
theorem nil_value_pointer_panics (cfg : Cfg) (C : Codec) (h : cfg.nilGuardValuePtr = false) :
    newValue cfg C .nilValuePtr = .error .nilValuePtr := by
  unfold newValue valueFrom; simp [h]

/-- untyped nil is stored as the untyped empty value and reads back as the empty string (documented
behaviour of the value layer; C16 does not count it as a loss) -/
theorem nil_reads_back_empty (cfg : Cfg) (C : Codec) (h : cfg.accessor .invalid = none) :
    newValue cfg C .nil = .ok (Value.empty C.T) ∧ valueFor C (Value.empty C.T) = .str [] := by
  constructor
  · unfold newValue valueFrom inferFrom; simp [Value.empty, reflectOf, GoVal.kind, h]
  · rfl

/-! ## Witnesses on the facts as found on the unchanged tree (`Cfg.asFound`) -/

theorem asFound_not_ok : C16ok Cfg.asFound = false := by decide
theorem repaired_ok : C16ok Cfg.repaired = true := by decide

theorem C16_counterexample_uint (C : Codec) :
    newValue Cfg.asFound C (.int .uint8 255) = .error (.reflectAccessor .int .uint8) := by
  unfold newValue valueFrom inferFrom; rfl

theorem C16_counterexample_typed_nil_array (C : Codec) :
    valueFrom Cfg.asFound C (Value.empty C.T .array) .nil = .error (.nilType .array) := (typed_nil _ C).1

theorem C16_counterexample_typed_nil_object (C : Codec) :
    valueFrom Cfg.asFound C (Value.empty C.T .object) .nil = .error (.nilType .object) := (typed_nil _ C).2

theorem C16_counterexample_nil_value_pointer (C : Codec) :
    newValue Cfg.asFound C .nilValuePtr = .error .nilValuePtr := by
  unfold newValue valueFrom; rfl

theorem C16_counterexample_float_declared (C : Codec) :
    ¬ survives C (valueFrom Cfg.asFound C (Value.empty C.T .float) (.float false tiny tiny.g)) (.float false tiny tiny.g) :=
  float_six_loses _ rfl C

/-- an olive property of type array referring to a path that does not exist in an existing variable -/
theorem C16_counterexample_property_ref :
    fetchProperty Cfg.asFound Codec.ideal [("a".toList, { ty := .object, val := .doc (Json.obj .nil) })] .array "$a.x".toList
      = .error (.nilType .array) := by rfl

theorem C16_asFound_false : ¬ C16_statement Cfg.asFound := C16_cex _ asFound_not_ok

/-- on the facts as found: everything except the unsigned kinds survives the inferred branch -/
theorem store_load_partial (C : Codec) (hC : C.Lawful) (v : GoVal) (hs : storable v = true)
    (hu : (deref v).kind.isUnsigned = false) : survives C (newValue Cfg.asFound C v) v := by
  refine store_load _ C hC v hs ?_
  have hk := storable_kind_supported v hs
  simp only [supportedKinds, List.mem_cons, List.not_mem_nil, or_false] at hk
  rcases hk with h | h | h | h | h | h | h | h | h | h | h | h | h | h | h | h | h <;> rw [h] at hu ⊢ <;>
    first | rfl | (simp [Kind.isUnsigned] at hu)

/-- on the facts as found: everything except floats survives under its declared type -/
theorem declared_load_partial (C : Codec) (hC : C.Lawful) (v : GoVal) (t : ItemType) (hs : storable v = true)
    (hp : v.kind ≠ .pointer) (ht : v.itemType = some t) (hf : t ≠ .float) :
    survives C (valueFrom Cfg.asFound C (Value.empty C.T t) v) v :=
  declared_load_core _ (by decide) C hC v t (Or.inr hf) hs hp ht

/-- on the facts as found: the only panics are the four named ones -/
theorem no_panic_partial (C : Codec) (iv : Value C.T) (v : GoVal) (h1 : v ≠ .nilValuePtr)
    (h2 : (reflectOf v).1.isUnsigned = false) (h3 : v ≠ .nil) : ∃ val, valueFrom Cfg.asFound C iv v = .ok val := by
  have hg : valueFrom Cfg.asFound C iv v =
      valueFrom { Cfg.asFound with nilGuardArray := true, nilGuardObject := true, nilGuardValuePtr := true } C iv v := by
    unfold valueFrom
    cases v <;> simp_all <;> rfl
  rw [hg]
  unfold valueFrom
  split
  · exact ⟨_, rfl⟩
  · exact ⟨_, rfl⟩
  · split
    all_goals (try (split <;> first | exact ⟨_, rfl⟩ | (split <;> exact ⟨_, rfl⟩)))
    unfold inferFrom
    split
    · exact ⟨_, rfl⟩
    · next a ha =>
      have : a.panics (reflectOf v).1 = false := by
        generalize (reflectOf v).1 = k at ha h2
        cases k <;> simp [Cfg.accessor, Cfg.asFound] at ha <;> subst ha <;> simp_all [Accessor.panics, Accessor.fits, Kind.isSigned, Kind.isFloat, Kind.isUnsigned]
      rw [this]; exact ⟨_, rfl⟩

/-! ## Non-vacuity -/

example : C16_statement Cfg.repaired := C16_general _ repaired_ok
example : Codec.ideal.Lawful := Codec.ideal_lawful
example : storable (.ptr (.int .uint16 65535)) = true ∧ storable (.float true tenth32 "0.1".toList) = true ∧
    storable (.slice (.cons (.map (.cons ['k'] .nil .nil)) .nil)) = true := by decide
example : (deref (.int .int8 (-128))).kind.isUnsigned = false := rfl
example : panicFree Cfg.asFound = false ∧ inferredComplete Cfg.asFound = false ∧ declOk Cfg.asFound = false := by decide
example : Cfg.asFound.accessor .invalid = none := by decide
example : '.' ∉ "abc".toList := by decide

end Bpmn.Props.C16
