import Bpmn.Props.C02Current
import Bpmn.Gen.C12
/-! C12 at the facts extracted from the current /repo tree (`Bpmn.Gen.C12`, regenerated on every run).

An activation of an embedded sub-process runs the completion protocol of C02 on the INNER tracer: one monitor per
activation, which has to be subscribed before the inner start events are triggered, or it misses the start event's
`FlowTrace`, never emits the inner cease-flow trace, and the parent token never leaves the sub-process. The same model
(`Bpmn.Model.Completion`) decides it, at the sub-process's own facts; the module type-checks on both sides of the
fact and stops type-checking only when a fact cannot be read. -/
namespace Bpmn.Props.C12
open Bpmn.Model.Completion Bpmn.Props.C02

/-- the completion facts of a sub-process activation: monitor order from subprocess.go, one monitor per activation
(never one per start event), the channel capacities and trace order of the shared code -/
def subFacts : Facts :=
  { Bpmn.Props.C02.current with
    subBefore := (Bpmn.Gen.C12.subMonitorBeforeStart).get (by decide)
    perStart := false }

/-- the relay (the goroutine that forwards inner traces, task requests included, to the parent's tracer) subscribes to the
inner tracer before the inner flows start -/
theorem current_relay_first : Bpmn.Gen.C12.subRelayBeforeStart = some true := by decide

/-- activations of one sub-process node take turns in the code as they do in the engine model (`Engine.nextTurn`,
`Props/C12Turns`): the activation goroutine holds a mutex of the node from before its relay subscribes until it is done.
When this stops type-checking the model's waiting rule is no longer what the code does; the runner then looks for the failing
input with the families `c12turns` / `c09turns` (two tokens forked into one sub-process node). -/
theorem current_activations_take_turns : Bpmn.Gen.C12.subActivationsTakeTurns = some true := by decide

/-- **The inner completion of a sub-process activation.** Monitor subscribed first: the whole C02 statement holds for the
inner instance with one start event (the inner cease-flow trace — on which the parent token continues — is emitted
exactly once, after every inner trace, and within bounded steps once no inner token is left). Otherwise: the explicit
schedule on which the monitor misses the inner start event and the parent waits for ever. -/
theorem current_sub_completion :
    if subFacts.subBefore = true ∧ 1 ≤ subFacts.sigCap ∧ 1 ≤ subFacts.subBuf ∧ subFacts.detached = false
    then C02_statementFor (subFacts.at 1) else (subFacts.subBefore = false → MissedStartWitness (subFacts.at 1)) := by
  split
  · next h => exact C02_single_start_partial subFacts h.1 h.2.1 h.2.2.1 h.2.2.2
  · next _ => exact fun h => missed_start_at subFacts h

/-- at the current tree the positive side is the one that holds -/
theorem current_sub_monitor_first : subFacts.subBefore = true := by decide

end Bpmn.Props.C12
