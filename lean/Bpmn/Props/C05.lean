import Bpmn.Model.Gateway
import Bpmn.Model.Engine
/-!
# C05 — Inclusive gateway forks on all true conditions, joins only activated branches

Fork: `igDecide` for all lists. Join of a flat block: `IJ` (counting abstraction of `trySync` over the fork's
cohort) for any number of activated branches and any order of arrivals / early endings. Nested forks: the
engine model at the code's configuration releases the join early and again later — kernel-checked witness.
-/
namespace Bpmn.Props.C05
open Bpmn.Model.Gateway

/-! ## Fork -/

/-- a token on every flow whose condition is true (in list order) … -/
theorem igDecide_true (nd : List (String × Bool)) (d : Option String) (h : ∃ x ∈ nd, x.2 = true) :
    igDecide nd d = (nd.filter (·.2)).map (·.1) ∧ igDecide nd d ≠ [] := by
  obtain ⟨x, hx, hx2⟩ := h
  have hne : (nd.filter (·.2)).map (·.1) ≠ [] := by
    intro e
    have : x ∈ nd.filter (·.2) := List.mem_filter.mpr ⟨hx, by simpa using hx2⟩
    have : x.1 ∈ (nd.filter (·.2)).map (·.1) := List.mem_map.mpr ⟨x, this, rfl⟩
    rw [e] at this; cases this
  unfold igDecide
  cases hf : (nd.filter (·.2)).map (·.1) with
  | nil => exact absurd hf hne
  | cons a as => simp

/-- … otherwise the default flow alone … -/
theorem igDecide_default (nd : List (String × Bool)) (d : String) (h : ∀ x ∈ nd, x.2 = false) :
    igDecide nd (some d) = [d] := by
  unfold igDecide
  have : nd.filter (·.2) = [] := List.filter_eq_nil_iff.mpr (by intro x hx; simp [h x hx])
  simp [this]

/-- … and with neither, nothing (the gateway emits the error trace). -/
theorem igDecide_error (nd : List (String × Bool)) (h : ∀ x ∈ nd, x.2 = false) :
    igDecide nd none = [] := by
  unfold igDecide
  have : nd.filter (·.2) = [] := List.filter_eq_nil_iff.mpr (by intro x hx; simp [h x hx])
  simp [this]

/-- never a flow whose condition is false, unless it is the default taken alone -/
theorem igDecide_sound (nd : List (String × Bool)) (d : Option String) (fl : String)
    (h : fl ∈ igDecide nd d) : (fl, true) ∈ nd ∨ (d = some fl ∧ ∀ x ∈ nd, x.2 = false) := by
  unfold igDecide at h
  cases hf : (nd.filter (·.2)).map (·.1) with
  | nil =>
    rw [hf] at h
    right
    have hnil : nd.filter (·.2) = [] := by simpa using hf
    cases d with
    | none => simp at h
    | some d' =>
      simp at h
      refine ⟨by rw [h], ?_⟩
      intro x hx
      simpa using List.filter_eq_nil_iff.mp hnil x hx
  | cons a as =>
    rw [hf] at h
    left
    have : fl ∈ (nd.filter (·.2)).map (·.1) := by rw [hf]; exact h
    obtain ⟨x, hx, rfl⟩ := List.mem_map.mp this
    have := List.mem_filter.mp hx
    have hb : x.2 = true := by simpa using this.2
    have : (x.1, x.2) ∈ nd := this.1
    rw [hb] at this; exact this

/-! ## Join of a flat block -/

theorem fire_idle (j : IJ) (h : j.live ≠ 0) : j.fire = j := by
  unfold IJ.fire; simp [h]

/-- while some token of the fork activation has neither arrived nor ended, nothing is released -/
theorem ij_no_early_release : ∀ (evs : List JEv) (j : IJ), evs.length < j.live →
    (j.run evs).releases = j.releases ∧ (j.run evs).live = j.live - evs.length ∧
    (j.run evs).arrived = j.arrived + evs.count .arrive := by
  intro evs
  induction evs with
  | nil => intro j _; simp [IJ.run]
  | cons e es ih =>
    intro j h
    simp only [List.length_cons] at h
    have hstep : (j.step e).live = j.live - 1 ∧ (j.step e).releases = j.releases ∧
        (j.step e).arrived = j.arrived + (if e = .arrive then 1 else 0) := by
      cases e with
      | arrive =>
        have : ({ j with live := j.live - 1, arrived := j.arrived + 1 } : IJ).live ≠ 0 := by simp; omega
        simp [IJ.step, fire_idle _ this]
      | ended =>
        have : ({ j with live := j.live - 1 } : IJ).live ≠ 0 := by simp; omega
        simp [IJ.step, fire_idle _ this]
    obtain ⟨h1, h2, h3⟩ := hstep
    have := ih (j.step e) (by rw [h1]; omega)
    obtain ⟨r1, r2, r3⟩ := this
    simp only [IJ.run, List.foldl_cons] at r1 r2 r3 ⊢
    refine ⟨by rw [r1, h2], by rw [r2, h1]; simp; omega, ?_⟩
    rw [r3, h3, List.count_cons]
    cases e <;> simp <;> omega

/-- **Window theorem.** For a fork activation with `n` tokens, any order of arrivals and early endings: no
release before the last of the `n` tokens has arrived or ended; exactly one release at that moment if at
least one token arrived (none if every branch ended elsewhere); the join is then idle again. -/
theorem ij_window (n : Nat) (evs : List JEv) (hn : evs.length = n) (hpos : 0 < n) :
    let j := ({ live := n } : IJ).run evs
    j.releases = (if evs.count .arrive = 0 then 0 else 1) ∧ j.live = 0 ∧
    (evs.count .arrive ≠ 0 → j.arrived = 0) := by
  obtain ⟨pre, last, rfl⟩ : ∃ pre last, evs = pre ++ [last] := by
    cases h : evs.reverse with
    | nil => simp at h; subst h; simp at hn; omega
    | cons x xs => exact ⟨xs.reverse, x, by rw [← List.reverse_reverse evs, h]; simp⟩
  have hlen : pre.length < ({ live := n } : IJ).live := by simp at hn ⊢; omega
  obtain ⟨r1, r2, r3⟩ := ij_no_early_release pre { live := n } hlen
  simp only [IJ.run, List.foldl_append, List.foldl_cons, List.foldl_nil] at r1 r2 r3 ⊢
  have hl : (List.foldl IJ.step { live := n } pre).live = 1 := by rw [r2]; simp at hn ⊢; omega
  generalize List.foldl IJ.step { live := n } pre = s at *
  simp only [List.count_append, List.count_cons, List.count_nil]
  cases last with
  | arrive =>
    simp [IJ.step, IJ.fire, hl, r1, r3]
  | ended =>
    simp only [IJ.step, IJ.fire, hl, r1, r3]
    by_cases hc : List.count JEv.arrive pre = 0
    · simp [hc]
    · simp [hc]

/-! ## Nested forks: the code's join is not BPMN's -/

open Bpmn.Model.Engine in
/-- a parallel fork inside an inclusive branch: I → (T1 | P → (U1 | U2) → Q) → J → Z -/
def nestedProc : Bpmn.Model.Engine.Proc :=
  { nodes := [
      { id := "s", kind := .start, ins := [], outs := ["f0"] },
      { id := "I", kind := .incl, ins := ["f0"], outs := ["f1", "f2"] },
      { id := "T1", kind := .task, ins := ["f1"], outs := ["f3"] },
      { id := "P", kind := .par, ins := ["f2"], outs := ["f4", "f5"] },
      { id := "U1", kind := .task, ins := ["f4"], outs := ["f6"] },
      { id := "U2", kind := .task, ins := ["f5"], outs := ["f7"] },
      { id := "Q", kind := .par, ins := ["f6", "f7"], outs := ["f8"] },
      { id := "J", kind := .incl, ins := ["f3", "f8"], outs := ["f9"] },
      { id := "Z", kind := .task, ins := ["f9"], outs := ["f10"] },
      { id := "e", kind := .end_, ins := ["f10"], outs := [] }],
    flows := [
      { id := "f0", src := "s", dst := "I", cond := .none }, { id := "f1", src := "I", dst := "T1", cond := .none },
      { id := "f2", src := "I", dst := "P", cond := .none }, { id := "f3", src := "T1", dst := "J", cond := .none },
      { id := "f4", src := "P", dst := "U1", cond := .none }, { id := "f5", src := "P", dst := "U2", cond := .none },
      { id := "f6", src := "U1", dst := "Q", cond := .none }, { id := "f7", src := "U2", dst := "Q", cond := .none },
      { id := "f8", src := "Q", dst := "J", cond := .none }, { id := "f9", src := "J", dst := "Z", cond := .none },
      { id := "f10", src := "Z", dst := "e", cond := .none }] }

open Bpmn.Model.Engine in
/-- requests of `Z` (the task behind the join) after answering T1, U2, U1 in this order -/
def nestedZRequests (cfg : Cfg) : Nat :=
  let s0 := start cfg nestedProc []
  let s1 := answer cfg nestedProc s0 "T1" 1 (.ok [])
  let s2 := answer cfg nestedProc s1 "U2" 1 (.ok [])
  let s3 := answer cfg nestedProc s2 "U1" 1 (.ok [])
  (s1.obs ++ s2.obs ++ s3.obs).count (.req "Z")

open Bpmn.Model.Engine in
/-- **Witness (D19).** With the tracker-cohort join and the terminations seen first, the token that survives the
inner join carries the parallel gateway as its origin: the outer join is released for the first branch alone
and a second time for the late token — `Z` is requested twice. The token game requests it once. -/
theorem C05_counterexample_nested_fork :
    nestedZRequests { Cfg.ideal with inclCohort := true, eagerSettle := true } = 2 ∧
    nestedZRequests Cfg.ideal = 1 ∧ nestedZRequests Cfg.idealLate = 1 := by
  decide

/-- the full statement of C05 on the model; the join part is stated for flat blocks (`_partial`: for nested
forks the code configuration violates it, see the witness above) -/
def C05_statement_partial : Prop :=
  (∀ nd d, (∃ x ∈ nd, x.2 = true) → igDecide nd d = (nd.filter (·.2)).map (·.1)) ∧
  (∀ nd d, (∀ x ∈ nd, x.2 = false) → igDecide nd (some d) = [d]) ∧
  (∀ nd, (∀ x ∈ nd, x.2 = false) → igDecide nd none = []) ∧
  (∀ (evs : List JEv) (j : IJ), evs.length < j.live → (j.run evs).releases = j.releases) ∧
  (∀ n (evs : List JEv), evs.length = n → 0 < n →
      (({ live := n } : IJ).run evs).releases = (if evs.count .arrive = 0 then 0 else 1))

theorem C05_partial : C05_statement_partial :=
  ⟨fun nd d h => (igDecide_true nd d h).1, igDecide_default, igDecide_error,
   fun evs j h => (ij_no_early_release evs j h).1,
   fun n evs hn hp => (ij_window n evs hn hp).1⟩

example : igDecide [("a", true), ("b", false), ("c", true)] (some "d") = ["a", "c"] := by decide
example : (({ live := 3 } : IJ).run [.arrive, .ended, .arrive]).releases = 1 := by decide
example : (({ live := 3 } : IJ).run [.arrive, .ended]).releases = 0 := by decide

/-! ## every listed condition is evaluated (C05-13)

`evalFlows` (flow.go: the probe / the conditions of the outgoing flows of a fork) goes through ALL the flows it is given, in
their order, whatever the conditions yield: a condition that fails to evaluate is reported and counts as not true, the
flows listed after it still get their verdict. -/

theorem evalFlows_fold_keys (p : Bpmn.Model.Engine.Proc) (u : Bool) : ∀ (fls : List String) (acc : List (String × Bool)) (s : Bpmn.Model.Engine.St),
    ((fls.foldl (fun (x : List (String × Bool) × Bpmn.Model.Engine.St) fl =>
        let r := Bpmn.Model.Engine.evalFlow p x.2 fl u; (x.1 ++ [(fl, r.1)], r.2)) (acc, s)).1.map (·.1)) = acc.map (·.1) ++ fls := by
  intro fls
  induction fls with
  | nil => intro acc s; simp
  | cons fl rest ih =>
    intro acc s
    simp only [List.foldl_cons]
    rw [ih]
    simp

/-- the verdicts are for exactly the flows that were listed, in the order they were listed -/
theorem evalFlows_keys (p : Bpmn.Model.Engine.Proc) (s : Bpmn.Model.Engine.St) (fls : List String) (u : Bool) :
    (Bpmn.Model.Engine.evalFlows p s fls u).1.map (·.1) = fls := by
  have := evalFlows_fold_keys p u fls [] s
  simpa [Bpmn.Model.Engine.evalFlows] using this

/-- a true condition listed after a failing one is still found true -/
theorem evalFlows_length (p : Bpmn.Model.Engine.Proc) (s : Bpmn.Model.Engine.St) (fls : List String) (u : Bool) :
    (Bpmn.Model.Engine.evalFlows p s fls u).1.length = fls.length := by
  have := congrArg List.length (evalFlows_keys p s fls u)
  simpa using this

open Bpmn.Model.Engine in
theorem evalFlow_vars (p : Proc) (s : St) (fl : String) (u : Bool) : (evalFlow p s fl u).2.vars = s.vars := by
  unfold evalFlow
  split
  · rfl
  · split
    · rfl
    · split <;> rfl

open Bpmn.Model.Engine in
/-- **A true condition is found true wherever it is listed** — before or after conditions that are false or fail to
evaluate: its verdict is `true` in the result of `evalFlows` (C05-13: a probe that stops at the first failure loses it). -/
theorem evalFlows_true_kept (p : Proc) (fls : List String) (f : String) (fl : SFlow)
    (hf : f ∈ fls) (hfl : p.flow? f = some fl) :
    ∀ (s : St), fl.cond.eval s.vars = .yes → (f, true) ∈ (evalFlows p s fls false).1 := by
  intro s hy
  unfold evalFlows
  -- generalise over the accumulator: whatever is in it stays, and `f` is added with `true` when its turn comes
  have key : ∀ (l : List String) (acc : List (String × Bool)) (s' : St), s'.vars = s.vars →
      ((f, true) ∈ acc ∨ f ∈ l) →
      (f, true) ∈ (l.foldl (fun (x : List (String × Bool) × St) fl' =>
        let r := evalFlow p x.2 fl' false; (x.1 ++ [(fl', r.1)], r.2)) (acc, s')).1 := by
    intro l
    induction l with
    | nil => intro acc s' _ h; rcases h with h | h; exact h; exact absurd h (by simp)
    | cons x xs ih =>
      intro acc s' hv h
      simp only [List.foldl_cons]
      apply ih
      · rw [evalFlow_vars]; exact hv
      · rcases h with h | h
        · exact Or.inl (List.mem_append_left _ h)
        · rcases List.mem_cons.mp h with e | h'
          · left
            subst e
            have : (evalFlow p s' f false).1 = true := by
              unfold evalFlow
              simp only [Bool.false_eq_true, if_false, hfl, hv, hy]
            simp [this]
          · exact Or.inr h'
  exact key fls [] s rfl (Or.inr hf)

end Bpmn.Props.C05
