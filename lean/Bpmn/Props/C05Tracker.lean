import Bpmn.Lemmas.InclTracker
/-!
# C05 (join, tracker level) — the inclusive join decides on a PREFIX of the trace order

Model: `Bpmn.Model.InclTracker` (port of `flowTracker.handleTrace` / `activeFlowsInCohort` and of the gateway's
`nextActionMessage` / `trySync`), the tracker's progress explicit as the length of the prefix it has processed.

* With the tracker caught up (`fresh`), a fork activation of any size arriving in any order releases the join exactly
  once, at the last arrival, with all tokens — `fresh_view_join_correct`, `fresh_view_no_early_release`.
* The start-up lock of the tracker guarantees that for the FIRST activation (`first_activation_view`).
* Nothing guarantees it afterwards: a join re-entered in a loop that reads the map one `FlowTrace` too early fires for
  the first token alone and again for the second — `C05_counterexample_stale_view` (D33, reproduced on the engine:
  known finding `inclusive_join_stale_tracker`).
-/
namespace Bpmn.Props.C05
open Bpmn.Model.InclTracker

/-- nothing is released while a token of the cohort is still missing -/
theorem join_waits (m : Map) (a : Nat) (fired : List (List Nat)) (q : List Nat) (hq : q ≠ []) :
    ∀ (p done : List Nat),
      (∀ x, x ∈ cohort m a ↔ x ∈ done ++ p ++ q) → (done ++ p ++ q).Nodup → done ≠ [] →
      (({ activated := some a, arrived := done, fired := fired } : Join).arriveAllM m p) =
        { activated := some a, arrived := done ++ p, fired := fired } := by
  intro p
  induction p with
  | nil => intro done _ _ _; simp [Join.arriveAllM]
  | cons t ts ih =>
    intro done hmem hnd hne
    obtain ⟨u, us, e⟩ := List.exists_cons_of_ne_nil hq
    have hall : ((cohort m a).all fun x => (done ++ [t]).contains x) = false := by
      rw [List.all_eq_false]
      refine ⟨u, (hmem u).mpr (by simp [e]), ?_⟩
      intro hc
      have hu : u ∈ done ++ [t] := by simpa using hc
      have hnd' : ((done ++ [t]) ++ (ts ++ q)).Nodup := by simpa using hnd
      rw [List.nodup_append] at hnd'
      exact hnd'.2.2 u hu u (by simp [e]) rfl
    simp only [Join.arriveAllM, Join.arriveM, Join.trySync, hall, Bool.false_eq_true, if_false]
    have := ih (done ++ [t]) (by intro x; rw [hmem x]; simp) (by simpa using hnd) (by simp)
    simpa using this

/-- **The join on one up-to-date picture.** Tokens `arr` (any number ≥ 1, any order) whose common cohort is exactly
`arr`: the idle join fires exactly once, when the last of them has arrived, releasing all of them. -/
theorem join_fires_once (m : Map) (a : Nat) (rest : List Nat)
    (hC : ∀ x, x ∈ cohort m a ↔ x ∈ a :: rest) (hnd : (a :: rest).Nodup) (fired : List (List Nat)) :
    (({ fired := fired } : Join).arriveAllM m (a :: rest)) =
      { activated := none, arrived := [], fired := fired ++ [a :: rest] } := by
  simp only [Join.arriveAllM, Join.arriveM, Join.trySync]
  by_cases hr : rest = []
  · subst hr
    have : ((cohort m a).all fun x => [a].contains x) = true := by
      rw [List.all_eq_true]; intro x hx; simpa using (hC x).mp hx
    simp only [this, if_true, Join.arriveAllM]
  · obtain ⟨u, us, e⟩ := List.exists_cons_of_ne_nil hr
    have : ((cohort m a).all fun x => [a].contains x) = false := by
      rw [List.all_eq_false]
      refine ⟨u, (hC u).mpr (by simp [e]), ?_⟩
      intro hc
      have : u = a := by simpa using hc
      subst this
      simp [e] at hnd
    simp only [this, Bool.false_eq_true, if_false]
    rw [arriveAllM_prefix m (cohort m a) a fired rest [a] rfl (by simpa using hC) (by simpa using hnd) (by simp)]
    simp [hr]

/-- the map after the fork's `FlowTrace`: its tokens, and only they, are recorded with the fork as origin — provided
no token of an earlier activation of the same fork is still recorded with it (`hclean`) -/
theorem cohort_after_fork (log0 : List Tr) (src : Nat) (toks : List (Nat × Nat))
    (hclean : ∀ x, (track log0).get? x = some src → x ∈ toks.map (·.1)) (a : Nat) (ha : a ∈ toks.map (·.1)) :
    ∀ x, x ∈ cohort (track (log0 ++ [.flow src true toks])) a ↔ x ∈ toks.map (·.1) := by
  intro x
  have hk := nodupKeys_track (log0 ++ [.flow src true toks])
  have htr : track (log0 ++ [.flow src true toks]) = step (track log0) (.flow src true toks) := by
    simp [track, List.foldl_append]
  rw [mem_cohort _ hk, htr]
  simp only [get?_step_flow_incl, ha, if_true, Option.some.injEq, exists_eq_left']
  by_cases hx : x ∈ toks.map (·.1)
  · simp [hx]
  · simp only [hx, if_false, iff_false]
    intro h
    exact hx (hclean x h)

/-- **A fork activation of any size, tracker caught up ⇒ exactly one release, with all tokens, at the last arrival**
(whatever the order of arrival, whatever else the log holds). -/
theorem fresh_view_join_correct (log0 : List Tr) (src : Nat) (toks : List (Nat × Nat)) (a : Nat) (rest : List Nat)
    (hclean : ∀ x, (track log0).get? x = some src → x ∈ toks.map (·.1))
    (harr : ∀ x, x ∈ a :: rest ↔ x ∈ toks.map (·.1)) (hnd : (a :: rest).Nodup) (fired : List (List Nat)) :
    (({ fired := fired } : Join).arriveAllFresh (log0 ++ [.flow src true toks]) (a :: rest)) =
      { activated := none, arrived := [], fired := fired ++ [a :: rest] } := by
  rw [arriveAllFresh_eq]
  apply join_fires_once _ a rest _ hnd
  intro x
  rw [cohort_after_fork log0 src toks hclean a ((harr a).mp (by simp)) x, harr x]

/-- … and nothing before: after any proper, non-empty part of the arrivals the join has released nothing -/
theorem fresh_view_no_early_release (log0 : List Tr) (src : Nat) (toks : List (Nat × Nat)) (a : Nat) (p q : List Nat)
    (hq : q ≠ [])
    (hclean : ∀ x, (track log0).get? x = some src → x ∈ toks.map (·.1))
    (harr : ∀ x, x ∈ a :: (p ++ q) ↔ x ∈ toks.map (·.1)) (hnd : (a :: (p ++ q)).Nodup) (fired : List (List Nat)) :
    (({ fired := fired } : Join).arriveAllFresh (log0 ++ [.flow src true toks]) (a :: p)).fired = fired := by
  rw [arriveAllFresh_eq]
  have hC : ∀ x, x ∈ cohort (track (log0 ++ [.flow src true toks])) a ↔ x ∈ a :: (p ++ q) := by
    intro x
    rw [cohort_after_fork log0 src toks hclean a ((harr a).mp (by simp)) x, harr x]
  simp only [Join.arriveAllM, Join.arriveM, Join.trySync]
  obtain ⟨u, us, e⟩ := List.exists_cons_of_ne_nil hq
  have hfirst : ((cohort (track (log0 ++ [.flow src true toks])) a).all fun x => [a].contains x) = false := by
    rw [List.all_eq_false]
    refine ⟨u, (hC u).mpr (by simp [e]), ?_⟩
    intro hc
    have : u = a := by simpa using hc
    subst this
    simp [e] at hnd
  simp only [hfirst, Bool.false_eq_true, if_false]
  rw [join_waits _ a fired q hq p [a] (by simpa using hC) (by simpa using hnd) (by simp)]

/-! ### D42 in the tracker's terms: why a token that ends WITHOUT a termination trace blocks every later activation

`hclean` above is not a technicality. A token `z` that is still recorded with the fork as its origin — it ended by an error
answer whose handler says exit (or by a used-up retry budget) and, before the repair of D42, sent no `TerminationTrace` — is
in the cohort of every token of the fork's NEXT activation, and since it never arrives the join never fires. A termination
trace removes it. -/

/-- a token left over from an earlier activation is in the cohort of every token of the next one -/
theorem stale_token_in_cohort (log0 : List Tr) (src : Nat) (toks : List (Nat × Nat)) (z a : Nat)
    (hz : (track log0).get? z = some src) (hzn : z ∉ toks.map (·.1)) (ha : a ∈ toks.map (·.1)) :
    z ∈ cohort (track (log0 ++ [.flow src true toks])) a := by
  have hk := nodupKeys_track (log0 ++ [.flow src true toks])
  have htr : track (log0 ++ [.flow src true toks]) = step (track log0) (.flow src true toks) := by
    simp [track, List.foldl_append]
  rw [mem_cohort _ hk, htr]
  simp only [get?_step_flow_incl, ha, hzn, if_true, if_false, Option.some.injEq, exists_eq_left']
  exact hz

/-- **… and the join of that activation never fires**: all tokens of the new activation arrive (any order, the tracker
caught up), the stale one never does — nothing is released. -/
theorem stale_token_blocks_join (log0 : List Tr) (src : Nat) (toks : List (Nat × Nat)) (z a : Nat) (rest : List Nat)
    (hz : (track log0).get? z = some src) (hzn : z ∉ toks.map (·.1))
    (hclean : ∀ x, (track log0).get? x = some src → x = z ∨ x ∈ toks.map (·.1))
    (harr : ∀ x, x ∈ a :: rest ↔ x ∈ toks.map (·.1)) (hnd : (a :: rest).Nodup) (fired : List (List Nat)) :
    (({ fired := fired } : Join).arriveAllFresh (log0 ++ [.flow src true toks]) (a :: rest)) =
      { activated := some a, arrived := a :: rest, fired := fired } := by
  rw [arriveAllFresh_eq]
  have ha : a ∈ toks.map (·.1) := (harr a).mp (by simp)
  have hza : z ∉ a :: rest := fun h => hzn ((harr z).mp h)
  have hC : ∀ x, x ∈ cohort (track (log0 ++ [.flow src true toks])) a ↔ x ∈ [a] ++ rest ++ [z] := by
    intro x
    have hk := nodupKeys_track (log0 ++ [.flow src true toks])
    have htr : track (log0 ++ [.flow src true toks]) = step (track log0) (.flow src true toks) := by
      simp [track, List.foldl_append]
    rw [mem_cohort _ hk, htr]
    simp only [get?_step_flow_incl, ha, if_true, Option.some.injEq, exists_eq_left']
    by_cases hx : x ∈ toks.map (·.1)
    · simp only [hx, if_true, true_iff]
      have := (harr x).mpr hx
      simp only [List.mem_cons] at this
      simp only [List.singleton_append, List.mem_append, List.mem_cons, List.mem_singleton, List.not_mem_nil, or_false]
      rcases this with h | h
      · exact Or.inl (Or.inl h)
      · exact Or.inl (Or.inr h)
    · simp only [hx, if_false]
      constructor
      · intro h
        rcases hclean x h with e | e
        · subst e; simp
        · exact absurd e hx
      · intro h
        have : x = z := by
          have hx' : x ∉ a :: rest := fun h' => hx ((harr x).mp h')
          simp only [List.singleton_append, List.mem_append, List.mem_cons, List.mem_singleton, List.not_mem_nil,
            or_false] at h
          rcases h with h | h
          · exact absurd (List.mem_cons.mpr h) hx'
          · exact h
        subst this; exact hz
  simp only [Join.arriveAllM, Join.arriveM, Join.trySync]
  have hfirst : ((cohort (track (log0 ++ [.flow src true toks])) a).all fun x => [a].contains x) = false := by
    rw [List.all_eq_false]
    refine ⟨z, (hC z).mpr (by simp), ?_⟩
    intro hc
    have : z = a := by simpa using hc
    exact hza (by simp [this])
  simp only [hfirst, Bool.false_eq_true, if_false]
  have hnd' : ([a] ++ rest ++ [z]).Nodup := by
    have : (a :: rest).Nodup := hnd
    simp only [List.singleton_append, List.nodup_append, List.nodup_cons, List.mem_cons, List.nodup_nil,
      List.mem_singleton, List.not_mem_nil] at this ⊢
    refine ⟨this, by simp, ?_⟩
    intro x hx y hy
    have hy' : y = z := by simpa using hy
    subst hy'
    intro e; subst e
    exact hza (by simpa using hx)
  have := join_waits _ a fired [z] (by simp) rest [a] (by simpa using hC) hnd' (by simp)
  simpa using this

/-- the termination trace is what takes the token out of the picture -/
theorem term_cleans (log0 : List Tr) (z : Nat) : (track (log0 ++ [.term z])).get? z = none := by
  have htr : track (log0 ++ [.term z]) = (track log0).del z := by simp [track, List.foldl_append, step]
  rw [htr]
  unfold Map.del Map.get?
  induction track log0 with
  | nil => rfl
  | cons p m ih =>
    by_cases h : p.1 = z
    · simp [List.filter, h, ih]
    · have hb : (p.1 != z) = true := by simpa using h
      have hb2 : (z == p.1) = false := by simpa using fun e : z = p.1 => h e.symm
      simp only [List.filter, hb, List.lookup, hb2]
      exact ih

/-- **The tracker's start-up lock** (`reachedNode`): the gateway can read the map only once the tracker has seen a flow
INTO the gateway. If the only such `FlowTrace` so far is the one at position `i` (first activation: the trace that
announces the arriving token), the picture the gateway reads contains it. -/
theorem first_activation_view (gw : Nat) (log : List Tr) (view i : Nat)
    (hreached : reached gw (log.take view) = true)
    (honly : ∀ k tr, log[k]? = some tr → k ≠ i → reached gw [tr] = false) : i < view := by
  unfold reached at hreached
  rw [List.any_eq_true] at hreached
  obtain ⟨tr, hmem, htr⟩ := hreached
  obtain ⟨k, hk⟩ := List.getElem?_of_mem hmem
  have hkv : k < view := by
    have := (List.getElem?_eq_some_iff.mp hk).1
    simp at this; omega
  have hlog : log[k]? = some tr := by
    rw [List.getElem?_take] at hk
    simpa [hkv] using hk
  by_cases hki : k = i
  · omega
  · have := honly k tr hlog hki
    simp only [reached, List.any_cons, List.any_nil, Bool.or_false] at this
    rw [this] at htr; cases htr

/-! ## Re-entry: the witness (D33) -/

/-- the recorded history of the engine, reduced to what the tracker sees: fork `6` (inclusive) → join `7` directly on
two flows; join → `9` → … → fork again (a loop). First activation tokens 1, 2; token 1 is consumed, token 2 goes round
and the fork announces tokens 2, 3. -/
def loopLog : List Tr :=
  [.flow 6 true [(1, 7), (2, 7)], .term 1, .flow 7 true [(2, 9)], .flow 9 false [(2, 8)], .flow 8 false [(2, 6)],
   .flow 6 true [(2, 7), (3, 7)]]

/-- first activation with the tracker caught up, then token 2 arrives again having been announced by `loopLog[5]` -/
def reentry (viewOfSecond : Nat) : Join :=
  let j1 := (({} : Join).arrive loopLog 1 1).arrive loopLog 1 2        -- first activation: both on the first picture
  let j2 := j1.arrive loopLog viewOfSecond 2                            -- token 2 comes round
  -- if it was released alone it has left through the join (`flow 7 [(2, 9)]`) before token 3 arrives
  let log' := if j2.activated.isNone then loopLog ++ [.flow 7 true [(2, 9)]] else loopLog
  j2.arrive log' log'.length 3

/-- **Counterexample (D33).** When the join reads the tracker one `FlowTrace` too early (picture of length 5: the
fork's second announcement not yet processed), token 2's cohort is itself — recorded with the join as origin by the
join's own `FlowTrace` of the first activation — and the join fires for token 2 alone and again for token 3; with the
tracker caught up it fires once for both. Exactly the history recorded on the engine. -/
theorem C05_counterexample_stale_view :
    (reentry 5).fired = [[1, 2], [2], [3]] ∧ (reentry 6).fired = [[1, 2], [2, 3]] := by
  decide

/-- the hypotheses of `fresh_view_join_correct` are met by the second activation of `loopLog` (non-vacuity) -/
example : (∀ x, (track (loopLog.take 5)).get? x = some 6 → x ∈ [(2, 7), (3, 7)].map (·.1)) ∧
    loopLog = loopLog.take 5 ++ [.flow 6 true [(2, 7), (3, 7)]] := by
  refine ⟨?_, by decide⟩
  intro x hx
  have : track (loopLog.take 5) = [(2, 7)] := by decide
  rw [this] at hx
  simp [Map.get?, List.lookup] at hx
  split at hx <;> simp_all

/-- the history of D42 as the tracker sees it: fork `6` announces tokens 1 → task `4`, 2 → join `7`; task 4's token ends
by an error answer (exit). Before the repair nothing is traced for it (`exitSilent`); after it, `term 1` is. Token 2 is
released… and the next round's tokens 2, 3 are announced by the fork. -/
def exitLog (traced : Bool) : List Tr :=
  [.flow 6 true [(1, 4), (2, 7)]] ++ (if traced then [.term 1] else []) ++
  [.flow 8 false [(2, 6)], .flow 6 true [(2, 7), (3, 7)]]

/-- **D42, concretely** (a test, by `decide`): with the silent ending the second activation's join holds both tokens for
ever; with the termination traced it fires. The general statement is `stale_token_blocks_join`. -/
theorem C05_counterexample_silent_exit :
    (({} : Join).arriveAllFresh (exitLog false) [2, 3]).fired = [] ∧
    (({} : Join).arriveAllFresh (exitLog true) [2, 3]).fired = [[2, 3]] := by
  decide

/-- the hypotheses of `stale_token_blocks_join` are met by `exitLog false` (non-vacuity) -/
example : (track ((exitLog false).take 2)).get? 1 = some 6 ∧ (1 : Nat) ∉ [(2, 7), (3, 7)].map (·.1) ∧
    exitLog false = (exitLog false).take 2 ++ [.flow 6 true [(2, 7), (3, 7)]] := by decide

end Bpmn.Props.C05
