import Bpmn.Props.C19
import Bpmn.Gen.C19
/-! C19 instantiated at the facts extracted from the current /repo tree. -/
namespace Bpmn.Props.C19
open Bpmn.Model.Builder Bpmn.Lemmas.Builder Bpmn.Lemmas.BuilderLayout

/-- the model's node sizes are the ones `flowNodeDefaultSize` returns -/
theorem current_sizes :
    Bpmn.Gen.C19.sizeStartEvent = some Kind.startEvent.size ∧
    Bpmn.Gen.C19.sizeEndEvent = some Kind.endEvent.size ∧
    Bpmn.Gen.C19.sizeSubProcess = some Kind.subProcess.size ∧
    Bpmn.Gen.C19.sizeAdHocSubProcess = some Kind.adHocSubProcess.size ∧
    Bpmn.Gen.C19.sizeTransaction = some Kind.transaction.size ∧
    Bpmn.Gen.C19.sizeDefault = some Kind.task.size ∧
    Bpmn.Gen.C19.maxNodeWidth = some maxW ∧ Bpmn.Gen.C19.maxNodeHeight = some maxH ∧
    Bpmn.Gen.C19.minProcessHeight = some 160 := by decide

/-- the documented default configuration, in units of 1/8 -/
def currentDefaultCfg : Option Cfg := do
  let sx ← Bpmn.Gen.C19.defaultStartX
  let sy ← Bpmn.Gen.C19.defaultStartY
  let cg ← Bpmn.Gen.C19.defaultColumnGap
  let rg ← Bpmn.Gen.C19.defaultRowGap
  let pg ← Bpmn.Gen.C19.defaultProcessGap
  pure ⟨(sx * 8 : Nat), (sy * 8 : Nat), (cg * 8 : Nat), (rg * 8 : Nat), (pg * 8 : Nat), 8⟩

/-- the documented default gaps are at least the node sizes -/
theorem current_defaults_cover_sizes : currentDefaultCfg.map (fun c => decide (GapsCover c)) = some true := by decide

/-- hence: at the documented defaults no two shapes overlap, for every list of processes with unique node ids
and closed flows (in particular everything the builders produce from stored activity types) -/
theorem current_default_layout_no_overlap (o : Nat → Nat) (procs : List Proc) (n : Nat)
    (hnd : (nodeIds procs).Nodup) (hcl : ∀ p ∈ procs, flowsClosed p) :
    ∀ c, currentDefaultCfg = some c → (layoutAll o c n c.sy procs).1.Pairwise (fun s t => disjoint s t = true) := by
  intro c hc
  have h := current_defaults_cover_sizes
  rw [hc] at h
  simp only [Option.map_some, Option.some.injEq, decide_eq_true_eq] at h
  exact layout_no_overlap o c h procs n c.sy hnd hcl

/-- every kind `AddActivity` can be handed -/
def activityKinds : List Kind :=
  [.task, .businessRuleTask, .userTask, .callActivity, .manualTask, .sendTask, .scriptTask,
   .serviceTask, .receiveTask, .subProcess, .adHocSubProcess, .transaction, .activity]

theorem activityKinds_complete (k : Kind) : isActivity k ↔ k ∈ activityKinds := by
  cases k <;> simp [isActivity, activityKinds]

/-- the type switch of `AddActivity` as extracted from the current tree (`none`: the switch was not found) -/
def currentStored : Option (Kind → Bool) := Bpmn.Gen.C19.addActivityStored.map storedBy

/-- does the extracted switch store every activity type? Either answer type-checks (only a switch that cannot
be found does not): the finding `activity_not_stored` disappears by itself once the switch is complete. -/
theorem current_stored_dichotomy :
    currentStored.map (fun st => activityKinds.all st) = some true ∨
    currentStored.map (fun st => activityKinds.all st) = some false := by decide

/-- C19 for the types the extracted switch stores, and the two sides of the dichotomy at the extracted switch -/
theorem current_C19 : ∀ st, currentStored = some st →
    C19_statement_stored st ∧
    (activityKinds.all st = true → C19_statement st) ∧
    (∀ k ∈ activityKinds, st k = false → ¬ C19_statement st) := by
  intro st _
  refine ⟨C19_holds_partial st, ?_, ?_⟩
  · intro hall
    apply C19_general
    intro k hk
    exact List.all_eq_true.mp hall k ((activityKinds_complete k).mp hk)
  · intro k hk hst
    exact C19_counterexample_activity_not_stored st k ((activityKinds_complete k).mpr hk) hst

/-- where the ids come from: `RandBytes` either builds a clock-seeded source on every call (the oracle is then a
function of the clock reading and NOT injective — known finding D14) or it does not; the construct was found -/
theorem current_id_source_found :
    Bpmn.Gen.C19.randBytesReseedsPerCall = some true ∨ Bpmn.Gen.C19.randBytesReseedsPerCall = some false := by decide

end Bpmn.Props.C19
