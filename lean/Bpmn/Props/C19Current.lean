import Bpmn.Props.C19
import Bpmn.Gen.C19
/-! C19 instantiated at the facts extracted from the current /repo tree. -/
namespace Bpmn.Props.C19
open Bpmn.Model.Builder Bpmn.Lemmas.Builder Bpmn.Lemmas.BuilderLayout

/-- the model's node sizes are the ones `flowNodeDefaultSize` returns -/
theorem current_sizes :
    Bpmn.Gen.C19.sizeStartEvent = some Kind.startEvent.size ∧
    Bpmn.Gen.C19.sizeEndEvent = some Kind.endEvent.size ∧
    Bpmn.Gen.C19.sizeSubProcess = some Kind.subProcess.size ∧
    Bpmn.Gen.C19.sizeAdHocSubProcess = some Kind.adHocSubProcess.size ∧
    Bpmn.Gen.C19.sizeTransaction = some Kind.transaction.size ∧
    Bpmn.Gen.C19.sizeDefault = some Kind.task.size ∧
    Bpmn.Gen.C19.maxNodeWidth = some maxW ∧ Bpmn.Gen.C19.maxNodeHeight = some maxH ∧
    Bpmn.Gen.C19.minProcessHeight = some 160 := by decide

/-- the documented default configuration, in units of 1/8 -/
def currentDefaultCfg : Option Cfg := do
  let sx ← Bpmn.Gen.C19.defaultStartX
  let sy ← Bpmn.Gen.C19.defaultStartY
  let cg ← Bpmn.Gen.C19.defaultColumnGap
  let rg ← Bpmn.Gen.C19.defaultRowGap
  let pg ← Bpmn.Gen.C19.defaultProcessGap
  pure ⟨(sx * 8 : Nat), (sy * 8 : Nat), (cg * 8 : Nat), (rg * 8 : Nat), (pg * 8 : Nat), 8⟩

/-- the documented default gaps are at least the node sizes -/
theorem current_defaults_cover_sizes : currentDefaultCfg.map (fun c => decide (GapsCover c)) = some true := by decide

/-- hence: at the documented defaults no two shapes overlap, for every list of processes with unique node ids
and closed flows (in particular everything the builders produce from stored activity types) -/
theorem current_default_layout_no_overlap (o : Nat → Nat) (procs : List Proc) (n : Nat)
    (hnd : (nodeIds procs).Nodup) (hcl : ∀ p ∈ procs, flowsClosed p) :
    ∀ c, currentDefaultCfg = some c → (layoutAll o c n c.sy procs).1.Pairwise (fun s t => disjoint s t = true) := by
  intro c hc
  have h := current_defaults_cover_sizes
  rw [hc] at h
  simp only [Option.map_some, Option.some.injEq, decide_eq_true_eq] at h
  exact layout_no_overlap o c h procs n c.sy hnd hcl

/-- Go type name of an activity kind -/
def goName : Kind → String
  | .task => "Task" | .businessRuleTask => "BusinessRuleTask" | .userTask => "UserTask"
  | .callActivity => "CallActivity" | .manualTask => "ManualTask" | .sendTask => "SendTask"
  | .scriptTask => "ScriptTask" | .serviceTask => "ServiceTask" | .receiveTask => "ReceiveTask"
  | .subProcess => "SubProcess" | .adHocSubProcess => "AdHocSubProcess" | .transaction => "Transaction"
  | .activity => "Activity" | .startEvent => "StartEvent" | .endEvent => "EndEvent"

def allKinds : List Kind :=
  [.startEvent, .endEvent, .task, .businessRuleTask, .userTask, .callActivity, .manualTask, .sendTask, .scriptTask,
   .serviceTask, .receiveTask, .subProcess, .adHocSubProcess, .transaction, .activity]

/-- the type switch of `AddActivity` names exactly the kinds the model stores -/
theorem current_stored_types :
    (Bpmn.Gen.C19.addActivityStored.map fun names =>
      allKinds.all fun k => decide (actOk k) == names.contains (goName k)) = some true := by decide

/-- where the ids come from: `RandBytes` either builds a clock-seeded source on every call (the oracle is then a
function of the clock reading and NOT injective — known finding D14) or it does not; the construct was found -/
theorem current_id_source_found :
    Bpmn.Gen.C19.randBytesReseedsPerCall = some true ∨ Bpmn.Gen.C19.randBytesReseedsPerCall = some false := by decide

end Bpmn.Props.C19
