import Bpmn.Props.C19
import Bpmn.Gen.C19
/-! C19 instantiated at the facts extracted from the current /repo tree. -/
namespace Bpmn.Props.C19
open Bpmn.Model.Builder

/-- the model's node sizes are the ones `flowNodeDefaultSize` returns -/
theorem current_sizes :
    Bpmn.Gen.C19.sizeStartEvent = some Kind.startEvent.size ∧
    Bpmn.Gen.C19.sizeEndEvent = some Kind.endEvent.size ∧
    Bpmn.Gen.C19.sizeSubProcess = some Kind.subProcess.size ∧
    Bpmn.Gen.C19.sizeAdHocSubProcess = some Kind.adHocSubProcess.size ∧
    Bpmn.Gen.C19.sizeTransaction = some Kind.transaction.size ∧
    Bpmn.Gen.C19.sizeDefault = some Kind.task.size := by decide

end Bpmn.Props.C19
