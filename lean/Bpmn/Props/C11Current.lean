import Bpmn.Props.C11
import Bpmn.Gen.C11
/-! C11 instantiated at the facts extracted from the current /repo tree (`Bpmn.Gen.C11`, regenerated on every run).

Every theorem here is a dichotomy that type-checks whichever way the facts point: on a tree whose `ConsumeEvent`
can block on a never-reached node it proves the witness side, after a repair (reader started by the constructor, a
send that cannot block, or a send only once the reader runs) the same text proves the positive side, without any
alarm. The module stops building only when the extractor cannot read a fact (`none`): then `current` does not
elaborate. The capacity coefficients are not pinned: any capacity gives a witness one event longer. -/
namespace Bpmn.Props.C11
open Bpmn.Model.CatchEvent

def inboxFactsOf : Option Nat → Option Nat → Option Bool → Option Bool → Option Bool → Option InboxFacts
  | some m, some a, some r, some nb, some g =>
    some { capMul := m, capAdd := a, readerAtConstruction := r, sendNonBlocking := nb, sendOnlyWhenRunning := g }
  | _, _, _, _, _ => none

def factsOf? : Option Facts := do
  let c ← inboxFactsOf Bpmn.Gen.C11.catchCapMul Bpmn.Gen.C11.catchCapAdd Bpmn.Gen.C11.catchReaderAtConstruction
    Bpmn.Gen.C11.catchSendNonBlocking Bpmn.Gen.C11.catchSendOnlyWhenRunning
  let s ← inboxFactsOf Bpmn.Gen.C11.startCapMul Bpmn.Gen.C11.startCapAdd Bpmn.Gen.C11.startReaderAtConstruction
    Bpmn.Gen.C11.startSendNonBlocking Bpmn.Gen.C11.startSendOnlyWhenRunning
  pure { catch_ := c, start := s }

/-- the facts of the current source -/
def current : Facts := factsOf?.get (by decide)

/-- C11 on the current facts: holds, or is false with the witness of `C11_counterexample_unreached_inbox` -/
theorem current_verdict : if current.ok = true then C11_statement current else ¬ C11_statement current := by
  split
  · next h => exact C11_general _ h
  · next h => exact C11_cex _ (by simpa using h)

/-- per node type (intermediate catch event / start event): its `ConsumeEvent` can never block, or a node of that
type that is not reached blocks the delivery that follows `cap` earlier ones, for every incoming-flow count -/
theorem current_kind (kind : NodeKind) :
    if (current.of kind).ok = true then
      ∀ (n : Node) (e : Ev), n.kind = kind → CtorRunning current n → consume (current.of n.kind) n e ≠ .blocks
    else
      ∀ (incoming : Nat) (defs : List Ev) (e : Ev),
        (deliver current e (runOps current (Sys.init current [{ kind, incoming, defs }])
          (List.replicate ((current.of kind).cap incoming) (Op.deliver e))).1).1.waiting = [{ ev := e, pos := 0 }] := by
  split
  · next h => intro n e hk hc; exact no_block_of_kind_ok current n (by rw [hk]; exact h) hc e
  · next h => intro incoming defs e; exact (C11_counterexample_unreached_inbox current kind (by simpa using h) incoming defs e).2.1

/-- everything that does not depend on the facts, at the current facts -/
theorem current_partial :
    DeliverOnce current ∧ DeliverStops current ∧ StaleInert ∧ StaleInertSys current ∧ Conserved ∧
      ConservedSys current ∧ (current.ok = true → Bounded current) :=
  C11_holds_partial current

end Bpmn.Props.C11
