import Bpmn.Props.C02
import Bpmn.Gen.C02
/-! C02 instantiated at the facts extracted from the current /repo tree (`Bpmn.Gen.C02`, regenerated on every run).

Every theorem here is a dichotomy that type-checks whichever way the four facts `subscribeBeforeTrigger`,
`monitorPerStartWith`, `waitSignalCap`, `boundaryEndTraceDetached` point, so a repair of /repo never breaks this module; what it proves then moves
from the witness side to the positive side. The module stops type-checking when a fact is `none` (construct not
found) or when the subscriber buffer capacity the witnesses are computed with (10) moved. -/
namespace Bpmn.Props.C02
open Bpmn.Model.Completion

def factsOf : Option Bool → Option Bool → Option Nat → Option Nat → Option Bool → Option Facts
  | some a, some b, some c, some d, some e => some ⟨a, b, c, d, e⟩
  | _, _, _, _, _ => none

/-- the facts of the current source -/
def current : Facts :=
  (factsOf Bpmn.Gen.C02.subscribeBeforeTrigger Bpmn.Gen.C02.monitorPerStartWith Bpmn.Gen.C02.waitSignalCap
    Bpmn.Gen.C02.subscribeBufCap Bpmn.Gen.C02.boundaryEndTraceDetached).get (by decide)

/-- the witnesses are computed with the subscriber buffer capacity of `tracer.Subscribe()` -/
theorem current_subscribe_buffer : current.subBuf = 10 := by decide

/-- safety holds at the current facts (as at any others) -/
theorem current_safe : ∀ n, 1 ≤ n → Safe (current.at n) := fun n hn => C02_safe _ hn

/-- C02 at the current facts, for every number of start events: holds, or is false with the witnesses of `C02_cex` -/
theorem current_verdict : if C02ok current = true then C02_statement current else ¬ C02_statement current := by
  split
  · next h => exact C02_holds_partial _ h
  · next h => exact C02_cex _ current_subscribe_buffer (by simpa using h)

/-- processes with ONE start event (where one monitor per `StartWith` is one monitor) -/
theorem current_single_start :
    if current.subBefore = true ∧ 1 ≤ current.sigCap ∧ current.detached = false then C02_statementFor (current.at 1)
    else ¬ C02_statementFor (current.at 1) := by
  split
  · next h => exact C02_single_start_partial _ h.1 h.2.1 (by rw [current_subscribe_buffer]; decide) h.2.2
  · next h => exact C02_single_start_cex _ current_subscribe_buffer h

/-- D3: the start event's flow trace can be broadcast before the monitor subscribes -/
theorem current_missed_start : if current.subBefore = true then True else MissedStartWitness (current.at 1) := by
  split
  · trivial
  · next h => exact missed_start_at _ (by simpa using h)

/-- D4: a second monitor blocks on the lock with an unread subscription; the tracer stalls on the 11th trace -/
theorem current_two_starts :
    if current.perStart = true then TwoStartsWitness (current.at 2)
    else ∀ n, (current.at n).monitorsPerStartAll = 1 := by
  split
  · next h => exact two_starts_at _ h current_subscribe_buffer
  · next h => intro n; simp [Params.monitorsPerStartAll, Facts.at, h]

/-- D2: the helper of an expired wait keeps the lock for ever -/
theorem current_expired_wait : if 1 ≤ current.sigCap then True else ExpiredWaitWitness (current.at 1) := by
  split
  · trivial
  · next h => exact expired_wait_at _ (by omega) current_subscribe_buffer

/-- D33: the boundary-end trace of an activity can follow the cease-flow trace -/
theorem current_late_boundary_trace :
    if current.detached = false then ∀ n, 1 ≤ n → ∀ s, Reachable (current.at n) s → LogStrict s.log
    else current.subBefore = true → LateTraceWitness (current.at 1) := by
  split
  · next h => exact fun n hn s hr => cease_last _ hn h s hr
  · next h => exact fun h1 => late_trace_at _ h1 (by simpa using h) current_subscribe_buffer

/-- liveness alone (without the ordering of the boundary-end trace): the three facts of `complete_live` -/
theorem current_liveness :
    if current.subBefore = true ∧ current.perStart = false ∧ 1 ≤ current.sigCap then ∀ n, 1 ≤ n → Live (current.at n)
    else True := by
  split
  · next h =>
    exact fun n hn => complete_live _ ⟨h.1, by simp [Params.monitorsPerStartAll, Facts.at, h.2.1], h.2.2⟩
      (by show 1 ≤ current.subBuf; rw [current_subscribe_buffer]; decide) hn
  · trivial

end Bpmn.Props.C02
