import Bpmn.Lemmas.TaskTrace
/-!
# C08 — Task requests: one effective answer, declared results stored, error modes kept

Model: `Bpmn.Model.TaskTrace` — the small-step machine `TT` of one task request (any number of `Do` callers × the
`process` goroutine × the reader of `response`, channel capacities and the shape of `Do`'s send as parameters),
`Retry` and the error switch of the flow loop; `Bpmn.Model.Engine.applyDeclared` for the result filter.

All theorems quantify over every schedule (list of scheduler choices of any length, hence any number of callers).
`Ok cfg` is the side condition on the extracted facts under which no `Do` blocks: the send sits in a `select` with a
`default`, or with a `<-done` alternative while `response` is buffered. The current tree has a plain blocking send
(`Ok = false`): `C08_counterexample_third_do_blocks` is the witness, `C08_partial` what holds regardless.
-/
namespace Bpmn.Props.C08
open Bpmn.Model Bpmn.Model.TaskTrace Bpmn.Lemmas.TaskTrace

/-! ## one effective answer -/

/-- **`response` receives at most one value**, and it is the value of the first `Do` whose send completed, or the
context / timeout error `process` made itself. For all facts, all schedules, any number of callers. -/
theorem tt_first_answer_wins (cfg : Cfg) (sched : List Act) :
    (run cfg init sched).respLog.length ≤ 1 ∧
    ∀ v ∈ (run cfg init sched).respLog,
      v = .errCtx ∨ v = .errTimeout ∨ ∃ i, (run cfg init sched).sendLog.head? = some i ∧ v = .val i := by
  have h := inv_run (cfg := cfg) sched (inv_init cfg)
  exact ⟨h.respLen, h.logGood⟩

/-- what the reader of `response` gets is that one value -/
theorem tt_reader_gets_logged (cfg : Cfg) (sched : List Act) (v : Val)
    (h : (run cfg init sched).cons = .got v) : v ∈ (run cfg init sched).respLog := by
  have key : ∀ (sched : List Act) (s : St), ((∀ w, s.cons = .got w → w ∈ s.respLog) ∧ (∀ w ∈ s.resp, w ∈ s.respLog)) →
      ((∀ w, (run cfg s sched).cons = .got w → w ∈ (run cfg s sched).respLog) ∧
        (∀ w ∈ (run cfg s sched).resp, w ∈ (run cfg s sched).respLog)) := by
    intro sched
    induction sched with
    | nil => intro s hs; exact hs
    | cons a rest ih =>
      intro s hs
      rw [run_cons]
      apply ih
      unfold stepD
      cases hst : step cfg s a with
      | none => simpa using hs
      | some s' =>
        simp only [Option.getD_some]
        obtain ⟨h1, h2⟩ := hs
        cases a <;> simp only [step] at hst <;> (repeat' split at hst) <;> cases hst <;>
          first
          | exact ⟨h1, h2⟩
          | (constructor
             · intro w hw; simp_all
             · intro w hw; simp_all; first | done | (rcases hw with hw | hw; exact Or.inl (h2 w hw); exact Or.inr hw))
  exact (key sched init ⟨by simp [init], by simp [init]⟩).1 v h

/-- **a later `Do` has no effect**: once `done` is closed a fresh call returns in its first step and changes nothing
but its own program counter -/
theorem tt_late_do_no_effect (cfg : Cfg) (s : St) (i : Nat) (hd : s.done = true) (hp : s.pc i = .start) :
    step cfg s (.check i) = some (s.setPc i .returned) := by
  simp [step, hp, hd]

/-- `done` stays closed -/
theorem tt_done_stable (cfg : Cfg) (s : St) (sched : List Act) (hd : s.done = true) : (run cfg s sched).done = true := by
  induction sched generalizing s with
  | nil => exact hd
  | cons a rest ih =>
    rw [run_cons]
    apply ih
    unfold stepD
    cases hs : step cfg s a with
    | none => simpa using hd
    | some s' => simpa using done_stable cfg s s' a hs hd

/-! ## no `Do` blocks (dichotomy on the facts) -/

/-- **Non-blocking, positive side.** Under `Ok cfg`, in every reachable state and for every caller `i` that has not
returned: (1) one of `i`'s own acts or of `process`'s three internal acts is enabled (no caller ever waits for another
caller or for an outside event); (2) each own step strictly advances `i`'s program counter, which has four values, so
`i` takes at most three own steps, and each step of `process` advances `process`, which takes at most three; (3) if
only `i` and `process` are let run — five attempts of `i`, three of `process` — `i` has returned. -/
theorem tt_do_returns (cfg : Cfg) (hok : Ok cfg = true) (sched : List Act) (i : Nat) :
    ((run cfg init sched).pc i ≠ .returned → ∃ a ∈ coreActs i, (step cfg (run cfg init sched) a).isSome = true) ∧
    (∀ a ∈ ownActs i, ∀ s', step cfg (run cfg init sched) a = some s' →
        pcRank ((run cfg init sched).pc i) < pcRank (s'.pc i)) ∧
    (∀ a s', step cfg (run cfg init sched) a = some s' →
        pcRank ((run cfg init sched).pc i) ≤ pcRank (s'.pc i) ∧ procRank (run cfg init sched).proc ≤ procRank s'.proc) ∧
    (run cfg (run cfg init sched) (drive i)).pc i = .returned := by
  have h := inv_run (cfg := cfg) sched (inv_init cfg)
  exact ⟨tt_progress cfg hok _ h i, fun a ha s' hs => caller_own_step cfg _ s' i a ha hs,
    fun a s' hs => ⟨caller_rank_mono cfg _ s' a hs i, proc_rank_mono cfg _ s' a hs⟩, tt_drive cfg hok _ h i⟩

/-- **Non-blocking, negative side.** If `Ok cfg` fails there is an explicit schedule (`witness cfg`) after which caller 0
has passed the `done` check and stays in front of its send WHATEVER happens afterwards. For a blocking send with forward
capacity `c` these are `c + 2` callers: the third concurrent caller on the current tree. -/
theorem C08_counterexample_third_do_blocks (cfg : Cfg) (h : Ok cfg = false) :
    (run cfg init (witness cfg)).pc 0 = .passed ∧
    ∀ sched, (run cfg (run cfg init (witness cfg)) sched).pc 0 = .passed := by
  unfold Ok at h
  unfold witness
  split at h
  · next hm =>
    rw [hm]
    have hs := witnessB_stuck cfg hm
    exact ⟨hs.2.1, fun sched => (stuckB_run sched hs).2.1⟩
  · cases h
  · next hm =>
    have hr : cfg.responseCap = 0 := by
      have : ¬ 1 ≤ cfg.responseCap := by simpa using h
      omega
    rw [hm]
    have hs := witnessD_stuck cfg hm hr
    exact ⟨hs.2.2.1, fun sched => (stuckD_run sched hs).2.2.1⟩

/-- the facts of the tree this check was built on: forward / response capacity 1, plain blocking send -/
def cfgBlocking1 : Cfg := { forwardCap := 1, responseCap := 1, doSendHasDefault := false, doSendHasDoneAlt := false }

/-- **The witness of DESIGN.md, concretely**: three callers pass the `done` check before `process` runs; caller 0's
value is forwarded (and read), caller 1's sits in the buffer, callers 0 and 1 return, caller 2 blocks for ever. -/
theorem C08_counterexample_third_do_blocks_current :
    let s := run cfgBlocking1 init witnessThree
    s.pc 0 = .returned ∧ s.pc 1 = .returned ∧ s.pc 2 = .passed ∧ s.cons = .got (.val 0) ∧ s.done = true ∧
    ∀ sched, (run cfgBlocking1 s sched).pc 2 = .passed := by
  have hs : StuckB cfgBlocking1 2 (run cfgBlocking1 init witnessThree) := by
    unfold StuckB; decide
  refine ⟨by decide, by decide, by decide, by decide, by decide, fun sched => (stuckB_run sched hs).2.1⟩

/-- with one or two callers nobody blocks on the current tree either way the schedule goes (exhaustive over all
interleavings is the harness's job; this is the sequential run) -/
example : (run cfgBlocking1 init [.check 0, .send 0, .ret 0, .recv, .check 1, .send 1, .ret 1, .respond, .close]).pc 1 = .returned := by
  decide

/-! ## retry bound and error modes -/

/-- **Retry bound** (flow loop + `Retry`), for every retry count, every failure pattern, every value of
`taskDefinition.Retries`:
1. fresh token, `f` failures answered with retry count `n ≥ 0`, then a success: exactly `min n f` additional requests;
2. the sentinel −1: every failure is retried;
3. any history whose retry handlers carry counts `≤ n` (none of them −1), any earlier attempts of the same token: at most
   `n` additional requests (fewer if the token has used attempts before — the counter belongs to the token);
4. every error answer emits the error trace first;
5. no handler / skip / an unknown mode continue once, exit ends the token, an exhausted retry ends the token. -/
theorem retry_bound :
    (∀ (td n : Int) (f : Nat), 0 ≤ n → requests (tokenRun td none (failThenOk n f)).1 = 1 + min n.toNat f) ∧
    (∀ (td : Int) (f : Nat) (r : Option Retry), requests (tokenRun td r (failThenOk (-1) f)).1 = 1 + f) ∧
    (∀ (td n : Int) (answers : List Ans) (r : Option Retry), 0 ≤ attemptsOf r → BoundedBy n answers →
        requests (tokenRun td r answers).1 ≤ 1 + (n - attemptsOf r).toNat ∧
        requests (tokenRun td r answers).1 ≤ 1 + n.toNat) ∧
    (∀ (td : Int) (r : Option Retry) (h : Handler) (rest : List Ans),
        ∃ tail, (tokenRun td r (.err h :: rest)).1 = .request :: .errorTrace :: tail) ∧
    (∀ (td : Int) (r : Option Retry) (rest : List Ans),
        (tokenRun td r (.err .none :: rest)) = ([.request, .errorTrace, .continued], r)) ∧
    (∀ (td : Int) (r : Option Retry) (k : Int) (rest : List Ans),
        (tokenRun td r (.err (.mode 2 k) :: rest)) = ([.request, .errorTrace, .continued], r)) ∧
    (∀ (td : Int) (r : Option Retry) (k : Int) (rest : List Ans),
        (tokenRun td r (.err (.mode 3 k) :: rest)) = ([.request, .errorTrace, .ended], r)) ∧
    (∀ (td : Int) (r : Option Retry) (n : Int) (rest : List Ans), n ≠ -1 → n ≤ attemptsOf r →
        (tokenRun td r (.err (.mode 1 n) :: rest)).1 = [.request, .errorTrace, .ended]) := by
  refine ⟨?_, ?_, ?_, ?_, ?_, ?_, ?_, ?_⟩
  · intro td n f hn
    have := retry_exact_aux td n hn f none (by simp [attemptsOf])
    simpa [attemptsOf] using this
  · intro td f r; exact retry_unbounded_aux td f r
  · intro td n answers r ha hb
    have := retry_bound_aux td n answers r ha hb
    exact ⟨this, by omega⟩
  · intro td r h rest
    simp only [tokenRun, onAnswer]
    cases (errSwitch td r h).1 <;> simp
  · intro td r rest; simp [tokenRun, onAnswer, errSwitch]
  · intro td r k rest; simp [tokenRun, onAnswer, errSwitch]
  · intro td r k rest; simp [tokenRun, onAnswer, errSwitch]
  · intro td r n rest h1 h2
    simp only [tokenRun, onAnswer, errSwitch_retry]
    rw [if_neg (by intro h; rcases h with h | h; exact h1 h; omega)]
    rfl

/-! ## declared names only -/

/-- **Stored = supplied restricted to the declared names** (`ApplyTaskResult` + the flow loop's `SetVariable`s): after
a successful answer a variable holds the supplied value iff its name is declared and supplied; every other variable is
unchanged. (`Props/C01.applyDeclared_undeclared` is the negative half.) -/
theorem applyDeclared_spec (n : Engine.Node) (vars : Vars) (results : List (String × Int)) (k : String) :
    (Engine.applyDeclared n vars results).get k =
      if n.hasResults = true ∧ k ∈ n.results then (supplied? results k).orElse (fun _ => vars.get k) else vars.get k := by
  rw [applyDeclared_eq]
  cases h : n.hasResults
  · simp
  · simp [restrictTo_get]

/-- the same for data outputs (`ApplyTaskDataOutput` + `aware.Put`): the filter is the same function -/
theorem applyOutputs_spec (declared : List String) (items : Vars) (supplied : List (String × Int)) (k : String) :
    (restrictTo declared Vars.set items supplied).get k =
      if k ∈ declared then (supplied? supplied k).orElse (fun _ => items.get k) else items.get k :=
  restrictTo_get supplied k declared items

/-- a declared, supplied name is stored with the supplied value -/
theorem applyDeclared_declared (n : Engine.Node) (vars : Vars) (results : List (String × Int)) (k : String) (v : Int)
    (hr : n.hasResults = true) (hk : k ∈ n.results) (hv : supplied? results k = some v) :
    (Engine.applyDeclared n vars results).get k = some v := by
  rw [applyDeclared_spec, if_pos ⟨hr, hk⟩, hv]; rfl

/-! ## the statement -/

def FirstAnswerWins (cfg : Cfg) : Prop :=
  ∀ sched : List Act, (run cfg init sched).respLog.length ≤ 1 ∧
    ∀ v ∈ (run cfg init sched).respLog,
      v = .errCtx ∨ v = .errTimeout ∨ ∃ i, (run cfg init sched).sendLog.head? = some i ∧ v = .val i

def LateDoNoEffect (cfg : Cfg) : Prop :=
  ∀ (sched : List Act) (i : Nat), (run cfg init sched).done = true → (run cfg init sched).pc i = .start →
    step cfg (run cfg init sched) (.check i) = some ((run cfg init sched).setPc i .returned)

/-- every `Do` returns: never stuck, and returned after a bounded run of itself and `process` -/
def NonBlocking (cfg : Cfg) : Prop :=
  ∀ (sched : List Act) (i : Nat),
    ((run cfg init sched).pc i ≠ .returned → ∃ a ∈ coreActs i, (step cfg (run cfg init sched) a).isSome = true) ∧
    (run cfg (run cfg init sched) (drive i)).pc i = .returned

def RetryBound : Prop :=
  (∀ (td n : Int) (f : Nat), 0 ≤ n → requests (tokenRun td none (failThenOk n f)).1 = 1 + min n.toNat f) ∧
  (∀ (td n : Int) (answers : List Ans) (r : Option Retry), 0 ≤ attemptsOf r → BoundedBy n answers →
      requests (tokenRun td r answers).1 ≤ 1 + n.toNat) ∧
  (∀ (td : Int) (r : Option Retry) (h : Handler) (rest : List Ans),
      ∃ tail, (tokenRun td r (.err h :: rest)).1 = .request :: .errorTrace :: tail)

def DeclaredOnly : Prop :=
  ∀ (n : Engine.Node) (vars : Vars) (results : List (String × Int)) (k : String),
    (Engine.applyDeclared n vars results).get k =
      if n.hasResults = true ∧ k ∈ n.results then (supplied? results k).orElse (fun _ => vars.get k) else vars.get k

/-- the full statement of C08 on the model, at the facts `cfg` of the source -/
def C08_statement (cfg : Cfg) : Prop :=
  FirstAnswerWins cfg ∧ LateDoNoEffect cfg ∧ NonBlocking cfg ∧ RetryBound ∧ DeclaredOnly

/-- what holds whatever the facts are (in particular on the current tree): everything except `NonBlocking` -/
theorem C08_partial (cfg : Cfg) : FirstAnswerWins cfg ∧ LateDoNoEffect cfg ∧ RetryBound ∧ DeclaredOnly :=
  ⟨tt_first_answer_wins cfg, fun _ i hd hp => tt_late_do_no_effect cfg _ i hd hp,
   ⟨retry_bound.1, fun td n a r h1 h2 => (retry_bound.2.2.1 td n a r h1 h2).2, retry_bound.2.2.2.1⟩, applyDeclared_spec⟩

theorem C08_general (cfg : Cfg) (hok : Ok cfg = true) : C08_statement cfg :=
  let p := C08_partial cfg
  ⟨p.1, p.2.1, fun sched i => ⟨(tt_do_returns cfg hok sched i).1, (tt_do_returns cfg hok sched i).2.2.2⟩, p.2.2.1, p.2.2.2⟩

theorem C08_cex (cfg : Cfg) (h : Ok cfg = false) : ¬ C08_statement cfg := by
  intro hs
  have hw := C08_counterexample_third_do_blocks cfg h
  have := (hs.2.2.1 (witness cfg) 0).2
  rw [hw.2 (drive 0)] at this
  cases this

/-- the statement is false at the facts of the tree this check was built on -/
theorem C08_not_holds_blocking : ¬ C08_statement cfgBlocking1 := C08_cex _ (by decide)

/-- the dichotomy `Props/C08Current.lean` instantiates at the extracted facts -/
theorem C08_dichotomy (cfg : Cfg) : if Ok cfg = true then C08_statement cfg else ¬ C08_statement cfg := by
  split
  · next h => exact C08_general cfg h
  · next h => exact C08_cex cfg (by simpa using h)

/-! Non-vacuity of the hypotheses (tests, not the claim). -/
example : Ok { forwardCap := 1, responseCap := 1, doSendHasDefault := false, doSendHasDoneAlt := true } = true := by decide
example : Ok { forwardCap := 0, responseCap := 0, doSendHasDefault := true, doSendHasDoneAlt := false } = true := by decide
example : Ok cfgBlocking1 = false := by decide
example : Ok { forwardCap := 3, responseCap := 0, doSendHasDefault := false, doSendHasDoneAlt := true } = false := by decide
example : BoundedBy 2 [.err (.mode 1 2), .err (.mode 1 1), .err .none, .ok] := by
  intro k hk; simp at hk; omega
example : attemptsOf (some ⟨3, 2⟩) = 2 := rfl
example : requests (tokenRun 0 none (failThenOk 2 5)).1 = 3 := by decide
example : (tokenRun 7 none [.err (.mode 1 1), .err (.mode 1 1), .ok]).1 =
    [.request, .errorTrace, .request, .errorTrace, .ended] := by decide
/-- the same schedule as `witnessThree` is harmless once the send has a `<-done` alternative -/
example : (run { cfgBlocking1 with doSendHasDoneAlt := true } init (witnessThree ++ [.bail 2])).pc 2 = .returned := by decide
example : (Engine.applyDeclared { id := "T", kind := .task, ins := [], outs := [], results := ["r1", "r2"], hasResults := true }
    [("r2", 5), ("u", 0)] [("r1", 1), ("u", 7)]).get "u" = some 0 := by decide

end Bpmn.Props.C08
