import Bpmn.Model.Cancel
import Bpmn.Lemmas.Cancel
/-!
C07 — cancelling the context at any point stops the instance and leaks nothing.

Theorems about the cancellation PROTOCOL (`Bpmn.Model.Cancel`), for every table of goroutine kinds, every
configuration of live goroutines, every schedule. Whether /repo's tables meet the side condition is decided in
`Props/C07Current.lean` on the tables regenerated from the source; that real goroutines exit is observed by the
cancellation-point sweep (`harness/cmd/vh/c07.go`), not proved.
-/
namespace Bpmn.Props.C07
open Bpmn.Model.Cancel

/-- a state at the moment of the cancel satisfies the invariant once cancelled, if the table is fine -/
theorem inv_of_wf {t : List Kind} (ht : tableOk t = true) {s : St} (h : s.wf t) : Inv (cancel s) := by
  refine ⟨rfl, ?_, ?_, ?_, ?_⟩
  · intro a ha
    obtain ⟨k, hk, hreg, hdone, hacts⟩ := h.kinds a ha
    have hok : k.ok = true := List.all_eq_true.mp ht k hk
    simp only [Kind.ok, Bool.and_eq_true, Bool.or_eq_true, Bool.not_eq_eq_eq_not, Bool.not_true, beq_iff_eq] at hok
    obtain ⟨⟨hops, hsend⟩, hrd⟩ := hok
    refine ⟨by rw [hreg, hdone]; exact hrd, ?_⟩
    intro act hact
    have := hacts act hact
    cases act with
    | block o => exact List.all_eq_true.mp hops o this
    | send =>
      simp only at this ⊢
      rcases hsend with hs | hs
      · rw [this] at hs; cases hs
      · rw [hreg]; exact hs
  · show s.pending = s.live.countP _
    rw [h.count, List.countP_eq_length_filter]
  · intro hd; have := h.serving; simp only [cancel] at hd; rw [this] at hd; cases hd
  · intro hd; have := h.serving; simp only [cancel] at hd; rw [this] at hd; cases hd

/-- **cancel_drains.** If every blocking operation of every goroutine kind has a cancellation alternative or a
guaranteed partner, every kind that sends traces is a registered sender and registration and `Done()` go
together, then from ANY configuration of live goroutines of these kinds, after `cancel`, running the remaining
actors for at most `measure s` steps (one per blocking operation / send / return still ahead) and giving the
broadcaster one more turn leaves: no goroutine, tracer done, subscriber channels closed. -/
theorem cancel_drains (t : List Kind) (ht : tableOk t = true) (s : St) (h : s.wf t) :
    (drain (measure s) (cancel s)).live = [] ∧
    (drain (measure s) (cancel s)).tracerDone = true ∧
    (drain (measure s) (cancel s)).subsClosed = true :=
  drain_spec (measure s) (inv_of_wf ht h) (Nat.le_refl _)

/-- … and this does not depend on the scheduler: along EVERY schedule from the cancelled state, no live goroutine
is ever unable to take its next step ("nothing stays blocked, whichever node each token was at"), exactly
`measure s` goroutine steps are available in total, and once they are used up the next turn of the broadcaster
closes the subscriber channels. -/
theorem cancel_drains_any_schedule (t : List Kind) (ht : tableOk t = true) (s : St) (h : s.wf t)
    (ls : List Label) (s' : St) (hr : run (cancel s) ls = some s') :
    actorSteps ls ≤ measure s ∧
    (∀ i, i < s'.live.length → (stepActor s' i).isSome = true) ∧
    (actorSteps ls = measure s → s'.live = []) ∧
    (s'.live = [] → (poll s').tracerDone = true ∧ (poll s').subsClosed = true) := by
  have hinv := inv_of_wf ht h
  have ⟨h', hm⟩ := run_inv hinv ls hr
  have hmc : measure (cancel s) = measure s := rfl
  refine ⟨by omega, fun i hi => no_deadlock h' hi, ?_, ?_⟩
  · intro he
    exact measure_eq_zero.mp (by omega)
  · intro he
    have := poll_done_of_empty h' he
    exact ⟨this.1, this.2.1⟩

/-- **tracer_spin_bounded.** The broadcaster's post-cancel polling (its `select` keeps choosing the closed
`ctx.Done()`): a turn is futile exactly while a registered sender is still counted; with one turn after every
goroutine step (the hot loop) the number of futile turns is at most `measure s`, and the polling has ended. -/
theorem tracer_spin_bounded (t : List Kind) (ht : tableOk t = true) (s : St) (h : s.wf t) :
    (drainRR (measure s) (cancel s)).tracerDone = true ∧
    (drainRR (measure s) (cancel s)).polls ≤ s.polls + measure s :=
  let r := drainRR_spec (measure s) (inv_of_wf ht h) (Nat.le_refl _)
  ⟨r.2.1, r.2.2.2⟩

/-- one turn of the broadcaster: futile iff the WaitGroup counter is not zero; it ends when the last registered
sender is done -/
theorem poll_ends_iff (s : St) (hc : s.cancelled = true) (hd : s.tracerDone = false) :
    ((poll s).tracerDone = true ↔ s.pending = 0) ∧ ((poll s).polls = s.polls + 1 ↔ s.pending ≠ 0) := by
  unfold poll
  by_cases hp : s.pending = 0 <;> simp [hc, hd, hp]

/-! ### what goes wrong when a row of the table fails (the witness forms) -/

/-- not drained, and never will be, whatever is scheduled -/
def Stuck (s : St) : Prop :=
  (s.live ≠ [] ∨ s.tracerDone = false) ∧
  ∀ (ls : List Label) (s' : St), run s ls = some s' →
    s'.live = s.live ∧ s'.tracerDone = s.tracerDone ∧ s'.subsClosed = s.subsClosed

/-- a kind fails: some configuration of goroutines of this kind alone, cancelled, reaches a stuck state -/
def KindFails (k : Kind) : Prop :=
  ∃ s : St, s.wf [k] ∧ ∃ (ls : List Label) (s1 : St), run (cancel s) ls = some s1 ∧ Stuck s1

/-- states that differ only in the poll counter -/
def samePolls (s s' : St) : Prop :=
  s'.live = s.live ∧ s'.pending = s.pending ∧ s'.cancelled = s.cancelled ∧ s'.tracerDone = s.tracerDone ∧
  s'.subsClosed = s.subsClosed

theorem frozen_forever (s : St) (hc : s.cancelled = true) (hp : s.tracerDone = true ∨ s.pending ≠ 0)
    (hstep : ∀ s', samePolls s s' → ∀ i, stepActor s' i = none) :
    ∀ (ls : List Label) (s0 s' : St), samePolls s s0 → run s0 ls = some s' → samePolls s s' := by
  intro ls
  induction ls with
  | nil => intro s0 s' h0 hr; simp [run] at hr; subst hr; exact h0
  | cons l ls ih =>
    intro s0 s' h0 hr
    cases l with
    | actor i => simp [run, step, hstep s0 h0 i] at hr
    | poll =>
      simp only [run, step] at hr
      refine ih (poll s0) s' ?_ hr
      obtain ⟨h1, h2, h3, h4, h5⟩ := h0
      unfold poll
      split
      · exact ⟨h1, h2, h3, h4, h5⟩
      · next hnd =>
        split
        · next hz =>
          exfalso
          rcases hp with hp | hp
          · rw [← h4] at hp; simp [hp] at hnd
          · rw [← h2] at hp; exact hp hz
        · exact ⟨h1, h2, h3, h4, h5⟩

theorem stuck_of_frozen (s : St) (hc : s.cancelled = true) (hp : s.tracerDone = true ∨ s.pending ≠ 0)
    (hstep : ∀ s', samePolls s s' → ∀ i, stepActor s' i = none)
    (hbad : s.live ≠ [] ∨ s.tracerDone = false) : Stuck s := by
  refine ⟨hbad, ?_⟩
  intro ls s' hr
  have := frozen_forever s hc hp hstep ls s s' ⟨rfl, rfl, rfl, rfl, rfl⟩ hr
  exact ⟨this.1, this.2.2.2.1, this.2.2.2.2⟩

/-- **D20 form.** A kind that sends traces without being a registered sender: the tracer does not wait for it, so
it can terminate first; the goroutine is then parked in `tracer.Send` for ever (a leaked goroutine). -/
theorem unregistered_sender_leaks (k : Kind) (hs : k.sends = true) (hr : k.registered = false) : KindFails k := by
  let a : Actor := { registered := false, callsDone := k.callsDone, todo := [.send] }
  let s : St := { live := [a], pending := 0, cancelled := false, tracerDone := false, subsClosed := false, polls := 0 }
  refine ⟨s, ⟨?_, rfl, rfl⟩, [.poll], poll (cancel s), rfl, ?_⟩
  · intro b hb
    simp [s] at hb; subst hb
    exact ⟨k, by simp, hr.symm, rfl, by intro act hact; simp [a] at hact; subst hact; exact hs⟩
  · have hps : poll (cancel s) = { (cancel s) with tracerDone := true, subsClosed := true } := by
      simp [poll, cancel, s]
    rw [hps]
    refine stuck_of_frozen _ rfl (Or.inl rfl) ?_ (Or.inl (by simp [cancel, s]))
    intro s' ⟨h1, _, _, h4, _⟩ i
    simp only [cancel, s] at h1 h4
    unfold stepActor
    cases i with
    | zero => simp [h1, Actor.enabled, a, h4]
    | succ i => simp [h1]

/-- **D22 form.** A registered sender parked at a blocking operation that has neither a cancellation alternative
nor a guaranteed partner: it never returns, the WaitGroup counter never reaches zero, the tracer never ends (every
turn of the broadcaster is futile: it polls for ever) and the subscriber channels are never closed. For a kind
that is not registered the goroutine is leaked just the same (the tracer may end). -/
theorem parked_operation_leaks (k : Kind) (o : Op) (ho : o ∈ k.ops) (hp : o.passable = false) : KindFails k := by
  let a : Actor := { registered := k.registered, callsDone := k.callsDone, todo := [.block o] }
  let n : Nat := if k.registered then 1 else 0
  let s : St := { live := [a], pending := n, cancelled := false, tracerDone := false, subsClosed := false, polls := 0 }
  have hpass : o.cancelAlt = false ∧ o.partner = false := by
    simpa [Op.passable] using hp
  refine ⟨s, ⟨?_, ?_, rfl⟩, [.poll], poll (cancel s), rfl, ?_⟩
  · intro b hb
    simp [s] at hb; subst hb
    exact ⟨k, by simp, rfl, rfl, by intro act hact; simp [a] at hact; subst hact; exact ho⟩
  · simp only [s, n, a, List.filter_cons, List.filter_nil]
    cases k.registered <;> rfl
  · have hfrozen : ∀ (s0 : St), s0.live = [a] → ∀ i, stepActor s0 i = none := by
      intro s0 h1 i
      unfold stepActor
      cases i with
      | zero => simp [h1, Actor.enabled, a, hpass.1, hpass.2]
      | succ i => simp [h1]
    cases hreg : k.registered with
    | true =>
      have hps : poll (cancel s) = { (cancel s) with polls := 1 } := by
        simp [poll, cancel, s, n, hreg]
      rw [hps]
      refine stuck_of_frozen _ rfl (Or.inr (by simp [cancel, s, n, hreg])) ?_ (Or.inl (by simp [cancel, s]))
      intro s' ⟨h1, _, _, _, _⟩ i
      exact hfrozen s' (by simpa [cancel, s] using h1) i
    | false =>
      have hps : poll (cancel s) = { (cancel s) with tracerDone := true, subsClosed := true } := by
        simp [poll, cancel, s, n, hreg]
      rw [hps]
      refine stuck_of_frozen _ rfl (Or.inl rfl) ?_ (Or.inl (by simp [cancel, s]))
      intro s' ⟨h1, _, _, _, _⟩ i
      exact hfrozen s' (by simpa [cancel, s] using h1) i

/-- a registered sender parked for good keeps the broadcaster polling: for every `n` there is a schedule with `n`
futile turns, and the tracer is still not done -/
theorem parked_registered_spins (o : Op) (hp : o.passable = false) (c : Bool) (n : Nat) :
    let s : St := { live := [{ registered := true, callsDone := c, todo := [.block o] }], pending := 1,
                    cancelled := true, tracerDone := false, subsClosed := false, polls := 0 }
    ∃ s', run s (List.replicate n .poll) = some s' ∧ s'.polls = n ∧ s'.tracerDone = false ∧ s'.subsClosed = false := by
  intro s
  have gen : ∀ (n p : Nat), ∃ s', run { s with polls := p } (List.replicate n .poll) = some s' ∧ s'.polls = p + n ∧
      s'.tracerDone = false ∧ s'.subsClosed = false := by
    intro n
    induction n with
    | zero => intro p; exact ⟨_, rfl, rfl, rfl, rfl⟩
    | succ n ih =>
      intro p
      obtain ⟨s', h1, h2, h3, h4⟩ := ih (p + 1)
      refine ⟨s', ?_, by omega, h3, h4⟩
      simp only [List.replicate_succ, run, step]
      have : poll { s with polls := p } = { s with polls := p + 1 } := by simp [poll, s]
      rw [this]; exact h1
  obtain ⟨s', h1, h2, h3, h4⟩ := gen n 0
  exact ⟨s', h1, by omega, h3, h4⟩

/-- a kind that registers a sender handle and never calls `Done()` on it: the goroutine returns, the counter stays
up, the tracer never ends -/
theorem registered_never_done (k : Kind) (hr : k.registered = true) (hd : k.callsDone = false) : KindFails k := by
  let a : Actor := { registered := true, callsDone := false, todo := [] }
  let s : St := { live := [a], pending := 1, cancelled := false, tracerDone := false, subsClosed := false, polls := 0 }
  refine ⟨s, ⟨?_, rfl, rfl⟩, [.actor 0], { (cancel s) with live := [] }, ?_, ?_⟩
  · intro b hb
    simp [s] at hb; subst hb
    exact ⟨k, by simp, hr.symm, hd.symm, by intro act hact; simp [a] at hact⟩
  · simp [run, step, stepActor, cancel, s, a, Actor.enabled]
  · refine stuck_of_frozen _ rfl (Or.inr (by simp [cancel, s])) ?_ (Or.inr rfl)
    intro s' ⟨h1, _, _, _, _⟩ i
    simp only at h1
    unfold stepActor
    simp [h1]

/-- every way a row can fail the side condition (short of calling `Done()` on a handle that was never registered,
which the Go runtime answers with a panic) has a stuck witness -/
theorem bad_kind_fails (k : Kind) (hbad : k.ok = false) (hnp : k.callsDone = true → k.registered = true) :
    KindFails k := by
  by_cases hops : k.ops.all Op.passable = true
  · by_cases hsend : k.sends = true ∧ k.registered = false
    · exact unregistered_sender_leaks k hsend.1 hsend.2
    · have hreg : k.registered = true ∧ k.callsDone = false := by
        cases h1 : k.registered <;> cases h2 : k.callsDone <;> cases h3 : k.sends <;>
          simp_all [Kind.ok]
      exact registered_never_done k hreg.1 hreg.2
  · have : ∃ o ∈ k.ops, o.passable = false := by
      have h : k.ops.all Op.passable = false := by simpa using hops
      rw [List.all_eq_false] at h
      obtain ⟨o, ho, hp⟩ := h
      exact ⟨o, ho, by simpa using hp⟩
    obtain ⟨o, ho, hp⟩ := this
    exact parked_operation_leaks k o ho hp

/-- the dichotomy over a whole table: it drains from every configuration and schedule, or a named row has a stuck
witness -/
def Drains (t : List Kind) : Prop :=
  ∀ (s : St), s.wf t →
    ((drain (measure s) (cancel s)).live = [] ∧ (drain (measure s) (cancel s)).tracerDone = true ∧
      (drain (measure s) (cancel s)).subsClosed = true) ∧
    ∀ (ls : List Label) (s' : St), run (cancel s) ls = some s' →
      actorSteps ls ≤ measure s ∧ (∀ i, i < s'.live.length → (stepActor s' i).isSome = true)

theorem table_dichotomy (t : List Kind) (hnp : ∀ k ∈ t, k.callsDone = true → k.registered = true) :
    if tableOk t = true then Drains t else ∃ k ∈ t, k.ok = false ∧ KindFails k := by
  split
  · next h =>
    intro s hs
    exact ⟨cancel_drains t h s hs, fun ls s' hr =>
      let r := cancel_drains_any_schedule t h s hs ls s' hr; ⟨r.1, r.2.1⟩⟩
  · next h =>
    have : ∃ k ∈ t, k.ok = false := by
      have h' : t.all Kind.ok = false := by simpa [tableOk] using h
      rw [List.all_eq_false] at h'
      obtain ⟨k, hk, hb⟩ := h'
      exact ⟨k, hk, by simpa using hb⟩
    obtain ⟨k, hk, hb⟩ := this
    exact ⟨k, hk, hb, bad_kind_fails k hb (hnp k hk)⟩

/-! ### task requests and the cancel (code shape of `genericTask.run`) -/

theorem trun_valid (s : TL) : ∀ (ls : List TLabel) (s' : TL) (evs : List TEv),
    trun true s ls = some (s', evs) → (s.observed = true → s.cancelled = true) →
    validEvs s.cancelled s.observed evs = true := by
  intro ls
  induction ls generalizing s with
  | nil => intro s' evs h _; simp [trun] at h; rw [h.2]; simp [validEvs]
  | cons l ls ih =>
    intro s' evs h hoc
    simp only [trun] at h
    cases hst : tstep true s l with
    | none => simp [hst] at h
    | some p =>
      obtain ⟨s1, e⟩ := p
      rw [hst] at h
      simp only at h
      cases hrun : trun true s1 ls with
      | none => simp [hrun] at h
      | some q =>
        obtain ⟨s2, es⟩ := q
        rw [hrun] at h
        simp only [Option.some.injEq, Prod.mk.injEq] at h
        obtain ⟨_, rfl⟩ := h
        cases l with
        | cancel =>
          simp only [tstep, Option.some.injEq, Prod.mk.injEq] at hst
          obtain ⟨rfl, rfl⟩ := hst
          have := ih _ s2 es hrun (by intro _; rfl)
          simpa [validEvs] using this
        | enqueue =>
          simp only [tstep, Option.some.injEq, Prod.mk.injEq] at hst
          obtain ⟨rfl, rfl⟩ := hst
          have := ih _ s2 es hrun hoc
          simpa using this
        | recv =>
          simp only [tstep] at hst
          split at hst
          · cases hst
          · next hc =>
            simp only [Option.some.injEq, Prod.mk.injEq] at hst
            obtain ⟨rfl, rfl⟩ := hst
            have := ih _ s2 es hrun hoc
            simp only [Bool.or_eq_true, decide_eq_true_eq, not_or] at hc
            have hobs : s.observed = false := by simpa using hc.1
            simp only [List.cons_append, List.nil_append, validEvs, Bool.true_and, Bool.and_eq_true,
              Bool.not_eq_eq_eq_not, Bool.not_true, Bool.or_eq_true]
            refine ⟨⟨hobs, ?_⟩, by simpa using this⟩
            cases s.cancelled <;> simp
        | observe =>
          simp only [tstep] at hst
          split at hst
          · next hc =>
            simp only [Option.some.injEq, Prod.mk.injEq] at hst
            obtain ⟨rfl, rfl⟩ := hst
            have hcc : s.cancelled = true := by
              simp only [Bool.and_eq_true] at hc; exact hc.1
            have := ih _ s2 es hrun (by intro _; exact hcc)
            simpa [validEvs] using this
          · cases hst

/-- **no_request_after_cancel.** In every run of the task loop whose requests carry the loop's context: a request
emitted after the cancel has an already-cancelled context, and none is emitted once the loop has taken its
`ctx.Done()` branch. -/
theorem no_request_after_cancel (ls : List TLabel) (s' : TL) (evs : List TEv)
    (h : trun true {} ls = some (s', evs)) : validEvs false false evs = true :=
  trun_valid {} ls s' evs h (by intro h; cases h)

/-- what `validEvs` says, spelled out on a split of the event sequence -/
theorem validEvs_after_cancel : ∀ (evs : List TEv) (c o : Bool), validEvs c o evs = true →
    ∀ (pre post : List TEv) (b : Bool), evs = pre ++ TEv.cancel :: post → TEv.request b ∈ post → b = true := by
  have after : ∀ (post : List TEv) (o : Bool) (b : Bool), validEvs true o post = true → TEv.request b ∈ post → b = true := by
    intro post
    induction post with
    | nil => intro o b _ hm; cases hm
    | cons e es ih =>
      intro o b hv hm
      cases e with
      | cancel =>
        simp only [List.mem_cons, reduceCtorEq, false_or] at hm
        exact ih o b (by simpa [validEvs] using hv) hm
      | observe =>
        simp only [List.mem_cons, reduceCtorEq, false_or] at hm
        exact ih true b (by simpa [validEvs] using hv) hm
      | request b' =>
        simp only [validEvs, Bool.not_true, Bool.false_or, Bool.and_eq_true, Bool.not_eq_eq_eq_not] at hv
        rcases List.mem_cons.mp hm with hm | hm
        · injection hm with hm; subst hm; exact hv.1.2
        · exact ih o b hv.2 hm
  intro evs
  induction evs with
  | nil => intro c o _ pre post b he; cases pre <;> simp at he
  | cons e es ih =>
    intro c o hv pre post b he hm
    cases pre with
    | nil =>
      simp only [List.nil_append, List.cons.injEq] at he
      obtain ⟨rfl, rfl⟩ := he
      exact after es o b (by simpa [validEvs] using hv) hm
    | cons p pre =>
      simp only [List.cons_append, List.cons.injEq] at he
      obtain ⟨rfl, rfl⟩ := he
      cases e with
      | cancel => exact ih true o (by simpa [validEvs] using hv) pre post b rfl hm
      | observe => exact ih c true (by simpa [validEvs] using hv) pre post b rfl hm
      | request b' =>
        simp only [validEvs, Bool.and_eq_true] at hv
        exact ih c o hv.2 pre post b rfl hm

theorem validEvs_after_observe : ∀ (evs : List TEv) (c o : Bool), validEvs c o evs = true →
    ∀ (pre post : List TEv) (b : Bool), evs = pre ++ TEv.observe :: post → TEv.request b ∉ post := by
  have after : ∀ (post : List TEv) (c : Bool) (b : Bool), validEvs c true post = true → TEv.request b ∉ post := by
    intro post
    induction post with
    | nil => intro c b _ hm; cases hm
    | cons e es ih =>
      intro c b hv hm
      cases e with
      | cancel =>
        simp only [List.mem_cons, reduceCtorEq, false_or] at hm
        exact ih true b (by simpa [validEvs] using hv) hm
      | observe =>
        simp only [List.mem_cons, reduceCtorEq, false_or] at hm
        exact ih c b (by simpa [validEvs] using hv) hm
      | request b' => simp [validEvs] at hv
  intro evs
  induction evs with
  | nil => intro c o _ pre post b he; cases pre <;> simp at he
  | cons e es ih =>
    intro c o hv pre post b he
    cases pre with
    | nil =>
      simp only [List.nil_append, List.cons.injEq] at he
      obtain ⟨rfl, rfl⟩ := he
      exact after es c b (by simpa [validEvs] using hv)
    | cons p pre =>
      simp only [List.cons_append, List.cons.injEq] at he
      obtain ⟨rfl, rfl⟩ := he
      cases e with
      | cancel => exact ih true o (by simpa [validEvs] using hv) pre post b rfl
      | observe => exact ih c true (by simpa [validEvs] using hv) pre post b rfl
      | request b' =>
        simp only [validEvs, Bool.and_eq_true] at hv
        exact ih c o hv.2 pre post b rfl

/-- witness when the request does not carry the loop's context (e.g. the builder's default `context.TODO()`):
a request after the cancel with a live context -/
theorem request_live_ctx_without_carry :
    ∃ evs s', trun false {} [.enqueue, .cancel, .recv] = some (s', evs) ∧ validEvs false false evs = false :=
  ⟨_, _, rfl, by decide⟩

/-! ### the statement -/

/-- C07 on the protocol model, for a table `t` of goroutine kinds and the fact `carries`:
after a cancel, from every configuration and along every schedule the instance drains (no goroutine left, tracer
done, subscriber channels closed, bounded polling), and task requests racing with the cancel carry a cancelled
context while none follows the loop's observation of it. -/
def C07_statement (t : List Kind) (carries : Bool) : Prop :=
  Drains t ∧
  (∀ s, s.wf t → (drainRR (measure s) (cancel s)).tracerDone = true ∧
      (drainRR (measure s) (cancel s)).polls ≤ s.polls + measure s) ∧
  (∀ ls s' evs, trun carries {} ls = some (s', evs) → validEvs false false evs = true)

def C07ok (t : List Kind) (carries : Bool) : Bool := tableOk t && carries

theorem C07_general (t : List Kind) (carries : Bool) (h : C07ok t carries = true) : C07_statement t carries := by
  simp only [C07ok, Bool.and_eq_true] at h
  obtain ⟨ht, rfl⟩ := h
  refine ⟨?_, fun s hs => tracer_spin_bounded t ht s hs, fun ls s' evs h => no_request_after_cancel ls s' evs h⟩
  intro s hs
  exact ⟨cancel_drains t ht s hs, fun ls s' hr =>
    let r := cancel_drains_any_schedule t ht s hs ls s' hr; ⟨r.1, r.2.1⟩⟩

/-- the statement holds for every table that meets the side conditions — kept under this name so that the audit
and the manifest have one headline theorem -/
theorem C07_holds : ∀ (t : List Kind) (carries : Bool), C07ok t carries = true → C07_statement t carries :=
  C07_general

/-! ### non-vacuity -/

/-- a table that meets the side conditions: a registered node loop with a cancellable select and a buffered reply,
and an unregistered helper that never sends -/
def sampleTable : List Kind :=
  [{ name := "node.run", ops := [⟨true, false⟩, ⟨false, true⟩], sends := true, registered := true, callsDone := true },
   { name := "helper", ops := [⟨true, false⟩], sends := false, registered := false, callsDone := false }]

def sampleState : St :=
  { live := [{ registered := true, callsDone := true, todo := [.block ⟨true, false⟩, .send] },
             { registered := false, callsDone := false, todo := [.block ⟨true, false⟩] },
             { registered := true, callsDone := true, todo := [.send, .block ⟨false, true⟩, .send] }],
    pending := 2, cancelled := false, tracerDone := false, subsClosed := false, polls := 0 }

example : tableOk sampleTable = true := by decide
example : C07ok sampleTable true = true := by decide

theorem sampleState_wf : sampleState.wf sampleTable := by
  refine ⟨?_, by decide, rfl⟩
  intro a ha
  simp only [sampleState, List.mem_cons, List.not_mem_nil, or_false] at ha
  rcases ha with rfl | rfl | rfl
  · exact ⟨_, List.mem_cons_self, rfl, rfl, by intro act h; simp at h; rcases h with rfl | rfl <;> simp⟩
  · exact ⟨_, List.mem_cons_of_mem _ List.mem_cons_self, rfl, rfl, by intro act h; simp at h; subst h; simp⟩
  · exact ⟨_, List.mem_cons_self, rfl, rfl, by
      intro act h; simp at h; rcases h with rfl | rfl | rfl <;> simp⟩

example : (drain (measure sampleState) (cancel sampleState)).live = [] ∧
    (drain (measure sampleState) (cancel sampleState)).tracerDone = true :=
  let r := cancel_drains sampleTable (by decide) sampleState sampleState_wf; ⟨r.1, r.2.1⟩

/-- the run is not trivial: nine goroutine steps are needed, eight do not suffice -/
example : measure sampleState = 9 := by decide
example : (drain 8 (cancel sampleState)).live ≠ [] := by decide

/-- the witness forms are inhabited by rows of the shape found in /repo -/
example : KindFails { name := "genericTask.run", ops := [⟨true, false⟩], sends := true, registered := false, callsDone := false } :=
  unregistered_sender_leaks _ rfl rfl
example : KindFails { name := "flow.Start$1", ops := [⟨false, false⟩], sends := true, registered := true, callsDone := true } :=
  parked_operation_leaks _ ⟨false, false⟩ List.mem_cons_self rfl
example : ∃ ls s' evs, trun true {} ls = some (s', evs) ∧ TEv.request true ∈ evs :=
  ⟨[.enqueue, .cancel, .recv], _, _, rfl, by decide⟩

end Bpmn.Props.C07
