import Bpmn.Model.Lockset
/-!
# C17 — what Lean carries: the lock-set discipline implies race freedom (all traces, unbounded)

A data race is a property of real executions under Go's memory model; no theorem about a model exhibits
one. What is proved here is the logic that is meant to PREVENT races:

* `lockset_sound` — in every well-formed interleaving (any number of threads, locks, locations, any length)
  in which every pair of conflicting accesses is performed under a common lock with at least one side in
  write mode, every conflicting pair is ordered by happens-before (a release of that lock by the first
  thread followed by an acquisition by the second lies strictly between them).
* `policy_sound` — the access-local form: each location is owned by one thread, or guarded by one lock
  (writers in write mode, readers in any mode), or only accessed atomically.
* `table_sound` — the form the regenerated lock table feeds: if the pairwise check `tableOk` holds for a
  list of access sites and every access event of a well-formed interleaving is an execution of one of those
  sites (holding at least the sibling mutexes the site syntactically holds), the interleaving is race free.

`C17_statement` keeps the full property visible; it is NOT proved (see `C17_holds` for what is).
-/
namespace Bpmn.Props.C17
open Bpmn.Model.Lockset

/-! ### lock state along a trace -/

theorem st_succ (τ : List Ev) (n : Nat) :
    st τ (n + 1) = match τ[n]? with
      | some e => step (st τ n) e
      | none => st τ n := by
  unfold st
  rw [List.take_add_one, List.foldl_append]
  cases τ[n]? <;> simp [Option.toList]

/-- a write-mode holder of a lock is its only holder -/
def Excl (h : Held) : Prop :=
  ∀ m t, (m, t, Mode.w) ∈ h → ∀ e ∈ h, e.1 = m → e = (m, t, Mode.w)

theorem excl_step (h : Held) (e : Ev) (hx : Excl h) (hok : ok h e) : Excl (step h e) := by
  cases e with
  | acq t m a =>
    cases a with
    | w =>
      intro m' t' hin e' he' hm'
      have hok' : ∀ e ∈ h, e.1 ≠ m := hok
      simp only [step, List.mem_cons] at hin he'
      rcases hin with hin | hin
      · -- the new entry is the write-mode holder
        have hmm : m' = m := by injection hin
        rcases he' with he' | he'
        · rw [he', hin]
        · exact absurd (hm'.trans hmm) (hok' e' he')
      · have hne : m' ≠ m := hok' _ hin
        rcases he' with he' | he'
        · rw [he'] at hm'; exact absurd hm'.symm hne
        · exact hx m' t' hin e' he' hm'
    | r =>
      intro m' t' hin e' he' hm'
      have hok' : ∀ e ∈ h, ¬ (e.1 = m ∧ e.2.2 = Mode.w) := hok
      simp only [step, List.mem_cons] at hin he'
      rcases hin with hin | hin
      · injection hin with _ h2; injection h2 with _ h3; cases h3
      · rcases he' with he' | he'
        · rw [he'] at hm'
          exact absurd ⟨hm'.symm, rfl⟩ (hok' _ hin)
        · exact hx m' t' hin e' he' hm'
  | rel t m a =>
    intro m' t' hin e' he' hm'
    exact hx m' t' (List.mem_of_mem_erase hin) e' (List.mem_of_mem_erase he') hm'
  | fork t c => exact hx
  | acc t x w a => exact hx

theorem excl_st (τ : List Ev) (wf : WF τ) : ∀ n, Excl (st τ n) := by
  intro n
  induction n with
  | zero => intro m t hin; simp [st] at hin
  | succ n ih =>
    rw [st_succ]
    by_cases hn : n < τ.length
    · rw [List.getElem?_eq_getElem hn]
      exact excl_step _ _ ih (wf n hn)
    · rw [List.getElem?_eq_none (Nat.le_of_not_lt hn)]
      exact ih

/-- an entry that disappears between two points of the trace was released in between -/
theorem rel_between (τ : List Ev) (x : LockId × Tid × Mode) (i : Nat) :
    ∀ d, x ∈ st τ i → x ∉ st τ (i + d) →
      ∃ k, i ≤ k ∧ k < i + d ∧ τ[k]? = some (.rel x.2.1 x.1 x.2.2) := by
  intro d
  induction d with
  | zero => intro h1 h2; exact absurd h1 h2
  | succ d ih =>
    intro h1 h2
    by_cases hx : x ∈ st τ (i + d)
    · -- removed by the event at position i + d
      have hs := st_succ τ (i + d)
      rw [show i + (d + 1) = i + d + 1 from rfl] at h2
      cases hev : τ[i + d]? with
      | none => rw [hs, hev] at h2; exact absurd hx h2
      | some e =>
        rw [hs, hev] at h2
        cases e with
        | acq t m a => exact absurd (List.mem_cons_of_mem _ hx) h2
        | fork t c => exact absurd hx h2
        | acc t y w a => exact absurd hx h2
        | rel t m a =>
          have heq : x = (m, t, a) := by
            apply Classical.byContradiction
            intro hne
            exact h2 ((List.mem_erase_of_ne hne).2 hx)
          refine ⟨i + d, Nat.le_add_right _ _, Nat.lt_succ_self _, ?_⟩
          rw [heq]; exact hev
    · obtain ⟨k, h3, h4, h5⟩ := ih h1 hx
      exact ⟨k, h3, Nat.lt_succ_of_lt h4, h5⟩

/-- an entry that appears between two points of the trace was acquired in between -/
theorem acq_between (τ : List Ev) (x : LockId × Tid × Mode) (i : Nat) :
    ∀ d, x ∉ st τ i → x ∈ st τ (i + d) →
      ∃ l, i ≤ l ∧ l < i + d ∧ τ[l]? = some (.acq x.2.1 x.1 x.2.2) := by
  intro d
  induction d with
  | zero => intro h1 h2; exact absurd h2 h1
  | succ d ih =>
    intro h1 h2
    by_cases hx : x ∈ st τ (i + d)
    · obtain ⟨l, h3, h4, h5⟩ := ih h1 hx
      exact ⟨l, h3, Nat.lt_succ_of_lt h4, h5⟩
    · have hs := st_succ τ (i + d)
      rw [show i + (d + 1) = i + d + 1 from rfl] at h2
      cases hev : τ[i + d]? with
      | none => rw [hs, hev] at h2; exact absurd h2 hx
      | some e =>
        rw [hs, hev] at h2
        cases e with
        | rel t m a => exact absurd (List.mem_of_mem_erase h2) hx
        | fork t c => exact absurd h2 hx
        | acc t y w a => exact absurd h2 hx
        | acq t m a =>
          simp only [step, List.mem_cons] at h2
          rcases h2 with h2 | h2
          · refine ⟨i + d, Nat.le_add_right _ _, Nat.lt_succ_self _, ?_⟩
            rw [h2]; exact hev
          · exact absurd h2 hx

/-! ### the main theorem -/

/-- **Lock-set soundness.** In every well-formed interleaving, if every pair of conflicting accesses is
performed under a common lock (at least one side holding it in write mode), then every conflicting pair is
ordered by happens-before. Unbounded: any trace, any number of threads / locks / locations. -/
theorem lockset_sound (τ : List Ev) (wf : WF τ) (disc : Discipline τ) : RaceFree τ := by
  intro i j e e' hij hi hj hc
  obtain ⟨hil, hie⟩ := List.getElem?_eq_some_iff.1 hi
  obtain ⟨hjl, hje⟩ := List.getElem?_eq_some_iff.1 hj
  have hg := disc i hil j hjl hij (by rw [hie, hje]; exact hc)
  rw [hie, hje] at hg
  obtain ⟨p, hp, q, hq, hm, hpt, hqt, hmode⟩ := hg
  -- both events are accesses of different threads
  cases e with
  | acq => exact absurd hc (by simp [conflict])
  | rel => exact absurd hc (by simp [conflict])
  | fork => exact absurd hc (by simp [conflict])
  | acc t x w a =>
  cases e' with
  | acq => exact absurd hc (by simp [conflict])
  | rel => exact absurd hc (by simp [conflict])
  | fork => exact absurd hc (by simp [conflict])
  | acc t' x' w' a' =>
  have hne : t ≠ t' := hc.1
  obtain ⟨m, pt, pa⟩ := p
  obtain ⟨m', qt, qa⟩ := q
  simp only [Ev.tid] at hpt hqt
  simp only at hm hmode
  subst hm hpt hqt
  have hexI := excl_st τ wf i
  by_cases hin : (m, qt, qa) ∈ st τ i
  · -- both hold the lock at position i: impossible
    rcases hmode with hw | hw
    · subst hw
      have := hexI m pt hp _ hin rfl
      injection this with _ h2; injection h2 with h3 _
      exact absurd h3.symm hne
    · subst hw
      have := hexI m qt hin _ hp rfl
      injection this with _ h2; injection h2 with h3 _
      exact absurd h3 hne
  · -- the second thread acquires the lock somewhere in [i, j)
    have hj' : j = i + (j - i) := by omega
    rw [hj'] at hq
    obtain ⟨l, hil', hlj, hl⟩ := acq_between τ (m, qt, qa) i (j - i) hin hq
    have hli : l ≠ i := by
      intro h; subst h; rw [hi] at hl; cases hl
    have hil2 : i < l := by omega
    have hll : l < τ.length := (List.getElem?_eq_some_iff.1 hl).1
    have hokl := wf l hll
    rw [(List.getElem?_eq_some_iff.1 hl).2] at hokl
    -- at that acquisition the first thread no longer holds it
    have hnot : (m, pt, pa) ∉ st τ l := by
      intro hmem
      cases qa with
      | w => exact (hokl _ hmem) rfl
      | r =>
        rcases hmode with hw | hw
        · subst hw; exact (hokl _ hmem) ⟨rfl, rfl⟩
        · cases hw
    have hl' : l = i + (l - i) := by omega
    rw [hl'] at hnot
    obtain ⟨k, hik, hkl, hk⟩ := rel_between τ (m, pt, pa) i (l - i) hp hnot
    have hki : k ≠ i := by
      intro h; subst h; rw [hi] at hk; cases hk
    have h1 : HB τ i k := HB.po (by omega) hi hk rfl
    have h2 : HB τ k l := HB.sw (by omega) hk hl hmode
    have h3 : HB τ l j := HB.po (by omega) hl hj rfl
    exact HB.trans h1 (HB.trans h2 h3)

/-! ### access-local form -/

/-- every access event respects the policy of its location -/
def Respects (pol : Loc → Policy) (τ : List Ev) : Prop :=
  ∀ n t x w a, τ[n]? = some (.acc t x w a) → respects τ n (pol x) (.acc t x w a)

theorem policy_discipline (pol : Loc → Policy) (τ : List Ev) (hr : Respects pol τ) : Discipline τ := by
  intro i hi j hj hij hc
  have hi' := List.getElem?_eq_getElem hi
  have hj' := List.getElem?_eq_getElem hj
  generalize τ[i] = e at hc hi' ⊢
  generalize τ[j] = e' at hc hj' ⊢
  cases e with
  | acq => exact absurd hc (by simp [conflict])
  | rel => exact absurd hc (by simp [conflict])
  | fork => exact absurd hc (by simp [conflict])
  | acc t x w a =>
  cases e' with
  | acq => exact absurd hc (by simp [conflict])
  | rel => exact absurd hc (by simp [conflict])
  | fork => exact absurd hc (by simp [conflict])
  | acc t' x' w' a' =>
  obtain ⟨hne, hx, hw, hat⟩ := hc
  subst hx
  have r1 := hr i t x w a hi'
  have r2 := hr j t' x w' a' hj'
  cases hp : pol x with
  | owned t0 =>
    rw [hp] at r1 r2
    simp only [respects] at r1 r2
    exact absurd (r1.trans r2.symm) hne
  | atomicOnly =>
    rw [hp] at r1 r2
    simp only [respects] at r1 r2
    exact absurd ⟨r1, r2⟩ hat
  | guardedBy m =>
    rw [hp] at r1 r2
    simp only [respects] at r1 r2
    simp only [Ev.tid]
    rcases hw with hw | hw
    · have h1 := r1.1 hw
      cases w' with
      | true => exact ⟨_, h1, _, r2.1 rfl, rfl, rfl, rfl, Or.inl rfl⟩
      | false =>
        obtain ⟨b, h2⟩ := r2.2 rfl
        exact ⟨_, h1, _, h2, rfl, rfl, rfl, Or.inl rfl⟩
    · have h2 := r2.1 hw
      cases w with
      | true => exact ⟨_, r1.1 rfl, _, h2, rfl, rfl, rfl, Or.inl rfl⟩
      | false =>
        obtain ⟨b, h1⟩ := r1.2 rfl
        exact ⟨_, h1, _, h2, rfl, rfl, rfl, Or.inr rfl⟩

/-- **Policy form.** If each location is owned by one thread, or guarded by one lock (writers hold it in write
mode, readers in any mode), or only accessed through sync/atomic, every well-formed interleaving is race free. -/
theorem policy_sound (pol : Loc → Policy) (τ : List Ev) (wf : WF τ) (hr : Respects pol τ) : RaceFree τ :=
  lockset_sound τ wf (policy_discipline pol τ hr)

/-! ### table form (what the regenerated lock table feeds) -/

/-- every access event of the interleaving is an execution of one of the listed sites -/
def Covered (rows : List Row) (τ : List Ev) : Prop :=
  ∀ n t x w a, τ[n]? = some (.acc t x w a) → ∃ r ∈ rows, r.covers τ n (.acc t x w a)

theorem table_discipline (rows : List Row) (hok : tableOk rows = true) (τ : List Ev)
    (hcov : Covered rows τ) : Discipline τ := by
  intro i hi j hj hij hc
  have hi' := List.getElem?_eq_getElem hi
  have hj' := List.getElem?_eq_getElem hj
  generalize τ[i] = e at hc hi' ⊢
  generalize τ[j] = e' at hc hj' ⊢
  cases e with
  | acq => exact absurd hc (by simp [conflict])
  | rel => exact absurd hc (by simp [conflict])
  | fork => exact absurd hc (by simp [conflict])
  | acc t x w a =>
  cases e' with
  | acq => exact absurd hc (by simp [conflict])
  | rel => exact absurd hc (by simp [conflict])
  | fork => exact absurd hc (by simp [conflict])
  | acc t' x' w' a' =>
  obtain ⟨hne, hx, hw, hat⟩ := hc
  subst hx
  obtain ⟨o, f⟩ := x
  obtain ⟨r1, hr1, c1⟩ := hcov i t (o, f) w a hi'
  obtain ⟨r2, hr2, c2⟩ := hcov j t' (o, f) w' a' hj'
  simp only [Row.covers] at c1 c2
  obtain ⟨f1, w1, a1, hl1⟩ := c1
  obtain ⟨f2, w2, a2, hl2⟩ := c2
  have hp : pairOk r1 r2 = true := by
    have := List.all_eq_true.1 hok r1 hr1
    exact List.all_eq_true.1 this r2 hr2
  unfold pairOk at hp
  simp only [Bool.or_eq_true, Bool.and_eq_true, bne_iff_ne, ne_eq, Bool.not_eq_true', List.any_eq_true,
    beq_iff_eq] at hp
  rcases hp with ((hp | hp) | hp) | hp
  · exact absurd (f1.trans f2.symm) hp
  · rw [w1, w2] at hp
    rcases hw with hw | hw
    · rw [hw] at hp; exact absurd hp.1 (by simp)
    · rw [hw] at hp; exact absurd hp.2 (by simp)
  · rw [a1, a2] at hp; exact absurd hp hat
  · obtain ⟨p, hpm, q, hqm, hname, hmode⟩ := hp
    have h1 := hl1 p hpm
    have h2 := hl2 q hqm
    rw [← hname] at h2
    exact ⟨_, h1, _, h2, rfl, rfl, rfl, hmode⟩

/-- **Table form.** If the pairwise check holds for a list of access sites and every access event of a
well-formed interleaving is an execution of one of those sites, the interleaving is race free. -/
theorem table_sound (rows : List Row) (hok : tableOk rows = true) (τ : List Ev) (wf : WF τ)
    (hcov : Covered rows τ) : RaceFree τ :=
  lockset_sound τ wf (table_discipline rows hok τ hcov)

/-! ### non-vacuity -/

/-- a writer under `Lock`, then a reader under `RLock`, of the same location by different threads -/
def exTrace : List Ev :=
  [.acq 1 (7, "mu") .w, .acc 1 (7, "items") true false, .rel 1 (7, "mu") .w,
   .acq 2 (7, "mu") .r, .acc 2 (7, "items") false false, .rel 2 (7, "mu") .r]

example : WF exTrace := by decide
example : Discipline exTrace := by decide
example : conflict exTrace[1] exTrace[4] := by decide
/-- the hypotheses of `lockset_sound` are satisfiable by a trace that does contain a conflicting pair -/
theorem exTrace_racefree : RaceFree exTrace := lockset_sound exTrace (by decide) (by decide)

def exRows : List Row :=
  [{ field := "items", fn := "Put", write := true, atomic := false, fresh := false, held := [("mu", .w)] },
   { field := "items", fn := "Get", write := false, atomic := false, fresh := false, held := [("mu", .r)] }]

example : tableOk exRows = true := by decide
example : Covered exRows exTrace := by
  intro n t x w a h
  match n, h with
  | 1, h => cases h; exact ⟨exRows[0], by decide, rfl, rfl, rfl, by decide⟩
  | 4, h => cases h; exact ⟨exRows[1], by decide, rfl, rfl, rfl, by decide⟩
  | 0, h | 2, h | 3, h | 5, h => cases h
  | n + 6, h => simp [exTrace] at h

/-- the same two accesses without the lock: a well-formed trace that is NOT race free, so `RaceFree` is not
trivially true and the `Discipline` hypothesis cannot be dropped -/
def exRacy : List Ev := [.acc 1 (7, "items") true false, .acc 2 (7, "items") false false]

theorem exRacy_wf : WF exRacy := by decide

theorem exRacy_no_hb : ∀ i j, HB exRacy i j → False := by
  intro i j h
  induction h with
  | @po i j e e' hij hi hj ht =>
    have hj2 : j < 2 := (List.getElem?_eq_some_iff.1 hj).1
    have hi0 : i = 0 := by omega
    have hj1 : j = 1 := by omega
    subst hi0 hj1
    simp [exRacy] at hi hj
    subst hi hj
    simp [Ev.tid] at ht
  | @sw i j t t' m a b hij hi hj hm =>
    have hi2 : i < 2 := (List.getElem?_eq_some_iff.1 hi).1
    match i, hi2, hi with
    | 0, _, hi => simp [exRacy] at hi
    | 1, _, hi => simp [exRacy] at hi
  | @go i j t c e hij hi hj ht =>
    have hi2 : i < 2 := (List.getElem?_eq_some_iff.1 hi).1
    match i, hi2, hi with
    | 0, _, hi => simp [exRacy] at hi
    | 1, _, hi => simp [exRacy] at hi
  | trans _ _ ih _ => exact ih

theorem exRacy_races : ¬ RaceFree exRacy := by
  intro h
  exact exRacy_no_hb 0 1 (h 0 1 _ _ (by decide) rfl rfl (by decide))

/-! ### the property -/

/-- What C17 asks, kept visible. `Exec` would have to be the set of interleavings the real engine can produce
under concurrent use; no such semantics of the Go program is defined here, so this statement is NOT proved
(and cannot be by this technique: a data race is a property of real executions). The third conjunct of the
property (outcome allowed by the sequential token semantics) is checked dynamically through the C01 judge. -/
def C17_statement (Exec : List Ev → Prop) : Prop :=
  ∀ τ, Exec τ → WF τ ∧ RaceFree τ

/-- What IS proved: for any set of interleavings that respect the lock semantics and whose accesses are
executions of a site table passing the pairwise check, the race-freedom part of `C17_statement` holds. -/
theorem C17_holds (rows : List Row) (hok : tableOk rows = true) (Exec : List Ev → Prop)
    (hwf : ∀ τ, Exec τ → WF τ) (hcov : ∀ τ, Exec τ → Covered rows τ) : C17_statement Exec :=
  fun τ h => ⟨hwf τ h, table_sound rows hok τ (hwf τ h) (hcov τ h)⟩


/-- `policy_sound`'s hypothesis is satisfiable: the location is guarded by the lock -/
example : Respects (fun _ => Policy.guardedBy (7, "mu")) exTrace := by
  intro n t x w a h
  match n, h with
  | 1, h => cases h; exact ⟨fun _ => (by decide), fun h => (by cases h)⟩
  | 4, h => cases h; exact ⟨fun h => (by cases h), fun _ => ⟨.r, (by decide)⟩⟩
  | 0, h | 2, h | 3, h | 5, h => cases h
  | n + 6, h => simp [exTrace] at h

/-- `C17_holds`'s hypotheses are satisfiable by a non-empty set of executions -/
example : C17_statement (fun τ => τ = exTrace) :=
  C17_holds exRows (by decide) _ (fun τ h => by subst h; decide) (fun τ h => by
    subst h
    intro n t x w a h
    match n, h with
    | 1, h => cases h; exact ⟨exRows[0], by decide, rfl, rfl, rfl, by decide⟩
    | 4, h => cases h; exact ⟨exRows[1], by decide, rfl, rfl, rfl, by decide⟩
    | 0, h | 2, h | 3, h | 5, h => cases h
    | n + 6, h => simp [exTrace] at h)

end Bpmn.Props.C17
