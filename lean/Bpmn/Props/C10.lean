import Bpmn.Lemmas.Boundary
/-!
# C10 — Boundary events: interrupting replaces the normal flow, non-interrupting adds

The model (`Bpmn.Model.Boundary`) is a port of what /repo does, parametric in the extracted facts `Cfg`. Every
statement below quantifies over ALL numbers and kinds of boundary events, all runs (= all schedules of the atomic
steps, all interleavings of {activate, deliver i, answer} with the internal steps, repeated events included) of one
host activity (task or sub-process: they share the cancel protocol).

The three target statements, as the property demands them:

* `boundary_interrupting` — an event matched by an interrupting boundary event while the host waits for its answer:
  the exception flow continues exactly once and the normal flow never, whatever follows (an answer included);
* `boundary_non_interrupting` — at quiescence every non-interrupting boundary event has continued its exception flow
  once per event that reached it, and the normal flow has continued if the host was answered;
* `boundary_inert_after_completion` — once the host has completed nothing reacts any more and the boundary events
  hold no token of the instance's wait group.

What is proved:

* `C10_counterexample_interrupting` — FALSE for every value of the facts (D7): the activity's cancel never stops a
  request in flight; `normal_flow_unstoppable`, `answered_then_normal` say so for every reachable state and schedule.
  `interrupting_partial` keeps what is true: the exception flow continues exactly once.
* `C10_counterexample_second_event` — FALSE for every value of the facts: the listener's flow moves on and the catch
  event is never re-armed, so only the FIRST event continues the exception flow. `non_interrupting_partial`: at
  quiescence `conts + dropped = got` (so "once per event" holds exactly when no event was dropped) and the normal
  flow continues on answer.
* `boundary_inert_after_completion` — a dichotomy in two facts: no reaction iff events are gated by `active`
  (`inert_no_reaction` / `C10_counterexample_ungated`); no wait-group contribution iff the listener flows do not
  share the instance wait group (`inert_wg_unshared` / `C10_counterexample_armed_listener`, D8);
  `inert_partial`: with the shared wait group the contribution is zero exactly when every listener has fired.
* `C10_counterexample_cancel_before_request` / `host_always_requested` — a dichotomy in the order of the harness's
  two activation statements (fact `early`) and the gate: with `active := 1` stored BEFORE `activity.NextAction` (the
  code today) an interrupting event that arrives between the two makes the activity's run loop exit before it ever
  handled its first message: the host is never executed and its token never leaves; with the other order (and the
  gate) the host is requested on every schedule. `host_requested_partial` is the exact excluding hypothesis for any
  facts (at quiescence the host is unreached, waiting or done unless a cancel was accepted first).
* `handover_inactive`, `handover_inert` / `C10_counterexample_late_reset` — a dichotomy in the order of the answer
  relay's `active := 0` and `out <- rsp` (fact `resetFirst`): reset first (the code today) — once the token holds
  the answer no event reaches a boundary event, on EVERY schedule, not only at quiescence; reset afterwards — the
  host has completed, the normal flow has continued, and an event delivered now still continues the exception flow.
* `exception_progress` / `C10_counterexample_no_once` — the `cancellation` once is what keeps a second interrupting
  listener from waiting forever for a verdict of an activity whose run loop has exited.
-/
namespace Bpmn.Props.C10
open Bpmn.Model.Boundary

def contsAt (s : St) (i : Nat) : Nat := (s.ls[i]?.map (·.conts)).getD 0

/-! ## The target statements -/

def boundary_interrupting (cfg : Cfg) : Prop :=
  ∀ (kinds : List Bool) (s1 : St) (i : Nat) (l : Listener), Reach cfg kinds s1 →
    s1.req = .pending → s1.ls[i]? = some l → l.interrupting = true → l.phase = .armed → 0 < l.inbox →
    ∀ (tr : List Label) (s2 : St), run cfg s1 (.catchTake i :: tr) = some s2 →
      contsAt s2 i ≤ 1 ∧ (quiet cfg s2 = true → contsAt s2 i = 1) ∧ s2.normal = 0

def boundary_non_interrupting (cfg : Cfg) : Prop :=
  ∀ (kinds : List Bool) (s : St), Reach cfg kinds s → quiet cfg s = true →
    (∀ l ∈ s.ls, l.interrupting = false → l.conts = l.got) ∧ (Req.answered.rank ≤ s.req.rank → s.normal = 1)

def boundary_inert_after_completion (cfg : Cfg) : Prop :=
  ∀ (kinds : List Bool) (s : St), Reach cfg kinds s → quiet cfg s = true → s.req = .done →
    (∀ (tr : List Label) (s' : St), run cfg s tr = some s' → s' = s) ∧ wgListeners cfg s = 0

/-- the full property, kept visible: it does NOT hold of the code (see the counterexamples) -/
def C10_statement (cfg : Cfg) : Prop :=
  boundary_interrupting cfg ∧ boundary_non_interrupting cfg ∧ boundary_inert_after_completion cfg

/-! ## D7: the cancel never stops the normal flow -/

/-- whatever the listeners, the once and the activity's run loop did: a host that waits for its answer continues on
its normal flow when answered (in the late-activation order the harness may still have to execute its second
statement before its forwarder exists) -/
theorem normal_flow_unstoppable (cfg : Cfg) (kinds : List Bool) (s : St) (hr : Reach cfg kinds s) (h : s.req = .pending) :
    ∃ tr s', run cfg s (.answer :: .respond :: tr ++ [.hostTake]) = some s' ∧ s'.normal = s.normal + 1 := by
  have g := reach_ginv hr
  have h3 := g.stage3 (by rw [h]; simp [Req.rank])
  have h2 := g.stage2
  have hcl : s.cleared = false := by
    cases hc : s.cleared with
    | false => rfl
    | true => have := (g.clear hc).1; rw [h] at this; simp [Req.rank] at this
  by_cases hst : s.hStage = 2
  · cases hrf : cfg.resetFirst with
    | true =>
      refine ⟨[.clear, .forward], ({ s with req := .done, cleared := true, hActive := false, normal := s.normal + 1 } : St), ?_, rfl⟩
      simp [run, step, h, hst, hrf, hcl]
    | false =>
      refine ⟨[.forward], ({ s with req := .done, normal := s.normal + 1 } : St), ?_, rfl⟩
      simp [run, step, h, hst, hrf]
  · have he : cfg.early = false := by
      cases he : cfg.early with
      | false => rfl
      | true => rw [he] at h3; simp at h3; exact absurd h3 hst
    have h1 : s.hStage = 1 := by rw [he] at h3; simp at h3; omega
    cases hrf : cfg.resetFirst with
    | true =>
      refine ⟨[.harnessActive, .clear, .forward],
        ({ s with req := .done, cleared := true, normal := s.normal + 1, hStage := 2, hActive := false } : St), ?_, rfl⟩
      simp [run, step, h, h1, he, hrf, hcl]
    | false =>
      refine ⟨[.harnessActive, .forward],
        ({ s with req := .done, normal := s.normal + 1, hStage := 2, hActive := true } : St), ?_, rfl⟩
      simp [run, step, h, h1, he, hrf]

/-- for every schedule: once the host was answered, at quiescence the normal flow has continued -/
theorem answered_then_normal (cfg : Cfg) (kinds : List Bool) (s : St) (hr : Reach cfg kinds s) (hq : quiet cfg s = true)
    (ha : Req.answered.rank ≤ s.req.rank) : s.normal = 1 := by
  have g := reach_ginv hr
  have hn := g.normal
  obtain ⟨_, q2, q3⟩ := quiet_req cfg s hq
  cases hreq : s.req <;> simp_all [Req.rank]
  -- responded: the relay exists (both activation statements ran) or the second one is still enabled
  exfalso
  have hf := quiet_no_internal cfg s hq .forward rfl
  have hc := quiet_no_internal cfg s hq .clear rfl
  have h1 := quiet_no_internal cfg s hq .harnessActive rfl
  have h3 := g.stage3 (by rw [hreq]; simp [Req.rank])
  have h2 := g.stage2
  simp only [step, hreq] at hf hc h1
  cases he : cfg.early with
  | true =>
    rw [he] at h3; simp at h3
    cases hrf : cfg.resetFirst <;> cases hcl : s.cleared <;> simp [h3, hrf, hcl] at hf hc
  | false =>
    rw [he] at h3; simp at h3
    have : s.hStage = 1 ∨ s.hStage = 2 := by omega
    rcases this with h | h
    · simp [h, he] at h1
    · cases hrf : cfg.resetFirst <;> cases hcl : s.cleared <;> simp [h, hrf, hcl] at hf hc

/-- the answer relay's two statements (`active := 0`, `out <- rsp`), in the order of the source -/
def handover (cfg : Cfg) : List Label :=
  if cfg.resetFirst then [.clear, .forward] else [.forward, .clear]

/-- the harness's two activation statements, in the order of the source -/
def activation (cfg : Cfg) : List Label :=
  if cfg.early then [.harnessActive, .harnessCall] else [.harnessCall, .harnessActive]

def d7pre (cfg : Cfg) : List Label := .activate :: activation cfg ++ [.taskTake, .reqStart, .arm 0, .deliver 0]
def d7post (cfg : Cfg) : List Label :=
  [.transform 0, .taskTake, .move 0, .answer, .respond] ++ handover cfg ++ [.hostTake, .decrement]

/-- the witness run, as a computation -/
def d7check (cfg : Cfg) : Bool :=
  match run cfg (init [true]) (d7pre cfg) with
  | some s1 =>
    s1.req == .pending &&
    (match s1.ls[0]? with
     | some l => l.interrupting && l.phase == .armed && decide (0 < l.inbox)
     | none => false) &&
    (match run cfg s1 (.catchTake 0 :: d7post cfg) with
     | some s2 => s2.normal == 1 && contsAt s2 0 == 1 && quiet cfg s2
     | none => false)
  | none => false

theorem d7check_all : ∀ cfg : Cfg, d7check cfg = true := by
  intro ⟨g, o, r, sh, e, rf⟩
  cases g <;> cases o <;> cases r <;> cases sh <;> cases e <;> cases rf <;> decide

/-- D7, for EVERY value of the extracted facts: one interrupting boundary event, the event arrives while the task
waits, the exception flow continues — and the normal flow continues as well when the task is answered afterwards -/
theorem C10_counterexample_interrupting (cfg : Cfg) : ¬ boundary_interrupting cfg := by
  intro h
  have hc := d7check_all cfg
  unfold d7check at hc
  cases h1 : run cfg (init [true]) (d7pre cfg) with
  | none => simp [h1] at hc
  | some s1 =>
    simp only [h1, Bool.and_eq_true, beq_iff_eq] at hc
    obtain ⟨⟨hreq, hl⟩, h2⟩ := hc
    cases hl0 : s1.ls[0]? with
    | none => simp [hl0] at hl
    | some l =>
      simp only [hl0, Bool.and_eq_true, beq_iff_eq, decide_eq_true_eq] at hl
      cases hr2 : run cfg s1 (.catchTake 0 :: d7post cfg) with
      | none => simp [hr2] at h2
      | some s2 =>
        simp only [hr2, Bool.and_eq_true, beq_iff_eq] at h2
        have := (h [true] s1 0 l (reach_of_run h1) hreq hl0 hl.1.1 hl.1.2 hl.2 (d7post cfg) s2 hr2).2.2
        omega

/-- with the once, at quiescence every listener is unstarted, armed, or has moved on: none is stuck between the
match and the continuation -/
theorem exception_progress (cfg : Cfg) (hc : cfg.once = true) (kinds : List Bool) (s : St) (hr : Reach cfg kinds s)
    (hq : quiet cfg s = true) (i : Nat) (l : Listener) (hl : s.ls[i]? = some l) :
    l.phase = .idle ∨ l.phase = .armed ∨ l.phase = .moved := by
  obtain ⟨_, q2, q3, q4⟩ := quiet_listener cfg s hq i l hl
  cases hp : l.phase with
  | idle => exact Or.inl rfl
  | armed => exact Or.inr (Or.inl rfl)
  | moved => exact Or.inr (Or.inr rfl)
  | starting => exact absurd hp q2
  | fired => exact absurd hp q3
  | ready => exact absurd hp q4
  | cancelling =>
    exfalso
    have hmem := reach_cancel hr i l hl hp
    have ho := reach_once hc hr
    have hnc : 1 ≤ nc s.tq := by
      unfold nc
      exact List.countP_pos_iff.mpr ⟨_, hmem, rfl⟩
    have hne : s.tq ≠ [] := by intro e; rw [e] at hmem; cases hmem
    rcases ho.alive hnc with ht | hreq
    · rcases quiet_tq cfg s hq with h2 | h2
      · rw [ht] at h2; cases h2
      · exact hne h2
    · -- the token is at the harness: one of its activation statements is enabled
      have h1 := quiet_no_internal cfg s hq .harnessActive rfl
      have h2 := quiet_no_internal cfg s hq .harnessCall rfl
      have g := reach_ginv hr
      have h3 := g.stage2
      have h4 : s.hStage ≠ 2 := by
        intro h
        have := g.stage4 h
        rw [hreq] at this; simp [Req.rank] at this
      simp only [step, hreq] at h1 h2
      have : s.hStage = 0 ∨ s.hStage = 1 := by omega
      cases he : cfg.early <;> rcases this with h | h <;> simp [h, he] at h1 h2

/-- what remains true of `boundary_interrupting`: the exception flow continues exactly once (never twice on any
schedule; once at quiescence) -/
theorem interrupting_partial (cfg : Cfg) (hc : cfg.once = true) (kinds : List Bool) (s1 : St) (i : Nat) (l : Listener)
    (hr : Reach cfg kinds s1) (hl : s1.ls[i]? = some l) (hp : l.phase = .armed) (hin : 0 < l.inbox)
    (tr : List Label) (s2 : St) (hrun : run cfg s1 (.catchTake i :: tr) = some s2) :
    contsAt s2 i ≤ 1 ∧ (quiet cfg s2 = true → contsAt s2 i = 1) := by
  have hr2 : Reach cfg kinds s2 := reach_run hr _ hrun
  -- the step itself: the listener fires
  rw [run_cons] at hrun
  obtain ⟨n, hn⟩ : ∃ n, l.inbox = n + 1 := ⟨l.inbox - 1, by omega⟩
  have hstep : step cfg s1 (.catchTake i) = some { s1 with ls := s1.ls.set i { l with inbox := n, phase := .fired } } := by
    simp [step, hl, hn, hp]
  rw [hstep] at hrun
  simp only [Option.bind_some] at hrun
  have hlen : i < s1.ls.length := by
    rcases Nat.lt_or_ge i s1.ls.length with h | h
    · exact h
    · rw [List.getElem?_eq_none h] at hl; cases hl
  obtain ⟨b, hb, hrank, _⟩ := run_listener_mono cfg tr _ s2 hrun i { l with inbox := n, phase := .fired }
    (by simp [hlen])
  have hinv := reach_linv hr2 b (List.mem_of_getElem? hb)
  have hc1 : contsAt s2 i = b.conts := by simp [contsAt, hb]
  rw [hc1, hinv.1]
  constructor
  · split <;> omega
  · intro hq
    rcases exception_progress cfg hc kinds s2 hr2 hq i b hb with h | h | h <;> simp [h, LPhase.rank] at hrank ⊢

/-! ## Non-interrupting: only the first event -/

def d2run (cfg : Cfg) : List Label :=
  .activate :: activation cfg ++ [.taskTake, .reqStart, .arm 0, .deliver 0, .catchTake 0, .transform 0, .move 0,
   .deliver 0, .catchTake 0]

def d2check (cfg : Cfg) : Bool :=
  match run cfg (init [false]) (d2run cfg) with
  | some s => quiet cfg s && (match s.ls[0]? with
      | some l => !l.interrupting && l.got == 2 && l.conts == 1
      | none => false)
  | none => false

theorem d2check_all : ∀ cfg : Cfg, d2check cfg = true := by
  intro ⟨g, o, r, sh, e, rf⟩
  cases g <;> cases o <;> cases r <;> cases sh <;> cases e <;> cases rf <;> decide

/-- for every value of the facts: two events on a non-interrupting boundary event while the host waits continue the
exception flow once, not twice (the catch event is not re-armed) -/
theorem C10_counterexample_second_event (cfg : Cfg) : ¬ boundary_non_interrupting cfg := by
  intro h
  have hc := d2check_all cfg
  unfold d2check at hc
  cases h1 : run cfg (init [false]) (d2run cfg) with
  | none => simp [h1] at hc
  | some s =>
    simp only [h1, Bool.and_eq_true] at hc
    obtain ⟨hq, hl⟩ := hc
    cases hl0 : s.ls[0]? with
    | none => simp [hl0] at hl
    | some l =>
      simp only [hl0, Bool.and_eq_true, beq_iff_eq, Bool.not_eq_true'] at hl
      have := (h [false] s (reach_of_run h1) hq).1 l (List.mem_of_getElem? hl0) hl.1.1
      omega

/-- at quiescence every event that reached a boundary event either continued the exception flow or was dropped
(looked at while the catch event was not activated: before arming, or after the first match); and an answered host
has continued on its normal flow. So `boundary_non_interrupting` holds exactly for the runs in which no event
was dropped. -/
theorem non_interrupting_partial (cfg : Cfg) (hc : cfg.once = true) (kinds : List Bool) (s : St)
    (hr : Reach cfg kinds s) (hq : quiet cfg s = true) :
    (∀ l ∈ s.ls, l.conts + l.dropped = l.got) ∧ (Req.answered.rank ≤ s.req.rank → s.normal = 1) := by
  refine ⟨?_, answered_then_normal cfg kinds s hr hq⟩
  intro l hl
  obtain ⟨i, hi⟩ := List.mem_iff_getElem?.mp hl
  have hinv := reach_linv hr l hl
  obtain ⟨q1, _, _, _⟩ := quiet_listener cfg s hq i l hi
  rw [hinv.1, hinv.2, q1]
  rcases exception_progress cfg hc kinds s hr hq i l hi with h | h | h <;> simp [h, LPhase.rank] <;> omega

/-! ## After completion -/

theorem quiet_done_inactive (cfg : Cfg) (kinds : List Bool) (s : St) (hr : Reach cfg kinds s) (hq : quiet cfg s = true)
    (hd : s.req = .done) : s.hActive = false := by
  have g := reach_ginv hr
  have hcl : s.cleared = true := by
    rcases quiet_clear cfg s hq hd with h | h
    · exact h
    · exact g.handed h (by rw [hd]; simp [Req.rank])
  exact (g.clear hcl).2.1

/-- gated: from a quiescent state in which the host has completed every run leaves the state as it is (events are
not forwarded, nothing else is enabled) -/
theorem inert_no_reaction (cfg : Cfg) (hg : cfg.gated = true) (kinds : List Bool) (s : St) (hr : Reach cfg kinds s)
    (hq : quiet cfg s = true) (hd : s.req = .done) (tr : List Label) (s' : St) (hrun : run cfg s tr = some s') : s' = s := by
  have hin := quiet_done_inactive cfg kinds s hr hq hd
  induction tr with
  | nil => simp [run] at hrun; exact hrun.symm
  | cons lb t ih =>
    rw [run_cons] at hrun
    have hstep : step cfg s lb = none ∨ step cfg s lb = some s := by
      cases hi : lb.internal with
      | true => exact Or.inl (quiet_no_internal cfg s hq lb hi)
      | false =>
        cases lb <;> simp [Label.internal] at hi
        · left; simp [step, hd]
        · rename_i i
          cases hl : s.ls[i]? with
          | none => left; simp [step, hl]
          | some l => right; simp [step, hl, hg, hin]
        · left; simp [step, hd]
    rcases hstep with h | h
    · rw [h] at hrun; simp at hrun
    · rw [h] at hrun; simp only [Option.bind_some] at hrun; exact ih hrun

def ungatedRun (cfg : Cfg) : List Label :=
  .activate :: activation cfg ++ [.taskTake, .reqStart, .arm 0, .answer, .respond] ++ handover cfg ++ [.hostTake, .decrement]

def ungatedCheck (cfg : Cfg) : Bool :=
  match run cfg (init [false]) (ungatedRun cfg) with
  | some s => quiet cfg s && s.req == .done &&
      (match run cfg s [.deliver 0, .catchTake 0, .transform 0, .move 0] with
       | some s' => contsAt s' 0 == 1 && contsAt s 0 == 0
       | none => false)
  | none => false

theorem ungatedCheck_all : ∀ cfg : Cfg, cfg.gated = false → ungatedCheck cfg = true := by
  intro ⟨g, o, r, sh, e, rf⟩ h
  cases g <;> cases o <;> cases r <;> cases sh <;> cases e <;> cases rf <;> first | decide | (simp at h)

/-- not gated: an event delivered after the host completed continues the exception flow -/
theorem C10_counterexample_ungated (cfg : Cfg) (hg : cfg.gated = false) : ¬ boundary_inert_after_completion cfg := by
  intro h
  have hc := ungatedCheck_all cfg hg
  unfold ungatedCheck at hc
  cases h1 : run cfg (init [false]) (ungatedRun cfg) with
  | none => simp [h1] at hc
  | some s =>
    simp only [h1, Bool.and_eq_true, beq_iff_eq] at hc
    obtain ⟨⟨hq, hd⟩, h2⟩ := hc
    cases h3 : run cfg s [.deliver 0, .catchTake 0, .transform 0, .move 0] with
    | none => simp [h3] at h2
    | some s' =>
      simp only [h3, Bool.and_eq_true, beq_iff_eq] at h2
      have := (h [false] s (reach_of_run h1) hq hd).1 _ s' h3
      rw [this] at h2
      omega

theorem inert_wg_unshared (cfg : Cfg) (hs : cfg.share = false) (s : St) : wgListeners cfg s = 0 := by
  simp [wgListeners, hs]

def d8run (cfg : Cfg) : List Label :=
  .activate :: activation cfg ++ [.taskTake, .reqStart, .arm 0, .answer, .respond] ++ handover cfg ++ [.hostTake, .decrement]

def d8check (cfg : Cfg) : Bool :=
  match run cfg (init [false]) (d8run cfg) with
  | some s => quiet cfg s && s.req == .done && wgListeners cfg s == 1 && !canComplete cfg s
  | none => false

theorem d8check_all : ∀ cfg : Cfg, cfg.share = true → d8check cfg = true := by
  intro ⟨g, o, r, sh, e, rf⟩ h
  cases g <;> cases o <;> cases r <;> cases sh <;> cases e <;> cases rf <;> first | decide | (simp at h)

/-- D8: the listener flows share the instance wait group: a boundary event that never fired keeps a token alive
after the host completed, and the instance cannot complete -/
theorem C10_counterexample_armed_listener (cfg : Cfg) (hs : cfg.share = true) : ¬ boundary_inert_after_completion cfg := by
  intro h
  have hc := d8check_all cfg hs
  unfold d8check at hc
  cases h1 : run cfg (init [false]) (d8run cfg) with
  | none => simp [h1] at hc
  | some s =>
    simp only [h1, Bool.and_eq_true, beq_iff_eq] at hc
    have := (h [false] s (reach_of_run h1) hc.1.1.1 hc.1.1.2).2
    omega

/-- the exact excluding hypothesis for D8: with the shared wait group the listeners contribute nothing at quiescence
iff none of them is still armed (every boundary event has fired) -/
theorem inert_partial (cfg : Cfg) (hc : cfg.once = true) (kinds : List Bool) (s : St) (hr : Reach cfg kinds s)
    (hq : quiet cfg s = true) (hf : ∀ l ∈ s.ls, l.phase ≠ .armed) : wgListeners cfg s = 0 := by
  unfold wgListeners
  split
  · rw [List.length_eq_zero_iff, List.filter_eq_nil_iff]
    intro l hl
    obtain ⟨i, hi⟩ := List.mem_iff_getElem?.mp hl
    rcases exception_progress cfg hc kinds s hr hq i l hi with h | h | h
    · simp [Listener.atBoundary, h]
    · exact absurd h (hf l hl)
    · simp [Listener.atBoundary, h]
  · rfl

/-- … and an armed listener does contribute -/
theorem armed_listener_counts (cfg : Cfg) (hs : cfg.share = true) (s : St) (l : Listener) (hl : l ∈ s.ls)
    (hp : l.phase = .armed) : 0 < wgListeners cfg s := by
  unfold wgListeners
  rw [if_pos hs]
  exact List.length_pos_of_mem (List.mem_filter.mpr ⟨hl, by simp [Listener.atBoundary, hp]⟩)

/-! ## The once -/

def noOnceRun (cfg : Cfg) : List Label :=
  .activate :: activation cfg ++ [.taskTake, .reqStart, .arm 0, .arm 1, .answer, .respond, .decrement, .deliver 0, .deliver 1,
   .catchTake 0, .catchTake 1, .transform 0, .taskTake, .move 0, .transform 1] ++ handover cfg ++ [.hostTake]

def noOnceCheck (cfg : Cfg) : Bool :=
  match run cfg (init [true, true]) (noOnceRun cfg) with
  | some s => quiet cfg s && (match s.ls[1]? with
      | some l => l.phase == .cancelling && l.conts == 0 && l.got == 1 && l.dropped == 0
      | none => false)
  | none => false

theorem noOnceCheck_all : ∀ cfg : Cfg, cfg.once = false → noOnceCheck cfg = true := by
  intro ⟨g, o, r, sh, e, rf⟩ h
  cases g <;> cases o <;> cases r <;> cases sh <;> cases e <;> cases rf <;> first | decide | (simp at h)

/-- without the once: two interrupting boundary events fire while the answer races them; the first cancel is accepted
(the request goroutine has already left the counter), the activity's run loop exits, and the second listener waits
forever for a verdict: its event was matched and its exception flow never continues -/
theorem C10_counterexample_no_once (cfg : Cfg) (ho : cfg.once = false) :
    ∃ (s : St) (l : Listener), Reach cfg [true, true] s ∧ quiet cfg s = true ∧ s.ls[1]? = some l ∧
      l.phase = .cancelling ∧ l.conts = 0 ∧ l.got = 1 ∧ l.dropped = 0 := by
  have hc := noOnceCheck_all cfg ho
  unfold noOnceCheck at hc
  cases h1 : run cfg (init [true, true]) (noOnceRun cfg) with
  | none => simp [h1] at hc
  | some s =>
    simp only [h1, Bool.and_eq_true] at hc
    cases hl : s.ls[1]? with
    | none => simp [hl] at hc
    | some l =>
      simp only [hl, Bool.and_eq_true, beq_iff_eq] at hc
      exact ⟨s, l, reach_of_run h1, hc.1, hl, hc.2.1.1.1, hc.2.1.1.2, hc.2.1.2, hc.2.2⟩

/-! ## An interrupting event between the harness's `active := 1` and the activity's first message -/

/-- the witness: with `active := 1` first, the event arrives between the two statements; without the gate it may
arrive before both -/
def strandRun (cfg : Cfg) : List Label :=
  if cfg.early then
    [.activate, .harnessActive, .arm 0, .deliver 0, .catchTake 0, .transform 0, .harnessCall, .taskTake, .move 0]
  else
    [.activate, .arm 0, .deliver 0, .catchTake 0, .transform 0, .harnessCall, .taskTake, .move 0, .harnessActive]

def strandCheck (cfg : Cfg) : Bool :=
  match run cfg (init [true]) (strandRun cfg) with
  | some s => quiet cfg s && s.req == .atTask && !s.tRun && s.hreqs == 0 && contsAt s 0 == 1 && s.verdicts == [true]
  | none => false

theorem strandCheck_all : ∀ cfg : Cfg, (cfg.early = true ∨ cfg.gated = false) → strandCheck cfg = true := by
  intro ⟨g, o, r, sh, e, rf⟩ h
  cases g <;> cases o <;> cases r <;> cases sh <;> cases e <;> cases rf <;> first | decide | (simp at h)

/-- the harness is active before the activity has its first message (or events are not gated at all): an
interrupting event in that window puts the cancel message FIRST into the activity's inbox; the freshly started run
loop finds no request counted, accepts, and exits; the next-action message is never handled: the activity is never
executed, the host's token waits forever (the exception flow does continue) -/
theorem C10_counterexample_cancel_before_request (cfg : Cfg) (h : cfg.early = true ∨ cfg.gated = false) :
    ∃ s : St, Reach cfg [true] s ∧ quiet cfg s = true ∧ s.req = .atTask ∧ contsAt s 0 = 1 ∧
      ∀ (tr : List Label) (s' : St), run cfg s tr = some s' → s'.req = .atTask ∧ s'.hreqs = 0 ∧ s'.normal = 0 := by
  have hc := strandCheck_all cfg h
  unfold strandCheck at hc
  cases h1 : run cfg (init [true]) (strandRun cfg) with
  | none => simp [h1] at hc
  | some s =>
    simp only [h1, Bool.and_eq_true, beq_iff_eq, Bool.not_eq_true'] at hc
    obtain ⟨⟨⟨⟨⟨hq, hreq⟩, htr⟩, hh⟩, hx⟩, _⟩ := hc
    refine ⟨s, reach_of_run h1, hq, hreq, hx, ?_⟩
    intro tr s' hrun
    have hn : s.normal = 0 := by
      have := (reach_ginv (reach_of_run h1)).normal
      rw [hreq] at this; simpa using this
    obtain ⟨a, b, c⟩ := stranded_forever cfg tr s s' hrun hreq htr
    exact ⟨a, b.trans hh, c.trans hn⟩

/-- the exact excluding hypothesis, for any facts: at quiescence the host has not been reached, waits for its
answer, or has completed — unless the activity's run loop exited on an ACCEPTED cancel with its first message still
unhandled -/
theorem host_requested_partial (cfg : Cfg) (kinds : List Bool) (s : St) (hr : Reach cfg kinds s) (hq : quiet cfg s = true) :
    s.req = .none ∨ s.req = .pending ∨ s.req = .done ∨ (s.req = .atTask ∧ s.tRun = false ∧ true ∈ s.verdicts) := by
  have hri := reach_runinv hr
  have g := reach_ginv hr
  obtain ⟨q1, q2, q3⟩ := quiet_req cfg s hq
  cases hreq : s.req with
  | none => exact Or.inl rfl
  | pending => exact Or.inr (Or.inl rfl)
  | done => exact Or.inr (Or.inr (Or.inl rfl))
  | spawned => exact absurd hreq q1
  | answered => exact absurd hreq q2
  | forwarded => exact absurd hreq q3
  | responded =>
    exfalso
    have := answered_then_normal cfg kinds s hr hq (by rw [hreq]; simp [Req.rank])
    have hn := g.normal
    rw [hreq] at hn; simp at hn; omega
  | atHarness =>
    exfalso
    have h1 := quiet_no_internal cfg s hq .harnessActive rfl
    have h2 := quiet_no_internal cfg s hq .harnessCall rfl
    have h3 := g.stage2
    have h4 : s.hStage ≠ 2 := by
      intro h
      have := g.stage4 h
      rw [hreq] at this; simp [Req.rank] at this
    simp only [step, hreq] at h1 h2
    have : s.hStage = 0 ∨ s.hStage = 1 := by omega
    cases he : cfg.early <;> rcases this with h | h <;> simp [h, he] at h1 h2
  | atTask =>
    right; right; right
    have hmem := hri.queued hreq
    have hne : s.tq ≠ [] := by intro e; rw [e] at hmem; cases hmem
    have ht : s.tRun = false := by
      rcases quiet_tq cfg s hq with h | h
      · exact h
      · exact absurd h hne
    refine ⟨rfl, ht, ?_⟩
    rcases hri.exited ht with h | h
    · rw [hreq] at h; simp [Req.rank] at h
    · exact h

/-- the other side of the dichotomy: with `activity.NextAction` called BEFORE `active := 1` and events gated by
`active`, the activity's first message is always first in its inbox: at quiescence the host is unreached, waits for
its answer, or has completed, on every schedule -/
theorem host_always_requested (cfg : Cfg) (he : cfg.early = false) (hg : cfg.gated = true) (kinds : List Bool) (s : St)
    (hr : Reach cfg kinds s) (hq : quiet cfg s = true) : s.req = .none ∨ s.req = .pending ∨ s.req = .done := by
  rcases host_requested_partial cfg kinds s hr hq with h | h | h | ⟨h, ht, _⟩
  · exact Or.inl h
  · exact Or.inr (Or.inl h)
  · exact Or.inr (Or.inr h)
  · exfalso
    have := ((reach_late he hg hr).first h).1
    rw [ht] at this; cases this

/-! ## The hand-over of the answer -/

/-- with `active := 0` BEFORE `out <- rsp`: once the token holds the answer (so that the normal flow can continue) the
harness is inactive, on every schedule — not only at quiescence -/
theorem handover_inactive (cfg : Cfg) (hrf : cfg.resetFirst = true) (kinds : List Bool) (s : St) (hr : Reach cfg kinds s)
    (h : Req.forwarded.rank ≤ s.req.rank) : s.hActive = false := by
  have g := reach_ginv hr
  exact (g.clear (g.handed hrf (by simpa [Req.rank] using h))).2.1

/-- … hence (with the gate) an event delivered from then on reaches no boundary event -/
theorem handover_inert (cfg : Cfg) (hrf : cfg.resetFirst = true) (hg : cfg.gated = true) (kinds : List Bool) (s : St)
    (hr : Reach cfg kinds s) (h : Req.forwarded.rank ≤ s.req.rank) (i : Nat) :
    step cfg s (.deliver i) = some s ∨ step cfg s (.deliver i) = none := by
  have ha := handover_inactive cfg hrf kinds s hr h
  cases hl : s.ls[i]? with
  | none => right; simp [step, hl]
  | some l => left; simp [step, hl, hg, ha]

def lateResetRun (cfg : Cfg) : List Label :=
  .activate :: activation cfg ++ [.taskTake, .reqStart, .arm 0, .answer, .respond, .forward, .hostTake]

def lateResetCheck (cfg : Cfg) : Bool :=
  match run cfg (init [false]) (lateResetRun cfg) with
  | some s => s.req == .done && s.normal == 1 && contsAt s 0 == 0 &&
      (match run cfg s [.deliver 0, .catchTake 0, .transform 0, .move 0] with
       | some s' => contsAt s' 0 == 1
       | none => false)
  | none => false

theorem lateResetCheck_all : ∀ cfg : Cfg, cfg.resetFirst = false → lateResetCheck cfg = true := by
  intro ⟨g, o, r, sh, e, rf⟩ h
  cases g <;> cases o <;> cases r <;> cases sh <;> cases e <;> cases rf <;> first | decide | (simp at h)

/-- with `active := 0` AFTER the hand-over: the host has completed (the token took the answer, the normal flow has
continued) and an event delivered now still continues the exception flow -/
theorem C10_counterexample_late_reset (cfg : Cfg) (h : cfg.resetFirst = false) :
    ∃ s s' : St, Reach cfg [false] s ∧ s.req = .done ∧ s.normal = 1 ∧ contsAt s 0 = 0 ∧
      run cfg s [.deliver 0, .catchTake 0, .transform 0, .move 0] = some s' ∧ contsAt s' 0 = 1 := by
  have hc := lateResetCheck_all cfg h
  unfold lateResetCheck at hc
  cases h1 : run cfg (init [false]) (lateResetRun cfg) with
  | none => simp [h1] at hc
  | some s =>
    simp only [h1, Bool.and_eq_true, beq_iff_eq] at hc
    cases h2 : run cfg s [.deliver 0, .catchTake 0, .transform 0, .move 0] with
    | none => simp [h2] at hc
    | some s' =>
      simp only [h2, beq_iff_eq] at hc
      exact ⟨s, s', reach_of_run h1, hc.1.1.1, hc.1.1.2, hc.1.2, h2, hc.2⟩

/-! ## Summary -/

/-- exception flows never continue twice, on any schedule, for any facts -/
theorem exception_flow_at_most_once (cfg : Cfg) (kinds : List Bool) (s : St) (hr : Reach cfg kinds s) :
    ∀ l ∈ s.ls, l.conts ≤ 1 := by
  intro l hl
  have := (reach_linv hr l hl).1
  rw [this]; split <;> omega

/-- C10 does not hold of the code, for any value of the extracted facts -/
theorem C10_fails (cfg : Cfg) : ¬ C10_statement cfg := fun h => C10_counterexample_interrupting cfg h.1

/-- what does hold, under the two facts that are as they should be (once, gated) -/
def C10_partial_statement (cfg : Cfg) : Prop :=
  (∀ (kinds : List Bool) (s1 : St) (i : Nat) (l : Listener), Reach cfg kinds s1 → s1.ls[i]? = some l →
      l.phase = .armed → 0 < l.inbox → ∀ (tr : List Label) (s2 : St), run cfg s1 (.catchTake i :: tr) = some s2 →
      contsAt s2 i ≤ 1 ∧ (quiet cfg s2 = true → contsAt s2 i = 1)) ∧
  (∀ (kinds : List Bool) (s : St), Reach cfg kinds s → quiet cfg s = true →
      (∀ l ∈ s.ls, l.conts + l.dropped = l.got) ∧ (Req.answered.rank ≤ s.req.rank → s.normal = 1)) ∧
  (∀ (kinds : List Bool) (s : St), Reach cfg kinds s → quiet cfg s = true → s.req = .done →
      (∀ (tr : List Label) (s' : St), run cfg s tr = some s' → s' = s) ∧
      ((∀ l ∈ s.ls, l.phase ≠ .armed) → wgListeners cfg s = 0))

theorem C10_partial (cfg : Cfg) (ho : cfg.once = true) (hg : cfg.gated = true) : C10_partial_statement cfg :=
  ⟨fun kinds s1 i l hr hl hp hin tr s2 hrun => interrupting_partial cfg ho kinds s1 i l hr hl hp hin tr s2 hrun,
   fun kinds s hr hq => non_interrupting_partial cfg ho kinds s hr hq,
   fun kinds s hr hq hd => ⟨fun tr s' hrun => inert_no_reaction cfg hg kinds s hr hq hd tr s' hrun,
                            fun hf => inert_partial cfg ho kinds s hr hq hf⟩⟩

/-! ## Non-vacuity: the hypotheses of the implications above are met by concrete reachable states -/

def exPre : St := (run Cfg.code (init [true]) (d7pre Cfg.code)).getD (init [])
def exPost : St := (run Cfg.code exPre (.catchTake 0 :: d7post Cfg.code)).getD (init [])

/-- `interrupting_partial`, `boundary_interrupting`: a reachable state in which the host waits for its answer and an
armed interrupting listener has an event in its inbox; the run continues to a quiescent state -/
example : Reach Cfg.code [true] exPre ∧ exPre.req = .pending ∧
    exPre.ls[0]? = some { interrupting := true, phase := .armed, inbox := 1, got := 1 } ∧
    run Cfg.code exPre (.catchTake 0 :: d7post Cfg.code) = some exPost ∧ quiet Cfg.code exPost = true ∧
    contsAt exPost 0 = 1 ∧ exPost.normal = 1 :=
  ⟨reach_of_run (tr := d7pre Cfg.code) (by decide), by decide, by decide, by decide, by decide, by decide, by decide⟩

def exOne : St := (run Cfg.code (init [false]) [.activate, .harnessActive, .harnessCall, .taskTake, .reqStart, .arm 0, .deliver 0,
  .catchTake 0, .transform 0, .move 0, .answer, .respond, .clear, .forward, .hostTake, .decrement]).getD (init [])

/-- `non_interrupting_partial` with nothing dropped: one event, one continuation, the normal flow after the answer,
and (every listener fired) the instance can complete -/
example : Reach Cfg.code [false] exOne ∧ quiet Cfg.code exOne = true ∧
    exOne.ls[0]? = some { interrupting := false, phase := .moved, got := 1, conts := 1 } ∧
    exOne.normal = 1 ∧ canComplete Cfg.code exOne = true :=
  ⟨reach_of_run (tr := [.activate, .harnessActive, .harnessCall, .taskTake, .reqStart, .arm 0, .deliver 0, .catchTake 0,
      .transform 0, .move 0, .answer, .respond, .clear, .forward, .hostTake, .decrement]) (by decide),
   by decide, by decide, by decide, by decide⟩

def exDone : St := (run Cfg.code (init [false]) (d8run Cfg.code)).getD (init [])

/-- `inert_no_reaction`, `inert_partial`: a reachable quiescent state in which the host has completed (a delivery is
accepted by `step` and changes nothing) -/
example : Reach Cfg.code [false] exDone ∧ quiet Cfg.code exDone = true ∧ exDone.req = .done ∧
    step Cfg.code exDone (.deliver 0) = some exDone :=
  ⟨reach_of_run (tr := d8run Cfg.code) (by decide), by decide, by decide, by decide⟩

/-- `exception_progress`, `answered_then_normal`: see the two examples above (quiescent, answered). The cancel in the
D7 witness is REFUSED by the code's facts: -/
example : ((run Cfg.code (init [true]) (d7pre Cfg.code ++ .catchTake 0 :: d7post Cfg.code)).map (·.verdicts)) = some [false] := by decide

end Bpmn.Props.C10
