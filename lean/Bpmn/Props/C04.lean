import Bpmn.Model.Gateway
/-!
# C04 — Exclusive gateway routes each token to exactly one deterministic branch

Layer 0: `xgDecide` (the decision taken from a probing report). Layer 1: the gateway actor `XG` with its
per-token probing table, for any tokens and both arrival orders of {report, second next-action}.
-/
namespace Bpmn.Props.C04
open Bpmn.Model.Gateway

/-! ## Layer 0 -/

/-- the decision is the FIRST flow, in the gateway's outgoing order with the default removed, whose
condition is true … -/
theorem xgDecide_first_true (pre post : List (String × Bool)) (fl : String) (d : Option String)
    (hpre : ∀ x ∈ pre, x.2 = false) :
    xgDecide (pre ++ (fl, true) :: post) d = .take fl := by
  unfold xgDecide
  have : (pre ++ (fl, true) :: post).filter (·.2) = (fl, true) :: post.filter (·.2) := by
    rw [List.filter_append]
    have : pre.filter (·.2) = [] := by
      apply List.filter_eq_nil_iff.mpr
      intro x hx; simp [hpre x hx]
    simp [this]
  simp [this]

/-- … otherwise the default flow … -/
theorem xgDecide_default (nd : List (String × Bool)) (d : String) (h : ∀ x ∈ nd, x.2 = false) :
    xgDecide nd (some d) = .take d := by
  unfold xgDecide
  have : nd.filter (·.2) = [] := by
    apply List.filter_eq_nil_iff.mpr
    intro x hx; simp [h x hx]
  simp [this]

/-- … and with no default, no flow at all and an error. -/
theorem xgDecide_error (nd : List (String × Bool)) (h : ∀ x ∈ nd, x.2 = false) :
    xgDecide nd none = .error := by
  unfold xgDecide
  have : nd.filter (·.2) = [] := by
    apply List.filter_eq_nil_iff.mpr
    intro x hx; simp [h x hx]
  simp [this]

/-- exactly one outcome, and never a flow whose condition is false (unless it is the default) -/
theorem xgDecide_sound (nd : List (String × Bool)) (d : Option String) (fl : String)
    (h : xgDecide nd d = .take fl) : (fl, true) ∈ nd ∨ (d = some fl ∧ ∀ x ∈ nd, x.2 = false) := by
  unfold xgDecide at h
  cases hf : (nd.filter (·.2)).head? with
  | some x =>
    obtain ⟨a, b⟩ := x
    simp only [hf] at h
    have hmem : (a, b) ∈ nd.filter (·.2) := List.mem_of_head? hf
    have := List.mem_filter.mp hmem
    left
    have hb : b = true := by simpa using this.2
    cases h
    rw [hb] at this
    exact this.1
  | none =>
    simp only [hf] at h
    have hnil : nd.filter (·.2) = [] := by simpa using hf
    right
    cases d with
    | none => cases h
    | some d' =>
      cases h
      refine ⟨rfl, ?_⟩
      intro x hx
      have := List.filter_eq_nil_iff.mp hnil x hx
      simpa using this

/-- removing the default from the outgoing list keeps the order of the remaining flows, wherever the
default sits: the position of the default does not influence which conditional flow is first -/
theorem nonDefault_order (outs : List String) (d : String) :
    List.Sublist (outs.filter (· ≠ d)) outs := List.filter_sublist

/-! ## Layer 1 -/

theorem lookup_put_self (g : XG) (t : Nat) (b : Bool) : (g.put t b).lookup t = some b := by
  unfold XG.lookup XG.put XG.erase
  simp only [List.find?_append]
  have : (g.probing.filter (·.1 != t)).find? (·.1 == t) = none := by
    apply List.find?_eq_none.mpr
    intro x hx
    have := (List.mem_filter.mp hx).2
    simp at this ⊢
    exact this
  simp [this]

theorem lookup_erase_self (g : XG) (t : Nat) : (g.erase t).lookup t = none := by
  unfold XG.lookup XG.erase
  have : (g.probing.filter (·.1 != t)).find? (·.1 == t) = none := by
    apply List.find?_eq_none.mpr
    intro x hx
    have := (List.mem_filter.mp hx).2
    simp at this ⊢
    exact this
  simp [this]

theorem find_filter_ne (l : List (Nat × Bool)) (t u : Nat) (h : u ≠ t) :
    (l.filter (·.1 != t)).find? (·.1 == u) = l.find? (·.1 == u) := by
  induction l with
  | nil => rfl
  | cons x xs ih =>
    by_cases hx : x.1 = t
    · have e1 : (x.1 != t) = false := by simp [hx]
      have e2 : (x.1 == u) = false := by
        have : ¬ (x.1 = u) := by omega
        simpa using this
      simp only [List.filter_cons, e1, List.find?_cons, e2, Bool.false_eq_true, if_false, ih]
    · have e1 : (x.1 != t) = true := by simpa using hx
      simp only [List.filter_cons, e1, if_true, List.find?_cons, ih]

theorem lookup_erase_other (g : XG) (t u : Nat) (h : u ≠ t) : (g.erase t).lookup u = g.lookup u := by
  unfold XG.lookup XG.erase
  simp only [find_filter_ne g.probing t u h]

theorem lookup_put_other (g : XG) (t u : Nat) (b : Bool) (h : u ≠ t) : (g.put t b).lookup u = g.lookup u := by
  have h1 := lookup_erase_other g t u h
  unfold XG.put
  unfold XG.lookup at h1 ⊢
  simp only [List.find?_append]
  have hne : ¬ (t = u) := fun e => h e.symm
  cases hf : List.find? (fun x => x.1 == u) (g.erase t).probing with
  | some x => rw [hf] at h1; simp [← h1]
  | none => rw [hf] at h1; simp [← h1, hne]

theorem step_na_fresh (g : XG) (t : Nat) (h : g.lookup t = none) :
    g.step (.na t) = (g.put t false, [.probe t], []) := by simp [XG.step, h]
theorem step_na_again (g : XG) (t : Nat) (b : Bool) (h : g.lookup t = some b) :
    g.step (.na t) = (g.put t true, [], []) := by simp [XG.step, h]
theorem step_report_ready (g : XG) (t : Nat) (res) (h : g.lookup t = some true) :
    g.step (.report t res) = (g.erase t, [.reply t (xgDecide res g.dflt)], []) := by simp [XG.step, h]
theorem step_report_early (g : XG) (t : Nat) (res) (h : g.lookup t = some false) :
    g.step (.report t res) = (g, [], [.report t res]) := by simp [XG.step, h]
theorem put_dflt (g : XG) (t : Nat) (b : Bool) : (g.put t b).dflt = g.dflt := rfl

/-- a message of token `t` never touches another token's probing entry, and only produces outputs and
re-queued messages of `t`: tokens pass through the gateway independently -/
theorem xg_step_independent (g : XG) (m : XMsg) (u : Nat) (h : u ≠ m.tok) :
    (g.step m).1.lookup u = g.lookup u ∧ (∀ o ∈ (g.step m).2.1, o.tok = m.tok) ∧
    (∀ q ∈ (g.step m).2.2, q.tok = m.tok) ∧ (g.step m).1.dflt = g.dflt := by
  cases m with
  | na t =>
    simp only [XMsg.tok] at h ⊢
    cases hl : g.lookup t with
    | some b =>
      rw [step_na_again g t b hl]
      exact ⟨lookup_put_other g t u true h, by simp, by simp, rfl⟩
    | none =>
      rw [step_na_fresh g t hl]
      exact ⟨lookup_put_other g t u false h, by simp [XOut.tok], by simp, rfl⟩
  | report t res =>
    simp only [XMsg.tok] at h ⊢
    cases hl : g.lookup t with
    | none =>
      have : g.step (.report t res) = (g, [], []) := by simp [XG.step, hl]
      rw [this]; exact ⟨rfl, by simp, by simp, rfl⟩
    | some b =>
      cases b with
      | true =>
        rw [step_report_ready g t res hl]
        exact ⟨lookup_erase_other g t u h, by simp [XOut.tok], by simp, rfl⟩
      | false =>
        rw [step_report_early g t res hl]
        exact ⟨rfl, by simp, by simp [XMsg.tok], rfl⟩

/-- order A: next-action, next-action, report -/
theorem xg_single_na_na_report (g : XG) (t : Nat) (res : List (String × Bool)) (h : g.lookup t = none) :
    let r := g.run 10 [.na t, .na t, .report t res] []
    r.2 = [.probe t, .reply t (xgDecide res g.dflt)] ∧ r.1.lookup t = none := by
  have s1 := step_na_fresh g t h
  have s2 := step_na_again (g.put t false) t false (lookup_put_self g t false)
  have s3 := step_report_ready ((g.put t false).put t true) t res (lookup_put_self _ t true)
  simp only [XG.run, s1, s2, s3, List.nil_append, List.append_nil, List.cons_append, put_dflt]
  exact ⟨trivial, lookup_erase_self _ t⟩

/-- order B: next-action, report (finds no reply channel, is re-queued), next-action, report -/
theorem xg_single_na_report_na (g : XG) (t : Nat) (res : List (String × Bool)) (h : g.lookup t = none) :
    let r := g.run 10 [.na t, .report t res, .na t] []
    r.2 = [.probe t, .reply t (xgDecide res g.dflt)] ∧ r.1.lookup t = none := by
  have s1 := step_na_fresh g t h
  have s2 := step_report_early (g.put t false) t res (lookup_put_self g t false)
  have s3 := step_na_again (g.put t false) t false (lookup_put_self g t false)
  have s4 := step_report_ready ((g.put t false).put t true) t res (lookup_put_self _ t true)
  simp only [XG.run, s1, s2, s3, s4, List.nil_append, List.append_nil, List.cons_append, put_dflt]
  exact ⟨trivial, lookup_erase_self _ t⟩

/-- the full statement of C04 on the model -/
def C04_statement : Prop :=
  (∀ pre post fl d, (∀ x ∈ pre, x.2 = false) → xgDecide (pre ++ (fl, true) :: post) d = .take fl) ∧
  (∀ nd d, (∀ x ∈ nd, x.2 = false) → xgDecide nd (some d) = .take d) ∧
  (∀ nd, (∀ x ∈ nd, x.2 = false) → xgDecide nd none = .error) ∧
  (∀ (g : XG) (m : XMsg) (u : Nat), u ≠ m.tok →
      (g.step m).1.lookup u = g.lookup u ∧ (∀ o ∈ (g.step m).2.1, o.tok = m.tok)) ∧
  (∀ (g : XG) t res, g.lookup t = none →
      (g.run 10 [.na t, .na t, .report t res] []).2 = [.probe t, .reply t (xgDecide res g.dflt)] ∧
      (g.run 10 [.na t, .report t res, .na t] []).2 = [.probe t, .reply t (xgDecide res g.dflt)])

theorem C04_holds : C04_statement :=
  ⟨xgDecide_first_true, xgDecide_default, xgDecide_error,
   fun g m u h => ⟨(xg_step_independent g m u h).1, (xg_step_independent g m u h).2.1⟩,
   fun g t res h => ⟨(xg_single_na_na_report g t res h).1, (xg_single_na_report_na g t res h).1⟩⟩

example : xgDecide [("f1", false), ("f2", true), ("f3", true)] (some "d") = .take "f2" := by decide
example : xgDecide [("f1", false)] none = .error := by decide

end Bpmn.Props.C04
