import Bpmn.Props.C17
import Bpmn.Gen.C17
/-!
# C17 at the tables extracted from the current /repo tree

`Bpmn.Gen.C17.lockTable` / `ownTable` are regenerated from the Go source on every run
(extract/facts_c17.go). This module states which rows the lock-set discipline is claimed for and checks
the claim on the extracted rows in the kernel.

* `knownUnprotected` — the rows that do NOT satisfy the syntactic discipline on the unchanged tree, listed
  explicitly by (field, function, write?). `suspect`: nothing visible protects the access — a candidate for a
  real race, which only the dynamic search (`-race`) can confirm (all four `suspect` rows below WERE confirmed:
  known findings D30–D32). `protocol`: the access is ordered by something the table cannot see (a lock held
  across functions, a channel hand-off); argued in the note, not proved; the dynamic search found no race on it.
  `unreachable`: unprotected, but no execution can make the conflicting write happen.
* `protectedRows` — every other row of a shared (not freshly created) object.
* `lockTable_ok` / `current_no_regression` — the pairwise check holds on `protectedRows`; the list of failing
  rows is empty. Deleting a Lock/Unlock pair, switching to another mutex, adding an unlocked access site or
  turning an atomic access into a plain one changes the extracted row, the check fails, this module stops
  building and the `#eval` below names the rows in its error message.
* `ownership_ok` — every mutable node-struct field is touched only from the constructor, the node's `run`
  goroutine or a run-only helper (or is immutable once shared / only touched atomically).
* `current_race_free` — `table_sound` instantiated at the extracted rows.
-/
namespace Bpmn.Props.C17
open Bpmn.Model.Lockset

inductive Why | suspect | protocol | unreachable
deriving DecidableEq, Repr

structure Known where
  key : String × String × Bool
  why : Why
  note : String

def knownUnprotected : List Known := [
  -- FlowNodeMapping: created locked by NewLockedFlowNodeMapping, filled by the constructing goroutine, unlocked by
  -- Finalize; readers take RLock. The write lock is held across functions, invisible to an intra-procedural table.
  { key := ("FlowNodeMapping.mapping", "FlowNodeMapping.RegisterElementToFlowNode", false), why := .protocol,
    note := "write lock taken in NewLockedFlowNodeMapping, released in Finalize" },
  { key := ("FlowNodeMapping.mapping", "FlowNodeMapping.RegisterElementToFlowNode", true), why := .protocol,
    note := "write lock taken in NewLockedFlowNodeMapping, released in Finalize" },
  -- CloneItems reads the locator map under vmu (the VARIABLES mutex); writers (PutIItemAwareLocator) hold lmu.
  { key := ("data.FlowDataLocator.locators", "FlowDataLocator.CloneItems", false), why := .suspect,
    note := "wrong mutex: vmu.RLock instead of lmu.RLock" },
  -- Clone() of the three containers iterates the maps without the container's mutex.
  { key := ("data.ObjectContainer.dataObjects", "ObjectContainer.Clone", false), why := .suspect,
    note := "unlocked map iteration; writers: PutItemAwareById (mu.Lock), CloneFor" },
  { key := ("data.ObjectContainer.propertiesByName", "ObjectContainer.Clone", false), why := .suspect,
    note := "unlocked map iteration; writer: CloneFor" },
  { key := ("data.PropertyContainer.items", "PropertyContainer.Clone", false), why := .suspect,
    note := "unlocked map iteration; writers: PutItemAwareByName (mu.Lock), CloneFor" },
  -- HeaderContainer has no mutex at all; its only writer is CloneFor (reached through FlowDataLocator.Merge). But it
  -- has no PutItemAwareByName of its own (the embedded DefaultItemAwareLocator's is a no-op), so every HeaderContainer's
  -- map stays empty and CloneFor copies nothing: the write can not happen (probe: Merge against CloneItems, no report).
  { key := ("data.HeaderContainer.items", "HeaderContainer.CloneFor", true), why := .unreachable,
    note := "no mutex; readers FindItemAwareByName / Clone are unlocked too; items is never populated" },
  -- event-based gateway: the map variable captured by the `terminate` closure ($1) is filled by run before the
  -- action is handed out (ordered by the channel send) and REASSIGNED by the CAS winner inside the transformer ($2).
  { key := ("eventBasedGateway.run.terminationChannels", "eventBasedGateway.run", true), why := .protocol,
    note := "filled before `m.response <- action` publishes the closures" },
  -- candidate from reading, REFUTED: a loser reads the variable when it evaluates its select, then receives on its
  -- unbuffered termination channel; the winner reassigns only after every such send has completed (a receive
  -- synchronises before the completion of the send), and a flow that lost the CAS never reads the variable again.
  -- No report in 120+ event-gateway cases under -race with perturbation.
  { key := ("eventBasedGateway.run.terminationChannels", "eventBasedGateway.run$2", true), why := .protocol,
    note := "reassigned by the CAS winner after all notification sends on unbuffered channels have completed" }
]

def isKnown (r : Row) : Bool := knownUnprotected.any (fun k => k.key == r.key)

/-- the rows the discipline is claimed for: the object is shared and the row is not listed above -/
def protectedRows : List Row := Bpmn.Gen.C17.lockTable.filter (fun r => !r.fresh && !isKnown r)

/-- the listed rows that are (still) unprotected at the current tree: each is a candidate the dynamic search tries
    to confirm; a repaired one drops out of this list without any alarm -/
def stillUnprotected : List (String × String × Bool) :=
  let shared := Bpmn.Gen.C17.lockTable.filter (fun r => !r.fresh)
  ((shared.filter isKnown).filter (fun a => !(shared.all (fun b => pairOk a b)))).map Row.key

-- names the rows in the build error when an obligation below fails
#eval show IO Unit from do
  let f := failing protectedRows
  let o := ownFailing Bpmn.Gen.C17.ownTable
  if !f.isEmpty then
    throw (IO.userError ("C17 lock table regression: rows no longer protected by a common mutex: " ++
      " ; ".intercalate (f.map (fun k => s!"{k.1} in {k.2.1} ({if k.2.2 then "write" else "read"})"))))
  if !o.isEmpty then
    throw (IO.userError ("C17 ownership regression: node state touched outside the node's run goroutine: " ++
      " ; ".intercalate (o.map (fun k => s!"{k.1}.{k.2.1} in {k.2.2}"))))

/-- every listed shared field / node struct was found in the source -/
theorem tables_found :
    (Bpmn.Gen.C17.lockTable.all (fun r => r.fn != "<not-found>") &&
     Bpmn.Gen.C17.ownTable.all (fun r => r.fn != "<not-found>")) = true := by decide +kernel

/-- the pairwise lock-set check holds on every claimed row of the extracted table -/
theorem lockTable_ok : tableOk protectedRows = true := by decide +kernel

/-- a row that is protected today stays protected: no claimed row fails against any other claimed row -/
theorem current_no_regression : failing protectedRows = [] := by decide +kernel

/-- node state is touched only by the node's own goroutine (or is immutable once shared / atomic) -/
theorem ownership_ok : ownFailing Bpmn.Gen.C17.ownTable = [] := by decide +kernel

/-- the discipline at the current tree: every well-formed interleaving whose accesses are executions of claimed
    sites is race free -/
theorem current_race_free (τ : List Ev) (wf : WF τ) (hcov : Covered protectedRows τ) : RaceFree τ :=
  table_sound protectedRows lockTable_ok τ wf hcov

/-- the claim is about a non-empty table -/
theorem current_nonempty : 40 ≤ protectedRows.length := by decide +kernel

end Bpmn.Props.C17
