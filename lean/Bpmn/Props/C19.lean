import Bpmn.Lemmas.Builder
import Bpmn.Lemmas.BuilderLayout
/-!
# C19 — Builder output is well-formed and laid out without overlap

Property theorems only. Model: `Bpmn.Model.Builder` (port of schema/builder.go). Build scripts are lists of
`AddActivity` calls `(kind, preset id or none)` of ANY length; `o : Nat → Nat` is the id oracle (`o k` = what
the k-th `RandBytes` call returns); the layout theorems hold for ANY list of processes (not only built ones),
any origin and any gaps that are at least the node sizes.

`st : Kind → Bool` is the type switch of `AddActivity` (which activity types it stores). It is a FACT read from the
source on every run; every theorem here holds for every `st`, as a dichotomy: the full statement holds iff the
switch stores every activity type (`C19_general`), and for any type it does not store there is an explicit
witness script (`C19_counterexample_activity_not_stored`). `Props/C19Current.lean` instantiates both sides at
the extracted switch.

What is NOT here (tested by the harness on the real code, not proved): the XML round trip and the engine run.
-/
namespace Bpmn.Props.C19
open Bpmn.Model.Builder Bpmn.Lemmas.Builder Bpmn.Lemmas.BuilderLayout

abbrev Acts := List (Kind × Option Nat)

def Injective (o : Nat → Nat) : Prop := ∀ a b, o a = o b → a = b

/-- anything `AddActivity` can be handed: every kind but the two events the builder adds itself -/
def isActivity (k : Kind) : Prop := k ≠ .startEvent ∧ k ≠ .endEvent

/-- preset ids of a script are pairwise distinct -/
def presetsDistinct (acts : Acts) : Prop := (acts.filterMap (·.2)).Nodup

/-- ids unique; both ends of every flow exist and list it; start has no incoming, end no outgoing flow -/
def WellFormed (p : Proc) : Prop :=
  p.ids.Nodup ∧
  (∀ f ∈ p.flows, (∃ s ∈ p.nodes, s.id = f.src ∧ f.id ∈ s.outgoing) ∧
    (∃ t ∈ p.nodes, t.id = f.tgt ∧ f.id ∈ t.incoming)) ∧
  (∀ nd ∈ p.nodes, nd.kind = .startEvent → nd.incoming = []) ∧
  (∀ nd ∈ p.nodes, nd.kind = .endEvent → nd.outgoing = [])

/-- every flow joins two flow nodes of the process -/
def flowsClosed (p : Proc) : Prop :=
  ∀ f ∈ p.flows, f.src ∈ p.nodes.map (·.id) ∧ f.tgt ∈ p.nodes.map (·.id)

/-- the edge starts on the border of its source shape and ends on the border of its target shape -/
def edgeAttached (shapes : List Shape) (e : Edge) : Prop :=
  ∃ s ∈ shapes, ∃ t ∈ shapes, s.elem = e.src ∧ t.elem = e.tgt ∧
    ∃ a b, e.wps.head? = some a ∧ e.wps.getLast? = some b ∧ onBorder s a = true ∧ onBorder t b = true

instance (acts : Acts) : Decidable (presetsDistinct acts) := by unfold presetsDistinct; infer_instance
instance (p : Proc) : Decidable (flowsClosed p) := by unfold flowsClosed; infer_instance
instance (cfg : Cfg) : Decidable (GapsCover cfg) := by unfold GapsCover; infer_instance

/-- the processes a list of scripts builds (each script starts at its own value of the call counter) -/
abbrev built (st : Kind → Bool) (o : Nat → Nat) (scripts : List (Nat × Acts)) : List Proc :=
  builtProcs st o scripts

/-- the scripts run one after the other (`Chained`: each starts where the previous build ended, or later) and
their preset ids are pairwise distinct across all of them -/
def Sequential (st : Kind → Bool) (o : Nat → Nat) (scripts : List (Nat × Acts)) : Prop :=
  Chained st o 0 scripts ∧ (presetsOf scripts).Nodup

/-- ids of everything inside the processes (process ids, flow nodes, sequence flows) -/
def procIds (procs : List Proc) : List Id := procs.flatMap Proc.ids

/-- the ids of all flow nodes of a list of processes -/
def nodeIds (procs : List Proc) : List Id := procs.flatMap (fun p => p.nodes.map (·.id))

/-- what AutoLayout must deliver for a list of processes -/
def LayoutOk (o : Nat → Nat) (cfg : Cfg) (n : Nat) (procs : List Proc) : Prop :=
  let r := layoutAll o cfg n cfg.sy procs
  -- exactly one shape per flow node, in flow-element order; one edge per sequence flow
  r.1.map (·.elem) = procs.flatMap (fun p => (flowNodes p).map (·.id)) ∧
  r.2.1.map (·.elem) = procs.flatMap (fun p => p.flows.map (·.id)) ∧
  -- every edge starts on its source shape and ends on its target shape
  (∀ e ∈ r.2.1, edgeAttached r.1 e) ∧
  -- no two shapes overlap
  (GapsCover cfg → r.1.Pairwise (fun s t => disjoint s t = true))

/-- C19 on the model whose `AddActivity` stores the kinds `st`, for the activity kinds satisfying `ok` -/
def C19_for (st : Kind → Bool) (ok : Kind → Prop) : Prop :=
  ∀ (o : Nat → Nat), Injective o →
    -- (a) every process the process builder hands out is well-formed
    (∀ (n : Nat) (acts : Acts), (∀ a ∈ acts, ok a.1) → presetsDistinct acts →
        WellFormed (buildProcess st o n acts).1) ∧
    -- (b) processes built one after the other share no id and are laid out correctly under every configuration
    (∀ (cfg : Cfg) (n : Nat) (scripts : List (Nat × Acts)),
        (∀ sc ∈ scripts, ∀ a ∈ sc.2, ok a.1) → Sequential st o scripts →
        (procIds (built st o scripts)).Nodup ∧ LayoutOk o cfg n (built st o scripts))

/-- the full statement of C19 on the model, kept visible: for EVERY activity type -/
def C19_statement (st : Kind → Bool) : Prop := C19_for st isActivity

/-- the same restricted to the activity types the switch stores -/
def C19_statement_stored (st : Kind → Bool) : Prop := C19_for st (actOk st)

/-! ## (a) the process builder -/

/-- for build scripts of any length over the stored activity types, with or without preset ids, and every
injective id oracle: ids unique, flow ends exist and list the flow, start without incoming, end without outgoing -/
theorem process_wellformed (st : Kind → Bool) (o : Nat → Nat) (hinj : Injective o) (n : Nat) (acts : Acts)
    (hok : ∀ a ∈ acts, actOk st a.1) (hpre : presetsDistinct acts) : WellFormed (buildProcess st o n acts).1 := by
  obtain ⟨wf, _⟩ := buildProcess_wf hinj n acts hok hpre
  exact ⟨wf.nodup, wf.flows, wf.startIn, wf.endOut⟩

theorem wellformed_node_ids_nodup {p : Proc} (h : WellFormed p) : (p.nodes.map (·.id)).Nodup := by
  have := h.1
  rw [ids_unfold, List.nodup_cons, List.nodup_append] at this
  exact this.2.1

theorem wellformed_flowsClosed {p : Proc} (h : WellFormed p) : flowsClosed p := by
  intro f hf
  obtain ⟨⟨s, hs, hsrc, _⟩, ⟨t, ht, htgt, _⟩⟩ := h.2.1 f hf
  exact ⟨List.mem_map.mpr ⟨s, hs, hsrc⟩, List.mem_map.mpr ⟨t, ht, htgt⟩⟩

theorem addActivity_unstored (st : Kind → Bool) (o : Nat → Nat) (n : Nat) (b : PB) (k : Kind) (pre : Option Nat)
    (h : st k = false) : addActivity st o n b k pre = addActivity (fun _ => false) o n b k pre := by
  unfold addActivity; simp [h]

theorem buildProcess_unstored (st : Kind → Bool) (o : Nat → Nat) (n : Nat) (k : Kind) (h : st k = false) :
    buildProcess st o n [(k, none)] = buildProcess (fun _ => false) o n [(k, none)] := by
  simp only [buildProcess, addAll, addActivity_unstored st o _ _ k none h]

/-- the model violates C19 for ANY activity type outside the type switch of `AddActivity`: the activity is linked
but not stored, both flows dangle. Witness script: that one activity. -/
theorem activity_not_stored_dangling (st : Kind → Bool) (k : Kind) (h : st k = false) :
    ¬ WellFormed (buildProcess st (fun k => k) 0 [(k, none)]).1 := by
  intro hw
  have := wellformed_flowsClosed hw
  rw [buildProcess_unstored st _ 0 k h] at this
  revert this
  cases k <;> decide

/-- …and the ids really must come from an injective oracle: with a repeating one two flows share their id -/
theorem duplicate_generated_id_witness :
    ¬ WellFormed (buildProcess (fun _ => true) (fun _ => 0) 0 [(Kind.task, none)]).1 := by
  intro h
  have := h.1
  revert this
  decide

/-! ## (b) the layout, for any list of processes -/

/-- the first waypoint lies on the border of the source bounds, the last on the border of the target bounds -/
theorem waypoints_on_borders (scale : Nat) (s t : Shape) (hs : 0 ≤ s.w ∧ 0 ≤ s.h) (ht : 0 ≤ t.w ∧ 0 ≤ t.h) :
    ∃ a b, (waypoints scale s t).head? = some a ∧ (waypoints scale s t).getLast? = some b ∧
      onBorder s a = true ∧ onBorder t b = true := by
  have hA : onBorder s (s.x + s.w, s.y + s.h / 2) = true := by
    simp only [onBorder, Bool.and_eq_true, Bool.or_eq_true, decide_eq_true_eq]
    exact ⟨by omega, by simp⟩
  have hB : onBorder t (t.x, t.y + t.h / 2) = true := by
    simp only [onBorder, Bool.and_eq_true, Bool.or_eq_true, decide_eq_true_eq]
    exact ⟨by omega, by simp⟩
  by_cases hc : ((s.y + s.h / 2) - (t.y + t.h / 2)).natAbs * 1000 < scale
  · exact ⟨_, _, by simp [waypoints, hc], by simp [waypoints, hc], hA, hB⟩
  · exact ⟨_, _, by simp [waypoints, hc], by simp [waypoints, hc], hA, hB⟩

theorem onBorder_congr {s s' : Shape} (h : s.x = s'.x ∧ s.y = s'.y ∧ s.w = s'.w ∧ s.h = s'.h) (pt : Int × Int) :
    onBorder s pt = onBorder s' pt := by
  simp only [onBorder, h.1, h.2.1, h.2.2.1, h.2.2.2]

theorem lpPos_elems (cfg : Cfg) (y : Int) (p : Proc) :
    (lpPos cfg y p).map (·.elem) = (collectNodes cfg.scale p).map (·.id) := by
  unfold lpPos; rw [List.map_map]; rfl

theorem lpPos_sizes (cfg : Cfg) (y : Int) (p : Proc) : ∀ s ∈ lpPos cfg y p, 0 ≤ s.w ∧ 0 ≤ s.h := by
  intro s hs
  unfold lpPos at hs
  obtain ⟨a, ha, rfl⟩ := List.mem_map.mp hs
  obtain ⟨h1, _, h3, _⟩ := (collectNodes_spec cfg.scale p).2 a ha
  exact ⟨h1, h3⟩

theorem collectNodes_ids (scale : Nat) (p : Proc) (hnd : (p.nodes.map (·.id)).Nodup) :
    (collectNodes scale p).map (·.id) = (flowNodes p).map (·.id) := by
  have h := collectNodesAux_ids scale (flowNodes p) [] (by
    simp only [List.map_nil, List.nil_append]
    exact (List.Perm.nodup_iff (List.Perm.map _ (sortByRank_perm p.nodes))).mpr hnd)
  simpa [collectNodes] using h

/-- one process: exactly one shape per flow node (unique node ids), one edge per flow (flows closed),
edges attached to their shapes -/
theorem layoutProcess_ok (o : Nat → Nat) (n : Nat) (cfg : Cfg) (y : Int) (p : Proc)
    (hnd : (p.nodes.map (·.id)).Nodup) (hcl : flowsClosed p) :
    (layoutProcess o n cfg y p).1.map (·.elem) = (flowNodes p).map (·.id) ∧
    (layoutProcess o n cfg y p).2.1.map (·.elem) = p.flows.map (·.id) ∧
    (∀ e ∈ (layoutProcess o n cfg y p).2.1, edgeAttached (layoutProcess o n cfg y p).1 e) := by
  have hids := collectNodes_ids cfg.scale p hnd
  have hmem : ∀ i, i ∈ p.nodes.map (·.id) → i ∈ (collectNodes cfg.scale p).map (·.id) := by
    intro i hi
    rw [hids]
    exact (List.Perm.mem_iff (List.Perm.map _ (sortByRank_perm p.nodes))).mpr hi
  rw [layoutProcess_eq]
  by_cases hemp : (collectNodes cfg.scale p).isEmpty = true
  · rw [if_pos hemp]
    have hnil : collectNodes cfg.scale p = [] := List.isEmpty_iff.mp hemp
    have hfl : p.flows = [] := by
      cases hf : p.flows with
      | nil => rfl
      | cons f fs =>
        have := hmem _ (hcl f (by rw [hf]; simp)).1
        rw [hnil] at this; cases this
    refine ⟨by rw [← hids, hnil]; rfl, by rw [hfl]; rfl, by simp⟩
  · rw [if_neg hemp]
    obtain ⟨hn1, _, hn3⟩ := nameShapes_spec o (lpPos cfg y p) n
    obtain ⟨hb1, hb2⟩ := buildEdges_spec o cfg.scale (lpPos cfg y p) (collectEdges p)
      (n + (collectNodes cfg.scale p).length)
    refine ⟨?_, ?_, ?_⟩
    · rw [hn1, lpPos_elems, hids]
    · have : (collectEdges p).map (·.id) = p.flows.map (·.id) := by
        unfold collectEdges; rw [List.map_map]; rfl
      rw [← this]
      apply hb2
      intro e he
      unfold collectEdges at he
      obtain ⟨f, hf, rfl⟩ := List.mem_map.mp he
      have hm1 := hmem _ (hcl f hf).1
      have hm2 := hmem _ (hcl f hf).2
      rw [← lpPos_elems cfg y p] at hm1 hm2
      obtain ⟨s, hs, hse⟩ := List.mem_map.mp hm1
      obtain ⟨t, ht, hte⟩ := List.mem_map.mp hm2
      exact ⟨⟨s, hs, hse⟩, ⟨t, ht, hte⟩⟩
    · intro e he
      obtain ⟨s', hs', t', ht', hse, hte, hw⟩ := hb1 e he
      obtain ⟨s, hs, e1, e2, e3, e4, e5⟩ := hn3 s' hs'
      obtain ⟨t, ht, f1, f2, f3, f4, f5⟩ := hn3 t' ht'
      obtain ⟨a, b, ha, hb, hoa, hob⟩ := waypoints_on_borders cfg.scale s' t'
        (lpPos_sizes cfg y p s' hs') (lpPos_sizes cfg y p t' ht')
      refine ⟨s, hs, t, ht, e1.trans hse, f1.trans hte, a, b, by rw [hw]; exact ha, by rw [hw]; exact hb, ?_, ?_⟩
      · rw [onBorder_congr ⟨e2, e3, e4, e5⟩]; exact hoa
      · rw [onBorder_congr ⟨f2, f3, f4, f5⟩]; exact hob

theorem edgeAttached_mono {l l' : List Shape} (h : ∀ s ∈ l, s ∈ l') {e : Edge} (he : edgeAttached l e) :
    edgeAttached l' e := by
  obtain ⟨s, hs, t, ht, rest⟩ := he
  exact ⟨s, h s hs, t, h t ht, rest⟩

/-- AutoLayout over ANY list of processes with unique node ids and closed flows, ANY configuration -/
theorem layout_ok (o : Nat → Nat) (cfg : Cfg) : ∀ (procs : List Proc) (n : Nat) (y : Int),
    (nodeIds procs).Nodup → (∀ p ∈ procs, flowsClosed p) →
    (layoutAll o cfg n y procs).1.map (·.elem) = procs.flatMap (fun p => (flowNodes p).map (·.id)) ∧
    (layoutAll o cfg n y procs).2.1.map (·.elem) = procs.flatMap (fun p => p.flows.map (·.id)) ∧
    (∀ e ∈ (layoutAll o cfg n y procs).2.1, edgeAttached (layoutAll o cfg n y procs).1 e) := by
  intro procs
  induction procs with
  | nil => intro n y _ _; simp [layoutAll]
  | cons p ps ih =>
    intro n y hnd hcl
    simp only [nodeIds, List.flatMap_cons, List.nodup_append] at hnd
    obtain ⟨h1, h2, h3⟩ := layoutProcess_ok o n cfg y p hnd.1 (hcl p (by simp))
    obtain ⟨i1, i2, i3⟩ := ih (layoutProcess o n cfg y p).2.2.2 (y + (layoutProcess o n cfg y p).2.2.1 + cfg.pg)
      hnd.2.1 (fun q hq => hcl q (List.mem_cons_of_mem _ hq))
    rw [layoutAll_cons_shapes, layoutAll_cons_edges]
    refine ⟨by simp [h1, i1], by simp [h2, i2], ?_⟩
    intro e he
    rcases List.mem_append.mp he with he | he
    · exact edgeAttached_mono (fun s hs => List.mem_append_left _ hs) (h3 e he)
    · exact edgeAttached_mono (fun s hs => List.mem_append_right _ hs) (i3 e he)

/-- no overlap at all once the elements of the shapes are pairwise different (unique node ids) -/
theorem layout_no_overlap (o : Nat → Nat) (cfg : Cfg) (hg : GapsCover cfg) (procs : List Proc) (n : Nat) (y : Int)
    (hnd : (nodeIds procs).Nodup) (hcl : ∀ p ∈ procs, flowsClosed p) :
    (layoutAll o cfg n y procs).1.Pairwise (fun s t => disjoint s t = true) := by
  have h := (layoutAll_shapes o cfg hg procs n y).2
  have hel := (layout_ok o cfg procs n y hnd hcl).1
  have hnd' : ((layoutAll o cfg n y procs).1.map (·.elem)).Nodup := by
    rw [hel]
    -- flow element order is a permutation of the stored nodes, process by process
    have : ∀ (l : List Proc), (l.flatMap (fun p => (flowNodes p).map (·.id))).Perm
        (l.flatMap (fun p => p.nodes.map (·.id))) := by
      intro l
      induction l with
      | nil => simp
      | cons q qs ih =>
        simp only [List.flatMap_cons]
        exact List.Perm.append (List.Perm.map _ (sortByRank_perm q.nodes)) ih
    exact (List.Perm.nodup_iff (this procs)).mpr hnd
  -- combine: pairwise (elem ≠ → disjoint) and pairwise elem ≠
  have hp2 : (layoutAll o cfg n y procs).1.Pairwise (fun s t => s.elem ≠ t.elem) :=
    (List.pairwise_map).mp hnd'
  exact List.Pairwise.imp₂ (fun _ _ h1 h2 => h1 h2) h hp2

theorem layoutOk_of_wellformed (o : Nat → Nat) (cfg : Cfg) (n : Nat) (procs : List Proc)
    (hnd : (nodeIds procs).Nodup) (hcl : ∀ p ∈ procs, flowsClosed p) :
    LayoutOk o cfg n procs := by
  obtain ⟨h1, h2, h3⟩ := layout_ok o cfg procs n cfg.sy hnd hcl
  exact ⟨h1, h2, h3, fun hg => layout_no_overlap o cfg hg procs n cfg.sy hnd hcl⟩

/-! ## the statement -/

theorem sublist_flatMap {α β : Type} (f g : α → List β) (h : ∀ a, (f a).Sublist (g a)) :
    ∀ l : List α, (l.flatMap f).Sublist (l.flatMap g) := by
  intro l
  induction l with
  | nil => simp
  | cons x xs ih => simp only [List.flatMap_cons]; exact List.Sublist.append (h x) ih

/-- processes built one after the other (any number of them, any scripts over the stored types) share no id:
process ids, flow node ids and sequence flow ids are pairwise distinct across the whole definitions -/
theorem sequential_ids_unique (st : Kind → Bool) (o : Nat → Nat) (hinj : Injective o) (scripts : List (Nat × Acts))
    (hok : ∀ sc ∈ scripts, ∀ a ∈ sc.2, actOk st a.1) (hseq : Sequential st o scripts) :
    (procIds (built st o scripts)).Nodup :=
  (built_ids_nodup hinj scripts 0 hseq.1 hok hseq.2).1

theorem nodeIds_nodup_of_procIds {procs : List Proc} (h : (procIds procs).Nodup) : (nodeIds procs).Nodup := by
  refine List.Nodup.sublist (sublist_flatMap _ _ ?_ procs) h
  intro p
  rw [ids_unfold]
  exact List.Sublist.cons _ (List.sublist_append_left _ _)

theorem presets_distinct_of_all : ∀ (scripts : List (Nat × Acts)), (presetsOf scripts).Nodup →
    ∀ sc ∈ scripts, presetsDistinct sc.2 := by
  intro scripts
  induction scripts with
  | nil => intro _ sc hsc; cases hsc
  | cons x xs ih =>
    intro h sc hsc
    simp only [presetsOf, List.flatMap_cons, List.nodup_append] at h
    rcases List.mem_cons.mp hsc with rfl | hsc'
    · exact h.1
    · exact ih h.2.1 sc hsc'

/-- C19 for the activity types `AddActivity` stores — whatever the switch is -/
theorem C19_holds_partial (st : Kind → Bool) : C19_statement_stored st := by
  intro o hinj
  refine ⟨fun n acts hok hpre => process_wellformed st o hinj n acts hok hpre, ?_⟩
  intro cfg n scripts hok hseq
  have hids := sequential_ids_unique st o hinj scripts hok hseq
  refine ⟨hids, ?_⟩
  apply layoutOk_of_wellformed o cfg n _ (nodeIds_nodup_of_procIds hids)
  intro p hp
  obtain ⟨sc, hsc', rfl⟩ := List.mem_map.mp hp
  exact wellformed_flowsClosed
    (process_wellformed st o hinj sc.1 sc.2 (hok sc hsc') (presets_distinct_of_all scripts hseq.2 sc hsc'))

/-- positive side of the dichotomy: a switch that stores every activity type gives the full statement -/
theorem C19_general (st : Kind → Bool) (hall : ∀ k, isActivity k → st k = true) : C19_statement st := by
  intro o hinj
  obtain ⟨h1, h2⟩ := C19_holds_partial st o hinj
  have up : ∀ k, isActivity k → actOk st k := fun k hk => ⟨hall k hk, hk.1, hk.2⟩
  exact ⟨fun n acts hok hpre => h1 n acts (fun a ha => up _ (hok a ha)) hpre,
    fun cfg n scripts hok hseq => h2 cfg n scripts (fun sc hsc a ha => up _ (hok sc hsc a ha)) hseq⟩

/-- negative side: for ANY activity type the switch does not store the full statement fails on the faithful
model, with the explicit witness `AddActivity(<one activity of that type>)` -/
theorem C19_counterexample_activity_not_stored (st : Kind → Bool) (k : Kind) (hk : isActivity k)
    (hst : st k = false) : ¬ C19_statement st := by
  intro h
  have := (h (fun k => k) (fun _ _ h => h)).1 0 [(k, none)]
    (by intro a ha; simp only [List.mem_singleton] at ha; subst ha; exact hk)
    (by simp [presetsDistinct])
  exact activity_not_stored_dangling st k hst this

/-! Non-vacuity: the hypotheses are satisfiable, and the objects are not trivial (tests, not the claim). -/
example : Injective (fun k => k) := fun _ _ h => h
example : ∀ a ∈ ([(Kind.task, none), (Kind.subProcess, some 1), (Kind.userTask, some 2)] : Acts), actOk (fun _ => true) a.1 := by decide
example : presetsDistinct [(Kind.task, none), (Kind.subProcess, some 1), (Kind.userTask, some 2)] := by decide
example : GapsCover ⟨768, 768, 1440, 960, 1440, 8⟩ := by decide
example : Sequential (fun _ => true) (fun k => k) [(1, [(Kind.task, none)]), (9, [(Kind.userTask, some 1)])] :=
  ⟨⟨by decide, by decide, trivial⟩, by decide⟩
example : (buildProcess (fun _ => true) (fun k => k) 0 [(Kind.task, none), (Kind.userTask, some 2)]).1.flows.length = 3 := by decide
example : (nodeIds [(buildProcess (fun _ => true) (fun k => k) 0 [(Kind.task, none), (Kind.userTask, some 2)]).1]).Nodup := by decide
example : flowsClosed (buildProcess (fun _ => true) (fun k => k) 0 [(Kind.task, none), (Kind.userTask, some 2)]).1 := by decide
-- the default configuration in units of 1/8: end event, start event, task (flow element order) in one row
example : ((layoutAll (fun k => k) ⟨768, 768, 1440, 960, 1440, 8⟩ 100 768
      [(buildProcess (fun _ => true) (fun k => k) 0 [(Kind.task, none)]).1]).1.map (fun s => (s.x, s.y, s.w, s.h))) =
    [(3648, 624, 288, 288), (768, 624, 288, 288), (2208, 448, 800, 640)] := by decide
example : walk (buildProcess (fun _ => true) (fun k => k) 0 [(Kind.task, none), (Kind.userTask, some 2)]).1 10 (Id.gen .event 1)
    = [Id.gen .activity 2, Id.preset 2] := by decide

end Bpmn.Props.C19
