import Bpmn.Model.Builder
/-!
# C19 — Builder output is well-formed and laid out without overlap
(first version: geometry only; grown below)
-/
namespace Bpmn.Props.C19
open Bpmn.Model.Builder

/-- first waypoint on the right edge of the source, last on the left edge of the target, for any two bounds
with non-negative sizes -/
theorem waypoints_on_borders (scale : Nat) (s t : Shape) (hs : 0 ≤ s.w ∧ 0 ≤ s.h) (ht : 0 ≤ t.w ∧ 0 ≤ t.h) :
    ∃ a b, (waypoints scale s t).head? = some a ∧ (waypoints scale s t).getLast? = some b ∧
      onBorder s a = true ∧ onBorder t b = true := by
  have hA : onBorder s (s.x + s.w, s.y + s.h / 2) = true := by
    simp only [onBorder, Bool.and_eq_true, Bool.or_eq_true, decide_eq_true_eq]
    exact ⟨by omega, by simp⟩
  have hB : onBorder t (t.x, t.y + t.h / 2) = true := by
    simp only [onBorder, Bool.and_eq_true, Bool.or_eq_true, decide_eq_true_eq]
    exact ⟨by omega, by simp⟩
  by_cases hc : ((s.y + s.h / 2) - (t.y + t.h / 2)).natAbs * 1000 < scale
  · exact ⟨_, _, by simp [waypoints, hc], by simp [waypoints, hc], hA, hB⟩
  · exact ⟨_, _, by simp [waypoints, hc], by simp [waypoints, hc], hA, hB⟩

def C19_statement : Prop :=
  ∀ (scale : Nat) (s t : Shape), (0 ≤ s.w ∧ 0 ≤ s.h) → (0 ≤ t.w ∧ 0 ≤ t.h) →
    ∃ a b, (waypoints scale s t).head? = some a ∧ (waypoints scale s t).getLast? = some b ∧
      onBorder s a = true ∧ onBorder t b = true

theorem C19_holds : C19_statement := waypoints_on_borders

end Bpmn.Props.C19
