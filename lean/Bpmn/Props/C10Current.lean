import Bpmn.Props.C10
import Bpmn.Gen.C10
/-! C10 instantiated at the facts extracted from the current /repo tree (`Bpmn.Gen.C10`, regenerated on every run).

The verdict theorems are dichotomies (`if fact then … else …`) proved for both values of each fact, so this module
type-checks on either side of a repair: what it proves then changes from the witness to the positive statement. It
stops type-checking when a fact cannot be read (`none`), when one of the facts the model hard-wires has moved
(`current_request_ignores_cancel`), or when something that is right today regresses (`current_no_regression`). -/
namespace Bpmn.Props.C10
open Bpmn.Model.Boundary

def cfgOf (gated once refuse share early resetFirst : Option Bool) : Option Cfg := do
  let g ← gated; let o ← once; let r ← refuse; let s ← share; let e ← early; let rf ← resetFirst
  pure { gated := g, once := o, refuse := r, share := s, early := e, resetFirst := rf }

/-- the facts of the current source -/
def current : Cfg :=
  (cfgOf Bpmn.Gen.C10.eventsGatedByActive Bpmn.Gen.C10.cancellationOnce Bpmn.Gen.C10.cancelRefusedWhilePending
    Bpmn.Gen.C10.listenersShareWaitGroup Bpmn.Gen.C10.activeSetBeforeNextAction
    Bpmn.Gen.C10.activeResetBeforeHandover).get (by decide)

/-- D7 does not depend on the facts: on the current ones (as on any) the interrupting statement is false, the cancel
cannot stop a request in flight, and C10 as a whole fails -/
theorem current_interrupting : ¬ boundary_interrupting current := C10_counterexample_interrupting current

theorem current_second_event : ¬ boundary_non_interrupting current := C10_counterexample_second_event current

/-- the model hard-wires that the request goroutine waits only for its context and its answer, so that no cancel
verdict can reach it (`respond` is enabled whatever the activity's run loop did) -/
theorem current_request_ignores_cancel : Bpmn.Gen.C10.requestIgnoresCancel = some true := by decide

/-- the model hard-wires that only listeners of boundary events with cancelActivity cancel the host (`transform`) -/
theorem current_cancel_only_if_interrupting : Bpmn.Gen.C10.cancelOnlyIfInterrupting = some true := by decide

/-- the `cancellation` once: no matched listener is left waiting for a verdict -/
theorem current_once :
    if current.once = true then
      ∀ (kinds : List Bool) (s : St), Reach current kinds s → quiet current s = true →
        ∀ (i : Nat) (l : Listener), s.ls[i]? = some l → l.phase = .idle ∨ l.phase = .armed ∨ l.phase = .moved
    else
      ∃ (s : St) (l : Listener), Reach current [true, true] s ∧ quiet current s = true ∧ s.ls[1]? = some l ∧
        l.phase = .cancelling ∧ l.conts = 0 ∧ l.got = 1 ∧ l.dropped = 0 := by
  split
  · next h => exact fun kinds s hr hq i l hl => exception_progress current h kinds s hr hq i l hl
  · next h => exact C10_counterexample_no_once current (by simpa using h)

/-- no reaction after completion: governed by the `active` gate of `harness.ConsumeEvent` -/
theorem current_no_reaction :
    if current.gated = true then
      ∀ (kinds : List Bool) (s : St), Reach current kinds s → quiet current s = true → s.req = .done →
        ∀ (tr : List Label) (s' : St), run current s tr = some s' → s' = s
    else ¬ boundary_inert_after_completion current := by
  split
  · next h => exact fun kinds s hr hq hd tr s' hrun => inert_no_reaction current h kinds s hr hq hd tr s' hrun
  · next h => exact C10_counterexample_ungated current (by simpa using h)

/-- D8: governed by the wait group the listener flows are created with -/
theorem current_wait_group :
    if current.share = true then ¬ boundary_inert_after_completion current
    else ∀ s : St, wgListeners current s = 0 := by
  split
  · next h => exact C10_counterexample_armed_listener current h
  · next h => exact fun s => inert_wg_unshared current (by simpa using h) s

/-- the order of the harness's two activation statements: with `active := 1` first (or without the gate) an
interrupting event can strand the host's token before the activity ever ran; with `activity.NextAction` first (and
the gate) the host is always requested -/
theorem current_activation :
    if current.early = false ∧ current.gated = true then
      ∀ (kinds : List Bool) (s : St), Reach current kinds s → quiet current s = true →
        s.req = .none ∨ s.req = .pending ∨ s.req = .done
    else
      ∃ s : St, Reach current [true] s ∧ quiet current s = true ∧ s.req = .atTask ∧ contsAt s 0 = 1 ∧
        ∀ (tr : List Label) (s' : St), run current s tr = some s' → s'.req = .atTask ∧ s'.hreqs = 0 ∧ s'.normal = 0 := by
  split
  · next h => exact fun kinds s hr hq => host_always_requested current h.1 h.2 kinds s hr hq
  · next h =>
    apply C10_counterexample_cancel_before_request
    cases he : current.early with
    | true => exact Or.inl rfl
    | false =>
      right
      cases hg : current.gated with
      | false => rfl
      | true => exact absurd ⟨he, hg⟩ h

/-- the order of `active := 0` and the hand-over of the answer: reset first (and the gate) — once the token holds the
answer no event reaches a boundary event, on every schedule; reset afterwards — an event delivered after the host
completed still continues the exception flow -/
theorem current_handover :
    if current.resetFirst = true ∧ current.gated = true then
      ∀ (kinds : List Bool) (s : St), Reach current kinds s → Req.forwarded.rank ≤ s.req.rank → ∀ i : Nat,
        step current s (.deliver i) = some s ∨ step current s (.deliver i) = none
    else if current.resetFirst = false then
      ∃ s s' : St, Reach current [false] s ∧ s.req = .done ∧ s.normal = 1 ∧ contsAt s 0 = 0 ∧
        run current s [.deliver 0, .catchTake 0, .transform 0, .move 0] = some s' ∧ contsAt s' 0 = 1
    else True := by
  split
  · next h => exact fun kinds s hr hh i => handover_inert current h.1 h.2 kinds s hr hh i
  · split
    · next h => exact C10_counterexample_late_reset current h
    · trivial

/-- C10 on the current facts: false (D7 is not governed by any extracted fact), with the partial statement where the
once and the gate are in place -/
theorem current_verdict :
    ¬ C10_statement current ∧ (if current.once = true ∧ current.gated = true then C10_partial_statement current else True) := by
  refine ⟨C10_fails current, ?_⟩
  split
  · next h => exact C10_partial current h.1 h.2
  · trivial

/-- what is right today stays right: the once, the gate, and `active := 0` before the hand-over -/
theorem current_no_regression : (current.once && current.gated && current.resetFirst) = true := by decide

end Bpmn.Props.C10
