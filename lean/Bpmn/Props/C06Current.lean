import Bpmn.Props.C06
import Bpmn.Gen.C06
/-! C06 instantiated at the facts extracted from the current /repo tree (`Bpmn.Gen.C06`, regenerated on every run).
Every verdict is an if-then-else dichotomy proved for both sides, so this module type-checks on either side of a
repair: buffering the termination channels (and leaving the map variable alone) turns `current_no_block` from the
D5 witness into the theorem, buffering the reply channel does the same for `current_late_inert` (D21). The module
stops type-checking only when a fact cannot be read (`none`) or when one of the three facts the model hard-wires
(winner decided by a compare-and-swap, winner closes every channel, loser answered with `completeAction`) moved. -/
namespace Bpmn.Props.C06
open Bpmn.Model.EventGateway

def factsOf : Option Nat → Option Bool → Option Nat → Option Nat → Option Nat → Option Cfg
  | some tc, some mr, some rc, some mul, some add =>
    some { k := 2, termCap := tc, mapReplaced := mr, replyCap := rc, inboxCap := mul * 1 + add }
  | _, _, _, _, _ => none

/-- the facts of the current source (catch events of an event-based gateway have one incoming flow) -/
def current : Cfg :=
  (factsOf Bpmn.Gen.C06.ebgTermCap Bpmn.Gen.C06.ebgMapReplaced Bpmn.Gen.C06.catchReplyCap
    Bpmn.Gen.C06.catchInboxMul Bpmn.Gen.C06.catchInboxAdd).get (by decide)

/-- a catch node's inbox holds at least one message -/
theorem current_inbox : 1 ≤ current.inboxCap := by decide

/-- C06 on the current facts: holds, or is refuted by the witnesses of `C06_cex` -/
theorem current_verdict : if Ok current = true then C06_statement current else ¬ C06_statement current := by
  split
  · next h => exact C06_general _ current_inbox h
  · next h => exact C06_cex _ current_inbox (by simpa using h)

/-- exactly one winner: whatever the facts -/
theorem current_one_winner : ∀ k, OneWinner { current with k := k } := fun _ => ebg_one_winner _

/-- D5: the winner never blocks and every loser is withdrawn — or the explicit deadlock -/
theorem current_no_block :
    if 1 ≤ current.termCap ∧ current.mapReplaced = false then ∀ k, NoBlock { current with k := k }
    else ¬ NoBlock { current with k := 2 } := by
  split
  · next h => exact fun k => ebg_no_block _ h.1 h.2 current_inbox
  · next h =>
    apply noBlock_fails _ current_inbox
    by_cases h0 : current.termCap = 0
    · exact Or.inl h0
    · right
      cases hm : current.mapReplaced with
      | true => rfl
      | false => exact absurd ⟨by omega, hm⟩ h

/-- D21: late events are inert — or the stuck catch node -/
theorem current_late_inert :
    if 1 ≤ current.replyCap then ∀ k, LateInert { current with k := k } else ¬ LateInert { current with k := 2 } := by
  split
  · next h => exact fun k => ebg_late_events_inert _ h current_inbox
  · next h => exact lateInert_fails _ current_inbox (by omega)

/-- the model's `cas` step is a compare-and-swap, as in the transformer -/
theorem current_uses_cas : Bpmn.Gen.C06.ebgUsesCas = some true := by decide

/-- the model's winner closes every channel inside its loop, as the transformer does -/
theorem current_winner_closes : Bpmn.Gen.C06.ebgWinnerCloses = some true := by decide

/-- the model's CAS loser goes to `completed` (`completeAction{}`), as in the transformer -/
theorem current_loser_completes : Bpmn.Gen.C06.ebgLoserCompletes = some true := by decide

end Bpmn.Props.C06
