import Bpmn.Lemmas.IdGen
/-!
# C20 — Generated identifiers never collide

Property theorems only. Model: `Bpmn.Model.IdGen` (port of `pkg/id/fallback.go` and of `muyo/sno`'s
`Generator.New` / `Snapshot` / restore as `pkg/id/sno.go` uses them, one step per atomic operation).

Every statement is for schedules of any length (any number of threads, draws, clock ticks, overflow-ticker
firings, snapshot/restore points). Three facts about the code are parameters of the statement:

* `ser` — is `SnoGenerator.New` serialised by a mutex. With `ser = true` ids are pairwise distinct for every
  schedule (`sno_unique_serialised`). With `ser = false` — the code as it is — the faithful model hands out the same
  id twice (`C20_counterexample_stale_time`, `C20_counterexample_reset_window`).
* `fbAtomic` — is the fallback counter incremented by one atomic fetch-and-add (it is).
* `fbSerial` — does `NewFallbackGenerator` mix a per-program serial number (package-level atomic counter) into the
  prefix. With it, the generators of a program have distinct prefixes whatever the clock says
  (`fallback_unique_program`); with the clock reading alone, two generators created within one reading collide
  (`fallback_counterexample_same_clock`).
-/
namespace Bpmn.Props.C20
open Bpmn.Model.IdGen

/-! ## Fallback generator -/

/-- One fallback generator, any number of threads, any interleaving of their draws (fewer than 2^64 draws,
the counter is a `uint64`): ids pairwise distinct, and all carry the generator's prefix. -/
theorem fallback_unique (p : FbPrefix) (sched : List Nat) (h : sched.length < u64) :
    (fbRun true (fbNew p) sched).out.Nodup ∧ ∀ x ∈ (fbRun true (fbNew p) sched).out, x.pfx = p := by
  have := (fbInv_run p sched (fbNew p) (fbInv_new p) (by simpa [fbNew] using h)).1
  exact ⟨this.nodup, fun x hx => (this.bound x hx).1⟩

/-- Several fallback generators with pairwise distinct prefixes (= creation-time clock readings), each drawn from
under any interleaving (generators share no state, so a global interleaving is a schedule per generator). -/
theorem fallback_unique_across (gs : List (FbPrefix × List Nat))
    (hp : gs.Pairwise (fun a b => a.1 ≠ b.1)) (hl : ∀ a ∈ gs, a.2.length < u64) :
    (gs.flatMap (fun a => (fbRun true (fbNew a.1) a.2).out)).Nodup := by
  apply nodup_flatMap_of
  · intro a ha; exact (fallback_unique a.1 a.2 (hl a ha)).1
  · refine List.Pairwise.imp_of_mem ?_ hp
    intro a b ha hb hab x hx y hy e
    have h1 := (fallback_unique a.1 a.2 (hl a ha)).2 x hx
    have h2 := (fallback_unique b.1 b.2 (hl b hb)).2 y hy
    subst e
    exact hab (h1.symm.trans h2)

/-- The distinct-prefix hypothesis is necessary: two fallback generators created within the same clock reading
(`time.Now().UnixNano()` equal) share the prefix and hand out the same ids, starting with the first. -/
theorem fallback_same_prefix_collides (p : FbPrefix) (s1 s2 : List Nat) (h1 : s1 ≠ []) (h2 : s2 ≠ []) :
    ∃ x, x ∈ (fbRun true (fbNew p) s1).out ∧ x ∈ (fbRun true (fbNew p) s2).out := by
  refine ⟨⟨p, 1⟩, ?_, ?_⟩
  · cases s1 with
    | nil => exact absurd rfl h1
    | cons i is =>
      simp only [fbRun, List.foldl_cons]
      exact fbRun_mono true is _ _ (by simp [fbStep, fbNew, u64])
  · cases s2 with
    | nil => exact absurd rfl h2
    | cons i is =>
      simp only [fbRun, List.foldl_cons]
      exact fbRun_mono true is _ _ (by simp [fbStep, fbNew, u64])

/-- With a serial number in the prefix (`fbProgram true`: the package-level atomic counter is mixed in), the
generators of one program have pairwise distinct prefixes WHATEVER the clock readings are — in particular when
several are created within one nanosecond — so no distinct-prefix hypothesis is needed: any number of generators
(fewer than 2^64), any clock readings, any interleaving of draws on each. -/
theorem fallback_unique_program (gs : List (Nat × List Nat)) (hn : gs.length < u64)
    (hl : ∀ a ∈ gs, a.2.length < u64) :
    ((fbProgram true 0 gs).flatMap (fun a => (fbRun true (fbNew a.1) a.2).out)).Nodup := by
  apply fallback_unique_across
  · exact fbProgram_pairwise gs 0 (by omega)
  · intro a ha
    obtain ⟨g, hg, e⟩ := fbProgram_sched true gs 0 a ha
    rw [e]; exact hl g hg

/-- With the clock reading alone as prefix, two generators created within one clock reading hand out the same id. -/
theorem fallback_counterexample_same_clock :
    ¬ ((fbProgram false 0 [(5, [0]), (5, [0])]).flatMap (fun a => (fbRun true (fbNew a.1) a.2).out)).Nodup := by
  decide

/-- If the counter were incremented by a plain load and store, two threads could both read 0 and hand out `p-1`. -/
theorem fallback_counterexample_nonatomic : ¬ (fbRun false (fbNew 5) [0, 1, 0, 1]).out.Nodup := by decide

/-! ## sno generator, `New` serialised -/

/-- `SnoGenerator.New` under a mutex: for every initial generator state whose `wallHi` is not in the future, every
number of threads and every schedule of their atomic operations, clock ticks, overflow-ticker firings and
snapshot/restore points: (time, sequence) strictly increases lexicographically in draw order. -/
theorem sno_lex_increasing (g0 : Gen) (now0 : Nat) (sched : List Ev) (h : g0.wallHi ≤ now0) :
    (run true (init g0 now0) sched).out.Pairwise (fun newer older => lexLt older newer) :=
  (inv_run g0.part sched _ (inv_init g0 now0 h)).sorted

/-- … hence ids are pairwise distinct: across threads, across ticks, across sequence overflow, and between a
generator's earlier output and the output of the generator restored from its snapshot (`Ev.restore`). -/
theorem sno_unique_serialised (g0 : Gen) (now0 : Nat) (sched : List Ev) (h : g0.wallHi ≤ now0) :
    (run true (init g0 now0) sched).out.Nodup :=
  nodup_of_sorted _ (sno_lex_increasing g0 now0 sched h)

/-- One goroutine drawing from a generator — no mutex needed, the code as it is: for every schedule in which only
one thread performs operations (with ticks, overflow-ticker firings and snapshot/restore anywhere), (time, sequence)
strictly increases and ids are pairwise distinct. This is the law the driver checks on single-goroutine traces. -/
theorem sno_unique_single_goroutine (g0 : Gen) (now0 : Nat) (sched : List Ev) (h : g0.wallHi ≤ now0)
    (hs : ∀ e ∈ sched, Solo e) :
    (run false (init g0 now0) sched).out.Pairwise (fun newer older => lexLt older newer) ∧
    (run false (init g0 now0) sched).out.Nodup := by
  rw [solo_out g0 now0 sched hs]
  exact ⟨sno_lex_increasing g0 now0 sched h, sno_unique_serialised g0 now0 sched h⟩

/-- every id carries the partition of the generator (restore keeps the partition) -/
theorem sno_ids_carry_partition (g0 : Gen) (now0 : Nat) (sched : List Ev) (h : g0.wallHi ≤ now0) :
    ∀ x ∈ (run true (init g0 now0) sched).out, x.part = g0.part := by
  intro x hx
  have inv := inv_run g0.part sched _ (inv_init g0 now0 h)
  exact (inv.old x hx).1.trans inv.part

/-- Several generators alive at once with pairwise distinct partitions: no id is handed out twice. -/
theorem sno_unique_across_generators (gs : List (Gen × Nat × List Ev))
    (hp : gs.Pairwise (fun a b => a.1.part ≠ b.1.part)) (hw : ∀ a ∈ gs, a.1.wallHi ≤ a.2.1) :
    (gs.flatMap (fun a => (run true (init a.1 a.2.1) a.2.2).out)).Nodup := by
  apply nodup_flatMap_of
  · intro a ha; exact sno_unique_serialised a.1 a.2.1 a.2.2 (hw a ha)
  · refine List.Pairwise.imp_of_mem ?_ hp
    intro a b ha hb hab x hx y hy e
    have h1 := sno_ids_carry_partition a.1 a.2.1 a.2.2 (hw a ha) x hx
    have h2 := sno_ids_carry_partition b.1 b.2.1 b.2.2 (hw b hb) y hy
    subst e
    exact hab (h1.symm.trans h2)

/-- Whether or not `New` is serialised, and under every schedule: every id carries its generator's partition, so
two generators with different partitions never hand out the same id. This part of "several generators alive at
once" holds for the code as it is. -/
theorem sno_partition_any_schedule (ser : Bool) (g0 : Gen) (now0 : Nat) (sched : List Ev) :
    ∀ x ∈ (run ser (init g0 now0) sched).out, x.part = g0.part :=
  (run_partInv g0.part ser sched (init g0 now0) rfl (by intro x hx; simp [init] at hx)).2

theorem sno_distinct_generators_disjoint (ser : Bool) (g1 g2 : Gen) (n1 n2 : Nat) (s1 s2 : List Ev)
    (hp : g1.part ≠ g2.part) :
    ∀ x ∈ (run ser (init g1 n1) s1).out, ∀ y ∈ (run ser (init g2 n2) s2).out, x ≠ y := by
  intro x hx y hy e
  subst e
  exact hp ((sno_partition_any_schedule ser g1 n1 s1 x hx).symm.trans (sno_partition_any_schedule ser g2 n2 s2 x hy))

/-- `genPartition` gives the first 65536 generators of a program pairwise distinct partitions. -/
theorem genPartition_injective (seed n m : Nat) (hn : n < 65536) (hm : m < 65536) (h : n ≠ m) :
    genPartition seed n ≠ genPartition seed m := by
  unfold genPartition
  omega

/-! ## sno generator as the code is: `New` not serialised -/

def rep (n : Nat) (e : Ev) : List Ev := List.replicate n e

/-- Thread 0 draws (1,0) and (1,1). Thread 1 loads `wallHi = 1` and reads the clock (1), then is delayed. The clock
ticks. Thread 0 draws again: time progressed, it resets the sequence and gets (2,0). Thread 1 resumes: its
increment returns 1, which it stamps with the time it read — (1,1) again. -/
def staleTimeSchedule : List Ev :=
  rep 6 (.thr 0) ++ rep 5 (.thr 0) ++ rep 3 (.thr 1) ++ [.tick] ++ rep 6 (.thr 0) ++ rep 2 (.thr 1)

theorem C20_counterexample_stale_time :
    ¬ (run false (init (freshGen 7) 1) staleTimeSchedule).out.Nodup := by decide

/-- what the schedule produces, newest first -/
example : (run false (init (freshGen 7) 1) staleTimeSchedule).out =
    [⟨1, 0, 7, 1⟩, ⟨2, 0, 7, 0⟩, ⟨1, 0, 7, 1⟩, ⟨1, 0, 7, 0⟩] := by decide

/-- Thread 0 draws (1,0); the clock ticks; thread 0 wins the CAS on `wallHi` (1 → 2) but has not yet stored the
reset sequence. Thread 1 sees `wallHi = 2 = now`, increments the OLD sequence (0) and gets (2,1). Thread 0 stores
0, gets (2,0), and its next draw hands out (2,1) again. (With an old sequence of n the duplicate is (2,n+1), which is
what the stress runs show: duplicates with arbitrary sequence numbers.) -/
def resetWindowSchedule : List Ev :=
  rep 6 (.thr 0) ++ [.tick] ++ rep 4 (.thr 0) ++ rep 5 (.thr 1) ++ rep 2 (.thr 0) ++ rep 5 (.thr 0)

theorem C20_counterexample_reset_window :
    ¬ (run false (init (freshGen 7) 1) resetWindowSchedule).out.Nodup := by decide

example : (run false (init (freshGen 7) 1) resetWindowSchedule).out =
    [⟨2, 0, 7, 1⟩, ⟨2, 0, 7, 0⟩, ⟨2, 0, 7, 1⟩, ⟨1, 0, 7, 0⟩] := by decide

/-- the same schedules are harmless once `New` is serialised (instance of `sno_unique_serialised`) -/
example : (run true (init (freshGen 7) 1) staleTimeSchedule).out.Nodup :=
  sno_unique_serialised _ _ _ (by decide)

/-! ## The statement -/

/-- C20 on the model, with three facts about the code as parameters: is `SnoGenerator.New` serialised, is the
fallback counter advanced atomically, does the fallback prefix carry a per-program serial number. -/
def C20_statementFor (ser fbAtomic fbSerial : Bool) : Prop :=
  -- (a) the fallback generator: one generator, concurrent draws
  (∀ (p : FbPrefix) (sched : List Nat), sched.length < u64 → (fbRun fbAtomic (fbNew p) sched).out.Nodup) ∧
  -- (b) the fallback generators one program creates, at arbitrary (possibly equal) clock readings
  (∀ gs : List (Nat × List Nat), gs.length < u64 → (∀ a ∈ gs, a.2.length < u64) →
      ((fbProgram fbSerial 0 gs).flatMap (fun a => (fbRun fbAtomic (fbNew a.1) a.2).out)).Nodup) ∧
  -- (c) one sno generator: concurrent draws, ticks, overflow, snapshot/restore at arbitrary points between draws
  (∀ (g0 : Gen) (now0 : Nat) (sched : List Ev), g0.wallHi ≤ now0 → (run ser (init g0 now0) sched).out.Nodup) ∧
  -- (d) several sno generators alive at once
  (∀ gs : List (Gen × Nat × List Ev), gs.Pairwise (fun a b => a.1.part ≠ b.1.part) →
      (∀ a ∈ gs, a.1.wallHi ≤ a.2.1) → (gs.flatMap (fun a => (run ser (init a.1 a.2.1) a.2.2).out)).Nodup)

/-- the full statement: ids never collide, whether or not callers of `SnoGenerator.New` are serialised and
whether or not fallback prefixes carry a serial number -/
def C20_statement : Prop := ∀ ser fbSerial : Bool, C20_statementFor ser true fbSerial

/-- C20 holds on the model under the hypotheses that exclude the witnesses: `New` serialised, fallback counter
atomic, fallback prefix with serial number. Still for every schedule, every number of threads, draws, generators. -/
theorem C20_partial : C20_statementFor true true true :=
  ⟨fun p s h => (fallback_unique p s h).1, fallback_unique_program,
   sno_unique_serialised, sno_unique_across_generators⟩

theorem C20_general (ser fbAtomic fbSerial : Bool) (h1 : ser = true) (h2 : fbAtomic = true)
    (h3 : fbSerial = true) : C20_statementFor ser fbAtomic fbSerial := by
  subst h1; subst h2; subst h3; exact C20_partial

/-- without the mutex the model violates clause (c), whatever the fallback generator does -/
theorem C20_cex_unserialised (fbAtomic fbSerial : Bool) : ¬ C20_statementFor false fbAtomic fbSerial := by
  intro h
  exact C20_counterexample_stale_time (h.2.2.1 (freshGen 7) 1 staleTimeSchedule (by decide))

/-- with a non-atomic fallback counter the model violates clause (a) -/
theorem C20_cex_nonatomic_counter (ser fbSerial : Bool) : ¬ C20_statementFor ser false fbSerial := by
  intro h
  exact fallback_counterexample_nonatomic (h.1 5 [0, 1, 0, 1] (by decide))

/-- with the clock reading alone as fallback prefix the model violates clause (b) -/
theorem C20_cex_clock_only_prefix (ser : Bool) : ¬ C20_statementFor ser true false := by
  intro h
  exact fallback_counterexample_same_clock (h.2.1 [(5, [0]), (5, [0])] (by decide) (by decide))

/-- the statement holds exactly when all three facts are as required: whatever the extracted facts are, the model
either satisfies C20 or provably violates it -/
theorem C20_decided (ser fbAtomic fbSerial : Bool) :
    C20_statementFor ser fbAtomic fbSerial ↔ (ser = true ∧ fbAtomic = true ∧ fbSerial = true) := by
  constructor
  · intro h
    cases ser
    · exact absurd h (C20_cex_unserialised _ _)
    · cases fbAtomic
      · exact absurd h (C20_cex_nonatomic_counter _ _)
      · cases fbSerial
        · exact absurd h (C20_cex_clock_only_prefix _)
        · exact ⟨rfl, rfl, rfl⟩
  · intro ⟨h1, h2, h3⟩; exact C20_general _ _ _ h1 h2 h3

/-- the full statement is false on the faithful model -/
theorem C20_not_holds : ¬ C20_statement := fun h => C20_cex_unserialised true true (h false true)

/-- the dichotomy the extracted facts select from (see `C20Current.lean`) -/
def SnoClaim : Bool → Prop
  | true => ∀ (g0 : Gen) (now0 : Nat) (sched : List Ev), g0.wallHi ≤ now0 →
      (run true (init g0 now0) sched).out.Nodup
  | false => ∃ sched : List Ev, sched = staleTimeSchedule ∧ ¬ (run false (init (freshGen 7) 1) sched).out.Nodup

theorem sno_dichotomy : ∀ b, SnoClaim b
  | true => sno_unique_serialised
  | false => ⟨_, rfl, C20_counterexample_stale_time⟩

def FallbackClaim : Bool → Prop
  | true => ∀ (p : FbPrefix) (sched : List Nat), sched.length < u64 → (fbRun true (fbNew p) sched).out.Nodup
  | false => ¬ (fbRun false (fbNew 5) [0, 1, 0, 1]).out.Nodup

theorem fallback_dichotomy : ∀ b, FallbackClaim b
  | true => fun p s h => (fallback_unique p s h).1
  | false => fallback_counterexample_nonatomic

/-- fallback prefixes: with a serial number, uniqueness across the generators of a program for arbitrary clock
readings; with the clock reading alone, the same-clock witness -/
def FallbackPrefixClaim : Bool → Prop
  | true => ∀ gs : List (Nat × List Nat), gs.length < u64 → (∀ a ∈ gs, a.2.length < u64) →
      ((fbProgram true 0 gs).flatMap (fun a => (fbRun true (fbNew a.1) a.2).out)).Nodup
  | false => ¬ ((fbProgram false 0 [(5, [0]), (5, [0])]).flatMap (fun a => (fbRun true (fbNew a.1) a.2).out)).Nodup

theorem fallback_prefix_dichotomy : ∀ b, FallbackPrefixClaim b
  | true => fallback_unique_program
  | false => fallback_counterexample_same_clock

/-! Non-vacuity of the implications (tests, not the claim). -/
example : (fbProgram true 0 [(5, [0, 1]), (5, [0])]).map (·.1) = [⟨5, 1⟩, ⟨5, 2⟩] := by decide
example : ((fbProgram true 0 [(5, [0, 1]), (5, [0])]).flatMap (fun a => (fbRun true (fbNew a.1) a.2).out)) =
    [⟨⟨5, 1⟩, 2⟩, ⟨⟨5, 1⟩, 1⟩, ⟨⟨5, 2⟩, 1⟩] := by decide
example : (List.length [0, 1, 2, 1, 0] < u64) := by decide
example : (fbRun true (fbNew 9) [0, 1, 2, 1, 0]).out = [⟨9, 5⟩, ⟨9, 4⟩, ⟨9, 3⟩, ⟨9, 2⟩, ⟨9, 1⟩] := by decide
example : [((3 : FbPrefix), [0, 1]), (4, [0])].Pairwise (fun a b => a.1 ≠ b.1) := by decide
example : (freshGen 7).wallHi ≤ 1 := by decide
example : [(freshGen 1, 1, [Ev.thr 0]), (freshGen 2, 1, [])].Pairwise (fun a b => a.1.part ≠ b.1.part) := by decide
example : genPartition 65530 3 ≠ genPartition 65530 10 := by decide
example : (freshGen 1).part ≠ (freshGen 2).part := by decide
example : ∀ e ∈ [Ev.thr 0, .tick, .thr 0, .restore, .ovfLoop], Solo e := by
  intro e he; simp at he; rcases he with rfl | rfl | rfl | rfl | rfl <;> simp [Solo]
/-- a serialised run in which three threads, a tick and a restore all happen, and ids come out -/
example : (run true (init (freshGen 7) 1)
    (rep 6 (.thr 0) ++ [.thr 1, .thr 2] ++ rep 4 (.thr 1) ++ [.restore, .tick] ++ rep 6 (.thr 2))).out =
    [⟨2, 0, 7, 0⟩, ⟨1, 0, 7, 1⟩, ⟨1, 0, 7, 0⟩] := by decide

end Bpmn.Props.C20
