import Bpmn.Props.C16
import Bpmn.Gen.C16
/-! C16 instantiated at the facts extracted from the current /repo tree (`Bpmn.Gen.C16`, regenerated on
every run). Every theorem here is a dichotomy that type-checks whichever way the facts point, so a repair
of /repo never breaks this module; what it proves then changes from the witness side to the positive side.
If the extractor cannot read a fact (`none`), `current` does not elaborate and the module fails to build. -/
namespace Bpmn.Props.C16
open Bpmn.Model.Value

/-- the facts of the current source -/
def current : Cfg :=
  (cfgOf Bpmn.Gen.C16.inferredSwitch Bpmn.Gen.C16.declaredIntKinds Bpmn.Gen.C16.declaredFloatSixDecimals
    Bpmn.Gen.C16.declaredFloatWidened Bpmn.Gen.C16.nilGuardArray Bpmn.Gen.C16.nilGuardObject
    Bpmn.Gen.C16.nilGuardValuePtr).get (by decide)

/-- C16 on the current facts: holds, or is false with the witnesses of `C16_cex` -/
theorem current_verdict : if C16ok current = true then C16_statement current else ¬ C16_statement current := by
  split
  · next h => exact C16_general _ h
  · next h => exact C16_cex _ (by simpa using h)

/-- unsigned integers as variables / results / data objects -/
theorem current_unsigned :
    if unsignedKinds.all (kindOk current) = true then
      ∀ (C : Codec), C.Lawful → ∀ (k : IntKind) (n : Int), k.signed = false → -9223372036854775808 ≤ n →
        n ≤ 9223372036854775807 → survives C (newValue current C (.int k n)) (.int k n)
    else ∃ k ∈ unsignedKinds, ¬ survives Codec.ideal (newValue current Codec.ideal (sample k)) (sample k) := by
  split
  · next h => exact fun C hC k n hu h1 h2 => unsigned_survive current h C hC k n hu h1 h2
  · next h => exact unsigned_witness current (by simpa using h)

/-- nil under a declared array / object type, nil `*schema.Value`, olive property references -/
theorem current_panics :
    if panicFree current = true then
      (∀ (C : Codec) (iv : Value C.T) (v : GoVal), ∃ val, valueFrom current C iv v = .ok val) ∧
      (∀ (C : Codec) (s : Store C.T) (ty : ItemType) (ref : Text), ∃ val, fetchProperty current C s ty ref = .ok val)
    else ∀ (C : Codec), ∃ p, valueFrom current C (Value.empty C.T (panicWitness current).1) (panicWitness current).2 = .error p := by
  split
  · next h => exact ⟨fun C iv v => no_panic current h C iv v, fun C s ty ref => fetchProperty_safe current h C s ty ref⟩
  · next h => exact fun C => panics_of_not_panicFree current (by simpa using h) C

/-- a float under the declared float type -/
theorem current_float :
    if floatFaithful current = true then
      ∀ (C : Codec), C.Lawful → ∀ (b : Bool) (f : F64) (s : Text), F64.wf f = true →
        (∀ k ∈ intKinds, current.declInt.contains k = true) →
        survives C (valueFrom current C (Value.empty C.T .float) (.float b f s)) (.float b f s)
    else (current.floatSix = true ∧
            ¬ survives Codec.ideal (valueFrom current Codec.ideal (Value.empty _ .float) (.float false tiny tiny.g)) (.float false tiny tiny.g))
         ∨ (current.floatSix = false ∧ current.floatWide = false ∧
            ¬ survives Codec.ideal (valueFrom current Codec.ideal (Value.empty _ .float) (.float true tenth32 "0.1".toList))
              (.float true tenth32 "0.1".toList)) := by
  split
  · next h =>
    exact fun C hC b f s hw hint =>
      declared_load_core current hint C hC _ .float (Or.inl h) (by simpa [storable] using hw)
        (by cases b <;> simp [GoVal.kind]) rfl
  · next h =>
    by_cases h6 : current.floatSix = true
    · exact Or.inl ⟨h6, float_six_loses current h6 _⟩
    · have hw : current.floatWide = false := by
        unfold floatFaithful at h
        cases h1 : current.floatSix <;> cases h2 : current.floatWide <;> simp_all
      exact Or.inr ⟨by simpa using h6, hw, float_narrow_loses current (by simpa using h6) hw _⟩

/-- everything the facts as found handled correctly is still handled correctly (a kind removed from a
switch, a changed accessor, a dropped integer kind make this fail to build) -/
def noRegression (cfg : Cfg) : Bool :=
  [Kind.bool, .int, .int8, .int16, .int32, .int64, .float32, .float64, .string, .slice, .map, .struct].all (kindOk cfg)
  && intKinds.all (cfg.declInt.contains ·)
  && allKinds.all (fun k => !badKind cfg k || k.isUnsigned)

theorem current_no_regression : noRegression current = true := by decide

end Bpmn.Props.C16
