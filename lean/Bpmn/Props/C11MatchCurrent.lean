import Bpmn.Gen.C11
import Bpmn.Model.EventMatch
/-!
# C11 / C14 / C06 / C10 — the matching kernel IS the source, for messages and signals

`Gen/C11.messageMatchGen` and `signalMatchGen` are translated on every run from pkg/event/events.go
(`(*MessageEvent).MatchesEventInstance`, `(*SignalEvent).MatchesEventInstance`, the part behind the type assertion) by
`extract/facts_c11match.go`, statement by statement. The obligations below prove them equal — for every reference, every
operation reference present or absent on either side — to the hand-written kernel `EventMatch.matchesInst` that
`Props/C11Match`, the satisfier model of C14 and the event models of C06 / C10 / C11 build on. A change of the matching
rules (say: an event that carries an operation also matches a definition that names none) breaks the equation.
-/
namespace Bpmn.Props.C11MatchCurrent
open Bpmn.Model.EventMatch

theorem translated : Bpmn.Gen.C11.messageMatchGen.isSome = true ∧ Bpmn.Gen.C11.signalMatchGen.isSome = true := by decide

/-- **the source's message matcher is the kernel** -/
theorem message_match_is_source : ∀ f, Bpmn.Gen.C11.messageMatchGen = some f →
    ∀ (id r : Nat) (op dr dop : Option Nat), f r op dr dop = matchesInst (.message r op) ⟨id, .message dr dop⟩ := by
  intro f hf id r op dr dop
  unfold Bpmn.Gen.C11.messageMatchGen at hf
  injection hf with hf
  subst hf
  cases dr <;> cases op <;> cases dop <;> simp [matchesInst] <;> grind

/-- **the source's signal matcher is the kernel** -/
theorem signal_match_is_source : ∀ f, Bpmn.Gen.C11.signalMatchGen = some f →
    ∀ (id r : Nat) (dr : Option Nat), f r dr = matchesInst (.signal r) ⟨id, .signal dr⟩ := by
  intro f hf id r dr
  unfold Bpmn.Gen.C11.signalMatchGen at hf
  injection hf with hf
  subst hf
  cases dr <;> simp [matchesInst]

/-- reading aid and non-vacuity: a message event WITH an operation does not match a definition that names none -/
example : (Bpmn.Gen.C11.messageMatchGen.map (fun f => [f 1 (some 7) (some 1) none, f 1 none (some 1) none,
    f 1 (some 7) (some 1) (some 7), f 1 (some 7) (some 1) (some 8), f 1 none (some 2) none])) =
    some [false, true, true, false, false] := by decide

end Bpmn.Props.C11MatchCurrent
