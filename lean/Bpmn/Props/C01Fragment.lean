import Bpmn.Props.C01Conformance
/-!
# C01 — UNCONDITIONAL conformance on the fragment without inclusive gateways and sub-processes

`Props/C01Conformance` proves: a run of the code configuration that logs no deviation cause IS a run of the token game.
This file removes the side condition for a syntactic class of programs. For EVERY program — any graph, block structured
or not, of any size — whose nodes are start / end events, activities (with any number of conditional or unconditional
outgoing flows), exclusive and parallel gateways, catch / throw events (everything except inclusive gateways and embedded
sub-processes), every configuration `cfg` of the code with the repaired switch `firstFlowDecides = false` (an extracted
fact, `Props/EngineCurrent`), every initial data and every sequence of driver answers (ok / error with any handler mode,
also answers to requests that do not exist):

* the run never logs a cause (`fragment_never_deviates`), hence
* it IS the run of the BPMN token game `Cfg.ideal`, state by state (`fragment_conformance`) —
  same requests in the same order, same completions, same error traces, same variables, same parked tokens.

The three remaining switches (`inclCohort`, `subNeverReturns`, `subStartSticky`) are arbitrary: they cannot be observed on
this fragment. So the known findings about inclusive joins and sub-process re-entry are the ONLY ways in which the engine
model at today's extracted configuration can leave the token game.
-/
namespace Bpmn.Props.C01Fragment
open Bpmn.Model Bpmn.Model.Engine Bpmn.Lemmas.Engine Bpmn.Props.C01Conformance

/-- no inclusive gateway, no embedded sub-process -/
def Fragment (p : Proc) : Prop := ∀ n ∈ p.nodes, n.kind ≠ .incl ∧ n.kind ≠ .sub

instance (p : Proc) : Decidable (Fragment p) := by unfold Fragment; infer_instance

/-- nothing logged, no token inside a sub-process node -/
structure Clean (s : St) : Prop where
  causes : s.causes = []
  subs : s.subs = []

/-! ## `subs` is touched by sub-process arrivals and returns only -/

@[simp] theorem emit_subs (s : St) (o : Obs) : (s.emit o).subs = s.subs := rfl
@[simp] theorem recordTerm_subs (s : St) (f : Nat) : (s.recordTerm f).subs = s.subs := rfl
@[simp] theorem setTags_subs (s : St) (f : Nat) (ts : List Nat) : (s.setTags f ts).subs = s.subs := rfl
@[simp] theorem recordFlow_subs (s : St) (p : Proc) (src : String) (fids : List Nat) :
    (s.recordFlow p src fids).subs = s.subs := rfl
@[simp] theorem igSet_subs (s : St) (g : IgSt) : (igSet s g).subs = s.subs := rfl
@[simp] theorem bumpOcc_subs (s : St) (n : String) : (bumpOcc s n).2.subs = s.subs := rfl
@[simp] theorem oos_subs (s : St) (why : String) : (s.oos why).subs = s.subs := by
  unfold St.oos; split <;> rfl

@[simp] theorem inherit_subs (s : St) (parent : Nat) (kids : List Nat) :
    (s.inherit parent kids).subs = s.subs := by
  unfold St.inherit
  apply foldl_proj (fun s : St => s.subs)
  intro _ _; rfl

@[simp] theorem evalFlow_subs (p : Proc) (s : St) (fl : String) (u : Bool) :
    (evalFlow p s fl u).2.subs = s.subs := by
  unfold evalFlow
  split
  · rfl
  · split
    · rfl
    · split <;> rfl

@[simp] theorem evalFlows_subs (p : Proc) (s : St) (fls : List String) (u : Bool) :
    (evalFlows p s fls u).2.subs = s.subs := by
  unfold evalFlows
  apply foldl_proj (fun x : List (String × Bool) × St => x.2.subs)
  intro b a
  obtain ⟨acc, s⟩ := b
  simp

@[simp] theorem forkToks_subs (p : Proc) (s : St) (fls : List String) : (forkToks p s fls).2.subs = s.subs := by
  unfold forkToks
  apply foldl_proj (fun x : List Tok × St => x.2.subs)
  intro _ _; rfl

@[simp] theorem spawnStarts_subs (s : St) (starts : List Node) : (spawnStarts s starts).2.subs = s.subs := by
  unfold spawnStarts
  apply foldl_proj (fun x : List Tok × St => x.2.subs)
  intro _ _; rfl

/-! ## one token leaving a node -/

@[simp] theorem cause_subs (s : St) (c : String) : (s.cause c).subs = s.subs := by
  unfold St.cause; split <;> rfl

/-- leaving a node never touches the list of active sub-processes -/
theorem selectFlows_subs (cfg : Cfg) (p : Proc) (s : St) (t : Tok) (fls : List String) (u : Bool) :
    (selectFlows cfg p s t fls u).2.2.subs = s.subs := by
  unfold selectFlows
  split
  · simp
  · simp only
    split
    · simp
    · split <;> simp

theorem selectFlows_clean (cfg : Cfg) (hff : cfg.firstFlowDecides = false) (p : Proc) (s : St) (t : Tok)
    (fls : List String) (u : Bool) (h : Clean s) : Clean (selectFlows cfg p s t fls u).2.2 := by
  unfold selectFlows
  split
  · exact ⟨by simpa using h.causes, by simpa using h.subs⟩
  · simp only
    split
    · exact ⟨by simpa using h.causes, by simpa using h.subs⟩
    · simp only [hff, Bool.false_and, Bool.false_eq_true, if_false]
      exact ⟨by simpa using h.causes, by simpa using h.subs⟩

theorem foldl_inv {α β : Type _} (P : β → Prop) (g : β → α → β) (h : ∀ b a, P b → P (g b a)) :
    ∀ (l : List α) (b : β), P b → P (l.foldl g b) := by
  intro l
  induction l with
  | nil => intro b hb; exact hb
  | cons a l ih => intro b hb; exact ih _ (h b a hb)

theorem mem_of_node? (p : Proc) (id : String) (n : Node) (h : p.node? id = some n) : n ∈ p.nodes := by
  unfold Proc.node? at h
  exact List.mem_of_find?_eq_some h

/-! ## arrival of a token -/

theorem arrive_clean (cfg : Cfg) (hff : cfg.firstFlowDecides = false) (htf : cfg.throwFuse = false) (p : Proc) (hp : Fragment p) (s : St) (t : Tok)
    (h : Clean s) : Clean (arrive cfg p s t).2 := by
  unfold arrive
  cases hn : p.node? t.node with
  | none => exact ⟨by simpa using h.causes, by simpa using h.subs⟩
  | some n =>
    simp only
    cases hk : n.kind with
    | task => exact ⟨by simpa using h.causes, by simpa using h.subs⟩
    | start =>
      simp only
      split
      · exact ⟨by simpa using h.causes, by simpa using h.subs⟩
      · exact selectFlows_clean cfg hff p _ t _ _ ⟨h.causes, h.subs⟩
    | end_ => exact ⟨by simpa using h.causes, by simpa using h.subs⟩
    | xor =>
      simp only
      split
      · exact selectFlows_clean cfg hff p _ t _ _ ⟨by simpa using h.causes, by simpa using h.subs⟩
      · exact ⟨by simpa using h.causes, by simpa using h.subs⟩
    | par =>
      simp only
      split
      · -- the released tokens leave one after the other
        apply foldl_inv (fun x : List Tok × St => Clean x.2)
        · intro b a hb
          obtain ⟨acc, s1⟩ := b
          obtain ⟨f, r⟩ := a
          simp only
          split
          · exact ⟨by simpa using hb.causes, by simpa using hb.subs⟩
          · exact selectFlows_clean cfg hff p _ _ _ _ hb
        · exact ⟨h.causes, h.subs⟩
      · exact ⟨h.causes, h.subs⟩
    | incl => exact absurd hk (hp n (mem_of_node? p _ n hn)).1
    | sub => exact absurd hk (hp n (mem_of_node? p _ n hn)).2
    | ebg => exact ⟨h.causes, h.subs⟩
    | catch_ => exact ⟨h.causes, h.subs⟩
    | throw_ =>
      simp only [htf, Bool.false_and, Bool.false_eq_true, if_false]
      exact selectFlows_clean cfg hff p _ t _ _ ⟨h.causes, h.subs⟩
    | boundary => exact ⟨h.causes, h.subs⟩
    | other => exact ⟨h.causes, h.subs⟩

/-! ## settling: nothing to settle on the fragment -/

theorem fragment_no_incl (p : Proc) (hp : Fragment p) : p.nodes.filter (·.kind == .incl) = [] := by
  apply List.filter_eq_nil_iff.mpr
  intro n hn
  have := (hp n hn).1
  revert this
  cases n.kind <;> intro h <;> first | decide | exact absurd rfl h

theorem settle_clean (cfg : Cfg) (p : Proc) (hp : Fragment p) (s : St) (h : Clean s) :
    settle cfg p s = ([], s) := by
  simp [settle, settleIncl, fragment_no_incl p hp, h.subs]

theorem settleIncl_fragment (cfg : Cfg) (p : Proc) (hp : Fragment p) (s : St) (w : List Tok) :
    settleIncl cfg p s w = (none, s) := by
  simp [settleIncl, fragment_no_incl p hp]

/-! ## the work loop -/

theorem runWork_clean (cfg : Cfg) (hff : cfg.firstFlowDecides = false) (htf : cfg.throwFuse = false) (p : Proc) (hp : Fragment p) :
    ∀ (fuel : Nat) (toks : List Tok) (s : St), Clean s → Clean (runWork cfg p fuel toks s) := by
  intro fuel
  induction fuel with
  | zero => intro toks s h; exact ⟨by simpa [runWork] using h.causes, by simpa [runWork] using h.subs⟩
  | succ k ih =>
    intro toks s h
    cases toks with
    | nil =>
      simp only [runWork, settle_clean cfg p hp s h]
      split
      · exact h
      · exact ih _ _ h
    | cons t rest =>
      simp only [runWork]
      have ha := arrive_clean cfg hff htf p hp s t h
      split
      · simp only [settleIncl_fragment cfg p hp]
        exact ih _ _ ha
      · exact ih _ _ ha

/-! ## start and answers -/

theorem start_clean (cfg : Cfg) (hff : cfg.firstFlowDecides = false) (htf : cfg.throwFuse = false) (p : Proc) (hp : Fragment p) (vars : Vars) :
    Clean (start cfg p vars) := by
  simp only [start]
  apply runWork_clean cfg hff htf p hp
  exact ⟨by rw [spawnStarts_causes], by rw [spawnStarts_subs]⟩

theorem answer_clean (cfg : Cfg) (hff : cfg.firstFlowDecides = false) (htf : cfg.throwFuse = false) (p : Proc) (hp : Fragment p) (s : St)
    (node : String) (occ : Nat) (a : Answer) (h : Clean s) : Clean (answer cfg p s node occ a) := by
  unfold answer
  simp only
  split
  · rename_i t k n _ _
    cases a with
    | ok results =>
      simp only
      apply runWork_clean cfg hff htf p hp
      exact selectFlows_clean cfg hff p _ t _ _ ⟨h.causes, h.subs⟩
    | err mode retries =>
      simp only
      split
      · split
        · exact runWork_clean cfg hff htf p hp _ _ _ ⟨by simpa using h.causes, by simpa using h.subs⟩
        · exact runWork_clean cfg hff htf p hp _ _ _ ⟨by simpa using h.causes, by simpa using h.subs⟩
      · exact runWork_clean cfg hff htf p hp _ _ _ ⟨by simpa using h.causes, by simpa using h.subs⟩
      · apply runWork_clean cfg hff htf p hp
        exact selectFlows_clean cfg hff p _ t _ _ ⟨by simpa using h.causes, by simpa using h.subs⟩
  · exact ⟨by simpa using h.causes, by simpa using h.subs⟩

theorem runOps_clean (cfg : Cfg) (hff : cfg.firstFlowDecides = false) (htf : cfg.throwFuse = false) (p : Proc) (hp : Fragment p) (vars : Vars)
    (ops : List (String × Nat × Answer)) : Clean (runOps cfg p vars ops) := by
  unfold runOps
  have : ∀ (ops : List (String × Nat × Answer)) (s : St), Clean s →
      Clean (ops.foldl (fun s (x : String × Nat × Answer) => answer cfg p s x.1 x.2.1 x.2.2) s) := by
    intro ops
    induction ops with
    | nil => intro s h; exact h
    | cons x ops ih => intro s h; exact ih _ (answer_clean cfg hff htf p hp s _ _ _ h)
  exact this ops _ (start_clean cfg hff htf p hp vars)

/-- **No deviation on the fragment.** Whatever the program (without inclusive gateways and sub-processes), the data and
the answers: the code configuration never logs a cause. -/
theorem fragment_never_deviates (cfg : Cfg) (hff : cfg.firstFlowDecides = false) (htf : cfg.throwFuse = false) (p : Proc) (hp : Fragment p)
    (vars : Vars) (ops : List (String × Nat × Answer)) : (runOps cfg p vars ops).causes = [] :=
  (runOps_clean cfg hff htf p hp vars ops).causes

/-! ## the cohort switch cannot be observed without inclusive gateways -/

/-- the same configuration with the cohort switch off -/
def noCohort (cfg : Cfg) : Cfg := { cfg with inclCohort := false }

theorem selectFlows_noCohort (cfg : Cfg) (p : Proc) (s : St) (t : Tok) (fls : List String) (u : Bool) :
    selectFlows (noCohort cfg) p s t fls u = selectFlows cfg p s t fls u := rfl

theorem arrive_noCohort (cfg : Cfg) (p : Proc) (s : St) (t : Tok) : arrive (noCohort cfg) p s t = arrive cfg p s t := rfl

theorem settle_noCohort (cfg : Cfg) (p : Proc) (hp : Fragment p) (s : St) :
    settle (noCohort cfg) p s = settle cfg p s := by
  unfold settle
  rw [settleIncl_fragment (noCohort cfg) p hp, settleIncl_fragment cfg p hp]
  rfl

theorem runWork_noCohort (cfg : Cfg) (p : Proc) (hp : Fragment p) :
    ∀ (fuel : Nat) (toks : List Tok) (s : St), runWork (noCohort cfg) p fuel toks s = runWork cfg p fuel toks s := by
  intro fuel
  induction fuel with
  | zero => intro toks s; rfl
  | succ k ih =>
    intro toks s
    cases toks with
    | nil => simp only [runWork, settle_noCohort cfg p hp, ih]
    | cons t rest =>
      simp only [runWork, arrive_noCohort, settleIncl_fragment _ p hp, ih]
      rfl

theorem start_noCohort (cfg : Cfg) (p : Proc) (hp : Fragment p) (vars : Vars) :
    start (noCohort cfg) p vars = start cfg p vars := by
  unfold start
  simp only [runWork_noCohort cfg p hp]

theorem answer_noCohort (cfg : Cfg) (p : Proc) (hp : Fragment p) (s : St) (node : String) (occ : Nat) (a : Answer) :
    answer (noCohort cfg) p s node occ a = answer cfg p s node occ a := by
  unfold answer
  simp only [runWork_noCohort cfg p hp]
  rfl

theorem runOps_noCohort (cfg : Cfg) (p : Proc) (hp : Fragment p) (vars : Vars) (ops : List (String × Nat × Answer)) :
    runOps (noCohort cfg) p vars ops = runOps cfg p vars ops := by
  unfold runOps
  rw [start_noCohort cfg p hp]
  congr 1
  funext s x
  exact answer_noCohort cfg p hp s x.1 x.2.1 x.2.2

/-- **C01 on the fragment, unconditionally.** For every program without inclusive gateways and sub-processes — any
graph, any size, any conditions — every code configuration with `firstFlowDecides = false`, every data and every answer
sequence, the run of the code configuration IS the run of the token game `Cfg.ideal`: every activity is requested exactly
as often, and in the order, the token game prescribes; the same end events are reached with the same variables. -/
theorem fragment_conformance (cfg : Cfg) (hff : cfg.firstFlowDecides = false) (htf : cfg.throwFuse = false) (h1 : cfg.eagerSettle = false)
    (h2 : cfg.lateJoin = false) (p : Proc) (hp : Fragment p) (vars : Vars) (ops : List (String × Nat × Answer)) :
    runOps cfg p vars ops = runOps Cfg.ideal p vars ops := by
  rw [← runOps_noCohort cfg p hp]
  apply conformance_runOps_ideal (noCohort cfg) h1 h2 rfl
  exact fragment_never_deviates (noCohort cfg) hff htf p hp vars ops

/-! ## With the two sub-process repairs: everything except inclusive gateways

When the sub-process switches are off as well (`subNeverReturns = false`, `subStartSticky = false`: both repaired in /repo,
both extracted facts), embedded sub-processes — nested to any depth, in parallel branches, re-entered in loops — stay inside
the token game too: the ONLY node kind that can make the code configuration leave it is the inclusive gateway. -/

/-- no inclusive gateway (sub-processes allowed) -/
def NoIncl (p : Proc) : Prop := ∀ n ∈ p.nodes, n.kind ≠ .incl

instance (p : Proc) : Decidable (NoIncl p) := by unfold NoIncl; infer_instance

/-- the four repaired switches are off -/
structure Repaired (cfg : Cfg) : Prop where
  firstFlow : cfg.firstFlowDecides = false
  subReturns : cfg.subNeverReturns = false
  subRearmed : cfg.subStartSticky = false
  throwPasses : cfg.throwFuse = false

theorem noIncl_filter (p : Proc) (hp : NoIncl p) : p.nodes.filter (·.kind == .incl) = [] := by
  apply List.filter_eq_nil_iff.mpr
  intro n hn
  have := hp n hn
  revert this
  cases n.kind <;> intro h <;> first | decide | exact absurd rfl h

theorem selectFlows_quiet (cfg : Cfg) (hff : cfg.firstFlowDecides = false) (p : Proc) (s : St) (t : Tok)
    (fls : List String) (u : Bool) : (selectFlows cfg p s t fls u).2.2.causes = s.causes := by
  unfold selectFlows
  split
  · simp
  · simp only
    split
    · simp
    · simp only [hff, Bool.false_and, Bool.false_eq_true, if_false]
      simp

theorem enterSub_quiet (cfg : Cfg) (hs : cfg.subStartSticky = false) (s : St) (t : Tok) (n : Node) (starts : List Node) :
    (enterSub cfg s t n starts).causes = s.causes := by
  unfold enterSub
  simp [hs]

theorem arrive_quiet (cfg : Cfg) (hc : Repaired cfg) (p : Proc) (hp : NoIncl p) (s : St) (t : Tok) :
    (arrive cfg p s t).2.causes = s.causes := by
  unfold arrive
  cases hn : p.node? t.node with
  | none => simp
  | some n =>
    simp only
    cases hk : n.kind with
    | task => simp
    | start =>
      simp only
      split
      · simp
      · rw [selectFlows_quiet cfg hc.firstFlow]
    | end_ => simp
    | xor =>
      simp only
      split
      · rw [selectFlows_quiet cfg hc.firstFlow]; simp
      · simp
    | par =>
      simp only
      split
      · rw [foldl_proj (fun x : List Tok × St => x.2.causes)]
        intro b a
        obtain ⟨acc, s1⟩ := b
        obtain ⟨f, r⟩ := a
        simp only
        split
        · simp
        · rw [selectFlows_quiet cfg hc.firstFlow]
      · rfl
    | incl => exact absurd hk (hp n (mem_of_node? p _ n hn))
    | sub =>
      simp only
      split
      · simp
      · rw [spawnStarts_causes, enterSub_quiet cfg hc.subRearmed]
    | ebg => rfl
    | catch_ => rfl
    | throw_ =>
      simp only [hc.throwPasses, Bool.false_and, Bool.false_eq_true, if_false]
      rw [selectFlows_quiet cfg hc.firstFlow]
    | boundary => rfl
    | other => rfl

theorem settle_quiet (cfg : Cfg) (hc : Repaired cfg) (p : Proc) (hp : NoIncl p) (s : St) :
    (settle cfg p s).2.causes = s.causes := by
  unfold settle
  simp only [settleIncl, noIncl_filter p hp, List.foldl]
  split
  · rfl
  · simp only [hc.subReturns, Bool.false_eq_true, if_false]
    split
    · rfl
    · split
      all_goals first | rfl | (rw [nextTurn_causes, selectFlows_quiet cfg hc.firstFlow])

theorem settleIncl_noIncl (cfg : Cfg) (p : Proc) (hp : NoIncl p) (s : St) (w : List Tok) :
    settleIncl cfg p s w = (none, s) := by
  simp [settleIncl, noIncl_filter p hp]

theorem runWork_quiet (cfg : Cfg) (hc : Repaired cfg) (p : Proc) (hp : NoIncl p) :
    ∀ (fuel : Nat) (toks : List Tok) (s : St), (runWork cfg p fuel toks s).causes = s.causes := by
  intro fuel
  induction fuel with
  | zero => intro toks s; simp [runWork]
  | succ k ih =>
    intro toks s
    cases toks with
    | nil =>
      simp only [runWork]
      split
      · exact settle_quiet cfg hc p hp s
      · rw [ih]; exact settle_quiet cfg hc p hp s
    | cons t rest =>
      simp only [runWork]
      split
      · simp only [settleIncl_noIncl cfg p hp]
        rw [ih]; exact arrive_quiet cfg hc p hp s t
      · rw [ih]; exact arrive_quiet cfg hc p hp s t

theorem start_quiet (cfg : Cfg) (hc : Repaired cfg) (p : Proc) (hp : NoIncl p) (vars : Vars) :
    (start cfg p vars).causes = [] := by
  simp only [start]
  rw [runWork_quiet cfg hc p hp, spawnStarts_causes]

theorem answer_quiet (cfg : Cfg) (hc : Repaired cfg) (p : Proc) (hp : NoIncl p) (s : St)
    (node : String) (occ : Nat) (a : Answer) : (answer cfg p s node occ a).causes = s.causes := by
  unfold answer
  simp only
  split
  · cases a with
    | ok results =>
      simp only
      rw [runWork_quiet cfg hc p hp, selectFlows_quiet cfg hc.firstFlow]
    | err mode retries =>
      simp only
      split
      · split <;> rw [runWork_quiet cfg hc p hp] <;> simp
      · rw [runWork_quiet cfg hc p hp]; simp
      · rw [runWork_quiet cfg hc p hp, selectFlows_quiet cfg hc.firstFlow]; simp
  · simp

/-- **The inclusive gateway is the only way out of the token game.** With the three repaired switches off, no program
without inclusive gateways — sub-processes of any nesting included — ever logs a cause, whatever the data and answers. -/
theorem noIncl_never_deviates (cfg : Cfg) (hc : Repaired cfg) (p : Proc) (hp : NoIncl p)
    (vars : Vars) (ops : List (String × Nat × Answer)) : (runOps cfg p vars ops).causes = [] := by
  unfold runOps
  have : ∀ (ops : List (String × Nat × Answer)) (s : St), s.causes = [] →
      (ops.foldl (fun s (x : String × Nat × Answer) => answer cfg p s x.1 x.2.1 x.2.2) s).causes = [] := by
    intro ops
    induction ops with
    | nil => intro s h; exact h
    | cons x ops ih => intro s h; exact ih _ (by rw [answer_quiet cfg hc p hp]; exact h)
  exact this ops _ (start_quiet cfg hc p hp vars)

theorem runWork_noCohort' (cfg : Cfg) (p : Proc) (hp : NoIncl p) :
    ∀ (fuel : Nat) (toks : List Tok) (s : St), runWork (noCohort cfg) p fuel toks s = runWork cfg p fuel toks s := by
  intro fuel
  induction fuel with
  | zero => intro toks s; rfl
  | succ k ih =>
    intro toks s
    cases toks with
    | nil =>
      have hs : settle (noCohort cfg) p s = settle cfg p s := by
        unfold settle
        rw [settleIncl_noIncl (noCohort cfg) p hp, settleIncl_noIncl cfg p hp]
        rfl
      simp only [runWork, hs, ih]
    | cons t rest =>
      simp only [runWork, arrive_noCohort, settleIncl_noIncl _ p hp, ih]
      rfl

theorem runOps_noCohort' (cfg : Cfg) (p : Proc) (hp : NoIncl p) (vars : Vars) (ops : List (String × Nat × Answer)) :
    runOps (noCohort cfg) p vars ops = runOps cfg p vars ops := by
  unfold runOps
  have h0 : start (noCohort cfg) p vars = start cfg p vars := by
    unfold start
    simp only [runWork_noCohort' cfg p hp]
  rw [h0]
  congr 1
  funext s x
  unfold answer
  simp only [runWork_noCohort' cfg p hp]
  rfl

/-- **C01 for every program without inclusive gateways, unconditionally** (sequences, exclusive and parallel blocks, loops,
conditional flows leaving activities, embedded sub-processes at any depth and re-entered any number of times, and any
unstructured graph of those nodes): at a code configuration with the four repaired switches off — whatever the cohort
switch — every run IS the run of the BPMN token game, state by state. -/
theorem noIncl_conformance (cfg : Cfg) (hc : Repaired cfg) (h1 : cfg.eagerSettle = false) (h2 : cfg.lateJoin = false)
    (p : Proc) (hp : NoIncl p) (vars : Vars) (ops : List (String × Nat × Answer)) :
    runOps cfg p vars ops = runOps Cfg.ideal p vars ops := by
  rw [← runOps_noCohort' cfg p hp]
  apply conformance_runOps_ideal (noCohort cfg) h1 h2 rfl
  exact noIncl_never_deviates (noCohort cfg) ⟨hc.firstFlow, hc.subReturns, hc.subRearmed, hc.throwPasses⟩ p hp vars ops

/-- it cannot be extended to inclusive gateways: `C01Conformance_counterexample` is a program with inclusive gateways on
which the configuration with only the cohort switch on leaves `Cfg.ideal` -/
theorem noIncl_hypothesis_needed : ¬ (∀ (p : Proc) (vars : Vars) (ops : List (String × Nat × Answer)),
    runOps cohortCfg p vars ops = runOps Cfg.ideal p vars ops) := by
  intro h
  exact C01Conformance_counterexample (fun p vars ops _ => h p vars ops)

/-! ## non-vacuity: a program of the fragment with an exclusive loop, a parallel block and conditional flows -/

/-- s → X1(merge) → A → X2(split: v<2 back to X1 | default on) → P1(par fork) → {B, C} → P2(par join) → D(two conditional
flows) → {e1 | e2} -/
def demoProc : Proc :=
  { nodes := [
      { id := "s", kind := .start, ins := [], outs := ["f0"] },
      { id := "X1", kind := .xor, ins := ["f0", "f3"], outs := ["f1"] },
      { id := "A", kind := .task, ins := ["f1"], outs := ["f2"], results := ["v"], hasResults := true },
      { id := "X2", kind := .xor, ins := ["f2"], outs := ["f3", "f4"], dflt := some "f4" },
      { id := "P1", kind := .par, ins := ["f4"], outs := ["f5", "f6"] },
      { id := "B", kind := .task, ins := ["f5"], outs := ["f7"] },
      { id := "C", kind := .task, ins := ["f6"], outs := ["f8"] },
      { id := "P2", kind := .par, ins := ["f7", "f8"], outs := ["f9"] },
      { id := "D", kind := .task, ins := ["f9"], outs := ["f10", "f11"] },
      { id := "e1", kind := .end_, ins := ["f10"], outs := [] },
      { id := "e2", kind := .end_, ins := ["f11"], outs := [] }],
    flows := [
      { id := "f0", src := "s", dst := "X1", cond := .none }, { id := "f1", src := "X1", dst := "A", cond := .none },
      { id := "f2", src := "A", dst := "X2", cond := .none },
      { id := "f3", src := "X2", dst := "X1", cond := .lt "v" 2 },
      { id := "f4", src := "X2", dst := "P1", cond := .none },
      { id := "f5", src := "P1", dst := "B", cond := .none }, { id := "f6", src := "P1", dst := "C", cond := .none },
      { id := "f7", src := "B", dst := "P2", cond := .none }, { id := "f8", src := "C", dst := "P2", cond := .none },
      { id := "f9", src := "P2", dst := "D", cond := .none },
      { id := "f10", src := "D", dst := "e1", cond := .eq "v" 2 },
      { id := "f11", src := "D", dst := "e2", cond := .eq "v" 9 }] }

example : Fragment demoProc := by decide

/-- a sub-process in a loop: s → X1 → U( us → A → ue ) → X2 (v<2 back to X1 | default) → e -/
def demoSub : Proc :=
  { nodes := [
      { id := "s", kind := .start, ins := [], outs := ["f0"] },
      { id := "X1", kind := .xor, ins := ["f0", "f3"], outs := ["f1"] },
      { id := "U", kind := .sub, ins := ["f1"], outs := ["f2"] },
      { id := "us", kind := .start, ins := [], outs := ["g0"], parent := "U" },
      { id := "A", kind := .task, ins := ["g0"], outs := ["g1"], parent := "U", results := ["v"], hasResults := true },
      { id := "ue", kind := .end_, ins := ["g1"], outs := [], parent := "U" },
      { id := "X2", kind := .xor, ins := ["f2"], outs := ["f3", "f4"], dflt := some "f4" },
      { id := "e", kind := .end_, ins := ["f4"], outs := [] }],
    flows := [
      { id := "f0", src := "s", dst := "X1", cond := .none }, { id := "f1", src := "X1", dst := "U", cond := .none },
      { id := "f2", src := "U", dst := "X2", cond := .none }, { id := "f3", src := "X2", dst := "X1", cond := .lt "v" 2 },
      { id := "f4", src := "X2", dst := "e", cond := .none },
      { id := "g0", src := "us", dst := "A", cond := .none }, { id := "g1", src := "A", dst := "ue", cond := .none }] }

example : NoIncl demoSub := by decide
example : ¬ Fragment demoSub := by decide
/-- the loop is taken: A is requested twice, then the end event is reached -/
example : (runOps Cfg.ideal demoSub [] [("A", 1, .ok [("v", 1)]), ("A", 2, .ok [("v", 2)])]).obs =
    [.complete "ue", .complete "e"] := by decide
example : (runOps Cfg.ideal demoProc [] [("A", 1, .ok [("v", 2)]), ("C", 1, .ok []), ("B", 1, .ok [])]).obs =
    [.complete "P2", .req "D"] := by decide

/-! ## intermediate throw events: every token passes (D38)

`s → P1(par fork) → {A, B} → H (throw event, both branches meet here without a join) → C → e`: two tokens reach `H`. -/
def demoThrow : Proc :=
  { nodes := [
      { id := "s", kind := .start, ins := [], outs := ["f0"] },
      { id := "P1", kind := .par, ins := ["f0"], outs := ["f1", "f2"] },
      { id := "A", kind := .task, ins := ["f1"], outs := ["f3"] },
      { id := "B", kind := .task, ins := ["f2"], outs := ["f4"] },
      { id := "H", kind := .throw_, ins := ["f3", "f4"], outs := ["f5"] },
      { id := "C", kind := .task, ins := ["f5"], outs := ["f6"] },
      { id := "e", kind := .end_, ins := ["f6"], outs := [] }],
    flows := [
      { id := "f0", src := "s", dst := "P1", cond := .none }, { id := "f1", src := "P1", dst := "A", cond := .none },
      { id := "f2", src := "P1", dst := "B", cond := .none }, { id := "f3", src := "A", dst := "H", cond := .none },
      { id := "f4", src := "B", dst := "H", cond := .none }, { id := "f5", src := "H", dst := "C", cond := .none },
      { id := "f6", src := "C", dst := "e", cond := .none }] }

example : Fragment demoThrow := by decide

/-- the token game: both tokens pass the throw event, C is requested twice -/
example : ((runOps Cfg.ideal demoThrow [] [("A", 1, .ok []), ("B", 1, .ok [])]).pending.map (·.1.node)) = ["C", "C"] := by decide

/-- the configuration with ONLY the throw-event switch on (the code before the repair f5a8c41) -/
def throwFuseCfg : Cfg := { Cfg.ideal with throwFuse := true }

/-- **the hypothesis `throwFuse = false` is needed** (kernel-checked witness of D38): with the switch on the second token
is consumed at the throw event — C is requested once, the deviation is logged — so the run is not the token game's -/
theorem throwFuse_hypothesis_needed :
    ((runOps throwFuseCfg demoThrow [] [("A", 1, .ok []), ("B", 1, .ok [])]).pending.map (·.1.node)) = ["C"] ∧
    (runOps throwFuseCfg demoThrow [] [("A", 1, .ok []), ("B", 1, .ok [])]).causes = ["throw_fused"] ∧
    ¬ (∀ (p : Proc) (_ : Fragment p) (vars : Vars) (ops : List (String × Nat × Answer)),
        runOps throwFuseCfg p vars ops = runOps Cfg.ideal p vars ops) := by
  refine ⟨by decide, by decide, ?_⟩
  intro h
  have := congrArg (fun s => s.pending.map (·.1.node)) (h demoThrow (by decide) [] [("A", 1, .ok []), ("B", 1, .ok [])])
  revert this
  decide

end Bpmn.Props.C01Fragment
