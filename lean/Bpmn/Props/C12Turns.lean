import Bpmn.Props.C12Steps
/-!
# C12 — activations of one sub-process node take turns (mutual exclusion), for every program and every run

subprocess.go keeps ONE set of inner nodes, one inner tracer and one wait group per sub-process node. Two tokens inside
the same node at once therefore share one activation: the second relay repeats the first activation's traces and leaves
with its completion (defect D43, repaired in /repo by `sp.activation`). The engine model follows the repaired code: a
token that reaches a busy sub-process node waits at the node (`arrive`, kind `.sub`) and takes its turn when the running
activation has returned (`nextTurn` in `settle`).

Here: **at most one activation per sub-process node at any time** — `OneEach`, an invariant of `arrive`, `settle`,
`runWork`, `start`, `answer` and therefore of every run (`runOps_oneEach`), for EVERY program, configuration, variables and
operation sequence (inclusive gateways included).
-/
namespace Bpmn.Props.C12Turns
open Bpmn.Model Bpmn.Model.Engine Bpmn.Lemmas.Engine Bpmn.Props.C01Fragment

/-- no two parent tokens are inside the same sub-process node -/
def OneEach (s : St) : Prop := (s.subs.map (·.node)).Nodup

theorem oneEach_of_eq {s s' : St} (h : s'.subs = s.subs) (hs : OneEach s) : OneEach s' := by
  unfold OneEach; rw [h]; exact hs

theorem oneEach_of_sublist {s s' : St} (h : s'.subs.Sublist s.subs) (hs : OneEach s) : OneEach s' :=
  List.Nodup.sublist (List.Sublist.map _ h) hs

theorem node?_id (p : Proc) (x : String) (n : Node) (h : p.node? x = some n) : n.id = x := by
  have := List.find?_some h
  simpa using this

/-! ## arriving -/

/-- arriving either leaves the active sub-processes alone or adds the arriving token — and then only at an idle node -/
theorem arrive_subs (cfg : Cfg) (p : Proc) (s : St) (t : Tok) :
    (arrive cfg p s t).2.subs = s.subs ∨
    ((arrive cfg p s t).2.subs = s.subs ++ [t] ∧ s.subs.any (·.node == t.node) = false) := by
  unfold arrive
  cases hn : p.node? t.node with
  | none => left; simp
  | some n =>
    simp only
    cases hk : n.kind with
    | task => left; simp
    | start =>
      left
      simp only
      split
      · simp
      · rw [selectFlows_subs]
    | end_ => left; simp
    | xor =>
      left
      simp only
      split
      · rw [selectFlows_subs]; simp
      · simp
    | par =>
      left
      simp only
      split
      · rw [foldl_proj (fun x : List Tok × St => x.2.subs)]
        intro b a
        obtain ⟨acc, s1⟩ := b
        obtain ⟨f, r⟩ := a
        simp only
        split
        · simp
        · rw [selectFlows_subs]
      · rfl
    | incl =>
      left
      simp only
      split <;> simp
    | sub =>
      simp only
      split
      · left; rfl
      · rename_i hidle
        rw [spawnStarts_subs]
        have hid := node?_id p _ n hn
        unfold enterSub
        simp only
        by_cases hag : (cfg.subStartSticky && s.subFired.contains n.id) = true
        · left
          simp only [hag, if_true]
          split
          · split <;> simp
          · simp
        · right
          refine ⟨?_, ?_⟩
          · simp only [hag, Bool.false_eq_true, if_false]
            split
            · split <;> simp
            · simp
          · rw [← hid]; simpa using hidle
    | ebg => left; rfl
    | catch_ => left; rfl
    | throw_ =>
      left
      simp only
      split
      · simp
      · rw [selectFlows_subs]
    | boundary => left; rfl
    | other => left; rfl

theorem arrive_oneEach (cfg : Cfg) (p : Proc) (s : St) (t : Tok) (h : OneEach s) : OneEach (arrive cfg p s t).2 := by
  rcases arrive_subs cfg p s t with e | ⟨e, hidle⟩
  · exact oneEach_of_eq e h
  · unfold OneEach at *
    rw [e, List.map_append, List.nodup_append]
    refine ⟨h, by simp, ?_⟩
    intro a ha b hb
    simp only [List.map_cons, List.map_nil, List.mem_singleton] at hb
    subst hb
    intro hab
    subst hab
    obtain ⟨u, hu, hun⟩ := List.mem_map.mp ha
    have : s.subs.any (·.node == t.node) = true := List.any_eq_true.mpr ⟨u, hu, by simp [hun]⟩
    rw [hidle] at this
    exact absurd this (by decide)

/-! ## settling -/

theorem igReady_subs (cfg : Cfg) (p : Proc) (s : St) (n : Node) (g : IgSt) (w : List Tok) :
    (igReady cfg p s n g w).2.subs = s.subs := by
  unfold igReady
  split
  · rfl
  · simp only
    split
    · split <;> simp
    · split <;> rfl

theorem igRelease_subs (p : Proc) (s : St) (n : Node) (g : IgSt) : (igRelease p s n g).2.subs = s.subs := by
  unfold igRelease
  simp only
  split
  · simp
  · rw [foldl_proj (fun x : List Tok × St => x.2.subs)]
    · simp only
      rw [foldl_proj (fun s : St => s.subs)]
      · simp
      · intro _ _; rfl
    · intro b a
      obtain ⟨acc, s1⟩ := b
      obtain ⟨f, r⟩ := a
      simp only
      split
      · simp
      · split
        · simp
        · simp

theorem settleIncl_subs (cfg : Cfg) (p : Proc) (s : St) (w : List Tok) : (settleIncl cfg p s w).2.subs = s.subs := by
  unfold settleIncl
  simp only
  rw [foldl_proj (fun x : Option (List Tok) × St => x.2.subs)]
  intro b n
  obtain ⟨r, s1⟩ := b
  cases r with
  | some x => rfl
  | none =>
    simp only
    split
    · rw [igRelease_subs, igReady_subs]
    · rw [igReady_subs]

/-- settling only ever takes parent tokens OUT of their sub-process nodes -/
theorem settle_subs (cfg : Cfg) (p : Proc) (s : St) : (settle cfg p s).2.subs.Sublist s.subs := by
  unfold settle
  cases hsi : settleIncl cfg p s [] with
  | mk r s1 =>
    have e1 : s1.subs = s.subs := by have := settleIncl_subs cfg p s []; rw [hsi] at this; exact this
    simp only
    cases r with
    | some x => simp only; rw [e1]; exact List.Sublist.refl _
    | none =>
      simp only
      split
      · rw [e1]; exact List.Sublist.refl _
      · rename_i t _
        split
        · split
          · split
            · rw [selectFlows_subs]; simp only [cause_subs]
              rw [← e1]
              exact List.Sublist.trans List.filter_sublist List.filter_sublist
            · rw [selectFlows_subs]; simp only [cause_subs]
              rw [← e1]
              exact List.Sublist.trans List.filter_sublist List.filter_sublist
          · simp only [cause_subs]; rw [← e1]; exact List.filter_sublist
        · split
          · simp only; rw [← e1]; exact List.filter_sublist
          · rw [nextTurn_subs, selectFlows_subs]; simp only; rw [← e1]; exact List.filter_sublist

theorem settle_oneEach (cfg : Cfg) (p : Proc) (s : St) (h : OneEach s) : OneEach (settle cfg p s).2 :=
  oneEach_of_sublist (settle_subs cfg p s) h

/-! ## running -/

theorem oos_oneEach (s : St) (why : String) (h : OneEach s) : OneEach (s.oos why) :=
  oneEach_of_eq (oos_subs s why) h

theorem runWork_oneEach (cfg : Cfg) (p : Proc) :
    ∀ (fuel : Nat) (toks : List Tok) (s : St), OneEach s → OneEach (runWork cfg p fuel toks s) := by
  intro fuel
  induction fuel with
  | zero => intro toks s h; rw [runWork]; exact oos_oneEach s _ h
  | succ fuel ih =>
    intro toks s h
    cases toks with
    | nil =>
      rw [runWork]
      simp only
      split
      · exact settle_oneEach cfg p s h
      · exact ih _ _ (settle_oneEach cfg p s h)
    | cons t rest =>
      rw [runWork]
      simp only
      have ha := arrive_oneEach cfg p s t h
      split
      · split
        · rename_i hsi
          apply ih
          have := settleIncl_subs cfg p (arrive cfg p s t).2 (rest ++ (arrive cfg p s t).1)
          rw [hsi] at this
          exact oneEach_of_eq this ha
        · rename_i hsi
          apply ih
          have := settleIncl_subs cfg p (arrive cfg p s t).2 (rest ++ (arrive cfg p s t).1)
          rw [hsi] at this
          exact oneEach_of_eq this ha
      · exact ih _ _ ha

theorem start_oneEach (cfg : Cfg) (p : Proc) (vars : Vars) : OneEach (start cfg p vars) := by
  unfold start
  simp only
  apply runWork_oneEach
  apply oneEach_of_eq (spawnStarts_subs _ _)
  simp [OneEach]

/-! ## answering, and whole runs -/

theorem answer_oneEach (cfg : Cfg) (p : Proc) (s : St) (node : String) (occ : Nat) (a : Answer) (h : OneEach s) :
    OneEach (answer cfg p s node occ a) := by
  unfold answer
  simp only
  split
  · cases a with
    | ok results =>
      simp only
      apply runWork_oneEach
      apply oneEach_of_eq (selectFlows_subs _ _ _ _ _ _)
      exact h
    | err mode retries =>
      simp only
      split
      · split
        · apply runWork_oneEach; exact h
        · apply runWork_oneEach; exact h
      · apply runWork_oneEach; exact h
      · apply runWork_oneEach
        apply oneEach_of_eq (selectFlows_subs _ _ _ _ _ _)
        exact h
  · exact oos_oneEach _ _ h

/-- **Mutual exclusion, every run.** Whatever the program (any gateways, any nesting, loops), the configuration, the
variables and the sequence of answers (results, errors, retries, unknown requests): no sub-process node ever holds two
activations. -/
theorem runOps_oneEach (cfg : Cfg) (p : Proc) (vars : Vars) (ops : List (String × Nat × Answer)) :
    OneEach (Bpmn.Props.C01Conformance.runOps cfg p vars ops) := by
  unfold Bpmn.Props.C01Conformance.runOps
  generalize hs : start cfg p vars = s0
  have h0 : OneEach s0 := by rw [← hs]; exact start_oneEach cfg p vars
  clear hs
  induction ops generalizing s0 with
  | nil => exact h0
  | cons op ops ih =>
    obtain ⟨n, o, a⟩ := op
    simp only [List.foldl_cons]
    exact ih _ (answer_oneEach cfg p s0 n o a h0)

/-! ## the node is free again when its activation has returned -/

theorem nodup_map_inj {α β : Type _} (f : α → β) : ∀ (l : List α), (l.map f).Nodup → ∀ a b, a ∈ l → b ∈ l → f a = f b → a = b
  | [], _, _, _, ha, _, _ => absurd ha (by simp)
  | x :: xs, h, a, b, ha, hb, hab => by
    simp only [List.map_cons, List.nodup_cons, List.mem_map, not_exists, not_and] at h
    rcases List.mem_cons.mp ha with ea | ha'
    · rcases List.mem_cons.mp hb with eb | hb'
      · rw [ea, eb]
      · subst ea; exact absurd hab.symm (h.1 b hb')
    · rcases List.mem_cons.mp hb with eb | hb'
      · subst eb; exact absurd hab (h.1 a ha')
      · exact nodup_map_inj f xs h.2 a b ha' hb' hab

/-- with at most one activation per node, taking the parent token `t` out leaves no activation at `t`'s node -/
theorem filter_frees (subs : List Tok) (t : Tok) (h : (subs.map (·.node)).Nodup) (ht : t ∈ subs) :
    (subs.filter (· != t)).any (·.node == t.node) = false := by
  apply Bool.eq_false_iff.mpr
  intro hany
  obtain ⟨u, hu, hun⟩ := List.any_eq_true.mp hany
  obtain ⟨hu1, hu2⟩ := List.mem_filter.mp hu
  have hne : u ≠ t := by
    intro e; subst e
    have : (u != u) = false := by
      obtain ⟨f, nd⟩ := u
      simp [bne, BEq.beq, instBEqTok.beq]
    rw [this] at hu2; exact absurd hu2 (by decide)
  have hnode : u.node = t.node := by simpa using hun
  -- two different members of `subs` with the same node contradict `Nodup`
  exact hne (nodup_map_inj (·.node) subs h u t hu1 ht hnode)

/-- **The node is free for the next token.** When `settle` lets the parent token `t` of an emptied scope leave, no activation
of `t`'s node is left — so the token that `nextTurn` puts on the work list finds the node idle (`enter_sub_tokens` applies) unless
another token gets there first. -/
theorem return_frees_node (cfg : Cfg) (hr : cfg.subNeverReturns = false) (p : Proc) (s : St) (t : Tok) (h : OneEach s)
    (hig : (settleIncl cfg p s []).1 = none)
    (hfind : (settleIncl cfg p s []).2.subs.find? (fun u => !liveInScope p (settleIncl cfg p s []).2 u.node []) = some t) :
    (settle cfg p s).2.subs.any (·.node == t.node) = false := by
  have e1 : (settleIncl cfg p s []).2.subs = s.subs := settleIncl_subs cfg p s []
  have ht : t ∈ s.subs := by rw [← e1]; exact List.mem_of_find?_eq_some hfind
  unfold settle
  cases hsi : settleIncl cfg p s [] with
  | mk r s1 =>
    rw [hsi] at hig hfind e1
    simp only at hig hfind e1
    subst hig
    simp only [hfind, hr, Bool.false_eq_true, if_false]
    have hfree : (s1.subs.filter (· != t)).any (·.node == t.node) = false := by
      rw [e1]; exact filter_frees s.subs t h ht
    cases hnode : p.node? t.node with
    | none => exact hfree
    | some n =>
      simp only
      rw [nextTurn_subs, selectFlows_subs]
      exact hfree

/-! ## the handover: the waiting token becomes the parent of the next activation -/

/-- **Handover.** The scope of `t` is empty, `settle` lets `t` leave its sub-process node and puts the first token `w` waiting
at that node on the work list; when `w` arrives (in the state `settle` left), it enters: it is the parent token of a new
activation — the node's content is started for it like for any token that finds the node idle. -/
theorem handover (cfg : Cfg) (hr : cfg.subNeverReturns = false) (hst : cfg.subStartSticky = false) (p : Proc) (s : St)
    (t w : Tok) (n : Node) (h : OneEach s)
    (hig : (settleIncl cfg p s []).1 = none)
    (hfind : (settleIncl cfg p s []).2.subs.find? (fun u => !liveInScope p (settleIncl cfg p s []).2 u.node []) = some t)
    (hn : p.node? t.node = some n) (hk : n.kind = .sub) (hw : w.node = t.node) :
    (arrive cfg p (settle cfg p s).2 w).2.subs = (settle cfg p s).2.subs ++ [w] := by
  have hfree := return_frees_node cfg hr p s t h hig hfind
  have hid := node?_id p _ n hn
  generalize settle cfg p s = r at hfree ⊢
  obtain ⟨toks, s'⟩ := r
  simp only at hfree ⊢
  unfold arrive
  rw [hw]
  simp only [hn, hk]
  have hidle : s'.subs.any (·.node == n.id) = false := by rw [hid]; exact hfree
  simp only [hidle, Bool.false_eq_true, if_false]
  rw [spawnStarts_subs]
  unfold enterSub
  simp [hst]

/-! ## taking turns neither drops nor invents a token -/

/-- the tokens that travel on plus the tokens that still wait, after `nextTurn`, are exactly those before it -/
theorem nextTurn_mem (s : St) (node : String) (out : List Tok) (x : Tok) :
    (x ∈ (nextTurn s node out).1 ∨ x ∈ (nextTurn s node out).2.parked) ↔ (x ∈ out ∨ x ∈ s.parked) := by
  unfold nextTurn
  split
  · exact Iff.rfl
  · rename_i w hw
    have hwm : w ∈ s.parked := List.mem_of_find?_eq_some hw
    simp only [List.mem_append, List.mem_singleton, List.mem_filter]
    constructor
    · rintro ((h | h) | ⟨h, _⟩)
      · exact Or.inl h
      · subst h; exact Or.inr hwm
      · exact Or.inr h
    · rintro (h | h)
      · exact Or.inl (Or.inl h)
      · by_cases e : x = w
        · exact Or.inl (Or.inr e)
        · refine Or.inr ⟨h, ?_⟩
          obtain ⟨f, nd⟩ := x
          obtain ⟨g, md⟩ := w
          simp only [bne, BEq.beq, instBEqTok.beq, Bool.not_eq_true', Bool.and_eq_false_iff, decide_eq_false_iff_not]
          by_cases h1 : f = g
          · right
            intro h2
            exact e (by rw [h1, h2])
          · left; exact h1

/-- the token that takes its turn was waiting AT THAT NODE -/
theorem nextTurn_node (s : St) (node : String) (out : List Tok) (x : Tok)
    (hx : x ∈ (nextTurn s node out).1) (hout : x ∉ out) : x.node = node ∧ x ∈ s.parked := by
  unfold nextTurn at hx
  split at hx
  · exact absurd hx hout
  · rename_i w hw
    rcases List.mem_append.mp hx with h | h
    · exact absurd h hout
    · have : x = w := by simpa using h
      subst this
      have := List.find?_some hw
      exact ⟨by simpa using this, List.mem_of_find?_eq_some hw⟩

/-! ## the history of D43, in the model -/

/-- a parallel fork sends two tokens into ONE sub-process node (task `T` inside), task `C` behind it -/
def turnsProc : Proc :=
  { nodes := [{ id := "s", kind := .start, ins := [], outs := ["f1"] },
              { id := "F", kind := .par, ins := ["f1"], outs := ["f2", "f3"] },
              { id := "U", kind := .sub, ins := ["f2", "f3"], outs := ["f4"] },
              { id := "S", kind := .start, ins := [], outs := ["g1"], parent := "U" },
              { id := "T", kind := .task, ins := ["g1"], outs := ["g2"], parent := "U" },
              { id := "E", kind := .end_, ins := ["g2"], outs := [], parent := "U" },
              { id := "C", kind := .task, ins := ["f4"], outs := ["f5"] },
              { id := "e", kind := .end_, ins := ["f5"], outs := [] }],
    flows := [{ id := "f1", src := "s", dst := "F", cond := .none }, { id := "f2", src := "F", dst := "U", cond := .none },
              { id := "f3", src := "F", dst := "U", cond := .none }, { id := "f4", src := "U", dst := "C", cond := .none },
              { id := "f5", src := "C", dst := "e", cond := .none }, { id := "g1", src := "S", dst := "T", cond := .none },
              { id := "g2", src := "T", dst := "E", cond := .none }] }

/-- what each step shows (a test of the model on one program, by evaluation): the content runs once per token, one
activation after the other — `T` is requested a second time only when the first activation has returned -/
def turnsRun : List St :=
  let s0 := start Cfg.ideal turnsProc []
  let s1 := answer Cfg.ideal turnsProc s0 "T" 1 (.ok [])
  let s2 := answer Cfg.ideal turnsProc s1 "T" 2 (.ok [])
  let s3 := answer Cfg.ideal turnsProc s2 "C" 1 (.ok [])
  let s4 := answer Cfg.ideal turnsProc s3 "C" 2 (.ok [])
  [s0, s1, s2, s3, s4]

example : turnsRun.map (fun s => (s.obs, s.parked.map (·.node), s.topLive turnsProc, s.outOfScope)) =
    [([.req "T"], ["U"], true, none), ([.complete "E", .req "C", .req "T"], [], true, none),
     ([.complete "E", .req "C"], [], true, none), ([.complete "e"], [], true, none), ([.complete "e"], [], false, none)] := by
  decide

/-- an answer's payload is irrelevant for a task that declares no results -/
theorem answer_payload_irrelevant (cfg : Cfg) (p : Proc) (s : St) (node : String) (occ : Nat) (n : Node)
    (hn : p.node? node = some n) (hr : n.hasResults = false) (r : List (String × Int)) :
    answer cfg p s node occ (.ok r) = answer cfg p s node occ (.ok []) := by
  unfold answer
  simp only [hn]
  split
  · rename_i heq
    have e : n = _ := Option.some.inj heq
    subst e
    simp only [applyDeclared, hr, Bool.not_false, if_true]
  · rfl

/-- … so the history of `turnsRun` is the same whatever the four answers carry -/
theorem turnsRun_any_payload (r1 r2 r3 r4 : List (String × Int)) :
    let s0 := start Cfg.ideal turnsProc []
    let s1 := answer Cfg.ideal turnsProc s0 "T" 1 (.ok r1)
    let s2 := answer Cfg.ideal turnsProc s1 "T" 2 (.ok r2)
    let s3 := answer Cfg.ideal turnsProc s2 "C" 1 (.ok r3)
    let s4 := answer Cfg.ideal turnsProc s3 "C" 2 (.ok r4)
    [s0, s1, s2, s3, s4] = turnsRun := by
  have hT : turnsProc.node? "T" = some { id := "T", kind := .task, ins := ["g1"], outs := ["g2"], parent := "U" } := rfl
  have hC : turnsProc.node? "C" = some { id := "C", kind := .task, ins := ["f4"], outs := ["f5"] } := rfl
  simp only
  rw [answer_payload_irrelevant _ _ _ "T" 1 _ hT rfl r1, answer_payload_irrelevant _ _ _ "T" 2 _ hT rfl r2,
    answer_payload_irrelevant _ _ _ "C" 1 _ hC rfl r3, answer_payload_irrelevant _ _ _ "C" 2 _ hC rfl r4]
  rfl

/-! ## three tokens (a test of the model by evaluation) -/

/-- `turnsProc` with a third flow from the fork into the sub-process node -/
def turnsProc3 : Proc :=
  { turnsProc with
    nodes := turnsProc.nodes.map (fun n =>
      if n.id == "F" then { n with outs := ["f2", "f3", "f3b"] }
      else if n.id == "U" then { n with ins := ["f2", "f3", "f3b"] } else n),
    flows := turnsProc.flows ++ [{ id := "f3b", src := "F", dst := "U", cond := .none }] }

/-- one activation at a time, three times: `T` is requested once per turn, two tokens wait first, then one, then none; the
invariant `OneEach` is visible in every state (one parent token in `subs` while an activation runs) -/
example :
    let s0 := start Cfg.ideal turnsProc3 []
    let s1 := answer Cfg.ideal turnsProc3 s0 "T" 1 (.ok [])
    let s2 := answer Cfg.ideal turnsProc3 s1 "T" 2 (.ok [])
    let s3 := answer Cfg.ideal turnsProc3 s2 "T" 3 (.ok [])
    [s0, s1, s2, s3].map (fun s => (s.obs, s.parked.length, s.subs.length, s.outOfScope)) =
      [([.req "T"], 2, 1, none), ([.complete "E", .req "C", .req "T"], 1, 1, none),
       ([.complete "E", .req "C", .req "T"], 0, 1, none), ([.complete "E", .req "C"], 0, 0, none)] := by decide

/-! ## taking turns, counted: a permutation, one token per return, the longest-waiting one, the others untouched -/

instance : LawfulBEq Tok where
  eq_of_beq {a b} h := by
    obtain ⟨f, n⟩ := a
    obtain ⟨g, m⟩ := b
    simp only [BEq.beq, instBEqTok.beq, Bool.and_eq_true, decide_eq_true_eq] at h
    rw [h.1, h.2]
  rfl {a} := by
    obtain ⟨f, n⟩ := a
    simp [BEq.beq, instBEqTok.beq]

/-- COUNTING form of `nextTurn_mem`: when no token waits twice, the tokens that travel on followed by the tokens that
still wait are a PERMUTATION of those before — nothing dropped, nothing doubled -/
theorem nextTurn_perm (s : St) (node : String) (out : List Tok) (h : s.parked.Nodup) :
    ((nextTurn s node out).1 ++ (nextTurn s node out).2.parked).Perm (out ++ s.parked) := by
  unfold nextTurn
  split
  · exact List.Perm.refl _
  · rename_i w hw
    have hwm : w ∈ s.parked := List.mem_of_find?_eq_some hw
    simp only [List.append_assoc]
    refine List.Perm.append_left out ?_
    rw [← h.erase_eq_filter w]
    exact (List.perm_cons_erase hwm).symm

/-- the waiting list stays free of repetitions -/
theorem nextTurn_parked_nodup (s : St) (node : String) (out : List Tok) (h : s.parked.Nodup) :
    (nextTurn s node out).2.parked.Nodup := by
  unfold nextTurn
  split
  · exact h
  · exact h.filter _

/-- AT MOST ONE token takes its turn per return, and exactly one when somebody waits at the node -/
theorem nextTurn_one (s : St) (node : String) (out : List Tok) :
    (nextTurn s node out).1.length = out.length + (if s.parked.any (·.node == node) then 1 else 0) := by
  rw [nextTurn_fst]
  cases hf : s.parked.find? (·.node == node) with
  | none =>
    have : s.parked.any (·.node == node) = false := by
      rw [List.any_eq_false]; intro x hx; simpa using List.find?_eq_none.mp hf x hx
    simp [this]
  | some w =>
    have : s.parked.any (·.node == node) = true :=
      List.any_eq_true.mpr ⟨w, List.mem_of_find?_eq_some hf, by simpa using List.find?_some hf⟩
    simp [this]

/-- the waiting list shrinks by exactly that one -/
theorem nextTurn_parked_length (s : St) (node : String) (out : List Tok) (h : s.parked.Nodup) :
    (nextTurn s node out).2.parked.length + (if s.parked.any (·.node == node) then 1 else 0) = s.parked.length := by
  have hp := (nextTurn_perm s node out h).length_eq
  have ho := nextTurn_one s node out
  simp only [List.length_append] at hp
  omega

/-- tokens waiting at OTHER nodes are untouched, in their order -/
theorem nextTurn_others (s : St) (node : String) (out : List Tok) :
    (nextTurn s node out).2.parked.filter (·.node != node) = s.parked.filter (·.node != node) := by
  unfold nextTurn
  split
  · rfl
  · rename_i w hw
    have hn : (w.node == node) = true := by simpa using List.find?_some hw
    simp only [List.filter_filter]
    apply List.filter_congr
    intro x _
    by_cases e : x = w
    · subst e; simpa using hn
    · have : (x != w) = true := by simpa using e
      simp [this]

/-- FIFO at one node: the token that takes its turn is the one that has waited longest at that node -/
theorem nextTurn_first (s : St) (node : String) (out : List Tok) (w : Tok)
    (hw : (nextTurn s node out).1 = out ++ [w]) :
    ∃ before after, s.parked = before ++ w :: after ∧ ∀ y ∈ before, y.node ≠ node := by
  rw [nextTurn_fst] at hw
  have hw' := List.append_cancel_left hw
  cases hf : s.parked.find? (·.node == node) with
  | none => rw [hf] at hw'; simp at hw'
  | some v =>
    rw [hf] at hw'
    have : v = w := by simpa using hw'
    subst this
    obtain ⟨_, as, bs, hs, hb⟩ := List.find?_eq_some_iff_append.mp hf
    exact ⟨as, bs, hs, fun y hy => by simpa using hb y hy⟩

/-- the hypothesis is met along the D43 history (two tokens at one node), where a token does wait -/
example : turnsRun.all (fun s => decide (s.parked.Nodup)) = true ∧ turnsRun.any (fun s => s.parked.length == 1) = true := by
  decide

/-! ## returns at two different sub-process nodes commute -/

/-- removing a token that waits at `node` does not change who waits first at another node -/
theorem find_other (l : List Tok) (w : Tok) (node' : String) (h : w.node ≠ node') :
    (l.filter (· != w)).find? (·.node == node') = l.find? (·.node == node') := by
  induction l with
  | nil => rfl
  | cons x xs ih =>
    by_cases e : x = w
    · subst e
      have : (x.node == node') = false := by simpa using h
      simp [this, ih]
    · have hx : (x != w) = true := by simpa using e
      simp only [List.filter_cons, hx, if_true, List.find?_cons]
      rw [ih]

/-- RETURNS AT TWO DIFFERENT NODES COMMUTE: whichever of two sub-process nodes hands over first, the same token takes its
turn at each and the same tokens keep waiting — the order in which concurrent activations return is not observable -/
theorem nextTurn_comm (s : St) (node node' : String) (h : node ≠ node') :
    (nextTurn (nextTurn s node []).2 node' []).1 = (nextTurn s node' []).1 ∧
    (nextTurn (nextTurn s node' []).2 node []).1 = (nextTurn s node []).1 ∧
    (nextTurn (nextTurn s node []).2 node' []).2.parked = (nextTurn (nextTurn s node' []).2 node []).2.parked := by
  simp only [nextTurn_fst]
  cases hf : s.parked.find? (·.node == node) with
  | none =>
    cases hg : s.parked.find? (·.node == node') with
    | none => simp [nextTurn, hf, hg]
    | some v =>
      have hv : v.node = node' := by simpa using List.find?_some hg
      have := find_other s.parked v node (by rw [hv]; exact fun e => h e.symm)
      simp [nextTurn, hf, hg, this]
  | some w =>
    have hw : w.node = node := by simpa using List.find?_some hf
    have h1 := find_other s.parked w node' (by rw [hw]; exact h)
    cases hg : s.parked.find? (·.node == node') with
    | none => simp [nextTurn, hf, hg, h1]
    | some v =>
      have hv : v.node = node' := by simpa using List.find?_some hg
      have h2 := find_other s.parked v node (by rw [hv]; exact fun e => h e.symm)
      simp only [nextTurn, hf, hg, h1, h2, List.nil_append, true_and, List.filter_filter]
      apply List.filter_congr
      intro x _
      exact Bool.and_comm _ _

/-! ## first come, first served over two successive returns -/

theorem filter_ne_of_not_mem (l : List Tok) (w : Tok) (h : w ∉ l) : l.filter (· != w) = l := by
  rw [List.filter_eq_self]
  intro x hx
  have : x ≠ w := fun e => h (e ▸ hx)
  simpa using this

theorem find_none_of_forall (l : List Tok) (node : String) (h : ∀ y ∈ l, y.node ≠ node) :
    l.find? (·.node == node) = none := by
  rw [List.find?_eq_none]
  intro x hx
  simpa using h x hx

theorem nextTurn_parked_of_find (s : St) (node : String) (out : List Tok) (w : Tok)
    (h : s.parked.find? (·.node == node) = some w) : (nextTurn s node out).2.parked = s.parked.filter (· != w) := by
  unfold nextTurn; rw [h]

/-- FIRST COME, FIRST SERVED over two successive returns at one node: with `w` the longest and `v` the second longest
waiting token at `node`, the first return hands over to `w`, the second to `v`, and everybody else keeps waiting in
order — for every waiting list of that shape (any number of tokens of other nodes in between) -/
theorem nextTurn_twice (s : St) (node : String) (before mid after : List Tok) (w v : Tok)
    (hs : s.parked = before ++ w :: (mid ++ v :: after)) (hn : s.parked.Nodup)
    (hw : w.node = node) (hv : v.node = node)
    (hb : ∀ y ∈ before, y.node ≠ node) (hm : ∀ y ∈ mid, y.node ≠ node) :
    (nextTurn s node []).1 = [w] ∧
    (nextTurn (nextTurn s node []).2 node []).1 = [v] ∧
    (nextTurn (nextTurn s node []).2 node []).2.parked = before ++ mid ++ after := by
  rw [hs] at hn
  have hn1 := List.nodup_append.mp hn
  have hn2 := List.nodup_cons.mp hn1.2.1
  have hn3 := List.nodup_append.mp hn2.2
  have hn4 := List.nodup_cons.mp hn3.2.1
  have hwb : w ∉ before := fun h => hn1.2.2 w h w (List.mem_cons_self) rfl
  have hvb : v ∉ before := fun h => hn1.2.2 v h v (by simp) rfl
  have hvm : v ∉ mid := fun h => hn3.2.2 v h v (List.mem_cons_self) rfl
  have hwrest : w ∉ mid ++ v :: after := hn2.1
  have hva : v ∉ after := hn4.1
  have hwn : (w.node == node) = true := by simpa using hw
  have hvn : (v.node == node) = true := by simpa using hv
  have f1 : s.parked.find? (·.node == node) = some w := by
    rw [hs, List.find?_append, find_none_of_forall before node hb]
    simp [hwn]
  have p1 : (nextTurn s node []).2.parked = before ++ (mid ++ v :: after) := by
    rw [nextTurn_parked_of_find s node [] w f1, hs, List.filter_append, List.filter_cons]
    have : (w != w) = false := by simp
    simp only [this, Bool.false_eq_true, if_false]
    rw [filter_ne_of_not_mem before w hwb, filter_ne_of_not_mem _ w hwrest]
  have f2 : (nextTurn s node []).2.parked.find? (·.node == node) = some v := by
    rw [p1, List.find?_append, find_none_of_forall before node hb, List.find?_append,
      find_none_of_forall mid node hm]
    simp [hvn]
  refine ⟨by simp [nextTurn_fst, f1], by simp [nextTurn_fst, f2], ?_⟩
  rw [nextTurn_parked_of_find _ node [] v f2, p1]
  have : (v != v) = false := by simp
  simp only [List.filter_append, List.filter_cons, this, Bool.false_eq_true, if_false]
  rw [filter_ne_of_not_mem before v hvb, filter_ne_of_not_mem mid v hvm, filter_ne_of_not_mem after v hva]
  simp

/-- the shape is inhabited: two tokens wait at `U`, one of another node between them -/
example : (nextTurn { vars := [], parked := [⟨1, "X"⟩, ⟨2, "U"⟩, ⟨3, "Y"⟩, ⟨4, "U"⟩, ⟨5, "X"⟩] } "U" []).1 = [⟨2, "U"⟩] := by decide

/-! ## first come, first served for every number of returns -/

/-- `k` successive returns at `node`: the tokens that took their turn, in order, and the state after -/
def turns : Nat → St → String → List Tok × St
  | 0, s, _ => ([], s)
  | k + 1, s, node =>
    let (a, s1) := nextTurn s node []
    let (b, s2) := turns k s1 node
    (a ++ b, s2)

theorem find_eq_head_filter (l : List Tok) (node : String) :
    l.find? (·.node == node) = (l.filter (·.node == node)).head? := by
  induction l with
  | nil => rfl
  | cons x xs ih =>
    by_cases h : (x.node == node) = true
    · simp [h]
    · have h' : (x.node == node) = false := by simpa using h
      rw [List.find?_cons, List.filter_cons]
      simp only [h', Bool.false_eq_true, if_false]
      exact ih

theorem filter_drop_head (l : List Tok) (node : String) (w : Tok) (hn : l.Nodup)
    (hw : l.find? (·.node == node) = some w) :
    (l.filter (· != w)).filter (·.node == node) = (l.filter (·.node == node)).tail := by
  induction l with
  | nil => simp at hw
  | cons x xs ih =>
    have hx := List.nodup_cons.mp hn
    by_cases h : (x.node == node) = true
    · have : x = w := by simpa [List.find?_cons, h] using hw
      subst this
      have e : (x != x) = false := by simp
      simp only [List.filter_cons, e, h, if_true, Bool.false_eq_true, if_false, List.tail_cons]
      rw [filter_ne_of_not_mem xs x hx.1]
    · have hw' : xs.find? (·.node == node) = some w := by simpa [List.find?_cons, h] using hw
      have hne : x ≠ w := by
        intro e; subst e
        have := List.find?_some hw'
        exact h (by simpa using this)
      have e : (x != w) = true := by simpa using hne
      simp only [List.filter_cons, e, h, if_true, Bool.false_eq_true, if_false]
      exact ih hx.2 hw'

/-- FIRST COME, FIRST SERVED, for every number of returns: `k` successive returns at one node serve exactly the first `k`
tokens waiting at that node, in the order in which they arrived there -/
theorem turns_fifo (k : Nat) : ∀ (s : St) (node : String), s.parked.Nodup →
    (turns k s node).1 = (s.parked.filter (·.node == node)).take k := by
  induction k with
  | zero => intro s node _; simp [turns]
  | succ k ih =>
    intro s node hn
    simp only [turns]
    have hfst := nextTurn_fst s node []
    cases hf : s.parked.find? (·.node == node) with
    | none =>
      have hidle := nextTurn_idle s node [] hf
      have hnil : s.parked.filter (·.node == node) = [] := by
        have := find_eq_head_filter s.parked node
        rw [hf] at this
        exact List.head?_eq_none_iff.mp this.symm
      rw [hidle]
      simp only [List.nil_append]
      rw [ih s node hn, hnil]
      simp
    | some w =>
      have hp := nextTurn_parked_of_find s node [] w hf
      have hn' := nextTurn_parked_nodup s node [] hn
      have h1 : (nextTurn s node []).1 = [w] := by simp [hfst, hf]
      have hhead : (s.parked.filter (·.node == node)).head? = some w := by
        rw [← find_eq_head_filter]; exact hf
      have hcons : s.parked.filter (·.node == node) = w :: (s.parked.filter (·.node == node)).tail := by
        cases hl : s.parked.filter (·.node == node) with
        | nil => rw [hl] at hhead; simp at hhead
        | cons y ys => rw [hl] at hhead; simp at hhead; simp [hhead]
      have hrec := ih (nextTurn s node []).2 node hn'
      rw [hp, filter_drop_head s.parked node w hn hf] at hrec
      show (nextTurn s node []).1 ++ (turns k (nextTurn s node []).2 node).1 = _
      rw [h1, hrec, hcons]
      simp

/-- evaluation: three returns at `U` serve 2, 4, 6 in that order; the fourth finds nobody -/
example : (turns 4 { vars := [], parked := [⟨1, "X"⟩, ⟨2, "U"⟩, ⟨3, "Y"⟩, ⟨4, "U"⟩, ⟨5, "X"⟩, ⟨6, "U"⟩] } "U").1
    = [⟨2, "U"⟩, ⟨4, "U"⟩, ⟨6, "U"⟩] := by decide

end Bpmn.Props.C12Turns
