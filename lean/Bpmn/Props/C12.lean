import Bpmn.Model.Engine
/-!
# C12 — Embedded sub-process behaves like its content inlined; the parent continues once

Engine-model statements about the sub-process node: the parent token is held while any inner token is alive,
and the two defects of the code (parent never resumes — repaired; second activation skips the content — known
finding) as kernel-checked witnesses against the token game. The general "wrapped = inlined" theorem over all
block contexts is not proved (`C12_partial`); it is checked on every generated pair by the c12 family.
-/
namespace Bpmn.Props.C12
open Bpmn.Model Bpmn.Model.Engine

/-- The parent token does not leave the sub-process while an inner token is alive: if no inclusive gateway can
synchronise and every running sub-process still has a live inner token, `settle` releases nothing. -/
theorem settle_holds_parent (cfg : Cfg) (p : Proc) (s : St)
    (hig : (settleIncl cfg p s []).1 = none)
    (hlive : ∀ t ∈ (settleIncl cfg p s []).2.subs, liveInScope p (settleIncl cfg p s []).2 t.node [] = true) :
    (settle cfg p s).1 = [] := by
  unfold settle
  cases hsi : settleIncl cfg p s [] with
  | mk r s' =>
    rw [hsi] at hig hlive
    simp only at hig hlive
    subst hig
    have : s'.subs.find? (fun t => !liveInScope p s' t.node []) = none := by
      apply List.find?_eq_none.mpr
      intro t ht
      simp [hlive t ht]
    simp [this]

/-- start → A → sub( start → B → end ) → C → end, inside a loop on request -/
def subProc : Proc :=
  { nodes := [
      { id := "s", kind := .start, ins := [], outs := ["f0"] },
      { id := "A", kind := .task, ins := ["f0"], outs := ["f1"] },
      { id := "U", kind := .sub, ins := ["f1"], outs := ["f2"] },
      { id := "us", kind := .start, ins := [], outs := ["g0"], parent := "U" },
      { id := "B", kind := .task, ins := ["g0"], outs := ["g1"], parent := "U" },
      { id := "ue", kind := .end_, ins := ["g1"], outs := [], parent := "U" },
      { id := "C", kind := .task, ins := ["f2"], outs := ["f3"] },
      { id := "e", kind := .end_, ins := ["f3"], outs := [] }],
    flows := [
      { id := "f0", src := "s", dst := "A", cond := .none }, { id := "f1", src := "A", dst := "U", cond := .none },
      { id := "f2", src := "U", dst := "C", cond := .none }, { id := "f3", src := "C", dst := "e", cond := .none },
      { id := "g0", src := "us", dst := "B", cond := .none }, { id := "g1", src := "B", dst := "ue", cond := .none }] }

/-- how often `C` (behind the sub-process) is requested after answering A then B -/
def cRequests (cfg : Cfg) : Nat :=
  let s0 := start cfg subProc []
  let s1 := answer cfg subProc s0 "A" 1 (.ok [])
  let s2 := answer cfg subProc s1 "B" 1 (.ok [])
  (s1.obs ++ s2.obs).count (.req "C")

/-- inner activity requested exactly when the sub-process is entered, parent continues exactly once afterwards -/
theorem sub_example_token_game :
    (let s0 := start Cfg.ideal subProc []
     let s1 := answer Cfg.ideal subProc s0 "A" 1 (.ok [])
     s1.obs = [.req "B"]) ∧ cRequests Cfg.ideal = 1 := by
  decide

/-- **Witness of the repaired defect D10**: with the completion monitor on the wrong tracer the parent token never
leaves the sub-process. -/
theorem C12_counterexample_parent_never_resumes :
    cRequests { Cfg.ideal with subNeverReturns := true } = 0 := by
  decide

/-- the same sub-process inside a loop: A → U → X(loop back to A while c < 2) -/
def loopSubProc : Proc :=
  { nodes := [
      { id := "s", kind := .start, ins := [], outs := ["f0"] },
      { id := "M", kind := .xor, ins := ["f0", "f4"], outs := ["f1"] },
      { id := "U", kind := .sub, ins := ["f1"], outs := ["f2"] },
      { id := "us", kind := .start, ins := [], outs := ["g0"], parent := "U" },
      { id := "B", kind := .task, ins := ["g0"], outs := ["g1"], parent := "U", results := ["c"], hasResults := true },
      { id := "ue", kind := .end_, ins := ["g1"], outs := [], parent := "U" },
      { id := "X", kind := .xor, ins := ["f2"], outs := ["f4", "f5"], dflt := some "f5" },
      { id := "e", kind := .end_, ins := ["f5"], outs := [] }],
    flows := [
      { id := "f0", src := "s", dst := "M", cond := .none }, { id := "f1", src := "M", dst := "U", cond := .none },
      { id := "f2", src := "U", dst := "X", cond := .none }, { id := "f4", src := "X", dst := "M", cond := .lt "c" 2 },
      { id := "f5", src := "X", dst := "e", cond := .none },
      { id := "g0", src := "us", dst := "B", cond := .none }, { id := "g1", src := "B", dst := "ue", cond := .none }] }

/-- requests of the inner task `B` over a run that answers it with c = 1 (loop again) and then c = 2 -/
def bRequests (cfg : Cfg) : Nat :=
  let s0 := start cfg loopSubProc [("c", 0)]
  let s1 := answer cfg loopSubProc s0 "B" 1 (.ok [("c", 1)])
  (s0.obs ++ s1.obs).count (.req "B")

/-- **Witness of the known finding `sub_reentry`**: the token game requests the inner activity again on the second
activation; the code (start events stay activated, single completion monitor) does not. -/
theorem C12_counterexample_reentry :
    bRequests Cfg.ideal = 2 ∧ bRequests { Cfg.ideal with subStartSticky := true } = 1 := by
  decide

def C12_statement_partial : Prop :=
  (∀ (cfg : Cfg) (p : Proc) (s : St), (settleIncl cfg p s []).1 = none →
      (∀ t ∈ (settleIncl cfg p s []).2.subs, liveInScope p (settleIncl cfg p s []).2 t.node [] = true) →
      (settle cfg p s).1 = []) ∧
  cRequests Cfg.ideal = 1 ∧ bRequests Cfg.ideal = 2

theorem C12_partial : C12_statement_partial :=
  ⟨settle_holds_parent, sub_example_token_game.2, C12_counterexample_reentry.1⟩

end Bpmn.Props.C12
