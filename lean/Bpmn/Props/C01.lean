import Bpmn.Model.Engine
/-!
# C01 — Token flow conforms to BPMN semantics

The engine model (`Bpmn.Model.Engine`) is ONE executable semantics, parametric in `Cfg`; `Cfg.ideal` is the
BPMN token game, the extracted configuration is what the code does. The theorems here concern the kernel
`selectFlows` (the `flowAction` branch of `flow.Start`) and the step `arrive`/`answer` of the engine:
for every list of outgoing flows, every condition outcome and every state.
-/
namespace Bpmn.Props.C01
open Bpmn.Model Bpmn.Model.Engine

/-! ## forked tokens -/

theorem forkToks_aux (p : Proc) (fls : List String) :
    ∀ (acc : List Tok) (s : St),
      ((fls.foldl (fun (x : List Tok × St) fl =>
          (x.1 ++ [({ fid := x.2.nextFid, node := flowDst p fl } : Tok)], { x.2 with nextFid := x.2.nextFid + 1 }))
          (acc, s)).1.map (·.node)) = acc.map (·.node) ++ fls.map (flowDst p) ∧
      ((fls.foldl (fun (x : List Tok × St) fl =>
          (x.1 ++ [({ fid := x.2.nextFid, node := flowDst p fl } : Tok)], { x.2 with nextFid := x.2.nextFid + 1 }))
          (acc, s)).1.map (·.fid)) = acc.map (·.fid) ++ (List.range fls.length).map (· + s.nextFid) := by
  induction fls with
  | nil => intro acc s; simp
  | cons f fs ih =>
    intro acc s
    simp only [List.foldl_cons]
    obtain ⟨h1, h2⟩ := ih (acc ++ [({ fid := s.nextFid, node := flowDst p f } : Tok)]) { s with nextFid := s.nextFid + 1 }
    refine ⟨by rw [h1]; simp, ?_⟩
    rw [h2]
    simp only [List.map_append, List.map_cons, List.map_nil, List.append_assoc, List.length_cons,
      List.range_succ_eq_map, List.map_map]
    congr 1
    simp only [List.cons_append, List.nil_append, Nat.zero_add, List.cons.injEq, true_and]
    apply List.map_congr_left
    intro a _
    simp only [Function.comp]
    omega

/-- one new token per forked flow, standing at that flow's target, with pairwise distinct fresh ids -/
theorem forkToks_spec (p : Proc) (s : St) (fls : List String) :
    (forkToks p s fls).1.map (·.node) = fls.map (flowDst p) ∧
    (forkToks p s fls).1.map (·.fid) = (List.range fls.length).map (· + s.nextFid) := by
  have := forkToks_aux p fls [] s
  simpa [forkToks] using this

/-! ## `selectFlows` -/

/-- the flows that are effective for the current data -/
def effective (p : Proc) (s : St) (fls : List String) (unc : Bool) : List String :=
  ((evalFlows p s fls unc).1.filter (·.2)).map (·.1)

/-- **Kernel specification.** When the token continues on the first EFFECTIVE flow (`firstFlowDecides = false`,
the configuration of the repaired code and of the token game): the token never remains at the node, it is
consumed iff no flow is effective, and otherwise the tokens that leave are exactly one per effective flow,
in list order, the arriving token itself travelling along the first of them. -/
theorem selectFlows_spec (cfg : Cfg) (h : cfg.firstFlowDecides = false) (p : Proc) (s : St) (t : Tok)
    (fls : List String) (unc : Bool) :
    let r := selectFlows cfg p s t fls unc
    r.2.1 = false ∧
    r.1.map (·.node) = (effective p s fls unc).map (flowDst p) ∧
    (r.1 = [] ↔ effective p s fls unc = []) ∧
    (∀ tk ∈ r.1.head?, tk.fid = t.fid) := by
  cases fls with
  | nil => simp [selectFlows, effective, evalFlows]
  | cons first rest =>
    simp only [selectFlows, effective, h, Bool.false_and, Bool.false_eq_true, if_false]
    cases he : List.map (fun x => x.1) (List.filter (fun x => x.2) (evalFlows p s (first :: rest) unc).1) with
    | nil => simp
    | cons e0 es =>
      simp only
      have hf := forkToks_spec p (evalFlows p s (first :: rest) unc).2 es
      refine ⟨trivial, ?_, by simp, by simp⟩
      simp only [List.map_cons, hf.1]

/-- **The defect that was repaired (D1).** If the token may only continue on the FIRST listed flow, there is a
state in which it stays at an activity although a later flow is effective — the activity is then requested
again. Concrete witness: two outgoing flows, `x == 1` and no condition, with `x = 0`. -/
def d1Proc : Proc :=
  { nodes := [{ id := "A", kind := .task, ins := [], outs := ["f1", "f2"] }, { id := "B", kind := .task, ins := ["f1"], outs := [] },
              { id := "C", kind := .task, ins := ["f2"], outs := [] }],
    flows := [{ id := "f1", src := "A", dst := "B", cond := .eq "x" 1 }, { id := "f2", src := "A", dst := "C", cond := .none }] }

theorem C01_counterexample_first_flow_decides :
    let cfg : Cfg := { Cfg.ideal with firstFlowDecides := true }
    let r := selectFlows cfg d1Proc { vars := [("x", 0)] } { fid := 1, node := "A" } ["f1", "f2"] false
    r.2.1 = true ∧ r.1.map (·.node) = ["C"] := by
  decide

/-! ## one request per arrival -/

/-- A token arriving at an activity is never skipped and never requested twice: `arrive` emits exactly one
request for that node, parks exactly that token, and lets no token run on. -/
theorem arrive_task (cfg : Cfg) (p : Proc) (s : St) (t : Tok) (n : Node) (hn : p.node? t.node = some n)
    (hk : n.kind = .task) :
    let r := arrive cfg p s t
    r.1 = [] ∧ r.2.obs = s.obs ++ [.req n.id] ∧
    r.2.pending = s.pending ++ [(t, (bumpOcc s n.id).1)] := by
  simp [arrive, hn, hk, St.emit, bumpOcc]

/-- An end event consumes the token and records the completion. -/
theorem arrive_end (cfg : Cfg) (p : Proc) (s : St) (t : Tok) (n : Node) (hn : p.node? t.node = some n)
    (hk : n.kind = .end_) :
    (arrive cfg p s t).1 = [] ∧ (arrive cfg p s t).2.obs = s.obs ++ [.complete n.id] := by
  simp [arrive, hn, hk, St.emit, St.recordTerm]

theorem find_map_ne (vs : Vars) (nm k : String) (v : Int) (hne : nm ≠ k) :
    (vs.map (fun p => if p.1 == nm then (nm, v) else p)).find? (·.1 == k) =
      (vs.find? (·.1 == k)).map (fun p => if p.1 == nm then (nm, v) else p) := by
  induction vs with
  | nil => rfl
  | cons x xs ih =>
    by_cases hx : x.1 = nm
    · have hnk : (nm == k) = false := by simpa using hne
      have hxk : (x.1 == k) = false := by rw [hx]; exact hnk
      simp only [List.map_cons, hx, beq_self_eq_true, if_true, List.find?_cons, hnk]
      rw [hx] at hxk
      exact ih
    · have hx' : (x.1 == nm) = false := by simpa using hx
      simp only [List.map_cons, hx', Bool.false_eq_true, if_false, List.find?_cons]
      cases hxk : (x.1 == k) with
      | true => simp [hx]
      | false => exact ih

theorem get_set_ne (vs : Vars) (nm k : String) (v : Int) (hne : nm ≠ k) : (vs.set nm v).get k = vs.get k := by
  unfold Vars.set Vars.get
  by_cases hany : vs.any (·.1 == nm) = true
  · rw [if_pos hany, find_map_ne vs nm k v hne]
    cases hf : vs.find? (fun x => x.1 == k) with
    | none => rfl
    | some q =>
      have hq : (q.1 == k) = true := by
        have := List.find?_some hf
        simpa using this
      have : q.1 ≠ nm := by
        intro e
        have : q.1 = k := by simpa using hq
        exact hne (e ▸ this)
      have hqn : (q.1 == nm) = false := by simpa using this
      simp [this]
  · rw [if_neg hany]
    have hnk : (nm == k) = false := by simpa using hne
    simp [List.find?_append, hnk]

/-- Only declared result fields are stored (`ApplyTaskResult`): an undeclared name never changes a variable. -/
theorem applyDeclared_undeclared (n : Node) (vars : Vars) (results : List (String × Int)) (k : String)
    (hk : k ∉ n.results) : (applyDeclared n vars results).get k = vars.get k := by
  unfold applyDeclared
  by_cases hr : n.hasResults = true
  · simp only [hr, Bool.not_true, Bool.false_eq_true, if_false]
    have key : ∀ (names : List String) (vs : Vars), k ∉ names →
        (names.foldl (fun vs name => match results.find? (·.1 == name) with
          | some (_, v) => vs.set name v
          | none => vs) vs).get k = vs.get k := by
      intro names
      induction names with
      | nil => intro vs _; rfl
      | cons nm rest ih =>
        intro vs hnot
        simp only [List.foldl_cons]
        have hne : nm ≠ k := fun e => hnot (by simp [e])
        have hrest : k ∉ rest := fun e => hnot (by simp [e])
        rw [ih _ hrest]
        cases results.find? (·.1 == nm) with
        | none => rfl
        | some q => exact get_set_ne vs nm k q.2 hne
    exact key n.results vars hk
  · simp [hr]

/-- the full statement of C01 on the model (what `conformance` means): for every program, data, and answer
order, the run of the code's configuration equals the run of the token game -/
def C01_statement (faithful : Cfg) : Prop :=
  ∀ (p : Proc) (vars : Vars), start faithful p vars = start Cfg.ideal p vars ∧
    ∀ (s : St) (node : String) (occ : Nat) (a : Answer), answer faithful p s node occ a = answer Cfg.ideal p s node occ a

/-- `C01_statement` holds trivially for a code configuration without deviation; every remaining deviation is a
known finding with its own witness (inclusive cohort: Props/C05, sub-process re-entry: Props/C12). -/
theorem C01_conformance_of_no_deviation : C01_statement Cfg.ideal := by
  intro p vars; exact ⟨rfl, fun _ _ _ _ => rfl⟩

example : effective d1Proc { vars := [("x", 1)] } ["f1", "f2"] false = ["f1", "f2"] := by decide

end Bpmn.Props.C01
