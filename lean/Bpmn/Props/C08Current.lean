import Bpmn.Props.C08
import Bpmn.Gen.C08
/-! C08 instantiated at the facts extracted from the current /repo tree (`Bpmn.Gen.C08`, regenerated on every run).

`current_verdict` and `current_do_returns` select a side of a dichotomy that is proved for every value of the facts,
so this module type-checks whichever way the code is: with the blocking send of today they are the refutation and the
witness schedule; once the send in `Do` gets a `default` or a `<-t.done` alternative they become the positive
theorems, without any alarm. The module stops type-checking only when a fact is `none` (construct not found) or
when one of the facts the retry model hard-wires has moved. -/
namespace Bpmn.Props.C08
open Bpmn.Model.TaskTrace

def cfgOf (f r : Option Nat) (d a : Option Bool) : Option Cfg :=
  match f, r, d, a with
  | some f, some r, some d, some a => some { forwardCap := f, responseCap := r, doSendHasDefault := d, doSendHasDoneAlt := a }
  | _, _, _, _ => none

/-- the facts of the current source -/
def current : Cfg :=
  (cfgOf Bpmn.Gen.C08.forwardCap Bpmn.Gen.C08.responseCap Bpmn.Gen.C08.doSendHasDefault
    Bpmn.Gen.C08.doSendHasDoneAlt).get (by decide)

/-- C08 on the current facts: holds, or is false -/
theorem current_verdict : if Ok current = true then C08_statement current else ¬ C08_statement current :=
  C08_dichotomy current

/-- every `Do` returns on the current facts — or the explicit schedule after which caller 0 never does -/
theorem current_do_returns :
    if Ok current = true then NonBlocking current
    else (run current init (witness current)).pc 0 = .passed ∧
      ∀ sched, (run current (run current init (witness current)) sched).pc 0 = .passed := by
  split
  · next h => exact (C08_general current h).2.2.1
  · next h => exact C08_counterexample_third_do_blocks current (by simpa using h)

/-- whatever the facts: one effective answer, late calls without effect, retry bound, declared names only -/
theorem current_partial : FirstAnswerWins current ∧ LateDoNoEffect current ∧ RetryBound ∧ DeclaredOnly :=
  C08_partial current

/-- `done` is only ever closed, never sent on: its capacity plays no role in the model; the fact must exist -/
theorem current_done_channel_found : Bpmn.Gen.C08.doneCap.isSome = true := by decide

/-- the model's "for ever" sentinel is the one `IsContinue` compares with -/
theorem current_retry_sentinel : Bpmn.Gen.C08.retrySentinel = some retrySentinel := by decide

/-- `IsContinue` is `limit > attempts` (strict), as `Retry.isContinue` -/
theorem current_retry_strict : Bpmn.Gen.C08.retryStrictGreater = some true := by decide

/-- the flow loop sends the error trace before it reads the handler, as `onAnswer` emits it first -/
theorem current_error_trace_first : Bpmn.Gen.C08.errorTraceBeforeHandler = some true := by decide

/-- the flow loop overwrites the retry limit with the handler's value on every error, as `errSwitch` does -/
theorem current_limit_from_handler : Bpmn.Gen.C08.retryLimitFromHandler = some true := by decide

end Bpmn.Props.C08
