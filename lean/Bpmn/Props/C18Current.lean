import Bpmn.Props.C18
import Bpmn.Gen.C18
/-! C18 instantiated at the facts extracted from the current /repo tree (`Bpmn.Gen.C18`, regenerated on every run).
Every fact-dependent theorem is a dichotomy that type-checks whichever way the fact points: a repair of /repo turns
the witness side into the positive side without any alarm. If the extractor cannot read a fact (`none`), `current`
does not elaborate and this module fails to build. -/
namespace Bpmn.Props.C18
open Bpmn.Model.ProcessSet

def cfgOf (a b c d e : Option Bool) : Option Cfg := do
  let a ← a; let b ← b; let c ← c; let d ← d; let e ← e
  pure { subBeforeStart := a, instSubBeforeStart := b, closeOnce := c, addBeforeStart := d, instAddBeforeStart := e }

/-- the facts of the current source -/
def current : Cfg :=
  (cfgOf Bpmn.Gen.C18.watcherSubscribesBeforeStart Bpmn.Gen.C18.instWatcherSubscribesBeforeStart
    Bpmn.Gen.C18.doneClosedOnce Bpmn.Gen.C18.wgAddBeforeStart Bpmn.Gen.C18.instWgAddBeforeStart).get (by decide)

/-- completion is reported when it is true, however quickly the members finish — or the fast member is missed -/
theorem current_live :
    if current.subBeforeStart = true ∧ current.instSubBeforeStart = true then
      ∀ (su : Setup) (s : State), Reach current su s → Quiescent current su s → s.panicked = false →
        (∀ m ∈ s.members, m.ceased = true) → ∀ w, WaitOpen s w → WaitTrue s w
    else
      (current.subBeforeStart = false ∧
        Quiescent current oneTrivial (exec current oneTrivial schedFastMissed) ∧
        (∀ m ∈ (exec current oneTrivial schedFastMissed).members, m.ceased = true) ∧
        WaitOpen (exec current oneTrivial schedFastMissed) 0 ∧ ¬ WaitTrue (exec current oneTrivial schedFastMissed) 0)
      ∨ (current.instSubBeforeStart = false ∧
        Quiescent current throwAndWaiting (exec current throwAndWaiting schedFastInstanceMissed) ∧
        (∀ m ∈ (exec current throwAndWaiting schedFastInstanceMissed).members, m.ceased = true) ∧
        WaitOpen (exec current throwAndWaiting schedFastInstanceMissed) 0 ∧
        ¬ WaitTrue (exec current throwAndWaiting schedFastInstanceMissed) 0) := by
  split
  · next h => exact fun su s hr hq hp hall w hw => set_complete_live current su h.1 h.2 s hr hq hp hall w hw
  · next h =>
    by_cases h1 : current.subBeforeStart = true
    · have h2 : current.instSubBeforeStart = false := by
        cases hb : current.instSubBeforeStart with
        | false => rfl
        | true => exact absurd ⟨h1, hb⟩ h
      obtain ⟨a, _, c, _, d, e⟩ := C18_counterexample_fast_instance_missed current h2
      exact Or.inr ⟨h2, a, c, d, e⟩
    · have h1' : current.subBeforeStart = false := by simpa using h1
      obtain ⟨a, _, c, _, d, e⟩ := C18_counterexample_fast_process_missed current h1'
      exact Or.inl ⟨h1', a, c, d, e⟩

/-- repeated and concurrent waits never panic — or the second call closes the closed channel -/
theorem current_reentrant :
    if current.closeOnce = true then ∀ (su : Setup) (sch : List Choice), (exec current su sch).panicked = false
    else (exec current oneTrivial schedDoubleWait).panicked = true ∧
         (exec current oneTrivial schedConcurrentWait).panicked = true := by
  split
  · next h => exact fun su sch => set_wait_reentrant current su h sch
  · next h =>
    have h' : current.closeOnce = false := by simpa using h
    exact ⟨C18_counterexample_double_close current h', C18_counterexample_double_close_concurrent current h'⟩

/-- C18 (with its two structural restrictions, see `C18_core`) on the current facts — or one of the witnesses -/
theorem current_verdict :
    if current.subBeforeStart = true ∧ current.instSubBeforeStart = true ∧ current.closeOnce = true then C18_core current
    else ¬ C18_core current := by
  split
  · next h => exact C18_partial current h.1 h.2.1 h.2.2
  · next h =>
    intro hc
    by_cases h3 : current.closeOnce = true
    · by_cases h1 : current.subBeforeStart = true
      · have h2 : current.instSubBeforeStart = false := by
          cases hb : current.instSubBeforeStart with
          | false => rfl
          | true => exact absurd ⟨h1, hb, h3⟩ h
        obtain ⟨q, _, c, _, d, e⟩ := C18_counterexample_fast_instance_missed current h2
        exact e ((hc throwAndWaiting _ (reach_exec (cfg := current) schedFastInstanceMissed)).2.1 q c 0 d)
      · obtain ⟨q, _, c, _, d, e⟩ := C18_counterexample_fast_process_missed current (by simpa using h1)
        exact e ((hc oneTrivial _ (reach_exec (cfg := current) schedFastMissed)).2.1 q c 0 d)
    · have := (hc oneTrivial _ (reach_exec (cfg := current) schedDoubleWait)).2.2.1
      rw [C18_counterexample_double_close current (by simpa using h3)] at this
      cases this

/-- the full statement (`C18_statement`) is false on the current facts, as on all others -/
theorem current_full_statement_refuted : ¬ C18_statement current := C18_not_holds current

/-- the model registers a watcher with the wait group and spawns it in one step: `wg.Add(1)` precedes the `go` -/
theorem current_add_before_spawn : Bpmn.Gen.C18.wgAddBeforeSpawn = some true := by decide

/-- the model takes a watcher's send to `ps.mch` as not blocking while `run` is alive: the channel is buffered for every
number (≥ 1) of executable processes; `ps.done` exists (its capacity is irrelevant: it is only ever closed) -/
theorem current_channels :
    1 ≤ (Bpmn.Gen.C18.mchCapPerExecutable.getD 0) + (Bpmn.Gen.C18.mchCapExtra.getD 0) ∧
    Bpmn.Gen.C18.mchCapPerExecutable.isSome = true ∧ Bpmn.Gen.C18.mchCapExtra.isSome = true ∧
    Bpmn.Gen.C18.doneCap.isSome = true := by decide

end Bpmn.Props.C18
