import Bpmn.Props.C14
import Bpmn.Gen.C14
/-! C14 instantiated at the facts extracted from the current /repo tree. -/
namespace Bpmn.Props.C14
/-- the model's "did not match" sentinel is the one the code exports -/
theorem current_sentinel :
    Bpmn.Gen.C14.eventDidNotMatch = some Bpmn.Model.Satisfier.didNotMatch := by decide
end Bpmn.Props.C14
