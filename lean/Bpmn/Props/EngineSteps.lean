import Bpmn.Props.C01
import Bpmn.Props.C03
import Bpmn.Props.C04
import Bpmn.Props.C01Fragment
/-!
# The gateway kernels inside the engine model: one step of `arrive`, for ANY program, state and configuration

`Props/C03`, `Props/C04` and `Props/C05` prove the gateway properties on the decision kernels (`Gateway.distribute`,
`Gateway.xgDecide`, `Gateway.igDecide`) and on the per-gateway message models. The engine model (`Model/Engine`) calls the
same kernels; the theorems below say what ONE arrival at a gateway node does in the engine model in terms of those kernels —
so that the kernel theorems are statements about the engine model's runs, whatever the program around the gateway is:

* `xor_step_take` / `xor_step_error` / `xor_step_at_most_one`: a token arriving at an exclusive gateway continues as ONE
  token (the same token id) on the flow `xgDecide` picks over the gateway's own outgoing list, or — no effective flow, no
  default — is parked with the error observation; never two tokens, whatever the configuration;
* `xor_routes_first_true`: with `Props/C04`: it is the first flow (in the gateway's list order) whose condition is true;
* `par_step_holds`: a token arriving at a parallel gateway that still misses an incoming token is held: nothing continues,
  nothing is observed, the token is recorded at the gateway behind the earlier ones;
* `par_step_releases_all`: the arrival that completes the set removes the gateway's record and sends tokens out — their
  number is the number of outgoing flows (one per flow, `Props/C03.distribute_partition`);
* `incl_step_holds`: an arrival at an inclusive gateway never continues by itself (the decision is taken when the work
  list is empty: `settleIncl`);
* `throw_step_passes`: with the repaired switch every arrival at an intermediate throw event leaves over the event's
  outgoing flows (same function as a start event), for every token, however often the event was reached before.
-/
namespace Bpmn.Props.EngineSteps
open Bpmn.Model Bpmn.Model.Engine Bpmn.Model.Gateway

/-! ## leaving over a list of flows that are all taken (unconditional) -/

theorem evalFlows_unconditional (p : Proc) (s : St) (fls : List String) :
    evalFlows p s fls true = (fls.map (fun f => (f, true)), s) := by
  unfold evalFlows
  simp only [evalFlow, if_true]
  suffices h : ∀ (acc : List (String × Bool)),
      fls.foldl (fun (x : List (String × Bool) × St) fl => (x.1 ++ [(fl, true)], x.2)) (acc, s) =
        (acc ++ fls.map (fun f => (f, true)), s) by
    simpa using h []
  induction fls with
  | nil => intro acc; simp
  | cons f rest ih =>
    intro acc
    simp only [List.foldl, List.map_cons]
    rw [ih]
    simp

/-- one unconditional flow: the token itself moves, nothing is forked, it does not stay — for every configuration -/
theorem selectFlows_one (cfg : Cfg) (p : Proc) (s : St) (t : Tok) (fl : String) :
    (selectFlows cfg p s t [fl] true).1 = [{ t with node := flowDst p fl }] ∧
    (selectFlows cfg p s t [fl] true).2.1 = false ∧
    (selectFlows cfg p s t [fl] true).2.2.obs = s.obs ∧
    (selectFlows cfg p s t [fl] true).2.2.pending = s.pending ∧
    (selectFlows cfg p s t [fl] true).2.2.parked = s.parked := by
  simp [selectFlows, evalFlows_unconditional, forkToks, St.inherit, St.recordFlow]

/-! ## exclusive gateway -/

/-- what the gateway's probing round reports: its non-default outgoing flows with the outcome of their conditions -/
def xorReport (p : Proc) (s : St) (n : Node) : List (String × Bool) :=
  (evalFlows p s (n.outs.filter (fun f => some f != n.dflt)) false).1

/-- **Exclusive gateway, a flow is chosen.** The token continues — the same token, alone — on the flow the kernel
`xgDecide` picks. -/
theorem xor_step_take (cfg : Cfg) (p : Proc) (s : St) (t : Tok) (n : Node) (fl : String)
    (hn : p.node? t.node = some n) (hk : n.kind = .xor) (hd : xgDecide (xorReport p s n) n.dflt = .take fl) :
    (arrive cfg p s t).1 = [{ t with node := flowDst p fl }] := by
  unfold xorReport at hd
  unfold arrive
  simp only [hn, hk, hd]
  exact (selectFlows_one cfg p _ t fl).1

/-- **Exclusive gateway, nothing can be chosen.** No condition true and no default: the token is parked at the gateway and
the error is observed; no token continues. -/
theorem xor_step_error (cfg : Cfg) (p : Proc) (s : St) (t : Tok) (n : Node)
    (hn : p.node? t.node = some n) (hk : n.kind = .xor) (hd : xgDecide (xorReport p s n) n.dflt = .error) :
    (arrive cfg p s t).1 = [] ∧ t ∈ (arrive cfg p s t).2.parked ∧
    Obs.err "noeffective-exclusive" ∈ (arrive cfg p s t).2.obs := by
  unfold xorReport at hd
  unfold arrive
  simp only [hn, hk, hd]
  simp [St.emit]

/-- **Never two.** An arrival at an exclusive gateway lets at most one token continue, whatever the data, the conditions
and the configuration. -/
theorem xor_step_at_most_one (cfg : Cfg) (p : Proc) (s : St) (t : Tok) (n : Node)
    (hn : p.node? t.node = some n) (hk : n.kind = .xor) : (arrive cfg p s t).1.length ≤ 1 := by
  cases hd : xgDecide (xorReport p s n) n.dflt with
  | take fl => rw [xor_step_take cfg p s t n fl hn hk hd]; simp
  | error => rw [(xor_step_error cfg p s t n hn hk hd).1]; simp

/-- **Deterministic routing.** If the report is `pre ++ (fl, true) :: post` with every flow of `pre` false, the token goes
to the target of `fl` — the first true one in the gateway's own order (kernel theorem `xgDecide_first_true`). -/
theorem xor_routes_first_true (cfg : Cfg) (p : Proc) (s : St) (t : Tok) (n : Node) (fl : String)
    (pre post : List (String × Bool)) (hn : p.node? t.node = some n) (hk : n.kind = .xor)
    (hr : xorReport p s n = pre ++ (fl, true) :: post) (hpre : ∀ x ∈ pre, x.2 = false) :
    (arrive cfg p s t).1 = [{ t with node := flowDst p fl }] := by
  apply xor_step_take cfg p s t n fl hn hk
  rw [hr]
  exact Bpmn.Props.C04.xgDecide_first_true pre post fl n.dflt hpre

/-- **Default.** Every condition false and a default flow `d`: the token goes to the target of `d`. -/
theorem xor_routes_default (cfg : Cfg) (p : Proc) (s : St) (t : Tok) (n : Node) (d : String)
    (hn : p.node? t.node = some n) (hk : n.kind = .xor) (hd : n.dflt = some d)
    (hall : ∀ x ∈ xorReport p s n, x.2 = false) :
    (arrive cfg p s t).1 = [{ t with node := flowDst p d }] := by
  apply xor_step_take cfg p s t n d hn hk
  rw [hd]
  exact Bpmn.Props.C04.xgDecide_default _ d hall

/-! ## parallel gateway -/

/-- the tokens recorded at parallel gateway `g` -/
def waitingAt (s : St) (g : String) : List Nat := ((s.pg.find? (·.1 == g)).map (·.2)).getD []

/-- **Parallel gateway, still waiting.** While an incoming token is missing the arriving token is held: no token
continues, nothing is observed, nothing is requested; the gateway's record is the earlier tokens followed by this one. -/
theorem par_step_holds (cfg : Cfg) (p : Proc) (s : St) (t : Tok) (n : Node)
    (hn : p.node? t.node = some n) (hk : n.kind = .par)
    (hmiss : (waitingAt s n.id).length + 1 < n.ins.length) :
    (arrive cfg p s t).1 = [] ∧ (arrive cfg p s t).2.obs = s.obs ∧ (arrive cfg p s t).2.pending = s.pending ∧
    waitingAt (arrive cfg p s t).2 n.id = waitingAt s n.id ++ [t.fid] := by
  unfold waitingAt at hmiss ⊢
  unfold arrive
  simp only [hn, hk]
  have hc : ((((s.pg.find? (·.1 == n.id)).map (·.2)).getD [] ++ [t.fid]).length == n.ins.length ||
      (n.ins.isEmpty && (((s.pg.find? (·.1 == n.id)).map (·.2)).getD [] ++ [t.fid]).length == 1)) = false := by
    have h2 : n.ins.isEmpty = false := by
      cases hi : n.ins with
      | nil => rw [hi] at hmiss; simp at hmiss
      | cons _ _ => rfl
    simp [h2]; omega
  simp only [hc, Bool.false_eq_true, if_false]
  refine ⟨trivial, trivial, trivial, ?_⟩
  have : List.find? (fun x => x.1 == n.id)
      (List.filter (fun x => x.1 != n.id) s.pg ++
        [(n.id, ((s.pg.find? (·.1 == n.id)).map (·.2)).getD [] ++ [t.fid])]) =
      some (n.id, ((s.pg.find? (·.1 == n.id)).map (·.2)).getD [] ++ [t.fid]) := by
    rw [List.find?_append]
    have hnone : List.find? (fun x => x.1 == n.id) (List.filter (fun x => x.1 != n.id) s.pg) = none := by
      apply List.find?_eq_none.mpr
      intro x hx
      have := (List.mem_filter.mp hx).2
      simpa [bne] using this
    simp [hnone]
  simp [this]

/-- leaving over `fls`, all taken: one token per flow -/
theorem selectFlows_unc_length (cfg : Cfg) (p : Proc) (s : St) (t : Tok) (fls : List String) :
    (selectFlows cfg p s t fls true).1.length = fls.length := by
  cases fls with
  | nil => simp [selectFlows]
  | cons f rest =>
    simp only [selectFlows, evalFlows_unconditional]
    simp only [List.map_cons, List.filter_cons, if_true, List.head?_cons, Option.map_some, Option.getD_some,
      Bool.not_true, Bool.and_false, Bool.false_eq_true, if_false]
    have hfilter : List.map (fun x => x.1) (List.filter (fun x => x.2) (List.map (fun f => (f, true)) rest)) = rest := by
      induction rest with
      | nil => rfl
      | cons a l ih => simp [ih]
    simp only [hfilter, List.length_cons]
    have h := congrArg List.length (Bpmn.Props.C01.forkToks_spec p s rest).1
    simp only [List.length_map] at h
    simpa using h

/-- how many flows a reply of `distribute` carries -/
def replyLen (outs : List String) : Reply → Nat
  | .complete => 0
  | .flows lo hi => ((outs.drop lo).take (hi - lo)).length

theorem replyLen_indices (a i : Nat) (outs : List String) :
    replyLen outs (reply a outs.length i) = (reply a outs.length i).indices.length := by
  unfold reply
  by_cases h1 : (i + 1 == a) = true
  · simp only [h1, if_true, Nat.le_refl]
    by_cases h2 : i ≥ outs.length
    · simp [h2, replyLen, Reply.indices]
    · simp [h2, replyLen, Reply.indices]
  · simp only [h1, Bool.false_eq_true, if_false]
    by_cases h2 : i + 1 ≤ outs.length
    · have h3 : ¬ (i ≥ i + 1) := by omega
      simp [h2, h3, replyLen, Reply.indices]; omega
    · simp [h2, replyLen, Reply.indices]

/-- the released tokens of a parallel gateway, counted: the fold over the (token, reply) pairs adds `replyLen` per pair -/
theorem release_fold_length (cfg : Cfg) (p : Proc) (n : Node) :
    ∀ (pairs : List (Nat × Reply)) (acc : List Tok) (s : St),
    (pairs.foldl (fun (x : List Tok × St) (fr : Nat × Reply) =>
        match fr.2 with
        | .complete => (x.1, (x.2.emit (.complete n.id)).recordTerm fr.1)
        | .flows lo hi =>
          (x.1 ++ (selectFlows cfg p x.2 { fid := fr.1, node := n.id } ((n.outs.drop lo).take (hi - lo)) true).1,
           (selectFlows cfg p x.2 { fid := fr.1, node := n.id } ((n.outs.drop lo).take (hi - lo)) true).2.2))
        (acc, s)).1.length =
      acc.length + (pairs.map (fun fr => replyLen n.outs fr.2)).sum := by
  intro pairs
  induction pairs with
  | nil => intro acc s; simp
  | cons fr rest ih =>
    intro acc s
    obtain ⟨f, r⟩ := fr
    simp only [List.foldl_cons, List.map_cons, List.sum_cons]
    cases r with
    | complete =>
      simp only
      rw [ih]
      simp [replyLen]
    | flows lo hi =>
      simp only
      rw [ih]
      simp only [List.length_append, selectFlows_unc_length, replyLen]
      omega

theorem sum_replyLen (a : Nat) (outs : List String) (ha : 1 ≤ a) :
    ((distribute a outs.length).map (replyLen outs)).sum = outs.length := by
  have h := congrArg List.length (Bpmn.Props.C03.distribute_partition a outs.length ha)
  rw [List.length_range, List.length_flatMap] at h
  refine Eq.trans ?_ h
  congr 1
  unfold distribute
  simp only [List.map_map]
  apply List.map_congr_left
  intro i _
  simp only [Function.comp]
  exact replyLen_indices a i outs

/-! ### the gateway records (`pg`) are touched by arrivals at parallel gateways only -/

@[simp] theorem emit_pg (s : St) (o : Obs) : (s.emit o).pg = s.pg := rfl
@[simp] theorem recordTerm_pg (s : St) (f : Nat) : (s.recordTerm f).pg = s.pg := rfl
@[simp] theorem recordFlow_pg (s : St) (p : Proc) (src : String) (fids : List Nat) :
    (s.recordFlow p src fids).pg = s.pg := rfl
@[simp] theorem cause_pg (s : St) (c : String) : (s.cause c).pg = s.pg := by
  unfold St.cause; split <;> rfl
@[simp] theorem inherit_pg (s : St) (parent : Nat) (kids : List Nat) : (s.inherit parent kids).pg = s.pg := by
  unfold St.inherit
  apply Bpmn.Lemmas.Engine.foldl_proj (fun s : St => s.pg)
  intro _ _; rfl
@[simp] theorem evalFlow_pg (p : Proc) (s : St) (fl : String) (u : Bool) : (evalFlow p s fl u).2.pg = s.pg := by
  unfold evalFlow
  split
  · rfl
  · split
    · rfl
    · split <;> rfl
@[simp] theorem evalFlows_pg (p : Proc) (s : St) (fls : List String) (u : Bool) : (evalFlows p s fls u).2.pg = s.pg := by
  unfold evalFlows
  apply Bpmn.Lemmas.Engine.foldl_proj (fun x : List (String × Bool) × St => x.2.pg)
  intro b a
  obtain ⟨acc, s⟩ := b
  simp
@[simp] theorem forkToks_pg (p : Proc) (s : St) (fls : List String) : (forkToks p s fls).2.pg = s.pg := by
  unfold forkToks
  apply Bpmn.Lemmas.Engine.foldl_proj (fun x : List Tok × St => x.2.pg)
  intro _ _; rfl

theorem selectFlows_pg (cfg : Cfg) (p : Proc) (s : St) (t : Tok) (fls : List String) (u : Bool) :
    (selectFlows cfg p s t fls u).2.2.pg = s.pg := by
  unfold selectFlows
  split
  · simp
  · simp only
    split
    · simp
    · split <;> simp

theorem release_fold_pg (cfg : Cfg) (p : Proc) (n : Node) (pairs : List (Nat × Reply)) (acc : List Tok) (s : St) :
    (pairs.foldl (fun (x : List Tok × St) (fr : Nat × Reply) =>
        match fr.2 with
        | .complete => (x.1, (x.2.emit (.complete n.id)).recordTerm fr.1)
        | .flows lo hi =>
          (x.1 ++ (selectFlows cfg p x.2 { fid := fr.1, node := n.id } ((n.outs.drop lo).take (hi - lo)) true).1,
           (selectFlows cfg p x.2 { fid := fr.1, node := n.id } ((n.outs.drop lo).take (hi - lo)) true).2.2))
        (acc, s)).2.pg = s.pg := by
  apply Bpmn.Lemmas.Engine.foldl_proj (fun x : List Tok × St => x.2.pg)
  intro b a
  obtain ⟨acc, s⟩ := b
  obtain ⟨f, r⟩ := a
  cases r with
  | complete => simp
  | flows lo hi => simp only; exact selectFlows_pg _ _ _ _ _ _

/-- **Parallel gateway, the set is complete.** The arrival that brings the number of recorded tokens to the number of
incoming flows clears the gateway's record and sends out exactly one token per outgoing flow — for every number of
incoming and outgoing flows (with `Props/C03.distribute_partition`: each outgoing flow exactly once). -/
theorem par_step_releases_all (cfg : Cfg) (he : cfg.eagerSettle = false) (p : Proc) (s : St) (t : Tok) (n : Node)
    (hn : p.node? t.node = some n) (hk : n.kind = .par)
    (hfull : (waitingAt s n.id).length + 1 = n.ins.length) :
    (arrive cfg p s t).1.length = n.outs.length ∧ waitingAt (arrive cfg p s t).2 n.id = [] := by
  unfold waitingAt at hfull
  have hc : ((((s.pg.find? (·.1 == n.id)).map (·.2)).getD [] ++ [t.fid]).length == n.ins.length) = true := by
    simp only [List.length_append, List.length_singleton, beq_iff_eq]; exact hfull
  constructor
  · unfold arrive
    simp only [hn, hk, hc, Bool.true_or, if_true, he, Bool.false_eq_true, if_false]
    refine Eq.trans (release_fold_length cfg p n _ _ _) ?_
    simp only [List.length_nil, Nat.zero_add]
    have hzip : (((((s.pg.find? (·.1 == n.id)).map (·.2)).getD [] ++ [t.fid]).zip
        (distribute (((s.pg.find? (·.1 == n.id)).map (·.2)).getD [] ++ [t.fid]).length n.outs.length)).map
          (fun fr => replyLen n.outs fr.2)) =
        (distribute (((s.pg.find? (·.1 == n.id)).map (·.2)).getD [] ++ [t.fid]).length n.outs.length).map
          (replyLen n.outs) := by
      have hz := List.map_snd_zip (l₁ := ((s.pg.find? (·.1 == n.id)).map (·.2)).getD [] ++ [t.fid])
        (l₂ := distribute (((s.pg.find? (·.1 == n.id)).map (·.2)).getD [] ++ [t.fid]).length n.outs.length)
        (by simp [Bpmn.Props.C03.distribute_length])
      rw [← hz, List.map_map]
      simp only [hz]
      rfl
    rw [hzip]
    exact sum_replyLen _ n.outs (by simp)
  · unfold waitingAt arrive
    simp only [hn, hk, hc, Bool.true_or, if_true, he, Bool.false_eq_true, if_false]
    have hpg := release_fold_pg cfg p n
      ((((s.pg.find? (·.1 == n.id)).map (·.2)).getD [] ++ [t.fid]).zip
        (distribute (((s.pg.find? (·.1 == n.id)).map (·.2)).getD [] ++ [t.fid]).length n.outs.length)) []
      { s with pg := s.pg.filter (·.1 != n.id) }
    have hnone : List.find? (fun x => x.1 == n.id) (List.filter (fun x => x.1 != n.id) s.pg) = none := by
      apply List.find?_eq_none.mpr
      intro x hx
      have := (List.mem_filter.mp hx).2
      simpa [bne] using this
    refine Eq.trans (congrArg (fun pg => ((List.find? (fun x => x.1 == n.id) pg).map (·.2)).getD []) hpg) ?_
    simp [hnone]

/-- tokens arriving one after the other: what continues, and the state -/
def arriveAll (cfg : Cfg) (p : Proc) (s : St) (toks : List Tok) : List Tok × St :=
  toks.foldl (fun (x : List Tok × St) t => let r := arrive cfg p x.2 t; (x.1 ++ r.1, r.2)) ([], s)

theorem arriveAll_go (cfg : Cfg) (p : Proc) (n : Node) (hk : n.kind = .par) :
    ∀ (toks : List Tok) (acc : List Tok) (s : St),
      (∀ t ∈ toks, p.node? t.node = some n) →
      (waitingAt s n.id).length + toks.length < n.ins.length →
      (toks.foldl (fun (x : List Tok × St) t => let r := arrive cfg p x.2 t; (x.1 ++ r.1, r.2)) (acc, s)).1 = acc ∧
      (toks.foldl (fun (x : List Tok × St) t => let r := arrive cfg p x.2 t; (x.1 ++ r.1, r.2)) (acc, s)).2.obs = s.obs ∧
      waitingAt (toks.foldl (fun (x : List Tok × St) t => let r := arrive cfg p x.2 t; (x.1 ++ r.1, r.2)) (acc, s)).2 n.id
        = waitingAt s n.id ++ toks.map (·.fid) := by
  intro toks
  induction toks with
  | nil => intro acc s _ _; simp
  | cons t rest ih =>
    intro acc s hall hlen
    simp only [List.length_cons] at hlen
    have ht := hall t (List.mem_cons_self ..)
    have hstep := par_step_holds cfg p s t n ht hk (by omega)
    simp only [List.foldl_cons]
    have hrest := ih (acc ++ (arrive cfg p s t).1) (arrive cfg p s t).2
      (fun u hu => hall u (List.mem_cons_of_mem _ hu))
      (by rw [hstep.2.2.2]; simp only [List.length_append, List.length_singleton]; omega)
    refine ⟨?_, ?_, ?_⟩
    · rw [hrest.1, hstep.1]; simp
    · rw [hrest.2.1, hstep.2.1]
    · rw [hrest.2.2, hstep.2.2.2]; simp

/-- **Parallel join, every arrival order, every width.** Whatever the program around it: while fewer tokens than the
gateway has incoming flows have arrived — in ANY order, tokens of any identity — nothing continues and nothing is observed;
the gateway's record is exactly the arrivals so far, in order. -/
theorem par_join_waits (cfg : Cfg) (p : Proc) (s : St) (n : Node) (hk : n.kind = .par) (toks : List Tok)
    (hall : ∀ t ∈ toks, p.node? t.node = some n) (hempty : waitingAt s n.id = [])
    (hfew : toks.length < n.ins.length) :
    (arriveAll cfg p s toks).1 = [] ∧ (arriveAll cfg p s toks).2.obs = s.obs ∧
    waitingAt (arriveAll cfg p s toks).2 n.id = toks.map (·.fid) := by
  have h := arriveAll_go cfg p n hk toks [] s hall (by rw [hempty]; simpa using hfew)
  unfold arriveAll
  refine ⟨h.1, h.2.1, ?_⟩
  rw [h.2.2, hempty]; rfl

/-- … and the arrival that completes the set sends out one token per outgoing flow and empties the record: the gateway is
ready for its next activation (loops). -/
theorem par_join_fires (cfg : Cfg) (he : cfg.eagerSettle = false) (p : Proc) (s : St) (n : Node) (hk : n.kind = .par)
    (toks : List Tok) (last : Tok)
    (hall : ∀ t ∈ toks, p.node? t.node = some n) (hlast : p.node? last.node = some n)
    (hempty : waitingAt s n.id = []) (hfull : toks.length + 1 = n.ins.length) :
    (arriveAll cfg p s (toks ++ [last])).1.length = n.outs.length ∧
    waitingAt (arriveAll cfg p s (toks ++ [last])).2 n.id = [] := by
  have hw := par_join_waits cfg p s n hk toks hall hempty (by omega)
  unfold arriveAll at hw ⊢
  rw [List.foldl_append]
  simp only [List.foldl_cons, List.foldl_nil]
  have hrel := par_step_releases_all cfg he p
    (toks.foldl (fun (x : List Tok × St) t => let r := arrive cfg p x.2 t; (x.1 ++ r.1, r.2)) ([], s)).2 last n hlast hk
    (by rw [hw.2.2]; simpa using hfull)
  refine ⟨?_, hrel.2⟩
  rw [List.length_append, hw.1]
  simpa using hrel.1

/-! ## inclusive gateway, throw event -/

theorem igGet_gw (s : St) (id : String) : (igGet s id).gw = id := by
  unfold igGet
  cases h : s.ig.find? (·.gw == id) with
  | none => rfl
  | some g =>
    have := List.find?_some h
    simpa using this

theorem igGet_igSet_self (s : St) (g : IgSt) : igGet (igSet s g) g.gw = g := by
  unfold igGet igSet
  simp only
  rw [List.find?_append]
  have hnone : List.find? (fun x => x.gw == g.gw) (List.filter (fun x => x.gw != g.gw) s.ig) = none := by
    apply List.find?_eq_none.mpr
    intro x hx
    have := (List.mem_filter.mp hx).2
    simpa [bne] using this
  simp [hnone]

/-- **Inclusive gateway.** An arrival never continues by itself and observes nothing: the token is recorded at the
gateway (`activated` / `arrived`); whether and where it goes on is decided when the work list is empty (`settleIncl`,
kernel `igDecide`: `Props/C05`). -/
theorem incl_step_holds (cfg : Cfg) (p : Proc) (s : St) (t : Tok) (n : Node)
    (hn : p.node? t.node = some n) (hk : n.kind = .incl) :
    (arrive cfg p s t).1 = [] ∧ (arrive cfg p s t).2.obs = s.obs ∧ (arrive cfg p s t).2.pending = s.pending ∧
    t.fid ∈ (igGet (arrive cfg p s t).2 n.id).arrived := by
  have hgw := igGet_gw s n.id
  unfold arrive
  simp only [hn, hk]
  cases hg : (igGet s n.id).activated with
  | none =>
    simp only
    refine ⟨trivial, rfl, rfl, ?_⟩
    have := igGet_igSet_self s { gw := (igGet s n.id).gw, activated := some t.fid, arrived := [t.fid], sync := [] }
    simp only [hgw] at this ⊢
    rw [this]
    simp
  | some a =>
    simp only
    refine ⟨trivial, rfl, rfl, ?_⟩
    have := igGet_igSet_self s { gw := (igGet s n.id).gw, activated := some a,
                                 arrived := (igGet s n.id).arrived ++ [t.fid], sync := (igGet s n.id).sync ++ [t.fid] }
    simp only [hgw] at this ⊢
    rw [this]
    simp

/-- **Intermediate throw event** (with the repaired switch): every arrival — the first as well as any later one — leaves
over the event's outgoing flows exactly as `selectFlows` prescribes; the event is marked as reached. -/
theorem throw_step_passes (cfg : Cfg) (hf : cfg.throwFuse = false) (p : Proc) (s : St) (t : Tok) (n : Node)
    (hn : p.node? t.node = some n) (hk : n.kind = .throw_) :
    arrive cfg p s t =
      (let s' := { s with activated := if s.activated.contains n.id then s.activated else n.id :: s.activated }
       let r := selectFlows cfg p s' t n.outs false
       (if r.2.1 then t :: r.1 else r.1, r.2.2)) := by
  unfold arrive
  simp [hn, hk, hf]

/-- **and with the fuse** (the code before f5a8c41): the second arrival is consumed at the event, nothing continues -/
theorem throw_step_fused (cfg : Cfg) (hf : cfg.throwFuse = true) (p : Proc) (s : St) (t : Tok) (n : Node)
    (hn : p.node? t.node = some n) (hk : n.kind = .throw_) (hbefore : s.activated.contains n.id = true) :
    (arrive cfg p s t).1 = [] ∧ "throw_fused" ∈ (arrive cfg p s t).2.causes := by
  unfold arrive
  simp only [hn, hk, hf, hbefore, Bool.and_self, if_true]
  refine ⟨trivial, ?_⟩
  simp only [St.recordTerm, St.emit, St.cause]
  split
  · rename_i h; simpa using h
  · simp

/-! ## non-vacuity: the hypotheses are met in runs of the demo programs -/

open Bpmn.Props.C01Fragment Bpmn.Props.C01Conformance in
/-- in `demoProc`, after `A` answered with v = 2, the token reaches the exclusive split X2 whose only condition `v < 2` is
false: it leaves over the default flow to the parallel fork, which sends out two tokens -/
example : ((runOps Cfg.ideal demoProc [] [("A", 1, .ok [("v", 2)])]).pending.map (·.1.node)) = ["B", "C"] := by decide

end Bpmn.Props.EngineSteps
