import Bpmn.Props.C12
import Bpmn.Props.C01FragmentCurrent
import Bpmn.Props.C12Nest
import Bpmn.Props.C12Loop
/-!
# C12 — the sub-process node's contract in the engine model, for every program

Step-level theorems about ANY program, state and configuration (they are what "the parent's token continues past the
sub-process exactly once and only after every inner token is consumed" means for one step of the model):

* `enter_sub_tokens` / `enter_sub_holds_parent`: a token reaching an idle sub-process node creates exactly one fresh token at
  each inner start event (in document order, with consecutive fresh ids), emits no request of its own and is held in
  `subs` (with the repaired `subStartSticky = false`); a second token reaching the node while it is active is outside the
  model's domain (flagged, never silently merged).
* `settle_holds_parent` (Props/C12): no parent token is released while a token is alive in its scope.
* `return_needs_empty_scope`: whenever `settle` does release a parent token, its scope contains no live token.
* `return_when_scope_empty`: and it IS released then — at the first moment the work list is empty and its scope holds no
  live token, over the sub-process node's own outgoing flows.
* `return_sub_once`: the released parent token is removed from `subs` in the same step — it cannot be released twice for
  one activation — and continues through `selectFlows` over the sub-process node's own outgoing flows.

And the run-level corollary of `Props/C01Fragment` for programs WITH sub-processes (any nesting depth, inside parallel
branches, re-entered in loops): at the configuration extracted from today's /repo the engine model is the token game
(`sub_programs_are_token_game`).
-/
namespace Bpmn.Props.C12Steps
open Bpmn.Model Bpmn.Model.Engine Bpmn.Props.C01Conformance

/-- the inner start events of sub-process node `n` -/
def innerStarts (p : Proc) (n : Node) : List Node := p.nodes.filter (fun m => m.parent == n.id && m.kind == .start)

theorem spawnStarts_toks (starts : List Node) : ∀ (acc : List Tok) (s : St),
    (starts.foldl (fun (x : List Tok × St) m =>
      (x.1 ++ [({ fid := x.2.nextFid, node := m.id } : Tok)], { x.2 with nextFid := x.2.nextFid + 1 })) (acc, s)).1 =
      acc ++ (starts.zipIdx.map (fun (m, i) => ({ fid := s.nextFid + i, node := m.id } : Tok))) := by
  induction starts with
  | nil => intro acc s; simp
  | cons m rest ih =>
    intro acc s
    simp only [List.foldl, List.zipIdx_cons, List.map_cons]
    rw [ih]
    simp only [List.append_assoc, List.singleton_append, Nat.add_zero, Nat.zero_add]
    congr 2
    rw [List.zipIdx_succ]  -- indices shifted by one
    simp only [List.map_map]
    apply List.map_congr_left
    intro x _
    simp only [Function.comp]
    congr 1
    omega

/-- **Entering.** A token reaching an idle sub-process node: one fresh token per inner start event, in document order, with
consecutive fresh ids — whatever the configuration. -/
theorem enter_sub_tokens (cfg : Cfg) (p : Proc) (s : St) (t : Tok) (n : Node)
    (hn : p.node? t.node = some n) (hk : n.kind = .sub) (hidle : s.subs.any (·.node == n.id) = false) :
    (arrive cfg p s t).1 = (innerStarts p n).zipIdx.map (fun (m, i) =>
      ({ fid := (enterSub cfg s t n (innerStarts p n)).nextFid + i, node := m.id } : Tok)) := by
  unfold arrive
  simp only [hn, hk, hidle, Bool.false_eq_true, if_false]
  unfold spawnStarts
  rw [show (p.nodes.filter (fun m => m.parent == n.id && m.kind == .start)) = innerStarts p n from rfl]
  rw [spawnStarts_toks]
  simp

/-- **Entering, the parent.** With the inner start events re-armed on every activation (`subStartSticky = false`, an
extracted fact) the arriving token is held in `subs`; nothing is requested or completed by the step itself. -/
theorem enter_sub_holds_parent (cfg : Cfg) (hs : cfg.subStartSticky = false) (s : St) (t : Tok) (n : Node)
    (starts : List Node) :
    (enterSub cfg s t n starts).subs = s.subs ++ [t] ∧ (enterSub cfg s t n starts).obs = s.obs ∧
    (enterSub cfg s t n starts).pending = s.pending ∧ (enterSub cfg s t n starts).nextFid = s.nextFid := by
  unfold enterSub
  simp [hs]

/-- **Activations take turns** (subprocess.go `sp.activation`). A second token at an active sub-process node waits AT the
node: it starts nothing, requests nothing, joins no activation (`subs` unchanged) — never merged into the running one. -/
theorem enter_sub_twice_waits (cfg : Cfg) (p : Proc) (s : St) (t : Tok) (n : Node)
    (hn : p.node? t.node = some n) (hk : n.kind = .sub) (hbusy : s.subs.any (·.node == n.id) = true) :
    (arrive cfg p s t).1 = [] ∧ (arrive cfg p s t).2.parked = s.parked ++ [t] ∧ (arrive cfg p s t).2.subs = s.subs ∧
    (arrive cfg p s t).2.pending = s.pending ∧ (arrive cfg p s t).2.nextFid = s.nextFid ∧
    (arrive cfg p s t).2.obs = s.obs := by
  unfold arrive
  simp [hn, hk, hbusy]

/-- **Returning needs an empty scope.** If `settle` lets no inclusive gateway synchronise and yet releases tokens, then some
parent token's scope held no live token. -/
theorem return_needs_empty_scope (cfg : Cfg) (p : Proc) (s : St)
    (hig : (settleIncl cfg p s []).1 = none) (hrel : (settle cfg p s).1 ≠ []) :
    ∃ t ∈ (settleIncl cfg p s []).2.subs, liveInScope p (settleIncl cfg p s []).2 t.node [] = false := by
  apply Classical.byContradiction
  intro hno
  apply hrel
  apply Bpmn.Props.C12.settle_holds_parent cfg p s hig
  intro t ht
  cases h : liveInScope p (settleIncl cfg p s []).2 t.node [] with
  | true => rfl
  | false => exact absurd ⟨t, ht, h⟩ hno

/-- **Returning happens once per activation.** With the completion monitor on the inner tracer (`subNeverReturns = false`)
the parent token that `settle` releases is removed from `subs` by the same step. -/
theorem return_sub_once (cfg : Cfg) (hr : cfg.subNeverReturns = false) (p : Proc) (s : St) (t : Tok)
    (hig : (settleIncl cfg p s []).1 = none)
    (hfind : (settleIncl cfg p s []).2.subs.find? (fun u => !liveInScope p (settleIncl cfg p s []).2 u.node []) = some t)
    : t ∉ (settle cfg p s).2.subs := by
  unfold settle
  cases hsi : settleIncl cfg p s [] with
  | mk r s' =>
    rw [hsi] at hig hfind
    simp only at hig hfind
    subst hig
    simp only [hfind, hr, Bool.false_eq_true, if_false]
    have hfilter : t ∉ s'.subs.filter (· != t) := by
      intro hm
      have h2 := (List.mem_filter.mp hm).2
      have hself : (t != t) = false := by
        obtain ⟨f, nd⟩ := t
        simp [bne, BEq.beq, instBEqTok.beq]
      rw [hself] at h2
      exact absurd h2 (by decide)
    cases hnode : p.node? t.node with
    | none => exact hfilter
    | some n =>
      simp only
      split
      all_goals (rw [nextTurn_subs, Bpmn.Props.C01Fragment.selectFlows_subs]; exact hfilter)

/-- **Returning does happen.** As soon as the work list is empty, no inclusive gateway synchronises and the scope of an
active sub-process holds no live token, `settle` releases that sub-process's parent token over the sub-process node's own
outgoing flows (exactly what leaving any other node does: `selectFlows`) — it does not wait for anything else. -/
theorem return_when_scope_empty (cfg : Cfg) (hr : cfg.subNeverReturns = false) (p : Proc) (s : St) (t : Tok) (n : Node)
    (hig : (settleIncl cfg p s []).1 = none)
    (hfind : (settleIncl cfg p s []).2.subs.find? (fun u => !liveInScope p (settleIncl cfg p s []).2 u.node []) = some t)
    (hn : p.node? t.node = some n) :
    ∃ s', (settle cfg p s).1 =
      (if (selectFlows cfg p s' t n.outs false).2.1 then [t] ++ (selectFlows cfg p s' t n.outs false).1
       else (selectFlows cfg p s' t n.outs false).1) ++
        -- … and the first token waiting at the node (if any) takes its turn: it arrives at the node again
        ((selectFlows cfg p s' t n.outs false).2.2.parked.find? (·.node == t.node)).toList ∧ t ∉ s'.subs := by
  unfold settle
  cases hsi : settleIncl cfg p s [] with
  | mk r s1 =>
    rw [hsi] at hig hfind
    simp only at hig hfind
    subst hig
    simp only [hfind, hr, Bool.false_eq_true, if_false, hn]
    refine ⟨{ s1 with subs := s1.subs.filter (· != t),
                       subFired := if s1.subFired.contains t.node then s1.subFired else t.node :: s1.subFired }, ?_, ?_⟩
    · rw [nextTurn_fst]
    · intro hm
      have h2 := (List.mem_filter.mp hm).2
      have hself : (t != t) = false := by
        obtain ⟨f, nd⟩ := t
        simp [bne, BEq.beq, instBEqTok.beq]
      rw [hself] at h2
      exact absurd h2 (by decide)

/-- **Programs with sub-processes are token-game programs** at the configuration extracted from today's /repo: any nesting
depth, inside parallel branches, re-entered in loops — as long as the program has no inclusive gateway. -/
theorem sub_programs_are_token_game (p : Proc) (hp : Bpmn.Props.C01Fragment.NoIncl p) (vars : Vars)
    (ops : List (String × Nat × Answer)) :
    runOps Bpmn.Props.EngineCurrent.faithful p vars ops = runOps Cfg.ideal p vars ops :=
  Bpmn.Props.C01FragmentCurrent.current_noIncl_conformance p hp vars ops

/-- a program of the nest shape has no inclusive gateway -/
theorem nest_noIncl (p : Proc) (d K : Nat) (U S E T : Nat → String) (sh : Bpmn.Props.C12Nest.Shape p d K U S E T) :
    Bpmn.Props.C01Fragment.NoIncl p := by
  intro n hn hk
  have := List.filter_eq_nil_iff.mp sh.noIncl n hn
  simp [hk] at this
  exact absurd this (by decide)

/-- the driver's answers as `runOps` operations -/
def opsOf (as : List (String × List (String × Int))) : List (String × Nat × Answer) := as.map (fun a => (a.1, 1, .ok a.2))

theorem runOps_snoc (cfg : Cfg) (p : Proc) (vars : Vars) (pre : List (String × Nat × Answer)) (a : String) (r : List (String × Int)) :
    runOps cfg p vars (pre ++ [(a, 1, .ok r)]) = answer cfg p (runOps cfg p vars pre) a 1 (.ok r) := by
  simp [runOps, List.foldl_append]

/-- `traceC` from the state after `pre` is the list of the observations of the longer and longer `runOps`, and the last one -/
theorem traceC_runOps (cfg : Cfg) (p : Proc) (vars : Vars) : ∀ (as : List (String × List (String × Int)))
    (pre : List (String × Nat × Answer)),
    Bpmn.Props.C12Nest.traceC cfg p (runOps cfg p vars pre) as =
      ((List.range as.length).map (fun n => (runOps cfg p vars (pre ++ (opsOf as).take (n + 1))).obs),
       runOps cfg p vars (pre ++ opsOf as))
  | [], pre => by simp [Bpmn.Props.C12Nest.traceC, opsOf]
  | (a, r) :: rest, pre => by
    have ih := traceC_runOps cfg p vars rest (pre ++ [(a, 1, .ok r)])
    rw [runOps_snoc] at ih
    simp only [Bpmn.Props.C12Nest.traceC, ih, List.length_cons, List.range_succ_eq_map, List.map_cons, List.map_map]
    have e0 : pre ++ List.take (0 + 1) (opsOf ((a, r) :: rest)) = pre ++ [(a, 1, .ok r)] := by simp [opsOf]
    rw [e0, runOps_snoc]
    refine Prod.ext ?_ ?_
    · simp only [List.cons.injEq, true_and]
      apply List.map_congr_left
      intro n _
      simp [opsOf, List.append_assoc]
    · simp [opsOf, List.append_assoc]

/-- **C12 at any nesting depth, for any chain inside, for today's engine model.** At the configuration extracted from /repo on
this run, every program of the nest shape (`Props/C12Nest.Shape`: `d ≥ 1` sub-process levels around a chain of `K ≥ 1` tasks,
one task behind them) runs as `Props/C12Nest.NestRun` says: the innermost tasks are requested one after the other; once the
last is answered every level returns, innermost first, exactly once; the following task is requested once; the instance
completes. -/
theorem nest_run_current (p : Proc) (d K : Nat) (U S E T : Nat → String) (sh : Bpmn.Props.C12Nest.Shape p d K U S E T)
    (vars : Vars) (rs : List (List (String × Int))) (hrs : rs.length = K + 1) :
    Bpmn.Props.C12Nest.NestRun p d K E T (start Bpmn.Props.EngineCurrent.faithful p vars)
      (Bpmn.Props.C12Nest.traceC Bpmn.Props.EngineCurrent.faithful p (start Bpmn.Props.EngineCurrent.faithful p vars)
        ((Bpmn.Props.C12Nest.namesFrom T 0 K ++ ["C"]).zip rs)) := by
  have hp := nest_noIncl p d K U S E T sh
  have h0 : ∀ cfg, start cfg p vars = runOps cfg p vars [] := fun _ => rfl
  have key : Bpmn.Props.C12Nest.traceC Bpmn.Props.EngineCurrent.faithful p (start Bpmn.Props.EngineCurrent.faithful p vars)
        ((Bpmn.Props.C12Nest.namesFrom T 0 K ++ ["C"]).zip rs) =
      Bpmn.Props.C12Nest.traceC Cfg.ideal p (start Cfg.ideal p vars) ((Bpmn.Props.C12Nest.namesFrom T 0 K ++ ["C"]).zip rs) := by
    rw [h0, h0, traceC_runOps, traceC_runOps]
    simp only [sub_programs_are_token_game p hp]
  rw [key, h0 Bpmn.Props.EngineCurrent.faithful, sub_programs_are_token_game p hp]
  exact Bpmn.Props.C12Nest.nest_run sh vars rs hrs

/-- … in particular on the concrete family `nestProc d K`, for every `d ≥ 1`, `K ≥ 1` -/
theorem nestProc_run_current (d K : Nat) (hd : 0 < d) (hK : 0 < K) (vars : Vars) (rs : List (List (String × Int)))
    (hrs : rs.length = K + 1) :
    Bpmn.Props.C12Nest.NestRun (Bpmn.Props.C12Nest.nestProc d K) d K (Bpmn.Props.C12Nest.nm 'E') (Bpmn.Props.C12Nest.nm 'T')
      (start Bpmn.Props.EngineCurrent.faithful (Bpmn.Props.C12Nest.nestProc d K) vars)
      (Bpmn.Props.C12Nest.traceC Bpmn.Props.EngineCurrent.faithful (Bpmn.Props.C12Nest.nestProc d K)
        (start Bpmn.Props.EngineCurrent.faithful (Bpmn.Props.C12Nest.nestProc d K) vars)
        ((Bpmn.Props.C12Nest.namesFrom (Bpmn.Props.C12Nest.nm 'T') 0 K ++ ["C"]).zip rs)) :=
  nest_run_current _ d K _ _ _ _ (Bpmn.Props.C12Nest.nest_shape d K hd hK) vars rs hrs

/-- the model's nest of depth 3 around 2 tasks really is the program one would draw (executable check of the constructor) -/
example : ((Bpmn.Props.C12Nest.nestProc 3 2).nodes.map (·.id), (start Cfg.ideal (Bpmn.Props.C12Nest.nestProc 3 2) []).obs) =
    (["s", "C", "e", "U", "Ux", "Uxx", "S", "Sx", "Sxx", "E", "Ex", "Exx", "T", "Tx"], [.req "T"]) := by decide

/-! ## the loop of `Props/C12Loop` at the current configuration -/

theorem loop_noIncl (N : Int) : Bpmn.Props.C01Fragment.NoIncl (Bpmn.Props.C12Loop.loopProc N) := by
  intro n hn
  simp only [Bpmn.Props.C12Loop.loopProc, List.mem_cons, List.not_mem_nil, or_false] at hn
  rcases hn with h | h | h | h | h | h | h | h <;> (subst h; decide)

/-- the driver's answers of the loop as `runOps` operations: round `j`, `j + 1`, … -/
def loopOps : Nat → List Int → List (String × Nat × Answer)
  | _, [] => []
  | j, v :: vs => ("B", j, .ok [("c", v)]) :: loopOps (j + 1) vs

theorem roundsC_runOps (cfg : Cfg) (N : Int) (vars : Vars) : ∀ (vs : List Int) (j : Nat) (pre : List (String × Nat × Answer)),
    Bpmn.Props.C12Loop.roundsC cfg N j (runOps cfg (Bpmn.Props.C12Loop.loopProc N) vars pre) vs =
      ((List.range vs.length).map (fun n => (runOps cfg (Bpmn.Props.C12Loop.loopProc N) vars (pre ++ (loopOps j vs).take (n + 1))).obs),
       runOps cfg (Bpmn.Props.C12Loop.loopProc N) vars (pre ++ loopOps j vs))
  | [], j, pre => by simp [Bpmn.Props.C12Loop.roundsC, loopOps]
  | v :: rest, j, pre => by
    have hsn : runOps cfg (Bpmn.Props.C12Loop.loopProc N) vars (pre ++ [("B", j, .ok [("c", v)])]) =
        answer cfg (Bpmn.Props.C12Loop.loopProc N) (runOps cfg (Bpmn.Props.C12Loop.loopProc N) vars pre) "B" j (.ok [("c", v)]) := by
      simp [runOps, List.foldl_append]
    have ih := roundsC_runOps cfg N vars rest (j + 1) (pre ++ [("B", j, .ok [("c", v)])])
    rw [hsn] at ih
    simp only [Bpmn.Props.C12Loop.roundsC, ih, List.length_cons, List.range_succ_eq_map, List.map_cons, List.map_map]
    have e0 : pre ++ List.take (0 + 1) (loopOps j (v :: rest)) = pre ++ [("B", j, .ok [("c", v)])] := by simp [loopOps]
    rw [e0, hsn]
    refine Prod.ext ?_ ?_
    · simp only [List.cons.injEq, true_and]
      apply List.map_congr_left
      intro n _
      simp [loopOps, List.append_assoc]
    · simp [loopOps, List.append_assoc]

/-- **A sub-process entered again and again, for today's engine model.** At the configuration extracted from /repo on this
run the loop of `Props/C12Loop` runs as the token game does: `k` rounds with values below the bound `N`, then one at or above
it — the inner task is requested once per activation of the sub-process, `k + 1` times in all, and the instance completes. -/
theorem loop_run_current (N : Int) (vars : Vars) (vs : List Int) (last : Int) (hvs : ∀ v ∈ vs, v < N) (hlast : ¬ last < N) :
    (start Bpmn.Props.EngineCurrent.faithful (Bpmn.Props.C12Loop.loopProc N) vars).obs = [.req "B"] ∧
    (Bpmn.Props.C12Loop.roundsC Bpmn.Props.EngineCurrent.faithful N 1
      (start Bpmn.Props.EngineCurrent.faithful (Bpmn.Props.C12Loop.loopProc N) vars) vs).1 =
        vs.map (fun _ => [Obs.complete "ue", Obs.req "B"]) ∧
    (runOps Bpmn.Props.EngineCurrent.faithful (Bpmn.Props.C12Loop.loopProc N) vars (loopOps 1 (vs ++ [last]))).obs =
      [.complete "ue", .complete "e"] ∧
    (runOps Bpmn.Props.EngineCurrent.faithful (Bpmn.Props.C12Loop.loopProc N) vars (loopOps 1 (vs ++ [last]))).topLive
      (Bpmn.Props.C12Loop.loopProc N) = false := by
  have hp := loop_noIncl N
  have h0 : ∀ cfg, start cfg (Bpmn.Props.C12Loop.loopProc N) vars = runOps cfg (Bpmn.Props.C12Loop.loopProc N) vars [] := fun _ => rfl
  obtain ⟨o0, o1, o2, t2, _⟩ := Bpmn.Props.C12Loop.loop_run N vars vs last hvs hlast
  have hops : ∀ (vs : List Int) (j : Nat), loopOps j (vs ++ [last]) = loopOps j vs ++ [("B", j + vs.length, .ok [("c", last)])] := by
    intro vs
    induction vs with
    | nil => intro j; simp [loopOps]
    | cons v vs ih => intro j; simp [loopOps, ih (j + 1)]; omega
  have hfin : runOps Cfg.ideal (Bpmn.Props.C12Loop.loopProc N) vars (loopOps 1 (vs ++ [last])) =
      answer Cfg.ideal (Bpmn.Props.C12Loop.loopProc N)
        (Bpmn.Props.C12Loop.rounds N 1 (start Cfg.ideal (Bpmn.Props.C12Loop.loopProc N) vars) vs).2 "B" (1 + vs.length) (.ok [("c", last)]) := by
    rw [hops, h0 Cfg.ideal]
    have := roundsC_runOps Cfg.ideal N vars vs 1 []
    simp only [List.nil_append] at this
    show _ = answer Cfg.ideal _ (Bpmn.Props.C12Loop.roundsC Cfg.ideal N 1 _ vs).2 _ _ _
    rw [this]
    simp [runOps, List.foldl_append]
  refine ⟨?_, ?_, ?_, ?_⟩
  · rw [h0, sub_programs_are_token_game _ hp]; exact o0
  · rw [h0, roundsC_runOps]
    simp only [sub_programs_are_token_game _ hp]
    have := roundsC_runOps Cfg.ideal N vars vs 1 []
    rw [← h0 Cfg.ideal] at this
    have e := congrArg Prod.fst this
    simp only at e
    rw [← e]; exact o1
  · rw [sub_programs_are_token_game _ hp, hfin]; exact o2
  · rw [sub_programs_are_token_game _ hp, hfin]; exact t2

/-- non-vacuity: the nested, looped sub-process program of Props/C01Fragment has sub-processes and no inclusive gateway -/
example : Bpmn.Props.C01Fragment.NoIncl Bpmn.Props.C01Fragment.demoSub ∧
    Bpmn.Props.C01Fragment.demoSub.nodes.any (·.kind == .sub) = true := by decide

end Bpmn.Props.C12Steps
