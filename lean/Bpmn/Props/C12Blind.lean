import Bpmn.Model.Engine
import Bpmn.Spec.TokenGame
/-!
# C12 — what happens AT a node does not depend on the scope the node lies in

"Its inner activities are requested as they would be inline": the transition of the engine model at a node that is not
itself a sub-process node — an activity, a gateway, an event — is literally the same function of the state whatever the
`parent` attributes of the program say. `reparent f p` rewrites every node's scope by an arbitrary function; `arrive` at
any non-sub-process node, `selectFlows`, the evaluation of conditions and the reply of an answered task before the work
list runs are all invariant under it, for every configuration. Scopes matter in exactly two places: entering a sub-process
node (which inner start events) and `settle` (which scope is empty) — the step contract of `Props/C12Steps`.
-/
namespace Bpmn.Props.C12Blind
open Bpmn.Model Bpmn.Model.Engine

/-- the same program with every node's scope rewritten -/
def reparent (f : Node → String) (p : Proc) : Proc :=
  { p with nodes := p.nodes.map (fun n => { n with parent := f n }) }

theorem node?_reparent (f : Node → String) (p : Proc) (id : String) :
    (reparent f p).node? id = (p.node? id).map (fun n => { n with parent := f n }) := by
  unfold Proc.node? reparent
  simp only [List.find?_map]
  rfl

theorem flow?_reparent (f : Node → String) (p : Proc) (fl : String) : (reparent f p).flow? fl = p.flow? fl := rfl

theorem flowDst_reparent (f : Node → String) (p : Proc) (fl : String) : flowDst (reparent f p) fl = flowDst p fl := rfl

theorem evalFlow_reparent (f : Node → String) (p : Proc) (s : St) (fl : String) (u : Bool) :
    evalFlow (reparent f p) s fl u = evalFlow p s fl u := rfl

theorem evalFlows_reparent (f : Node → String) (p : Proc) (s : St) (fls : List String) (u : Bool) :
    evalFlows (reparent f p) s fls u = evalFlows p s fls u := rfl

theorem forkToks_reparent (f : Node → String) (p : Proc) (s : St) (fls : List String) :
    forkToks (reparent f p) s fls = forkToks p s fls := rfl

theorem recordFlow_reparent (f : Node → String) (p : Proc) (s : St) (src : String) (fids : List Nat) :
    s.recordFlow (reparent f p) src fids = s.recordFlow p src fids := by
  unfold St.recordFlow
  rw [node?_reparent]
  cases p.node? src <;> rfl

theorem selectFlows_reparent (cfg : Cfg) (f : Node → String) (p : Proc) (s : St) (t : Tok) (fls : List String) (u : Bool) :
    selectFlows cfg (reparent f p) s t fls u = selectFlows cfg p s t fls u := by
  unfold selectFlows
  simp only [evalFlows_reparent, forkToks_reparent, recordFlow_reparent, flowDst_reparent]

/-- **Scope-blindness of a node's transition.** At a node that is not a sub-process node, `arrive` is the same function of
the state in `p` and in `p` with every scope rewritten — for every configuration, state and token. -/
theorem arrive_reparent (cfg : Cfg) (f : Node → String) (p : Proc) (s : St) (t : Tok)
    (hk : ∀ n, p.node? t.node = some n → n.kind ≠ .sub) :
    arrive cfg (reparent f p) s t = arrive cfg p s t := by
  unfold arrive
  rw [node?_reparent]
  cases hn : p.node? t.node with
  | none => rfl
  | some n =>
    have hk' := hk n hn
    simp only [Option.map_some]
    cases hkind : n.kind <;> simp only [evalFlows_reparent, selectFlows_reparent]
    exact absurd hkind hk'

theorem applyDeclared_reparent (f : Node → String) (n : Node) (vars : Vars) (results : List (String × Int)) :
    applyDeclared { n with parent := f n } vars results = applyDeclared n vars results := rfl

/-- … and so is what an answer does before the work list runs (`answerPrep`: which token continues, where, with which
data): an answered task inside a sub-process is handled exactly like the same task at top level. -/
theorem answerPrep_reparent (cfg : Cfg) (f : Node → String) (p : Proc) (s : St) (node : String) (occ : Nat) (a : Answer) :
    Bpmn.Spec.TokenGame.answerPrep cfg (reparent f p) s node occ a = Bpmn.Spec.TokenGame.answerPrep cfg p s node occ a := by
  unfold Bpmn.Spec.TokenGame.answerPrep
  rw [node?_reparent]
  cases hn : p.node? node with
  | none => simp only [Option.map_none, selectFlows_reparent]
  | some n =>
    simp only [Option.map_some, selectFlows_reparent]
    cases List.find? (fun q => q.fst.node == node && q.snd == occ) s.pending with
    | none => rfl
    | some q => obtain ⟨t, k⟩ := q; rfl

/-- non-vacuity: flattening the scopes of a program with sub-processes changes the program -/
example : reparent (fun _ => "-") { nodes := [{ id := "B", kind := .task, ins := [], outs := [], parent := "U" }], flows := [] } =
    { nodes := [{ id := "B", kind := .task, ins := [], outs := [], parent := "-" }], flows := [] } := rfl

end Bpmn.Props.C12Blind
