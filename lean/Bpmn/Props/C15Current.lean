import Bpmn.Props.C15
import Bpmn.Gen.C15
/-! C15 instantiated at the schema table extracted from the current /repo tree. Every statement is
about `Bpmn.Gen.C15.schema`, which is REGENERATED on every run; the table checks are evaluated by
the kernel. -/
namespace Bpmn.Props.C15
open Bpmn.Model.Xml

abbrev T : Schema := Bpmn.Gen.C15.schema

/-- no tag conflict in any struct, element and attribute tags pairwise distinguishable so the
decoder's dispatch is unambiguous, every element field tagged with a namespace, attributes
un-namespaced, one chardata field, all (un)marshalers of a recognised shape -/
theorem current_wf : WF T := by
  unfold WF; decide +kernel

/-- every prefix written in front of an element name is declared on the root -/
theorem current_prefixes_declared : PrefixesDeclared T := by
  unfold PrefixesDeclared; decide +kernel

/-- the table check of the tree-level round-trip theorem, evaluated by the kernel on the table
extracted from the current tree -/
theorem current_rt_table : RtTable T := by
  unfold RtTable; decide +kernel

/-- **Round trip at the current tree**: every well-typed definitions tree over the schema of the
current /repo, of any size and depth, with any trimming function, is returned by
`parse ∘ marshal` up to text trimming and the olive `Item` defaults. -/
theorem current_roundtrip (tr : String → String) (n : Node) (hwt : WellTyped T n) (hroot : n.ty = T.rootTy) :
    parse T (marshal T tr n) = some (normRoot T tr n) :=
  roundtrip_general T current_rt_table tr n hwt hroot

/-- the generated `FindBy` methods visit every embedded struct and every element field that can
hold an id-carrying element (`BaseElementInterface`) -/
theorem current_findBy_covers : findByCoversB T = true := by decide +kernel

/-- the attribute name and values `AnExpression.MarshalXML` writes are the ones `UnmarshalXML` tests -/
theorem current_type_attr_agrees : Bpmn.Gen.C15.typeAttrAgrees = some true := by decide

/-- a definitions with one process with one sequence flow whose condition is a FORMAL expression -/
def witness (formal : Bool) : Node :=
  mkNode T T.rootTy [] [(Bpmn.Gen.C15.goProcessField,
    [mkNode T Bpmn.Gen.C15.tyProcess [(Bpmn.Gen.C15.goIdField, "p")] [(Bpmn.Gen.C15.goSequenceFlowField,
      [mkNode T Bpmn.Gen.C15.tySequenceFlow [(Bpmn.Gen.C15.goIdField, "f")] [(Bpmn.Gen.C15.goConditionExpressionField,
        [mkNode T (if formal then T.formalTy else T.informalTy) [] [] "x > 1"])] ""])] ""])] ""

/-- **The dichotomy on the extracted fact `xsiDeclared`, at the current tree.** Either the prefix
of the type attribute is declared on the root and the witness (a formal condition) round-trips, or
it is not and the witness comes back with an INFORMAL condition (D11). Whichever side holds is
established by kernel evaluation of the model on the extracted table. -/
theorem current_xsi_dichotomy :
    (Bpmn.Gen.C15.xsiDeclared = some true ∧ XsiDeclared T ∧
      parse T (marshal T id (witness true)) = some (witness true)) ∨
    (Bpmn.Gen.C15.xsiDeclared = some false ∧ ¬ XsiDeclared T ∧
      parse T (marshal T id (witness true)) = some (witness false)) := by
  first
    | exact Or.inl ⟨by decide, by unfold XsiDeclared; decide +kernel, by rfl⟩
    | exact Or.inr ⟨by decide, by unfold XsiDeclared; decide +kernel, by rfl⟩

/-- the whole statement at the current tree -/
theorem current_C15 : C15_statement T := C15_holds T current_rt_table current_findBy_covers

/-- informal conditions round-trip on the current table whatever `xsiDeclared` is -/
theorem current_informal_roundtrip :
    parse T (marshal T id (witness false)) = some (witness false) := by rfl

/-- an `Assignment` whose `from` is a formal expression (a value-typed `AnExpression` field) -/
def witnessValue : Node :=
  mkNode T Bpmn.Gen.C15.tyAssignment [(Bpmn.Gen.C15.goIdField, "a")]
    [(Bpmn.Gen.C15.goFromField, [mkNode T T.formalTy [] [] "1+1"])] ""

/-- **Dichotomy on the value-typed expression fields, at the current tree**: either no element
field is encoded by the default rules (then the table says nothing is lost there), or some are and
the FORMAL `from` expression `1+1` of an assignment element does not survive
`marshalFields`/`parseKids`: what comes back for it is an informal expression with empty text. -/
theorem current_value_fields_dichotomy :
    valueExprFields T = [] ∨
    (valueExprFields T ≠ [] ∧
      (parseKids T T.rootDecls (elemFields T Bpmn.Gen.C15.tyAssignment)
        (marshalFields T id (elemFields T Bpmn.Gen.C15.tyAssignment) witnessValue.kids)).map
          (fun l => l.map (fun p => (p.2.ty, p.2.text))) = some [(T.informalTy, "")]) := by
  first
    | exact Or.inl (by decide +kernel)
    | exact Or.inr ⟨by decide +kernel, by decide +kernel⟩

end Bpmn.Props.C15
