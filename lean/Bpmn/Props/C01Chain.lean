import Bpmn.Model.Engine
/-!
# C01 / C19 — a block-level theorem: every CHAIN of activities, of any length

`chainProc ids` is the program the process builder produces (start event → activity₁ → … → activityₙ → end event, one
sequence flow between neighbours, no conditions): the engine model — at EVERY configuration of the code's deviation
switches — requests the activities once each, in insertion order, one per answer, and then completes at the end event;
nothing else is ever requested. Unbounded in the number of activities; proved by induction along the chain with the
state invariant `AtTask`.

Node ids are arbitrary pairwise distinct strings; the flow leaving node `a` is named `fl a` for an arbitrary naming
function that is injective on the nodes of the chain.
-/
namespace Bpmn.Props.C01Chain
open Bpmn.Model Bpmn.Model.Engine

/-- nodes of the chain after `prev`: each activity has the flow from `prev` coming in and its own flow going out -/
def chainNodes (fl : String → String) : String → List String → List Node
  | prev, [] => [{ id := "e", kind := .end_, ins := [fl prev], outs := [] }]
  | prev, a :: rest => { id := a, kind := .task, ins := [fl prev], outs := [fl a] } :: chainNodes fl a rest

def chainFlows (fl : String → String) : String → List String → List SFlow
  | prev, [] => [{ id := fl prev, src := prev, dst := "e", cond := .none }]
  | prev, a :: rest => { id := fl prev, src := prev, dst := a, cond := .none } :: chainFlows fl a rest

def chainProc (fl : String → String) (ids : List String) : Proc :=
  { nodes := { id := "s", kind := .start, ins := [], outs := [fl "s"] } :: chainNodes fl "s" ids,
    flows := chainFlows fl "s" ids }

/-- the ids are usable: pairwise distinct, none is the start or the end event, flow names distinct per source -/
structure Wf (fl : String → String) (ids : List String) : Prop where
  nodup : ("s" :: "e" :: ids).Nodup
  inj : ∀ a ∈ "s" :: ids, ∀ b ∈ "s" :: ids, fl a = fl b → a = b

/-! ## Lookups in the chain -/

theorem node?_cons_ne (n : Node) (ns : List Node) (fs : List SFlow) (a : String) (h : n.id ≠ a) :
    ({ nodes := n :: ns, flows := fs } : Proc).node? a = ({ nodes := ns, flows := fs } : Proc).node? a := by
  have hb : (n.id == a) = false := by simpa using h
  simp [Proc.node?, List.find?, hb]

theorem chainNodes_ids (fl : String → String) : ∀ (ids : List String) (prev : String),
    (chainNodes fl prev ids).map (·.id) = ids ++ ["e"]
  | [], _ => rfl
  | a :: rest, _ => by simp [chainNodes, chainNodes_ids fl rest a]

theorem chainNodes_no_incl (fl : String → String) : ∀ (ids : List String) (prev : String),
    (chainNodes fl prev ids).filter (·.kind == .incl) = []
  | [], _ => by
    have : (Kind.end_ == Kind.incl) = false := by decide
    simp [chainNodes, List.filter, this]
  | a :: rest, _ => by
    have : (Kind.task == Kind.incl) = false := by decide
    simp only [chainNodes, List.filter, this]
    exact chainNodes_no_incl fl rest a

/-- the node `x` of the part of the chain after `prev`: an activity is followed by `next` -/
theorem find_task (fl : String → String) : ∀ (pre : List String) (prev a : String) (post : List String),
    (pre ++ a :: post ++ ["e"]).Nodup →
    ∃ p, (chainNodes fl prev (pre ++ a :: post)).find? (·.id == a) =
      some { id := a, kind := .task, ins := [fl p], outs := [fl a] }
  | [], prev, a, post, _ => ⟨prev, by simp [chainNodes]⟩
  | b :: pre, prev, a, post, h => by
    have hne : b ≠ a := by
      intro e; subst e
      simp at h
    have h' : (pre ++ a :: post ++ ["e"]).Nodup := by
      simp only [List.cons_append, List.nodup_cons] at h; exact h.2
    obtain ⟨p, hp⟩ := find_task fl pre b a post h'
    refine ⟨p, ?_⟩
    have hb : (b == a) = false := by simpa using hne
    simp only [List.cons_append, chainNodes, List.find?, hb]
    exact hp

theorem find_end (fl : String → String) : ∀ (ids : List String) (prev : String), "e" ∉ ids →
    ∃ p, (chainNodes fl prev ids).find? (·.id == "e") = some { id := "e", kind := .end_, ins := [fl p], outs := [] }
  | [], prev, _ => ⟨prev, by simp [chainNodes]⟩
  | a :: rest, prev, h => by
    have hne : a ≠ "e" := fun e => h (by simp [e])
    have hr : "e" ∉ rest := fun e => h (by simp [e])
    obtain ⟨p, hp⟩ := find_end fl rest a hr
    refine ⟨p, ?_⟩
    have hb : (a == "e") = false := by simpa using hne
    simp only [chainNodes, List.find?, hb]
    exact hp

/-- the flow named `fl a` in the flows after `prev`, where `a` is `prev` or a later activity, leads to `a`'s
successor -/
theorem find_flow (fl : String → String) : ∀ (ids : List String) (prev : String),
    (∀ x ∈ prev :: ids, ∀ y ∈ prev :: ids, fl x = fl y → x = y) →
    (chainFlows fl prev ids).find? (·.id == fl prev) =
      some { id := fl prev, src := prev, dst := (ids.head?).getD "e", cond := .none }
  | [], prev, _ => by simp [chainFlows]
  | a :: rest, prev, _ => by simp [chainFlows]

theorem find_flow_later (fl : String → String) : ∀ (pre : List String) (prev a : String) (post : List String),
    (prev :: (pre ++ a :: post)).Nodup →
    (∀ x ∈ prev :: (pre ++ a :: post), ∀ y ∈ prev :: (pre ++ a :: post), fl x = fl y → x = y) →
    (chainFlows fl prev (pre ++ a :: post)).find? (·.id == fl a) =
      some { id := fl a, src := a, dst := (post.head?).getD "e", cond := .none }
  | [], prev, a, post, hnd, hinj => by
    have hne : fl prev ≠ fl a := by
      intro e
      have := hinj prev (by simp) a (by simp) e
      subst this
      simp at hnd
    have hb : (fl prev == fl a) = false := by simpa using hne
    simp only [List.nil_append, chainFlows, List.find?, hb]
    exact find_flow fl post a (fun x hx y hy => hinj x (List.mem_cons_of_mem _ (by simpa using hx)) y
      (List.mem_cons_of_mem _ (by simpa using hy)))
  | b :: pre, prev, a, post, hnd, hinj => by
    have hne : fl prev ≠ fl a := by
      intro e
      have := hinj prev (by simp) a (by simp) e
      subst this
      simp at hnd
    have hb : (fl prev == fl a) = false := by simpa using hne
    simp only [List.cons_append, chainFlows, List.find?, hb]
    apply find_flow_later fl pre b a post
    · have := (List.nodup_cons.mp hnd).2; simpa using this
    · intro x hx y hy
      exact hinj x (List.mem_cons_of_mem _ (by simpa using hx)) y (List.mem_cons_of_mem _ (by simpa using hy))

end Bpmn.Props.C01Chain

namespace Bpmn.Props.C01Chain
open Bpmn.Model Bpmn.Model.Engine

/-! ## One step of the engine, for any program with the right lookups -/

theorem evalFlows_single (p : Proc) (s : St) (f : String) (sf : SFlow) (h : p.flow? f = some sf)
    (hc : sf.cond = .none) : evalFlows p s [f] false = ([(f, true)], s) := by
  simp [evalFlows, evalFlow, h, hc, Cond.eval, Cond.evalB]

/-- a token leaves a node over its single unconditional flow: it moves, nothing is forked, only the tracker's
picture changes -/
theorem leave_single (cfg : Cfg) (p : Proc) (s : St) (t : Tok) (f : String) (sf : SFlow)
    (h : p.flow? f = some sf) (hc : sf.cond = .none) :
    selectFlows cfg p s t [f] false = ([{ t with node := sf.dst }], false, s.recordFlow p t.node [t.fid]) := by
  simp [selectFlows, evalFlows_single p s f sf h hc, forkToks, flowDst, h, St.inherit]

theorem settleIncl_none (cfg : Cfg) (p : Proc) (s : St) (w : List Tok)
    (hno : p.nodes.filter (·.kind == .incl) = []) : settleIncl cfg p s w = (none, s) := by
  simp [settleIncl, hno]

/-- with every token parked, no inclusive gateway in the program and no sub-process running, the work loop is done -/
theorem runWork_done (cfg : Cfg) (p : Proc) (fuel : Nat) (s : St)
    (hno : p.nodes.filter (·.kind == .incl) = []) (hs : s.subs = []) (hi : s.ig = []) :
    runWork cfg p (fuel + 1) [] s = s := by
  simp [runWork, settle, settleIncl_none cfg p s [] hno, hs, hi]

/-- one token arriving at an activity: one request, the token parks -/
theorem runWork_task (cfg : Cfg) (p : Proc) (fuel : Nat) (s : St) (t : Tok) (n : Node)
    (hno : p.nodes.filter (·.kind == .incl) = []) (hs : s.subs = []) (hi : s.ig = [])
    (hn : p.node? t.node = some n) (hk : n.kind = .task) :
    runWork cfg p (fuel + 2) [t] s =
      { ((bumpOcc s n.id).2.emit (.req n.id)) with pending := s.pending ++ [(t, (bumpOcc s n.id).1)] } := by
  have harr : arrive cfg p s t =
      ([], { ((bumpOcc s n.id).2.emit (.req n.id)) with pending := s.pending ++ [(t, (bumpOcc s n.id).1)] }) := by
    simp [arrive, hn, hk, bumpOcc, St.emit]
  have hsub : ({ ((bumpOcc s n.id).2.emit (.req n.id)) with pending := s.pending ++ [(t, (bumpOcc s n.id).1)] } : St).subs = [] := by
    simp [bumpOcc, St.emit, hs]
  have hig : ({ ((bumpOcc s n.id).2.emit (.req n.id)) with pending := s.pending ++ [(t, (bumpOcc s n.id).1)] } : St).ig = [] := by
    simp [bumpOcc, St.emit, hi]
  rw [runWork, harr]
  by_cases he : cfg.eagerSettle = true
  · simp only [he, if_true, List.append_nil, settleIncl_none cfg p _ [] hno]
    exact runWork_done cfg p fuel _ hno hsub hig
  · simp only [he, Bool.false_eq_true, if_false, List.append_nil]
    exact runWork_done cfg p fuel _ hno hsub hig

/-- one token arriving at the end event: it is consumed -/
theorem runWork_end (cfg : Cfg) (p : Proc) (fuel : Nat) (s : St) (t : Tok) (n : Node)
    (hno : p.nodes.filter (·.kind == .incl) = []) (hs : s.subs = []) (hi : s.ig = [])
    (hn : p.node? t.node = some n) (hk : n.kind = .end_) :
    (runWork cfg p (fuel + 2) [t] s).obs = s.obs ++ [.complete n.id] ∧
    (runWork cfg p (fuel + 2) [t] s).pending = s.pending := by
  have harr : ∃ s', arrive cfg p s t = ([], s') ∧ s'.obs = s.obs ++ [.complete n.id] ∧ s'.pending = s.pending ∧
      s'.subs = [] ∧ s'.ig = [] := by
    refine ⟨(({ s with activated := if s.activated.contains n.id then s.activated else n.id :: s.activated } : St).emit
        (.complete n.id)).recordTerm t.fid, by simp [arrive, hn, hk], ?_, ?_, ?_, ?_⟩ <;>
      simp [St.emit, St.recordTerm, hs, hi]
  obtain ⟨s', ha, ho, hp, hs', hi'⟩ := harr
  rw [runWork, ha]
  by_cases he : cfg.eagerSettle = true
  · simp only [he, if_true, List.append_nil, settleIncl_none cfg p _ [] hno]
    rw [runWork_done cfg p fuel _ hno hs' hi']; exact ⟨ho, hp⟩
  · simp only [he, Bool.false_eq_true, if_false, List.append_nil]
    rw [runWork_done cfg p fuel _ hno hs' hi']; exact ⟨ho, hp⟩

end Bpmn.Props.C01Chain

namespace Bpmn.Props.C01Chain
open Bpmn.Model Bpmn.Model.Engine

/-! ## The chain -/

theorem chain_no_incl (fl : String → String) (ids : List String) :
    (chainProc fl ids).nodes.filter (·.kind == .incl) = [] := by
  have : (Kind.start == Kind.incl) = false := by decide
  simp only [chainProc, List.filter, this]
  exact chainNodes_no_incl fl ids "s"

theorem chainNodes_no_start (fl : String → String) : ∀ (ids : List String) (prev : String),
    (chainNodes fl prev ids).filter (fun n => n.kind == .start && n.parent == "-") = []
  | [], _ => by
    have : (Kind.end_ == Kind.start) = false := by decide
    simp [chainNodes, List.filter, this]
  | a :: rest, _ => by
    have : (Kind.task == Kind.start) = false := by decide
    simp only [chainNodes, List.filter, this, Bool.false_and]
    exact chainNodes_no_start fl rest a

theorem chain_node_start (fl : String → String) (ids : List String) :
    (chainProc fl ids).node? "s" = some { id := "s", kind := .start, ins := [], outs := [fl "s"] } := by
  simp [chainProc, Proc.node?, List.find?]

theorem chain_node_task (fl : String → String) (pre : List String) (a : String) (post : List String)
    (h : Wf fl (pre ++ a :: post)) :
    ∃ q, (chainProc fl (pre ++ a :: post)).node? a = some { id := a, kind := .task, ins := [fl q], outs := [fl a] } := by
  have hnd := h.nodup
  have hsa : "s" ≠ a := by
    intro e; subst e
    simp at hnd
  have hne : (pre ++ a :: post ++ ["e"]).Nodup := by
    have h2 : ("e" :: (pre ++ a :: post)).Nodup := (List.nodup_cons.mp hnd).2
    have := List.nodup_cons.mp h2
    rw [List.nodup_append]
    refine ⟨this.2, by simp, ?_⟩
    intro x hx y hy
    have : y = "e" := by simpa using hy
    subst this
    intro e; subst e
    exact this.1 hx
  obtain ⟨q, hq⟩ := find_task fl pre "s" a post hne
  refine ⟨q, ?_⟩
  unfold chainProc
  rw [node?_cons_ne _ _ _ a (by simpa using hsa)]
  simpa [Proc.node?] using hq

theorem chain_node_end (fl : String → String) (ids : List String) (h : Wf fl ids) :
    ∃ q, (chainProc fl ids).node? "e" = some { id := "e", kind := .end_, ins := [fl q], outs := [] } := by
  have hnd := h.nodup
  have hse : "s" ≠ "e" := by decide
  have he : "e" ∉ ids := by
    have h2 : ("e" :: ids).Nodup := (List.nodup_cons.mp hnd).2
    exact (List.nodup_cons.mp h2).1
  obtain ⟨q, hq⟩ := find_end fl ids "s" he
  refine ⟨q, ?_⟩
  unfold chainProc
  rw [node?_cons_ne _ _ _ "e" (by simpa using hse)]
  simpa [Proc.node?] using hq

theorem wf_tail (fl : String → String) (ids : List String) (h : Wf fl ids) :
    ("s" :: ids).Nodup := by
  have hnd := h.nodup
  have := List.nodup_cons.mp hnd
  refine List.nodup_cons.mpr ⟨fun hm => this.1 (List.mem_cons_of_mem _ hm), (List.nodup_cons.mp this.2).2⟩

theorem chain_flow_start (fl : String → String) (ids : List String) (h : Wf fl ids) :
    (chainProc fl ids).flow? (fl "s") =
      some { id := fl "s", src := "s", dst := (ids.head?).getD "e", cond := .none } := by
  simpa [chainProc, Proc.flow?] using find_flow fl ids "s" h.inj

theorem chain_flow_task (fl : String → String) (pre : List String) (a : String) (post : List String)
    (h : Wf fl (pre ++ a :: post)) :
    (chainProc fl (pre ++ a :: post)).flow? (fl a) =
      some { id := fl a, src := a, dst := (post.head?).getD "e", cond := .none } := by
  simpa [chainProc, Proc.flow?] using find_flow_later fl pre "s" a post (wf_tail fl _ h) h.inj

/-- the state while the chain's token waits at activity `a`: it is the only pending request (first occurrence), and none
of the activities still ahead has been requested before -/
structure AtTask (s : St) (a : String) (ahead : List String) : Prop where
  pending : s.pending = [(⟨1, a⟩, 1)]
  subs : s.subs = []
  ig : s.ig = []
  fresh : ∀ x ∈ ahead, s.occ.find? (·.1 == x) = none

theorem find_occ_after_bump (occ : List (String × Nat)) (b x : String) (k : Nat) (hne : x ≠ b)
    (h : occ.find? (·.1 == x) = none) : ((occ.filter (·.1 != b)) ++ [(b, k)]).find? (·.1 == x) = none := by
  rw [List.find?_eq_none] at h ⊢
  intro q hq
  rcases List.mem_append.mp hq with h1 | h1
  · exact h q (List.mem_filter.mp h1).1
  · have : q = (b, k) := by simpa using h1
    subst this
    simpa using fun e : b = x => hne e.symm

/-- the token (id 1) moves from node `tn` over flow `f` to the activity `sf.dst`: exactly one request, of that activity -/
theorem move_to_task (cfg : Cfg) (p : Proc) (s : St) (tn : String) (f : String) (sf : SFlow) (nb : Node)
    (ahead : List String) (fuel : Nat)
    (hno : p.nodes.filter (·.kind == .incl) = [])
    (hf : p.flow? f = some sf) (hc : sf.cond = .none)
    (hb : p.node? sf.dst = some nb) (hk : nb.kind = .task) (hid : nb.id = sf.dst)
    (hp : s.pending = []) (hs : s.subs = []) (hi : s.ig = [])
    (hfresh : ∀ x ∈ sf.dst :: ahead, s.occ.find? (·.1 == x) = none) (hnd : (sf.dst :: ahead).Nodup) :
    (runWork cfg p (fuel + 2) (selectFlows cfg p s ⟨1, tn⟩ [f] false).1
        (selectFlows cfg p s ⟨1, tn⟩ [f] false).2.2).obs = s.obs ++ [.req sf.dst] ∧
    AtTask (runWork cfg p (fuel + 2) (selectFlows cfg p s ⟨1, tn⟩ [f] false).1
        (selectFlows cfg p s ⟨1, tn⟩ [f] false).2.2) sf.dst ahead := by
  simp only [leave_single cfg p s ⟨1, tn⟩ f sf hf hc]
  have hs' : (s.recordFlow p tn [1]).subs = [] := by simp [St.recordFlow, hs]
  have hi' : (s.recordFlow p tn [1]).ig = [] := by simp [St.recordFlow, hi]
  have hp' : (s.recordFlow p tn [1]).pending = [] := by simp [St.recordFlow, hp]
  have hocc : (s.recordFlow p tn [1]).occ = s.occ := by simp [St.recordFlow]
  have hobs : (s.recordFlow p tn [1]).obs = s.obs := by simp [St.recordFlow]
  rw [runWork_task cfg p fuel _ ⟨1, sf.dst⟩ nb hno hs' hi' hb hk]
  generalize s.recordFlow p tn [1] = s1 at *
  have hfirst : s1.occ.find? (·.1 == sf.dst) = none := by rw [hocc]; exact hfresh sf.dst (by simp)
  have hbump : (bumpOcc s1 nb.id).1 = 1 := by simp [bumpOcc, hid, hfirst]
  refine ⟨?_, ?_⟩
  · simp [St.emit, bumpOcc, hobs, hid]
  · refine ⟨?_, ?_, ?_, ?_⟩
    · simp [hbump, hp']
    · simp [bumpOcc, St.emit, hs']
    · simp [bumpOcc, St.emit, hi']
    · intro x hx
      have hne : x ≠ sf.dst := by
        intro e; subst e
        exact (List.nodup_cons.mp hnd).1 hx
      simp only [bumpOcc, St.emit, hocc, hid]
      exact find_occ_after_bump s.occ sf.dst x _ hne (hfresh x (List.mem_cons_of_mem _ hx))

end Bpmn.Props.C01Chain

namespace Bpmn.Props.C01Chain
open Bpmn.Model Bpmn.Model.Engine

/-- the token (id 1) moves over flow `f` to the end event: it is consumed, nothing is requested -/
theorem move_to_end (cfg : Cfg) (p : Proc) (s : St) (tn : String) (f : String) (sf : SFlow) (ne : Node) (fuel : Nat)
    (hno : p.nodes.filter (·.kind == .incl) = [])
    (hf : p.flow? f = some sf) (hc : sf.cond = .none)
    (hb : p.node? sf.dst = some ne) (hk : ne.kind = .end_)
    (hp : s.pending = []) (hs : s.subs = []) (hi : s.ig = []) :
    (runWork cfg p (fuel + 2) (selectFlows cfg p s ⟨1, tn⟩ [f] false).1
        (selectFlows cfg p s ⟨1, tn⟩ [f] false).2.2).obs = s.obs ++ [.complete ne.id] ∧
    (runWork cfg p (fuel + 2) (selectFlows cfg p s ⟨1, tn⟩ [f] false).1
        (selectFlows cfg p s ⟨1, tn⟩ [f] false).2.2).pending = [] := by
  simp only [leave_single cfg p s ⟨1, tn⟩ f sf hf hc]
  have hs' : (s.recordFlow p tn [1]).subs = [] := by simp [St.recordFlow, hs]
  have hi' : (s.recordFlow p tn [1]).ig = [] := by simp [St.recordFlow, hi]
  have := runWork_end cfg p fuel (s.recordFlow p tn [1]) ⟨1, sf.dst⟩ ne hno hs' hi' hb hk
  simpa [St.recordFlow, hp] using this

theorem tok_bne_self (t : Tok) (k : Nat) : ((t, k) != (t, k)) = false := by
  obtain ⟨f, n⟩ := t
  simp [bne, BEq.beq, instBEqTok.beq]

/-- answering the pending activity `a`: the state just before its token moves on -/
theorem answer_unfold (cfg : Cfg) (p : Proc) (s : St) (a : String) (ahead : List String) (n : Node)
    (r : List (String × Int)) (h : AtTask s a ahead) (hn : p.node? a = some n) (hr : n.hasResults = false) :
    answer cfg p s a 1 (.ok r) =
      let s0 : St := { s with obs := [], pending := [] }
      runWork cfg p (fuelFor p) (if (selectFlows cfg p s0 ⟨1, a⟩ n.outs false).2.1 then
          (⟨1, a⟩ : Tok) :: (selectFlows cfg p s0 ⟨1, a⟩ n.outs false).1 else (selectFlows cfg p s0 ⟨1, a⟩ n.outs false).1)
        (selectFlows cfg p s0 ⟨1, a⟩ n.outs false).2.2 := by
  simp [answer, h.pending, hn, applyDeclared, hr, List.find?, List.filter, tok_bne_self]

/-- the run of a chain: the observations after each answer -/
def runChain (cfg : Cfg) (p : Proc) : St → List (String × List (String × Int)) → List (List Obs)
  | _, [] => []
  | s, (a, r) :: rest => (answer cfg p s a 1 (.ok r)).obs :: runChain cfg p (answer cfg p s a 1 (.ok r)) rest

/-- what BPMN prescribes for the chain: after the answer of an activity the next one is requested, after the last
one the end event is reached -/
def expected : List String → List (List Obs)
  | [] => []
  | [_] => [[.complete "e"]]
  | _ :: b :: rest => [.req b] :: expected (b :: rest)

theorem fuel_split (p : Proc) : ∃ k, fuelFor p = k + 3 := ⟨fuelFor p - 3, by unfold fuelFor; omega⟩

/-- **Induction along the chain.** With the token waiting at `a` (the activities `pre` behind it, `post` ahead),
answering the activities in order produces exactly the prescribed observations. -/
theorem chain_steps (cfg : Cfg) (fl : String → String) : ∀ (post pre : List String) (a : String) (s : St)
    (rs : List (List (String × Int))),
    Wf fl (pre ++ a :: post) → rs.length = (a :: post).length →
    AtTask s a post →
    runChain cfg (chainProc fl (pre ++ a :: post)) s ((a :: post).zip rs) = expected (a :: post)
  | [], pre, a, s, rs, hwf, hlen, hat => by
    obtain ⟨r, rs', rfl⟩ : ∃ r rs', rs = r :: rs' := by
      cases rs with
      | nil => simp at hlen
      | cons r rs' => exact ⟨r, rs', rfl⟩
    have hrs' : rs' = [] := by simpa using hlen
    subst hrs'
    obtain ⟨q, hn⟩ := chain_node_task fl pre a [] hwf
    obtain ⟨q', hne⟩ := chain_node_end fl (pre ++ [a]) hwf
    have hf := chain_flow_task fl pre a [] hwf
    obtain ⟨k, hk⟩ := fuel_split (chainProc fl (pre ++ [a]))
    simp only [List.zip_cons_cons, List.zip_nil_right, runChain, expected]
    rw [answer_unfold cfg _ s a [] _ r hat hn rfl]
    simp only [leave_single cfg _ _ ⟨1, a⟩ (fl a) _ hf rfl, Bool.false_eq_true, if_false, hk]
    have := move_to_end cfg (chainProc fl (pre ++ [a])) { s with obs := [], pending := [] } a (fl a) _ _ (k + 1)
      (chain_no_incl fl _) hf rfl (by simpa using hne) rfl rfl hat.subs hat.ig
    simp only [leave_single cfg _ _ ⟨1, a⟩ (fl a) _ hf rfl] at this
    have e3 : k + 1 + 2 = k + 3 := by omega
    rw [e3] at this
    simpa using this.1
  | b :: post, pre, a, s, rs, hwf, hlen, hat => by
    obtain ⟨r, rs', rfl⟩ : ∃ r rs', rs = r :: rs' := by
      cases rs with
      | nil => simp at hlen
      | cons r rs' => exact ⟨r, rs', rfl⟩
    have hlen' : rs'.length = (b :: post).length := by simpa using hlen
    obtain ⟨q, hn⟩ := chain_node_task fl pre a (b :: post) hwf
    have hwf' : Wf fl ((pre ++ [a]) ++ b :: post) := by simpa using hwf
    obtain ⟨q', hnb⟩ := chain_node_task fl (pre ++ [a]) b post hwf'
    have hf := chain_flow_task fl pre a (b :: post) hwf
    obtain ⟨k, hk⟩ := fuel_split (chainProc fl (pre ++ a :: b :: post))
    have hnd : (b :: post).Nodup := by
      have h1 := wf_tail fl _ hwf
      have h2 : (pre ++ a :: b :: post).Nodup := (List.nodup_cons.mp h1).2
      have h3 := (List.nodup_append.mp h2).2.1
      exact (List.nodup_cons.mp h3).2
    have hmove := move_to_task cfg (chainProc fl (pre ++ a :: b :: post)) { s with obs := [], pending := [] } a (fl a)
      _ _ post (k + 1) (chain_no_incl fl _) hf rfl (by simpa using hnb) rfl rfl rfl hat.subs hat.ig
      (by simpa using hat.fresh) hnd
    simp only [List.zip_cons_cons, runChain, expected]
    rw [answer_unfold cfg _ s a (b :: post) _ r hat hn rfl]
    simp only [leave_single cfg _ _ ⟨1, a⟩ (fl a) _ hf rfl, Bool.false_eq_true, if_false, hk] at hmove ⊢
    simp only [List.head?_cons, Option.getD_some] at hmove ⊢
    have e3 : k + 1 + 2 = k + 3 := by omega
    rw [e3] at hmove
    have := chain_steps cfg fl post (pre ++ [a]) b _ rs' hwf' hlen' hmove.2
    simp only [List.cons.injEq]
    exact ⟨by simpa using hmove.1, by simpa using this⟩

end Bpmn.Props.C01Chain

namespace Bpmn.Props.C01Chain
open Bpmn.Model Bpmn.Model.Engine

/-- `StartAll` on a chain: the first activity is requested, once -/
theorem chain_start (cfg : Cfg) (fl : String → String) (a : String) (post : List String) (vars : Vars)
    (hwf : Wf fl (a :: post)) :
    (start cfg (chainProc fl (a :: post)) vars).obs = [.req a] ∧
    AtTask (start cfg (chainProc fl (a :: post)) vars) a post := by
  have hno := chain_no_incl fl (a :: post)
  have hstarts : (chainProc fl (a :: post)).nodes.filter (fun n => n.kind == .start && n.parent == "-") =
      [{ id := "s", kind := .start, ins := [], outs := [fl "s"] }] := by
    have : ((Kind.start == Kind.start) && (("-" : String) == "-")) = true := by decide
    simp only [chainProc, List.filter, this]
    rw [chainNodes_no_start fl (a :: post) "s"]
  have hf := chain_flow_start fl (a :: post) hwf
  obtain ⟨q, hn⟩ := chain_node_task fl [] a post (by simpa using hwf)
  obtain ⟨k, hk⟩ := fuel_split (chainProc fl (a :: post))
  have hnd : (a :: post).Nodup := (List.nodup_cons.mp (wf_tail fl _ hwf)).2
  have hmove := move_to_task cfg (chainProc fl (a :: post)) { vars := vars, nextFid := 2, activated := ["s"] } "s" (fl "s")
    _ _ post k hno hf rfl (by simpa using hn) rfl rfl rfl rfl rfl (by simp) hnd
  have e3 : k + 3 = (k + 2) + 1 := by omega
  have hrun : start cfg (chainProc fl (a :: post)) vars =
      runWork cfg (chainProc fl (a :: post)) (k + 2)
        (selectFlows cfg (chainProc fl (a :: post)) { vars := vars, nextFid := 2, activated := ["s"] } ⟨1, "s"⟩ [fl "s"] false).1
        (selectFlows cfg (chainProc fl (a :: post)) { vars := vars, nextFid := 2, activated := ["s"] } ⟨1, "s"⟩ [fl "s"] false).2.2 := by
    unfold start
    simp only [hstarts, spawnStarts, List.foldl, List.nil_append, hk, e3]
    rw [runWork]
    simp only [arrive, chain_node_start, List.contains_nil, Bool.false_eq_true, if_false,
      leave_single cfg _ _ ⟨1, "s"⟩ (fl "s") _ hf rfl, List.nil_append]
    by_cases he : cfg.eagerSettle = true
    · simp [he, settleIncl_none cfg _ _ _ hno]
    · simp [he]
  rw [hrun]
  simpa using hmove

/-- **C01 on chains (block-level, any length).** For every chain of `n ≥ 1` activities with pairwise distinct ids, every
configuration of the code's deviation switches and scheduling variants, every initial data and whatever the answers
carry: `StartAll` requests the first activity; the answer of each activity is followed by exactly one request, of the
next activity in insertion order; the answer of the last one by the end event — no activity is skipped, none is
requested twice, nothing else happens. -/
theorem chain_conformance (cfg : Cfg) (fl : String → String) (a : String) (post : List String) (vars : Vars)
    (rs : List (List (String × Int))) (hwf : Wf fl (a :: post)) (hlen : rs.length = (a :: post).length) :
    (start cfg (chainProc fl (a :: post)) vars).obs = [.req a] ∧
    runChain cfg (chainProc fl (a :: post)) (start cfg (chainProc fl (a :: post)) vars) ((a :: post).zip rs) =
      expected (a :: post) := by
  obtain ⟨h1, h2⟩ := chain_start cfg fl a post vars hwf
  exact ⟨h1, chain_steps cfg fl post [] a _ rs (by simpa using hwf) hlen h2⟩

/-- the same run under the token game (`Cfg.ideal`) — so on chains the code's configuration and BPMN agree, step by step -/
theorem chain_matches_token_game (cfg : Cfg) (fl : String → String) (a : String) (post : List String) (vars : Vars)
    (rs : List (List (String × Int))) (hwf : Wf fl (a :: post)) (hlen : rs.length = (a :: post).length) :
    runChain cfg (chainProc fl (a :: post)) (start cfg (chainProc fl (a :: post)) vars) ((a :: post).zip rs) =
    runChain Cfg.ideal (chainProc fl (a :: post)) (start Cfg.ideal (chainProc fl (a :: post)) vars) ((a :: post).zip rs) := by
  rw [(chain_conformance cfg fl a post vars rs hwf hlen).2, (chain_conformance Cfg.ideal fl a post vars rs hwf hlen).2]

/-- non-vacuity: three activities, flows named after their source -/
example : Wf (fun x => "f_" ++ x) ["A", "B", "C"] := ⟨by decide, by decide⟩
example : runChain Cfg.ideal (chainProc (fun x => "f_" ++ x) ["A", "B", "C"])
    (start Cfg.ideal (chainProc (fun x => "f_" ++ x) ["A", "B", "C"]) []) [("A", []), ("B", []), ("C", [])] =
    [[.req "B"], [.req "C"], [.complete "e"]] := by decide

end Bpmn.Props.C01Chain
