import Bpmn.Model.Gateway
/-!
# C03 — Parallel gateway waits for all incoming tokens and emits one token per outgoing

Layer 0: `distribute a s` (gateway.go `distributeFlows`), for every number `a ≥ 1` of waiting tokens and
every number `s` of outgoing flows. Layer 1: the gateway actor `PG` (gateway_parallel.go `run` /
`flowWhenReady`) for every N, M, every arrival sequence and any number of activations.
-/
namespace Bpmn.Props.C03
open Bpmn.Model.Gateway

/-! ## Layer 0 -/

theorem distribute_length (a s : Nat) : (distribute a s).length = a := by
  simp [distribute]

/-- Concatenating, in the order of the waiting tokens, the outgoing flows each one is handed gives exactly
`0, 1, …, s-1`: every outgoing flow is placed exactly once, on exactly one token, nothing is duplicated. -/
theorem reply_indices (a s i : Nat) (hi : i < a) :
    (reply a s i).indices =
      if i + 1 < a then (if i < s then [i] else [])
      else (List.range (s - i)).map (· + i) := by
  unfold reply
  by_cases hlast : i + 1 = a
  · have : ¬ (i + 1 < a) := by omega
    simp only [hlast, beq_self_eq_true, if_true, this, if_false, Nat.le_refl]
    by_cases h : i ≥ s
    · have : s - i = 0 := by omega
      simp [h, Reply.indices, this]
    · simp [h, Reply.indices]
  · have hlt : i + 1 < a := by omega
    have hne : (i + 1 == a) = false := by simpa using hlast
    simp only [hne, hlt, if_true]
    by_cases h : i < s
    · have h1 : i + 1 ≤ s := h
      have h2 : ¬ (i ≥ i + 1) := by omega
      simp [h1, h2, h, Reply.indices]
    · have h1 : ¬ (i + 1 ≤ s) := by omega
      simp [h1, h, Reply.indices]

/-- auxiliary: the flows handed to the first `k` waiting tokens (k < a) are `0 … min k s - 1` -/
theorem prefix_indices (a s : Nat) : ∀ k, k < a →
    ((List.range k).flatMap (fun i => (reply a s i).indices)) = List.range (min k s) := by
  intro k
  induction k with
  | zero => intro _; simp
  | succ k ih =>
    intro hk
    have := ih (by omega)
    rw [List.range_succ, List.flatMap_append, this]
    simp only [List.flatMap_cons, List.flatMap_nil, List.append_nil]
    rw [reply_indices a s k (by omega)]
    have hlt : k + 1 < a := hk
    simp only [hlt, if_true]
    by_cases h : k < s
    · have e1 : min k s = k := by omega
      have e2 : min (k + 1) s = k + 1 := by omega
      simp [h, e1, e2, List.range_succ]
    · have e1 : min k s = s := by omega
      have e2 : min (k + 1) s = s := by omega
      simp [h, e1, e2]

theorem distribute_partition (a s : Nat) (ha : 1 ≤ a) :
    (distribute a s).flatMap Reply.indices = List.range s := by
  unfold distribute
  rw [List.flatMap_map]
  obtain ⟨k, rfl⟩ : ∃ k, a = k + 1 := ⟨a - 1, by omega⟩
  rw [List.range_succ, List.flatMap_append, prefix_indices (k + 1) s k (by omega)]
  simp only [List.flatMap_cons, List.flatMap_nil, List.append_nil]
  rw [reply_indices (k + 1) s k (by omega)]
  simp only [Nat.lt_irrefl, if_false]
  by_cases h : k ≤ s
  · have e1 : min k s = k := by omega
    rw [e1]
    apply List.ext_getElem
    · simp; omega
    · intro n h1 h2
      simp only [List.getElem_append, List.length_range, List.getElem_range, List.getElem_map]
      split <;> omega
  · have e1 : min k s = s := by omega
    have e2 : s - k = 0 := by omega
    simp [e1, e2]

/-- the surplus tokens are consumed: exactly `a - s` of the waiting tokens complete when `a > s`, none otherwise -/
theorem reply_complete_iff (a s i : Nat) (hi : i < a) :
    reply a s i = .complete ↔ s ≤ i := by
  unfold reply
  by_cases hlast : i + 1 = a
  · simp only [hlast, beq_self_eq_true, if_true, Nat.le_refl]
    by_cases h : i ≥ s <;> simp [h] <;> omega
  · have hne : (i + 1 == a) = false := by simpa using hlast
    simp only [hne]
    by_cases h : i + 1 ≤ s
    · have h2 : ¬ (i ≥ i + 1) := by omega
      simp [h, h2]; omega
    · simp [h]; omega

theorem distribute_completions (a s : Nat) :
    ((distribute a s).filter (· == .complete)).length = a - s := by
  unfold distribute
  rw [List.filter_map, List.length_map]
  have : (List.range a).filter ((fun x => x == Reply.complete) ∘ reply a s) =
      (List.range a).filter (fun i => decide (s ≤ i)) := by
    apply List.filter_congr
    intro i hi
    have hi' : i < a := List.mem_range.mp hi
    simp only [Function.comp]
    by_cases h : s ≤ i
    · simp [h, (reply_complete_iff a s i hi').mpr h]
    · have : reply a s i ≠ .complete := fun e => h ((reply_complete_iff a s i hi').mp e)
      simp [h, this]
  rw [this]
  clear this
  induction a with
  | zero => simp
  | succ a ih =>
    rw [List.range_succ, List.filter_append, List.length_append, ih]
    by_cases h : s ≤ a <;> simp [h] <;> omega

/-! ## Layer 1: the gateway actor -/

theorem step_n (g : PG) (t : Nat) : (g.step t).1.n = g.n := by
  unfold PG.step; by_cases h : g.waiting.length + 1 = g.n <;> simp [h]
theorem step_m (g : PG) (t : Nat) : (g.step t).1.m = g.m := by
  unfold PG.step; by_cases h : g.waiting.length + 1 = g.n <;> simp [h]

/-- nothing is released before the N-th arrival of an activation -/
theorem pg_holds_until_full (g : PG) (tok : Nat) (h : g.waiting.length + 1 < g.n) :
    (g.step tok).2 = [] ∧ (g.step tok).1.waiting = g.waiting ++ [tok] := by
  unfold PG.step
  have : ¬ (g.waiting.length + 1 = g.n) := by omega
  simp [this]

/-- the N-th arrival releases: N replies (one per waiting token, in arrival order), every outgoing flow
placed exactly once, `N - M` tokens consumed, and the gateway is back in its initial state -/
theorem pg_release (g : PG) (tok : Nat) (h : g.waiting.length + 1 = g.n) :
    let r := g.step tok
    r.1.waiting = [] ∧
    r.2.map (·.1) = g.waiting ++ [tok] ∧
    (r.2.map (·.2)).flatMap Reply.indices = List.range g.m ∧
    ((r.2.map (·.2)).filter (· == .complete)).length = g.n - g.m := by
  unfold PG.step
  have hl : (g.waiting ++ [tok]).length = g.n := by simp; omega
  simp only [hl, beq_self_eq_true, if_true]
  have hd : (distribute g.n g.m).length = (g.waiting ++ [tok]).length := by
    rw [distribute_length, hl]
  refine ⟨trivial, ?_, ?_, ?_⟩
  · rw [List.map_fst_zip]; omega
  · rw [List.map_snd_zip (by omega)]
    exact distribute_partition g.n g.m (by omega)
  · rw [List.map_snd_zip (by omega)]
    exact distribute_completions g.n g.m

/-- any arrival sequence, any number of activations: after `k*N + r` arrivals (`r < N`) into an idle gateway
there have been exactly `k` releases and `r` tokens are parked -/
theorem pg_run (n m : Nat) (hn : 1 ≤ n) : ∀ (toks : List Nat) (g : PG), g.n = n → g.m = m → g.waiting.length < n →
    let r := g.run toks
    r.1.waiting.length = (g.waiting.length + toks.length) % n ∧
    (r.2.filter (· ≠ [])).length = (g.waiting.length + toks.length) / n ∧
    r.1.n = n ∧ r.1.m = m := by
  intro toks
  induction toks with
  | nil =>
    intro g hgn hgm hw
    simp [PG.run, Nat.mod_eq_of_lt hw, Nat.div_eq_of_lt hw, hgn, hgm]
  | cons t ts ih =>
    intro g hgn hgm hw
    simp only [PG.run]
    by_cases hfull : g.waiting.length + 1 = g.n
    · have hrel := pg_release g t hfull
      have hstep : (g.step t).1.waiting = [] := hrel.1
      have hout : (g.step t).2 ≠ [] := by
        intro e
        have := hrel.2.1
        rw [e] at this
        simp at this
      have hn' : (g.step t).1.n = n := by rw [← hgn]; exact step_n g t
      have hm' : (g.step t).1.m = m := by rw [← hgm]; exact step_m g t
      have := ih (g.step t).1 hn' hm' (by rw [hstep]; simp; omega)
      obtain ⟨h1, h2, h3, h4⟩ := this
      refine ⟨?_, ?_, h3, h4⟩
      · rw [h1, hstep]
        simp only [List.length_nil, Nat.zero_add, List.length_cons]
        have : g.waiting.length + (ts.length + 1) = ts.length + n := by omega
        rw [this, Nat.add_mod_right]
      · simp only [List.filter_cons, hout, ne_eq, not_false_eq_true, decide_true, if_true, List.length_cons]
        rw [h2, hstep]
        simp only [List.length_nil, Nat.zero_add, List.length_cons]
        have : g.waiting.length + (ts.length + 1) = ts.length + n := by omega
        rw [this, Nat.add_div_right _ (by omega)]
    · have hlt : g.waiting.length + 1 < g.n := by omega
      obtain ⟨ho, hwait⟩ := pg_holds_until_full g t hlt
      have hn' : (g.step t).1.n = n := by rw [← hgn]; exact step_n g t
      have hm' : (g.step t).1.m = m := by rw [← hgm]; exact step_m g t
      have := ih (g.step t).1 hn' hm' (by rw [hwait]; simp; omega)
      obtain ⟨h1, h2, h3, h4⟩ := this
      refine ⟨?_, ?_, h3, h4⟩
      · rw [h1, hwait]; simp only [List.length_append, List.length_cons, List.length_nil]
        congr 1; omega
      · simp only [List.filter_cons, ho, ne_eq, not_true_eq_false, decide_false, Bool.false_eq_true, if_false]
        rw [h2, hwait]; simp only [List.length_append, List.length_cons, List.length_nil]
        congr 1; omega

/-- the full statement of C03 on the model -/
def C03_statement : Prop :=
  (∀ a s, 1 ≤ a → (distribute a s).length = a ∧ (distribute a s).flatMap Reply.indices = List.range s ∧
      ((distribute a s).filter (· == .complete)).length = a - s) ∧
  (∀ (g : PG) tok, g.waiting.length + 1 < g.n → (g.step tok).2 = []) ∧
  (∀ (g : PG) tok, g.waiting.length + 1 = g.n →
      (g.step tok).1.waiting = [] ∧ (g.step tok).2.map (·.1) = g.waiting ++ [tok] ∧
      ((g.step tok).2.map (·.2)).flatMap Reply.indices = List.range g.m ∧
      (((g.step tok).2.map (·.2)).filter (· == .complete)).length = g.n - g.m) ∧
  (∀ n m, 1 ≤ n → ∀ (toks : List Nat),
      let r := ({ n, m } : PG).run toks
      r.1.waiting.length = toks.length % n ∧ (r.2.filter (· ≠ [])).length = toks.length / n)

theorem C03_holds : C03_statement := by
  refine ⟨?_, ?_, ?_, ?_⟩
  · intro a s ha
    exact ⟨distribute_length a s, distribute_partition a s ha, distribute_completions a s⟩
  · intro g tok h; exact (pg_holds_until_full g tok h).1
  · intro g tok h; exact pg_release g tok h
  · intro n m hn toks
    have := pg_run n m hn toks { n, m } rfl rfl (by simp; omega)
    simp only [List.length_nil, Nat.zero_add] at this
    exact ⟨this.1, this.2.1⟩

/-! non-vacuity / examples (tests, not the claim) -/
example : distribute 3 2 = [.flows 0 1, .flows 1 2, .complete] := by decide
example : distribute 2 4 = [.flows 0 1, .flows 1 4] := by decide
example : (({ n := 2, m := 3 } : PG).run [7, 8, 9]).2 = [[], [(7, .flows 0 1), (8, .flows 1 3)], []] := by decide

end Bpmn.Props.C03
