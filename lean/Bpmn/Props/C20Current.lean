import Bpmn.Props.C20
import Bpmn.Gen.C20
/-! C20 instantiated at the facts extracted from the current /repo tree.

`snoNewSerialised`, `fallbackCounterAtomic` and `fallbackPrefixSerial` each select a side of a dichotomy that is proved
for both values, so this module type-checks whichever way the code is (a repaired `SnoGenerator.New`, or a serial
number added to the fallback prefix, turns the witness into the uniqueness theorem without any alarm); it stops
type-checking only when a fact is `none` (construct not found) or when one of the two facts the model hard-wires
(restore applies the snapshot, the fallback prefix contains a clock reading) moved. -/
namespace Bpmn.Props.C20
open Bpmn.Model.IdGen

def SnoClaimAt : Option Bool → Prop
  | some b => SnoClaim b
  | none => False

def FallbackClaimAt : Option Bool → Prop
  | some b => FallbackClaim b
  | none => False

/-- on the current tree: `some false` — the stale-time witness; after a repair: uniqueness for every schedule -/
theorem snoClaimAt_some (b : Bool) : SnoClaimAt (some b) := sno_dichotomy b
theorem fallbackClaimAt_some (b : Bool) : FallbackClaimAt (some b) := fallback_dichotomy b

theorem current_sno : SnoClaimAt Bpmn.Gen.C20.snoNewSerialised := snoClaimAt_some _

theorem current_fallback : FallbackClaimAt Bpmn.Gen.C20.fallbackCounterAtomic := fallbackClaimAt_some _

def FallbackPrefixClaimAt : Option Bool → Prop
  | some b => FallbackPrefixClaim b
  | none => False

theorem fallbackPrefixClaimAt_some (b : Bool) : FallbackPrefixClaimAt (some b) := fallback_prefix_dichotomy b

/-- clock-only prefix: the same-clock witness; prefix with serial number: uniqueness across all generators of a
program for arbitrary clock readings -/
theorem current_fallback_prefix : FallbackPrefixClaimAt Bpmn.Gen.C20.fallbackPrefixSerial :=
  fallbackPrefixClaimAt_some _

/-- the whole statement at the extracted facts: proved when all three are as required, refuted otherwise -/
def StatementAt : Option Bool → Option Bool → Option Bool → Prop
  | some a, some b, some c => if (a && b && c) = true then C20_statementFor a b c else ¬ C20_statementFor a b c
  | _, _, _ => False

theorem statementAt_some (a b c : Bool) : StatementAt (some a) (some b) (some c) := by
  cases a <;> cases b <;> cases c <;> simp only [StatementAt, Bool.and_true, Bool.and_false, Bool.false_and,
    Bool.true_and, Bool.false_eq_true, if_true, if_false] <;> simp [C20_decided]

theorem current_statement : StatementAt Bpmn.Gen.C20.snoNewSerialised Bpmn.Gen.C20.fallbackCounterAtomic
    Bpmn.Gen.C20.fallbackPrefixSerial := statementAt_some _ _ _

/-- the model's `Ev.restore` continues from the snapshot, as `RestoreIdGenerator` does -/
theorem current_restore_applies_snapshot : Bpmn.Gen.C20.snoRestoreAppliesSnapshot = some true := by decide

/-- the model's prefix contains a creation-time clock reading, as `NewFallbackGenerator`'s does -/
theorem current_fallback_prefix_from_clock : Bpmn.Gen.C20.fallbackPrefixFromClock = some true := by decide

end Bpmn.Props.C20
