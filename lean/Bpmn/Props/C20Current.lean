import Bpmn.Props.C20
import Bpmn.Gen.C20
/-! C20 instantiated at the facts extracted from the current /repo tree.

`snoNewSerialised` and `fallbackCounterAtomic` select a side of a dichotomy that is proved for both values, so this
module type-checks whichever way the code is (a repaired `SnoGenerator.New` turns the witness into the uniqueness
theorem without any alarm); it stops type-checking only when a fact is `none` (construct not found) or when one of
the two facts the model hard-wires (restore applies the snapshot, the fallback prefix comes from the clock) moved. -/
namespace Bpmn.Props.C20
open Bpmn.Model.IdGen

def SnoClaimAt : Option Bool → Prop
  | some b => SnoClaim b
  | none => False

def FallbackClaimAt : Option Bool → Prop
  | some b => FallbackClaim b
  | none => False

/-- on the current tree: `some false` — the stale-time witness; after a repair: uniqueness for every schedule -/
theorem snoClaimAt_some (b : Bool) : SnoClaimAt (some b) := sno_dichotomy b
theorem fallbackClaimAt_some (b : Bool) : FallbackClaimAt (some b) := fallback_dichotomy b

theorem current_sno : SnoClaimAt Bpmn.Gen.C20.snoNewSerialised := snoClaimAt_some _

theorem current_fallback : FallbackClaimAt Bpmn.Gen.C20.fallbackCounterAtomic := fallbackClaimAt_some _

/-- the model's `Ev.restore` continues from the snapshot, as `RestoreIdGenerator` does -/
theorem current_restore_applies_snapshot : Bpmn.Gen.C20.snoRestoreAppliesSnapshot = some true := by decide

/-- the model's `fbNew` takes the prefix from a clock reading, as `NewFallbackGenerator` does -/
theorem current_fallback_prefix_from_clock : Bpmn.Gen.C20.fallbackPrefixFromClock = some true := by decide

end Bpmn.Props.C20
