import Bpmn.Props.C09
import Bpmn.Gen.C09
/-! C09 instantiated at the facts extracted from the current /repo tree. -/
namespace Bpmn.Props.C09

/-- the three request channels are unbuffered, as the model has them -/
theorem current_channels_unbuffered :
    Bpmn.Gen.C09.tracesCap = some 0 ∧ Bpmn.Gen.C09.subscriptionCap = some 0 ∧
    Bpmn.Gen.C09.unSubscriptionCap = some 0 := by decide

end Bpmn.Props.C09
