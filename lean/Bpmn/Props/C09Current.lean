import Bpmn.Props.C09
import Bpmn.Gen.C09
/-! C09 instantiated at the facts extracted from the current /repo tree (pkg/tracing/tracer.go).

The shape facts the model hard-wires (unbuffered request channels, the acknowledgement channels, list-order
broadcast, swap-removal) are checked to be what the model has; a change there needs the model to be looked at again,
and this module stops type-checking. The one behavioural switch — does the `Unsubscribe` loop drain its own channel —
selects a side of a dichotomy that is proved for both values: the progress theorem when it does, the kernel-checked
deadlock schedule when it does not. The default capacity of `Subscribe()` only has to be known (every theorem holds
for all capacities). -/
namespace Bpmn.Props.C09

/-- the three request channels are unbuffered, as the model has them -/
theorem current_channels_unbuffered :
    Bpmn.Gen.C09.tracesCap = some 0 ∧ Bpmn.Gen.C09.subscriptionCap = some 0 ∧
    Bpmn.Gen.C09.unSubscriptionCap = some 0 := by decide

/-- `SubscribeChannel`'s acknowledgement channel has room (the broadcaster does not wait for the client to pick the
acknowledgement up: `recvSub` is one step), `Unsubscribe`'s is unbuffered (the broadcaster waits in `ackUnsub`) -/
theorem current_ack_channels :
    (∃ n, Bpmn.Gen.C09.subscribeOkCap = some n ∧ 1 ≤ n) ∧ Bpmn.Gen.C09.unsubscribeOkCap = some 0 :=
  ⟨⟨1, by decide, by decide⟩, by decide⟩

/-- the broadcaster pushes each trace to every subscriber in list order before returning to its `select`, and removes
by copying the last element into the freed slot — the two things `Pc.push` and `swapRemove` port -/
theorem current_broadcast_shape :
    Bpmn.Gen.C09.broadcastInListOrder = some true ∧ Bpmn.Gen.C09.removalSwapsWithLast = some true := by decide

/-- the capacity `Subscribe()` uses is known (the theorems hold for every capacity) -/
theorem current_default_cap_known : Bpmn.Gen.C09.subscribeDefaultCap.isSome = true := by decide

def ProgressClaimAt : Option Bool → Prop
  | some b => ProgressClaim b
  | none => False

theorem progressClaimAt_some (b : Bool) : ProgressClaimAt (some b) := progress_dichotomy b

/-- on the current tree `some true`: bounded progress of every concurrent Subscribe / Unsubscribe / Send; after an
edit that removes the drain: the deadlock schedule `nodrainSched` -/
theorem current_progress : ProgressClaimAt Bpmn.Gen.C09.unsubscribeDrains := progressClaimAt_some _

def RelayClaimAt : Option Bool → Prop
  | some b => RelayClaim b
  | none => False

theorem relayClaimAt_some (b : Bool) : RelayClaimAt (some b) := relay_dichotomy b

/-- `some true`: the relay of an embedded sub-process forwards the whole inner stream; `some false` (the order
`startAll` … `Subscribe`): the schedule `lateRelaySched`, whose engine-level counterpart is the known finding
`relay_lost_inner_prefix` -/
theorem current_relay : RelayClaimAt Bpmn.Gen.C09.relaySubscribesBeforeStart := relayClaimAt_some _

/-- the code is on the positive side of both dichotomies (a regression makes exactly this obligation fail, and the
runner then searches for the failing input: `tracer_call_blocked` / `relay_lost_inner_prefix`) -/
theorem current_positive_sides :
    Bpmn.Gen.C09.unsubscribeDrains = some true ∧ Bpmn.Gen.C09.relaySubscribesBeforeStart = some true := by decide

end Bpmn.Props.C09
