import Bpmn.Lemmas.Timer
/-!
# C13 — timers never fire early and fire exactly as often as their definition says

Property theorems only. Model: `Bpmn.Model.Timer` (port of pkg/clock/mock.go and pkg/timer/timer.go).
A history is a `List Ev` over `advance d | set t | cancel | tick choice`: ANY interleaving of clock
jumps (forwards or backwards), cancellation and steps of the timer goroutine, where `choice`
resolves Go's `select` among ready cases. `exec d now0 evs` is the state after history `evs` of a
timer created from definition `d` at clock reading `now0`; `fired` lists the firings in order, each
with the clock reading its wake-up carried (`wake`) and `clock.Now()` at the firing (`clock`).
All statements are for every definition, every history of any length and every choice.
-/
namespace Bpmn.Props.C13
open Bpmn.Model.Timer Bpmn.Lemmas.Timer

/-- a firing was sent while the goroutine had not yet returned: phase `stopped` is final -/
def Stopped (s : St) : Prop := ∃ b, s.ph = .stopped b

/-- the full statement of C13 on the model, kept visible -/
def C13_statement : Prop :=
  -- (a) never early: the k-th firing (from 0) carries a clock reading ≥ origin + (k+1)·interval
  --     (origin = the date / now+duration / the cycle's start; interval = 0 for date and duration)
  (∀ (d : Def) (now0 : Int) (evs : List Ev), 0 ≤ d.interval →
      ∀ (k : Nat) (f : Firing), (exec d now0 evs).fired[k]? = some f →
        d.origin now0 + d.interval * ((k : Int) + 1) ≤ f.wake) ∧
  --     and when the clock never goes backwards, the clock at the firing is not before that reading
  (∀ (d : Def) (now0 : Int) (evs : List Ev), MonoEvs now0 evs →
      ∀ f ∈ (exec d now0 evs).fired, f.wake ≤ f.clock) ∧
  -- (b) a date or duration timer fires at most once, exactly once when it has completed, and it
  --     does fire as soon as the goroutine runs with the clock at or past the due time
  (∀ (d : Def) (now0 : Int) (evs : List Ev), d.isCycle = false →
      (exec d now0 evs).fired.length ≤ 1 ∧
      ((exec d now0 evs).ph = .stopped true → (exec d now0 evs).fired.length = 1)) ∧
  (∀ (d : Def) (now0 : Int) (evs : List Ev) (T : Int) (k : Nat), d.isCycle = false →
      ¬ Stopped (exec d now0 evs) → (exec d now0 evs).cancelled = false → d.origin now0 ≤ T →
      (exec d now0 (evs ++ [.set T, .tick k])).ph = .stopped true ∧
      (exec d now0 (evs ++ [.set T, .tick k])).fired.length = 1) ∧
  -- (c) a cycle with n ≥ 0 repetitions never fires more than n times; when it has completed
  --     without cancellation and has no end bound it has fired exactly n times; and while it is
  --     running, not cancelled, without end bound, every clock setting that reaches
  --     (last delivered time + interval) yields exactly one more firing at the next goroutine step
  (∀ (d : Def) (now0 : Int) (evs : List Ev), d.isCycle = true → 0 ≤ d.reps →
      ((exec d now0 evs).fired.length : Int) ≤ d.reps) ∧
  (∀ (d : Def) (now0 : Int) (evs : List Ev), d.isCycle = true → 0 ≤ d.reps → d.endB = none →
      (exec d now0 evs).ph = .stopped true → (exec d now0 evs).cancelled = false →
      ((exec d now0 evs).fired.length : Int) = d.reps) ∧
  (∀ (d : Def) (now0 : Int) (evs : List Ev) (reps t : Int) (c : Nat) (ce : Option Nat) (T : Int)
      (k : Nat), d.endB = none → (exec d now0 evs).ph = .loop reps t c ce →
      (exec d now0 evs).cancelled = false → t + d.interval ≤ T →
      (exec d now0 (evs ++ [.set T, .tick k])).fired.length = (exec d now0 evs).fired.length + 1) ∧
  -- (d) firings are at least one interval apart (every earlier/later pair, hence consecutive ones)
  (∀ (d : Def) (now0 : Int) (evs : List Ev), 0 ≤ d.interval →
      (exec d now0 evs).fired.Pairwise (fun a b => a.wake + d.interval ≤ b.wake)) ∧
  -- (e) no firing at or after the end bound
  (∀ (d : Def) (now0 : Int) (evs : List Ev) (e : Int), d.endB = some e →
      ∀ f ∈ (exec d now0 evs).fired, f.clock < e) ∧
  -- (f) after its last firing / after the goroutine has observed the cancellation (it has
  --     returned) nothing fires any more, whatever the clock does; and a cancellation that arrives
  --     while the goroutine is blocked is observed at its very next step, whatever `select` picks
  (∀ (d : Def) (now0 : Int) (evs more : List Ev), Stopped (exec d now0 evs) →
      (exec d now0 (evs ++ more)).fired = (exec d now0 evs).fired ∧
      (exec d now0 (evs ++ more)).ph = (exec d now0 evs).ph) ∧
  (∀ (d : Def) (now0 : Int) (evs more : List Ev) (k : Nat), blocked d (exec d now0 evs) = true →
      (exec d now0 (evs ++ .cancel :: .tick k :: more)).fired = (exec d now0 evs).fired)

/-! ## the invariants on every history -/

theorem exec_inv (d : Def) (now0 : Int) (evs : List Ev) (hI : 0 ≤ d.interval) :
    Book d (exec d now0 evs) ∧ Timing d (d.origin now0) (exec d now0 evs) :=
  inv_run d _ evs _ hI (book_init d now0) (timing_init d now0)

theorem exec_book (d : Def) (now0 : Int) (evs : List Ev) : Book d (exec d now0 evs) :=
  book_run d evs _ (book_init d now0)

theorem exec_live (d : Def) (now0 : Int) (evs : List Ev) :
    Live d (d.origin now0) (exec d now0 evs) :=
  live_run d _ evs _ (live_init d now0)

theorem exec_append (d : Def) (now0 : Int) (e1 e2 : List Ev) :
    exec d now0 (e1 ++ e2) = run d (exec d now0 e1) e2 := run_append d _ e1 e2

/-! ## (a) never early -/

theorem never_early (d : Def) (now0 : Int) (evs : List Ev) (hI : 0 ≤ d.interval)
    (k : Nat) (f : Firing) (hk : (exec d now0 evs).fired[k]? = some f) :
    d.origin now0 + d.interval * ((k : Int) + 1) ≤ f.wake :=
  (exec_inv d now0 evs hI).2.2.2.1 k f hk

/-- date and duration timers: no firing carries a reading before the due time -/
theorem never_early_one_shot (d : Def) (now0 : Int) (evs : List Ev) (hd : d.isCycle = false)
    (f : Firing) (hf : f ∈ (exec d now0 evs).fired) : d.origin now0 ≤ f.wake := by
  have hI : d.interval = 0 := interval_of_not_cycle d hd
  obtain ⟨k, hk⟩ := List.getElem?_of_mem hf
  have := never_early d now0 evs (by omega) k f hk
  simpa [hI] using this

theorem wake_le_clock (d : Def) (now0 : Int) (evs : List Ev) (hm : MonoEvs now0 evs)
    (f : Firing) (hf : f ∈ (exec d now0 evs).fired) : f.wake ≤ f.clock :=
  (mono_run d evs _ (mono_init d now0) (by rw [init_now]; exact hm)).2 f hf

/-! ## (b) date / duration: exactly once -/

theorem one_shot_once (d : Def) (now0 : Int) (evs : List Ev) (hd : d.isCycle = false) :
    (exec d now0 evs).fired.length ≤ 1 ∧
    ((exec d now0 evs).ph = .stopped true → (exec d now0 evs).fired.length = 1) := by
  obtain ⟨_, hp⟩ := exec_book d now0 evs
  cases hph : (exec d now0 evs).ph with
  | oneShot c => simp only [hph] at hp; simp [hp.2]
  | waitStart c st => simp only [hph] at hp; simp [hp.2]
  | loop r t c ce => simp only [hph] at hp; rw [hd] at hp; simp at hp
  | stopped b =>
    simp only [hph] at hp
    obtain ⟨h1, h2⟩ := hp.1 hd
    exact ⟨h1, fun hb => h2 (by simpa using hb)⟩

theorem one_shot_fires (d : Def) (now0 : Int) (evs : List Ev) (T : Int) (k : Nat)
    (hd : d.isCycle = false) (hns : ¬ Stopped (exec d now0 evs))
    (hnc : (exec d now0 evs).cancelled = false) (hT : d.origin now0 ≤ T) :
    (exec d now0 (evs ++ [.set T, .tick k])).ph = .stopped true ∧
    (exec d now0 (evs ++ [.set T, .tick k])).fired.length = 1 := by
  rw [exec_append]
  generalize hs : exec d now0 evs = s at *
  have hb : Book d s := hs ▸ exec_book d now0 evs
  have hl : Live d (d.origin now0) s := hs ▸ exec_live d now0 evs
  obtain ⟨_, hp⟩ := hb
  cases hph : s.ph with
  | stopped b => exact absurd ⟨b, hph⟩ hns
  | waitStart c st => simp only [hph] at hp; rw [hd] at hp; simp at hp
  | loop r t c ce => simp only [hph] at hp; rw [hd] at hp; simp at hp
  | oneShot c =>
    simp only [hph] at hp
    simp only [Live, hph] at hl
    have hr := armed_set_ready s.m T c _ hl hT
    obtain ⟨v, hv⟩ := Option.isSome_iff_exists.mp hr
    simp [run, apply, step, hph, hnc, hv, altIf, pick_single, hp.2]

/-! ## (c) cycles: never more than n, exactly n at completion, one more at every due setting -/

theorem cycle_count_le (d : Def) (now0 : Int) (evs : List Ev) (hd : d.isCycle = true)
    (hn : 0 ≤ d.reps) : ((exec d now0 evs).fired.length : Int) ≤ d.reps := by
  obtain ⟨_, hp⟩ := exec_book d now0 evs
  cases hph : (exec d now0 evs).ph with
  | oneShot c => simp only [hph] at hp; simp [hp.2, hn]
  | waitStart c st => simp only [hph] at hp; simp [hp.2, hn]
  | loop r t c ce =>
    simp only [hph] at hp
    obtain ⟨h1, h2, _⟩ := hp.2.2.2 hn
    omega
  | stopped b => simp only [hph] at hp; exact (hp.2 hd hn).1

theorem cycle_count_exact (d : Def) (now0 : Int) (evs : List Ev) (hd : d.isCycle = true)
    (hn : 0 ≤ d.reps) (hend : d.endB = none) (hph : (exec d now0 evs).ph = .stopped true)
    (hnc : (exec d now0 evs).cancelled = false) :
    ((exec d now0 evs).fired.length : Int) = d.reps := by
  obtain ⟨_, hp⟩ := exec_book d now0 evs
  simp only [hph] at hp
  exact (hp.2 hd hn).2 trivial hnc hend

theorem cycle_progress (d : Def) (now0 : Int) (evs : List Ev) (reps t : Int) (c : Nat)
    (ce : Option Nat) (T : Int) (k : Nat) (hend : d.endB = none)
    (hph : (exec d now0 evs).ph = .loop reps t c ce)
    (hnc : (exec d now0 evs).cancelled = false) (hT : t + d.interval ≤ T) :
    (exec d now0 (evs ++ [.set T, .tick k])).fired.length =
      (exec d now0 evs).fired.length + 1 := by
  rw [exec_append]
  generalize hs : exec d now0 evs = s at *
  have hl : Live d (d.origin now0) s := hs ▸ exec_live d now0 evs
  simp only [Live, hph] at hl
  have hce : ce = none := hl.2 hend
  subst hce
  have hr := armed_set_ready s.m T c _ hl.1 hT
  obtain ⟨v, hv⟩ := Option.isSome_iff_exists.mp hr
  simp [run, apply, step, hph, hnc, hv, altIf, pick_single, hend, iterate_fired]

/-- the start of a cycle: once the clock is set at or past the start, the next goroutine step
leaves the start phase (into the loop, or completed when n = 0) -/
theorem cycle_starts (d : Def) (now0 : Int) (evs : List Ev) (c : Nat) (st : Int) (T : Int) (k : Nat)
    (hph : (exec d now0 evs).ph = .waitStart c st)
    (hnc : (exec d now0 evs).cancelled = false) (hT : d.origin now0 ≤ T) :
    ((exec d now0 (evs ++ [.set T, .tick k])).ph = .stopped true ∧ d.reps = 0) ∨
    ∃ c' ce', (exec d now0 (evs ++ [.set T, .tick k])).ph = .loop d.reps st c' ce' := by
  rw [exec_append]
  generalize hs : exec d now0 evs = s at *
  have hl : Live d (d.origin now0) s := hs ▸ exec_live d now0 evs
  simp only [Live, hph] at hl
  have hr := armed_set_ready s.m T c _ hl.2 hT
  simp only [run, List.foldl_cons, List.foldl_nil, apply, step, hph, hnc, hr, altIf, if_true,
    List.nil_append, pick_single, Option.getD_some, Bool.false_eq_true, if_false]
  unfold iterate
  by_cases h0 : d.reps = 0
  · left; simp [h0]
  · right
    simp only [h0, if_false]
    cases d.endB <;> simp

/-! ## (d) spacing, (e) end bound -/

theorem cycle_spacing (d : Def) (now0 : Int) (evs : List Ev) (hI : 0 ≤ d.interval) :
    (exec d now0 evs).fired.Pairwise (fun a b => a.wake + d.interval ≤ b.wake) :=
  (exec_inv d now0 evs hI).2.2.1

theorem cycle_end (d : Def) (now0 : Int) (evs : List Ev) (e : Int) (he : d.endB = some e)
    (f : Firing) (hf : f ∈ (exec d now0 evs).fired) : f.clock < e :=
  (exec_book d now0 evs).1 f hf e he

/-! ## (f) silence -/

theorem apply_stopped (d : Def) (s : St) (e : Ev) (b : Bool) (h : s.ph = .stopped b) :
    (apply d s e).ph = .stopped b ∧ (apply d s e).fired = s.fired := by
  cases e <;> simp [apply, h, step]

theorem run_stopped (d : Def) (evs : List Ev) (s : St) (b : Bool) (h : s.ph = .stopped b) :
    (run d s evs).ph = .stopped b ∧ (run d s evs).fired = s.fired := by
  induction evs generalizing s with
  | nil => exact ⟨h, rfl⟩
  | cons e es ih =>
    obtain ⟨h1, h2⟩ := apply_stopped d s e b h
    have := ih (apply d s e) h1
    simp only [run, List.foldl_cons] at this ⊢
    rw [← h2]; exact this

/-- once the goroutine has returned (after the last firing, after the end bound, or after it has
observed the cancellation) nothing fires any more, whatever the clock does -/
theorem silent_after (d : Def) (now0 : Int) (evs more : List Ev) (h : Stopped (exec d now0 evs)) :
    (exec d now0 (evs ++ more)).fired = (exec d now0 evs).fired ∧
    (exec d now0 (evs ++ more)).ph = (exec d now0 evs).ph := by
  obtain ⟨b, hb⟩ := h
  rw [exec_append]
  obtain ⟨h1, h2⟩ := run_stopped d more _ b hb
  exact ⟨h2, by rw [h1, hb]⟩

/-- a cancellation arriving while the goroutine is blocked is observed at its next step, whatever
the `select` picks: the goroutine returns without firing -/
theorem cancel_observed (d : Def) (s : St) (k : Nat) (hb : blocked d s = true) :
    Stopped (run d s [.cancel, .tick k]) ∧ (run d s [.cancel, .tick k]).fired = s.fired := by
  unfold blocked at hb
  cases hph : s.ph with
  | stopped b => simp [run, apply, step, hph, Stopped]
  | oneShot c =>
    have hc : s.cancelled = false := by
      cases h : s.cancelled with
      | false => rfl
      | true =>
        cases hp : (s.m.peek c).isSome <;> simp [step, hph, h, hp, altIf, pick] at hb
    have hp : (s.m.peek c).isSome = false := by
      cases hp : (s.m.peek c).isSome with
      | false => rfl
      | true =>
        obtain ⟨v, hv⟩ := Option.isSome_iff_exists.mp hp
        simp [step, hph, hc, hv, altIf, pick] at hb
    simp [run, apply, step, hph, hp, altIf, pick_single, Stopped]
  | waitStart c st =>
    have hc : s.cancelled = false := by
      cases h : s.cancelled with
      | false => rfl
      | true =>
        cases hp : (s.m.peek c).isSome <;> simp [step, hph, h, hp, altIf, pick] at hb
    have hp : (s.m.peek c).isSome = false := by
      cases hp : (s.m.peek c).isSome with
      | false => rfl
      | true => simp [step, hph, hc, hp, altIf, pick] at hb
    simp [run, apply, step, hph, hp, altIf, pick_single, Stopped]
  | loop r t c ce =>
    have he : (ce.bind s.m.peek).isSome = false := by
      cases he : (ce.bind s.m.peek).isSome with
      | false => rfl
      | true =>
        cases h : s.cancelled <;> cases hp : (s.m.peek c).isSome <;>
          simp [step, hph, h, hp, he, altIf, pick] at hb
    have hc : s.cancelled = false := by
      cases h : s.cancelled with
      | false => rfl
      | true =>
        cases hp : (s.m.peek c).isSome <;> simp [step, hph, h, hp, he, altIf, pick] at hb
    have hp : (s.m.peek c).isSome = false := by
      cases hp : (s.m.peek c).isSome with
      | false => rfl
      | true =>
        obtain ⟨v, hv⟩ := Option.isSome_iff_exists.mp hp
        simp [step, hph, hc, he, hv, altIf, pick] at hb
    simp [run, apply, step, hph, hp, he, altIf, pick_single, Stopped]

theorem silent_after_cancel (d : Def) (now0 : Int) (evs more : List Ev) (k : Nat)
    (hb : blocked d (exec d now0 evs) = true) :
    (exec d now0 (evs ++ .cancel :: .tick k :: more)).fired = (exec d now0 evs).fired := by
  have e1 : evs ++ .cancel :: .tick k :: more = (evs ++ [.cancel, .tick k]) ++ more := by simp
  obtain ⟨hs, hf⟩ := cancel_observed d (exec d now0 evs) k hb
  rw [← exec_append] at hs hf
  rw [e1, (silent_after d now0 _ more hs).1, hf]

/-! ## the statement -/

theorem C13_holds : C13_statement :=
  ⟨never_early, wake_le_clock,
   one_shot_once, one_shot_fires,
   cycle_count_le, cycle_count_exact, cycle_progress,
   cycle_spacing, cycle_end,
   silent_after, silent_after_cancel⟩

/-! ## the boundary of clause (f): a cancel that RACES a delivered wake-up may be followed by one
firing (Go's `select` may take the timer case although `ctx.Done()` is ready too). This is not a
violation of the statement, which is about cancellation the goroutine has observed; it is kept here
so that the boundary is on the page. -/
theorem cancel_race_may_fire_once :
    (exec (.date 10) 0 [.set 10, .cancel, .tick 1]).fired = [{ wake := 10, clock := 10 }] ∧
    (exec (.date 10) 0 [.set 10, .cancel, .tick 0]).fired = [] := by decide

/-! ## non-vacuity: every hypothesis above is satisfiable, and the behaviours exist -/

/-- a cycle R3 with start 20, interval 10: three settings, each one interval after the last
delivered time, give exactly three firings and completion; a fourth gives nothing more -/
example : (exec (.cycle 3 (some 20) 10 none) 0
      [.set 20, .tick 0, .set 95, .tick 0, .set 105, .tick 0, .set 115, .tick 0, .set 500, .tick 0]).fired
    = [⟨95, 95⟩, ⟨105, 105⟩, ⟨115, 115⟩] := by decide
example : (exec (.cycle 3 (some 20) 10 none) 0
      [.set 20, .tick 0, .set 95, .tick 0, .set 105, .tick 0, .set 115, .tick 0]).ph = .stopped true := by decide
/-- the end bound: due at 30 and 40, end 40: one firing, nothing at the bound, whichever ready case
the select takes -/
example : ∀ c, c < 3 → (exec (.cycle (-1) (some 20) 10 (some 40)) 0
      [.set 20, .tick c, .set 30, .tick c, .set 40, .tick c, .tick c]).fired = [⟨30, 30⟩] := by decide
example : MonoEvs 0 [.set 20, .tick 0, .advance 10, .cancel] := by simp [MonoEvs]
example : ¬ Stopped (exec (.date 10) 0 []) := by simp [Stopped, exec, run, init, Mock.until, Mock.at, Def.origin]
example : blocked (.date 10) (exec (.date 10) 0 []) = true := by decide
example : Stopped (exec (.date 10) 0 [.cancel, .tick 0]) := ⟨false, by decide⟩
example : (exec (.cycle 2 none 10 none) 0 [.tick 0]).ph = .loop 2 0 1 none := by decide
example : (exec (.cycle 2 none 10 none) 5 []).ph = .waitStart 0 5 := by decide

end Bpmn.Props.C13
