import Bpmn.Model.Timer
/-!
# C13 — timers (minimal first version)
-/
namespace Bpmn.Props.C13
open Bpmn.Model.Timer

theorem apply_stopped (d : Def) (s : St) (e : Ev) (b : Bool) (h : s.ph = .stopped b) :
    (apply d s e).ph = .stopped b ∧ (apply d s e).fired = s.fired := by
  cases e <;> simp [apply, h, step]

/-- once the goroutine has returned nothing fires any more, whatever the clock does -/
theorem silent_after (d : Def) (evs : List Ev) (s : St) (b : Bool) (h : s.ph = .stopped b) :
    (run d s evs).ph = .stopped b ∧ (run d s evs).fired = s.fired := by
  induction evs generalizing s with
  | nil => exact ⟨h, rfl⟩
  | cons e es ih =>
    obtain ⟨h1, h2⟩ := apply_stopped d s e b h
    have := ih (apply d s e) h1
    simp only [run, List.foldl_cons] at this ⊢
    rw [← h2]; exact this

def C13_statement : Prop :=
  ∀ (d : Def) (evs : List Ev) (s : St) (b : Bool), s.ph = .stopped b →
    (run d s evs).ph = .stopped b ∧ (run d s evs).fired = s.fired

theorem C13_holds : C13_statement := silent_after

end Bpmn.Props.C13
