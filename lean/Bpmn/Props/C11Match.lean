import Bpmn.Model.EventMatch
/-!
# C11 (kernel) — which listener an event matches

`matchesInst` is the port of `MatchesEventInstance` of every event kind (pkg/event/events.go). The
property speaks of "matching" and "non-matching" listeners; this file says what that is and proves
the port has exactly that meaning, for every event and every definition instance: an event matches
a definition instance iff both denote the same thing — same kind, same references, an absent
reference on the definition naming nothing (for a message the operation must agree INCLUDING its
absence; for a link all sources in order and the target), a timer / conditional event only the
instance it came from. The catch-event model (`Model.CatchEvent`) abstracts events and
definitions to numbers with matching = equality; this theorem is what justifies that abstraction.
-/
namespace Bpmn.Props.C11
open Bpmn.Model.EventMatch

/-- **Matching is identity**, for all events and all definition instances. -/
theorem matches_spec (ev : Ev) (i : Inst) :
    matchesInst ev i = true ↔ ∃ x, ev.ident = some x ∧ x ∈ i.idents := by
  obtain ⟨id, d⟩ := i
  cases ev <;> cases d <;> simp [matchesInst, Ev.ident, Inst.idents, Def.idents]
  all_goals (try (rename_i r; cases r <;> simp))
  all_goals (first | grind | skip)

/-- events that denote nothing never match anything -/
theorem nothing_matches_end_none_compensation (i : Inst) (a : Nat) :
    matchesInst .endEv i = false ∧ matchesInst .noneEv i = false ∧ matchesInst (.compensation a) i = false := by
  simp [matchesInst]

/-- a message event matches a message definition iff message AND operation agree (an event with an
operation does not match a definition without one, and vice versa) -/
theorem message_matches_iff (r : Nat) (op : Option Nat) (id : Nat) (dr dop : Option Nat) :
    matchesInst (.message r op) ⟨id, .message dr dop⟩ = true ↔ dr = some r ∧ dop = op := by
  rw [matches_spec]
  cases dr <;> simp [Ev.ident, Inst.idents, Def.idents]
  constructor <;> intro h <;> simp [h]

/-- a signal event matches a signal definition with that reference and no definition of another kind -/
theorem signal_matches_iff (r : Nat) (i : Inst) :
    matchesInst (.signal r) i = true ↔ i.d = .signal (some r) := by
  rw [matches_spec]
  obtain ⟨id, d⟩ := i
  cases d <;> simp [Ev.ident, Inst.idents, Def.idents]

/-- a timer or conditional event matches the instance that produced it and no other, whatever its definition -/
theorem instance_events_match_own_instance (k : Nat) (i : Inst) :
    (matchesInst (.timer k) i = true ↔ i.id = k) ∧ (matchesInst (.conditional k) i = true ↔ i.id = k) := by
  simp only [matchesInst, beq_iff_eq]
  exact ⟨eq_comm, eq_comm⟩

/-- two listeners with the same definition are indistinguishable to every attribute-carrying event:
matching depends on the definition only (never on registration order or identity), except for
timer / conditional events -/
theorem matches_depends_on_definition (ev : Ev) (i j : Inst) (h : i.d = j.d)
    (hev : ∀ k, ev ≠ .timer k ∧ ev ≠ .conditional k) : matchesInst ev i = matchesInst ev j := by
  obtain ⟨a, d⟩ := i
  obtain ⟨b, e⟩ := j
  simp only at h
  subst h
  cases ev <;> simp [matchesInst]
  · exact absurd rfl (hev _).1
  · exact absurd rfl (hev _).2

example : matchesInst (.message 1 (some 7)) ⟨0, .message (some 1) (some 7)⟩ = true ∧
    matchesInst (.message 1 (some 7)) ⟨0, .message (some 1) none⟩ = false ∧
    matchesInst (.message 1 none) ⟨0, .message (some 1) (some 7)⟩ = false := by decide

end Bpmn.Props.C11
