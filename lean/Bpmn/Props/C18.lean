import Bpmn.Lemmas.ProcessSet
/-!
# C18 — Process set runs all executable processes and reports completion exactly once

Property theorems only. Model: `Bpmn.Model.ProcessSet` (port of `process_set.go`: `StartAll`, the per-member
watcher `tracerProcess`, `WaitUntilComplete` with its closing goroutine, the `run` loop, the catch registry).
Every statement is for every set (any number of executable and waiting processes, any trace streams, any message
flows) and every schedule (`List Choice` of any length, or equivalently every `Reach`able state); `cfg` are the
facts of the source (`Bpmn.Gen.C18`, regenerated on every run).
-/
namespace Bpmn.Props.C18
open Bpmn.Model.ProcessSet

/-- `WaitUntilComplete` call `w` has returned `true` -/
def WaitTrue (s : State) (w : Nat) : Prop := (s.waits[w]?).bind (·.result) = some true

/-- call `w` was made and its context has not expired -/
def WaitOpen (s : State) (w : Nat) : Prop := (s.waits[w]?).isSome = true ∧ (s.waits[w]?).bind (·.result) ≠ some false

instance (s : State) (w : Nat) : Decidable (WaitTrue s w) := by unfold WaitTrue; infer_instance
instance (s : State) (w : Nat) : Decidable (WaitOpen s w) := by unfold WaitOpen; infer_instance

theorem waitTrue_iff {s : State} {w : Nat} : WaitTrue s w ↔ ∃ wt, s.waits[w]? = some wt ∧ wt.result = some true := by
  unfold WaitTrue
  cases s.waits[w]? with
  | none => simp
  | some wt => simp

theorem waitOpen_iff {s : State} {w : Nat} : WaitOpen s w ↔ ∃ wt, s.waits[w]? = some wt ∧ wt.result ≠ some false := by
  unfold WaitOpen
  cases s.waits[w]? with
  | none => simp
  | some wt => simp

/-! ## completion is reported only when it is true (any facts, any speed) -/

/-- A wait returns `true` only after `done` was closed, and `done` is closed only when every member registered
with the wait group so far has emitted its cease-flow trace. Members registered later (`lateJoin`) are exactly
those the theorem does not cover — see `C18_counterexample_complete_before_instantiated`. -/
theorem set_complete_sound (cfg : Cfg) (su : Setup) (s : State) (hr : Reach cfg su s) (w : Nat) (hw : WaitTrue s w) :
    ∀ m ∈ s.members, m.counted = true → m.lateJoin = false → m.ceased = true := by
  obtain ⟨wt, hwt, hres⟩ := waitTrue_iff.mp hw
  have hc := waits_need_close s hr wt (List.mem_of_getElem? hwt) (Or.inl hres)
  intro m hm h1 h2
  exact (memberOK_inv s hr m hm).fin_ceased (closed_members_finished s hr hc m hm h1 h2)

/-- When no call is made before `StartAll` has returned: a wait returns `true` only when `StartAll` has started every
executable process of the set (in order, each with its own stream) and every one of them has completed. -/
theorem set_complete_sound_exec (cfg : Cfg) (su : Setup) (s : State) (hr : Reach cfg su s) (he : s.earlyWait = false)
    (w : Nat) (hw : WaitTrue s w) :
    s.toStart = [] ∧ startedStreams s = su.execs ∧ ∀ m ∈ s.members, m.origin = none → m.ceased = true := by
  obtain ⟨wt, hwt, hres⟩ := waitTrue_iff.mp hw
  have hc := waits_need_close s hr wt (List.mem_of_getElem? hwt) (Or.inl hres)
  have inv := earlyInv_inv s hr
  obtain ⟨hts, hsa⟩ := inv.e1 he (inv.e2 hc)
  have hst := started_streams s hr
  rw [hts, List.append_nil] at hst
  refine ⟨hts, hst, ?_⟩
  intro m hm ho
  obtain ⟨j, hj⟩ := List.mem_iff_getElem?.mp hm
  have hcnt : m.counted = true := by
    cases hcn : m.counted with
    | true => rfl
    | false =>
      rcases uncounted_pending s hr j m hj hcn with h | h
      · rw [hsa] at h; cases h
      · obtain ⟨m', hm', ho'⟩ := inv.po j h
        rw [hj] at hm'; cases hm'
        rw [ho] at ho'; cases ho'
  have hlj : m.lateJoin = false := by
    cases hl : m.lateJoin with
    | false => rfl
    | true =>
      rcases inv.lj m hm hl with h | h
      · rw [ho] at h; cases h
      · rw [he] at h; cases h
  exact set_complete_sound cfg su s hr w hw m hm hcnt hlj

/-! ## every executable process is started, and each member behaves as it would alone -/

/-- `StartAll` starts the executable processes in order; what a member has emitted followed by what it has still to
emit is, at every moment and under every schedule, the stream of its own process — of the executable process for a
member started by `StartAll`, of the waiting process the message flow points to for an instantiated one: the set adds
nothing to and removes nothing from the behaviour of a member (it only decides when a catch event is woken). -/
theorem member_behaves_alone (cfg : Cfg) (su : Setup) (s : State) (hr : Reach cfg su s) :
    startedStreams s ++ s.toStart = su.execs ∧
    ∀ m ∈ s.members, ∀ id, m.origin = some id →
      ∃ w, su.target id = some (.start w) ∧ su.waitings[w]? = some m.whole :=
  ⟨started_streams s hr, instance_streams s hr⟩

/-! ## message flows: once per throw -/

/-- Safety, for all facts and schedules: the members instantiated for throw event `id` are exactly the instantiations
`run` performed, and instantiations + wake-ups + messages handled without effect never exceed the throws emitted —
no throw is delivered twice. -/
theorem message_flow_once (cfg : Cfg) (su : Setup) (s : State) (hr : Reach cfg su s) (id : Nat) :
    s.instances id = s.instantiated.count id ∧
    s.instantiated.count id + s.woken.count id + s.dropped.count id ≤ s.thrown.count id := by
  refine ⟨instances_eq s hr id, ?_⟩
  have := msg_account s hr id
  unfold MsgAccount at this
  omega

/-- Liveness, under the subscription facts and while `run` is in its loop: when nothing can move any more, every throw
emitted so far has been handled — exactly one instantiation, wake-up or (no flow / catch event not listening) drop
per throw. -/
theorem message_flow_live (cfg : Cfg) (su : Setup) (h1 : cfg.subBeforeStart = true) (h2 : cfg.instSubBeforeStart = true)
    (s : State) (hr : Reach cfg su s) (hq : Quiescent cfg su s) (hp : s.panicked = false) (ha : s.runAlive = true)
    (id : Nat) : s.instantiated.count id + s.woken.count id + s.dropped.count id = s.thrown.count id := by
  have hsa : s.saPending = none := by
    cases h : s.saPending with
    | none => rfl
    | some i => have := hq _ (enabled_saRegister (cfg := cfg) (su := su) hp h); cases this
  have hrun : s.runPending = none := by
    cases h : s.runPending with
    | none => rfl
    | some i => have := hq _ (enabled_runRegister (cfg := cfg) (su := su) hp h); cases this
  have hmch : s.mch = [] := by
    cases h : s.mch with
    | nil => rfl
    | cons x l => have := hq _ (enabled_runMsg (cfg := cfg) (su := su) hp ha hrun (by rw [h]; simp)); cases this
  have hqs : ∀ m ∈ s.members, m.queue = [] ∧ m.missed = [] := by
    intro m hm
    obtain ⟨j, hj⟩ := List.mem_iff_getElem?.mp hm
    obtain ⟨hsub, hmiss⟩ := subscribed_from_start h1 h2 s hr m hm
    refine ⟨?_, hmiss⟩
    cases hf : m.finished with
    | true => exact (queueOK_inv s hr m hm).fin_empty hf
    | false =>
      have hcnt : m.counted = true := by
        cases hc : m.counted with
        | true => rfl
        | false =>
          rcases uncounted_pending s hr j m hj hc with h | h
          · rw [hsa] at h; cases h
          · rw [hrun] at h; cases h
      cases hq' : m.queue with
      | nil => rfl
      | cons t q =>
        have := hq _ (enabled_watcher (cfg := cfg) (su := su) hp hj hcnt hsub hf (by rw [hq']; simp))
        cases this
  have := msg_account s hr id
  unfold MsgAccount at this
  rw [hmch, total_zero_of_forall (qThrows id) _ (fun m hm => by simp [qThrows, (hqs m hm).1]),
    total_zero_of_forall (mThrows id) _ (fun m hm => by simp [mThrows, (hqs m hm).2])] at this
  simpa using this

/-! ## completion is reported when it is true (needs the subscription before the start) -/

/-- With the watcher's subscription established before the member process is started: once every started member
has completed and no goroutine of the set can move any more, every call whose context has not expired has
returned `true` — however quickly the members finished. -/
theorem set_complete_live (cfg : Cfg) (su : Setup) (h1 : cfg.subBeforeStart = true) (h2 : cfg.instSubBeforeStart = true)
    (s : State) (hr : Reach cfg su s) (hq : Quiescent cfg su s) (hp : s.panicked = false)
    (hall : ∀ m ∈ s.members, m.ceased = true) (w : Nat) (hw : WaitOpen s w) : WaitTrue s w := by
  have hk := wakers_done_of_all_ceased s hr hall
  obtain ⟨wt, hwt, hres⟩ := waitOpen_iff.mp hw
  -- nothing is waiting to be registered
  have hsa : s.saPending = none := by
    cases h : s.saPending with
    | none => rfl
    | some i => have := hq _ (enabled_saRegister (cfg := cfg) (su := su) hp h); cases this
  have hrun : s.runPending = none := by
    cases h : s.runPending with
    | none => rfl
    | some i => have := hq _ (enabled_runRegister (cfg := cfg) (su := su) hp h); cases this
  -- every watcher has finished
  have hfin : ∀ m ∈ s.members, wPending m = 0 := by
    intro m hm
    obtain ⟨j, hj⟩ := List.mem_iff_getElem?.mp hm
    have hcnt : m.counted = true := by
      cases hc : m.counted with
      | true => rfl
      | false =>
        rcases uncounted_pending s hr j m hj hc with h | h
        · rw [hsa] at h; cases h
        · rw [hrun] at h; cases h
    obtain ⟨hsub, hmiss⟩ := subscribed_from_start h1 h2 s hr m hm
    have hf : m.finished = true := by
      cases hf : m.finished with
      | true => rfl
      | false =>
        have hq0 : m.queue = [] := by
          cases hq' : m.queue with
          | nil => rfl
          | cons t q =>
            have := hq _ (enabled_watcher (cfg := cfg) (su := su) hp hj hcnt hsub hf (by rw [hq']; simp))
            cases this
        rcases cease_tracked s hr m hm (hall m hm) with h | h | h
        · rw [hmiss] at h; cases h
        · rw [hq0] at h; cases h
        · rw [hf] at h; cases h
    simp [wPending, hf]
  have hwg : s.wg = 0 := by
    have := wg_inv s hr
    unfold WG at this
    have a : total wPending s.members = 0 := total_zero_of_forall _ _ hfin
    have b : total kPending s.wakers = 0 := total_zero_of_forall _ _ (fun wk h => by simp [kPending, hk wk h])
    omega
  -- hence the closer of this call has run, `done` is closed, and the call has returned
  have hcd : wt.closerDone = true := by
    cases h : wt.closerDone with
    | true => rfl
    | false => have := hq _ (enabled_closer (cfg := cfg) (su := su) hp hwt h hwg); cases this
  have hc := waits_need_close s hr wt (List.mem_of_getElem? hwt) (Or.inr hcd)
  refine waitTrue_iff.mpr ⟨wt, hwt, ?_⟩
  cases h : wt.result with
  | none => have := hq _ (enabled_waitReturn (cfg := cfg) (su := su) hp hwt h hc); cases this
  | some b =>
    cases b with
    | true => rfl
    | false => exact absurd h hres

/-! ## repeated and concurrent waits -/

/-- With the close of `done` guarded, no schedule — any number of sequential or concurrent calls — panics. -/
theorem set_wait_reentrant (cfg : Cfg) (su : Setup) (h : cfg.closeOnce = true) (sch : List Choice) :
    (exec cfg su sch).panicked = false := by
  cases hp : (exec cfg su sch).panicked with
  | false => rfl
  | true => have := panic_needs_unguarded _ (reach_exec sch) hp; rw [h] at this; cases this

/-! ## exactly one cease-process-set trace -/

/-- never more than one; exactly one once `run` has left its loop; and `run` leaves its loop once `done` is closed
and nothing can move any more -/
theorem cease_set_once (cfg : Cfg) (su : Setup) (s : State) (hr : Reach cfg su s) :
    s.ceaseSet ≤ 1 ∧ (s.runAlive = false → s.ceaseSet = 1) ∧
    (Quiescent cfg su s → s.panicked = false → 1 ≤ s.closes → s.ceaseSet = 1) := by
  have hc := cease_set_counter s hr
  refine ⟨by split at hc <;> omega, fun h => by simpa [h] using hc, ?_⟩
  intro hq hp hcl
  cases ha : s.runAlive with
  | false => simpa [ha] using hc
  | true =>
    have hrun : s.runPending = none := by
      cases h : s.runPending with
      | none => rfl
      | some i => have := hq _ (enabled_runRegister (cfg := cfg) (su := su) hp h); cases this
    have := hq _ (enabled_runDone (cfg := cfg) (su := su) hp ha hrun hcl)
    cases this

/-! ## witnesses: what the code does when a fact is false -/

/-- the facts of the code as found: subscription after the start (both sites), unguarded close -/
def Cfg.found : Cfg :=
  { subBeforeStart := false, instSubBeforeStart := false, closeOnce := false, addBeforeStart := false, instAddBeforeStart := false }

/-- one executable process `start → end`, nothing else -/
def oneTrivial : Setup := { execs := [[]], waitings := [], flows := [] }

/-- an executable process `start → throw → end`, a waiting process `start → end`, a message flow between them -/
def throwAndWaiting : Setup := { execs := [[.throw 7]], waitings := [[]], flows := [(7, .start 0)] }

/-- the process is started, finishes, and only then its watcher subscribes; a caller waits -/
def schedFastMissed : List Choice := [.saStart, .saRegister, .proc 0, .subscribe 0, .waitCall]

/-- Without the subscription before the start: the only process has completed, nothing can move, the call is open —
and it has not returned `true`, nor will it (only its context can expire). -/
theorem C18_counterexample_fast_process_missed (cfg : Cfg) (h : cfg.subBeforeStart = false) :
    Quiescent cfg oneTrivial (exec cfg oneTrivial schedFastMissed) ∧
    (exec cfg oneTrivial schedFastMissed).panicked = false ∧
    (∀ m ∈ (exec cfg oneTrivial schedFastMissed).members, m.ceased = true) ∧
    (∀ wk ∈ (exec cfg oneTrivial schedFastMissed).wakers, wk.done = true) ∧
    WaitOpen (exec cfg oneTrivial schedFastMissed) 0 ∧ ¬ WaitTrue (exec cfg oneTrivial schedFastMissed) 0 := by
  obtain ⟨a, b, c, d, e⟩ := cfg
  simp only at h
  subst h
  refine ⟨quiescent_of_check ?_, ?_, ?_, ?_, ?_, ?_⟩ <;> cases b <;> cases c <;> cases d <;> cases e <;> decide

/-- the executable process throws; `run` instantiates the waiting process, which finishes before its watcher subscribes -/
def schedFastInstanceMissed : List Choice :=
  [.saStart, .saRegister, .subscribe 0, .proc 0, .watcher 0, .runMsg, .runRegister, .proc 1, .subscribe 1,
   .proc 0, .watcher 0, .waitCall]

/-- The same window in `run`: a process instantiated for a message flow that finishes before its watcher subscribes. -/
theorem C18_counterexample_fast_instance_missed (cfg : Cfg) (h : cfg.instSubBeforeStart = false) :
    Quiescent cfg throwAndWaiting (exec cfg throwAndWaiting schedFastInstanceMissed) ∧
    (exec cfg throwAndWaiting schedFastInstanceMissed).panicked = false ∧
    (∀ m ∈ (exec cfg throwAndWaiting schedFastInstanceMissed).members, m.ceased = true) ∧
    (∀ wk ∈ (exec cfg throwAndWaiting schedFastInstanceMissed).wakers, wk.done = true) ∧
    WaitOpen (exec cfg throwAndWaiting schedFastInstanceMissed) 0 ∧
    ¬ WaitTrue (exec cfg throwAndWaiting schedFastInstanceMissed) 0 := by
  obtain ⟨a, b, c, d, e⟩ := cfg
  simp only at h
  subst h
  refine ⟨quiescent_of_check ?_, ?_, ?_, ?_, ?_, ?_⟩ <;> cases a <;> cases c <;> cases d <;> cases e <;> decide

/-- the process completes and is seen, a first call returns `true`, a second call is made -/
def schedDoubleWait : List Choice :=
  [.saStart, .saRegister, .subscribe 0, .proc 0, .watcher 0, .waitCall, .closer 0, .waitReturn 0, .waitCall, .closer 1]

/-- Without the guard: the second sequential call closes the closed channel. -/
theorem C18_counterexample_double_close (cfg : Cfg) (h : cfg.closeOnce = false) :
    (exec cfg oneTrivial schedDoubleWait).panicked = true := by
  obtain ⟨a, b, c, d, e⟩ := cfg
  simp only at h
  subst h
  cases a <;> cases b <;> cases d <;> cases e <;> decide

/-- two concurrent calls made before the process completes -/
def schedConcurrentWait : List Choice :=
  [.saStart, .saRegister, .subscribe 0, .waitCall, .waitCall, .proc 0, .watcher 0, .closer 0, .closer 1]

theorem C18_counterexample_double_close_concurrent (cfg : Cfg) (h : cfg.closeOnce = false) :
    (exec cfg oneTrivial schedConcurrentWait).panicked = true := by
  obtain ⟨a, b, c, d, e⟩ := cfg
  simp only at h
  subst h
  cases a <;> cases b <;> cases d <;> cases e <;> decide

/-- the throwing process completes and its watcher has passed the message on; the call returns `true`; only then does
`run` instantiate the waiting process -/
def schedCompleteBeforeInstantiated : List Choice :=
  [.saStart, .saRegister, .subscribe 0, .proc 0, .watcher 0, .proc 0, .watcher 0, .waitCall, .closer 0, .waitReturn 0,
   .runMsg, .runRegister]

/-- Whatever the facts: the wait group does not cover a message on its way, so the set is reported complete while
the process a message flow instantiates has not even started (and `run` may as well take its `done` branch first
and never instantiate it: `C18_counterexample_message_lost_at_completion`). -/
theorem C18_counterexample_complete_before_instantiated (cfg : Cfg) :
    WaitTrue (exec cfg throwAndWaiting schedCompleteBeforeInstantiated) 0 ∧
    (exec cfg throwAndWaiting schedCompleteBeforeInstantiated).panicked = false ∧
    (exec cfg throwAndWaiting schedCompleteBeforeInstantiated).members.any
      (fun m => m.origin == some 7 && !m.ceased && m.lateJoin) = true := by
  obtain ⟨a, b, c, d, e⟩ := cfg
  cases a <;> cases b <;> cases c <;> cases d <;> cases e <;> decide

/-- as before, but `run` takes the `<-ps.done` branch while the message is still in `mch` -/
def schedMessageLost : List Choice :=
  [.saStart, .saRegister, .subscribe 0, .proc 0, .watcher 0, .proc 0, .watcher 0, .waitCall, .closer 0, .waitReturn 0,
   .runDone]

theorem C18_counterexample_message_lost_at_completion (cfg : Cfg) :
    Quiescent cfg throwAndWaiting (exec cfg throwAndWaiting schedMessageLost) ∧
    (exec cfg throwAndWaiting schedMessageLost).thrown = [7] ∧ (exec cfg throwAndWaiting schedMessageLost).instantiated = [] ∧
    (exec cfg throwAndWaiting schedMessageLost).instances 7 = 0 ∧ (exec cfg throwAndWaiting schedMessageLost).ceaseSet = 1 := by
  obtain ⟨a, b, c, d, e⟩ := cfg
  cases a <;> cases b <;> cases c <;> cases d <;> cases e <;>
    exact ⟨quiescent_of_check (by decide), by decide, by decide, by decide, by decide⟩

/-! ## the statement -/

/-- The full statement of C18 on the model, for the facts `cfg`, kept visible: for every set and every reachable state
(1) a wait that returned `true` means every member started so far has completed; (2) when all members have completed
and nothing can move, every open wait has returned `true`; (3) no panic, whatever the number and timing of the waits;
(4) at most one cease-process-set trace, and exactly one once `done` is closed and nothing can move; (5) no throw is
delivered twice, and when nothing can move every throw has been handled; (6) the executable processes are started in
order and every member emits the stream of its own process. -/
def C18_statement (cfg : Cfg) : Prop :=
  ∀ (su : Setup) (s : State), Reach cfg su s →
    (∀ w, WaitTrue s w → ∀ m ∈ s.members, m.ceased = true) ∧
    (Quiescent cfg su s → (∀ m ∈ s.members, m.ceased = true) → ∀ w, WaitOpen s w → WaitTrue s w) ∧
    s.panicked = false ∧
    (s.ceaseSet ≤ 1 ∧ (Quiescent cfg su s → 1 ≤ s.closes → s.ceaseSet = 1)) ∧
    (∀ id, s.instances id = s.instantiated.count id ∧
       s.instantiated.count id + s.woken.count id + s.dropped.count id ≤ s.thrown.count id ∧
       (Quiescent cfg su s → s.instantiated.count id + s.woken.count id + s.dropped.count id = s.thrown.count id)) ∧
    (startedStreams s ++ s.toStart = su.execs ∧
       ∀ m ∈ s.members, ∀ id, m.origin = some id → ∃ w, su.target id = some (.start w) ∧ su.waitings[w]? = some m.whole)

/-- What is proved: the statement with clause (1) restricted to the members registered with the wait group before
`done` was closed (and, when no call precedes the return of `StartAll`, to all executable processes), and the
"every throw has been handled" half of clause (5) restricted to states in which `run` is still in its loop. The
restrictions exclude exactly `C18_counterexample_complete_before_instantiated` and
`C18_counterexample_message_lost_at_completion`. -/
def C18_core (cfg : Cfg) : Prop :=
  ∀ (su : Setup) (s : State), Reach cfg su s →
    (∀ w, WaitTrue s w →
      (∀ m ∈ s.members, m.counted = true → m.lateJoin = false → m.ceased = true) ∧
      (s.earlyWait = false → s.toStart = [] ∧ ∀ m ∈ s.members, m.origin = none → m.ceased = true)) ∧
    (Quiescent cfg su s → (∀ m ∈ s.members, m.ceased = true) → ∀ w, WaitOpen s w → WaitTrue s w) ∧
    s.panicked = false ∧
    (s.ceaseSet ≤ 1 ∧ (Quiescent cfg su s → 1 ≤ s.closes → s.ceaseSet = 1)) ∧
    (∀ id, s.instances id = s.instantiated.count id ∧
       s.instantiated.count id + s.woken.count id + s.dropped.count id ≤ s.thrown.count id ∧
       (Quiescent cfg su s → s.runAlive = true →
          s.instantiated.count id + s.woken.count id + s.dropped.count id = s.thrown.count id)) ∧
    (startedStreams s ++ s.toStart = su.execs ∧
       ∀ m ∈ s.members, ∀ id, m.origin = some id → ∃ w, su.target id = some (.start w) ∧ su.waitings[w]? = some m.whole)

/-- C18 with the two restrictions, for every set and every schedule, under the three facts. -/
theorem C18_partial (cfg : Cfg) (h1 : cfg.subBeforeStart = true) (h2 : cfg.instSubBeforeStart = true)
    (h3 : cfg.closeOnce = true) : C18_core cfg := by
  intro su s hr
  have hp : s.panicked = false := by
    cases hpn : s.panicked with
    | false => rfl
    | true => have := panic_needs_unguarded s hr hpn; rw [h3] at this; cases this
  refine ⟨?_, ?_, hp, ?_, ?_, member_behaves_alone cfg su s hr⟩
  · intro w hw
    exact ⟨set_complete_sound cfg su s hr w hw,
      fun he => ⟨(set_complete_sound_exec cfg su s hr he w hw).1, (set_complete_sound_exec cfg su s hr he w hw).2.2⟩⟩
  · intro hq hall w hw
    exact set_complete_live cfg su h1 h2 s hr hq hp hall w hw
  · obtain ⟨a, _, c⟩ := cease_set_once cfg su s hr
    exact ⟨a, fun hq hc => c hq hp hc⟩
  · intro id
    obtain ⟨a, b⟩ := message_flow_once cfg su s hr id
    exact ⟨a, b, fun hq ha => message_flow_live cfg su h1 h2 s hr hq hp ha id⟩

/-- The full statement is false for every value of the facts: the wait group covers neither a message in `ps.mch` nor
an instantiation in progress. -/
theorem C18_not_holds (cfg : Cfg) : ¬ C18_statement cfg := by
  intro h
  obtain ⟨h1, _⟩ := h throwAndWaiting _ (reach_exec (cfg := cfg) schedCompleteBeforeInstantiated)
  obtain ⟨hw, _, hm⟩ := C18_counterexample_complete_before_instantiated cfg
  rw [List.any_eq_true] at hm
  obtain ⟨m, hmem, hprop⟩ := hm
  have := h1 0 hw m hmem
  simp [this] at hprop

/-! ## non-vacuity: the hypotheses of the theorems above are met by concrete non-trivial runs (tests, not the claim) -/

/-- repaired facts, one process: it completes, two calls, both return `true`, one cease-process-set trace, quiescent -/
def schedHappy : List Choice :=
  [.saStart, .proc 0, .watcher 0, .waitCall, .closer 0, .waitReturn 0, .runDone, .waitCall, .closer 1, .waitReturn 1]

example : Quiescent Cfg.repaired oneTrivial (exec Cfg.repaired oneTrivial schedHappy) := quiescent_of_check (by decide)
example : (∀ m ∈ (exec Cfg.repaired oneTrivial schedHappy).members, m.ceased = true) ∧
    WaitOpen (exec Cfg.repaired oneTrivial schedHappy) 0 ∧ WaitTrue (exec Cfg.repaired oneTrivial schedHappy) 1 ∧
    (exec Cfg.repaired oneTrivial schedHappy).panicked = false ∧ (exec Cfg.repaired oneTrivial schedHappy).ceaseSet = 1 ∧
    (exec Cfg.repaired oneTrivial schedHappy).earlyWait = false ∧
    (exec Cfg.repaired oneTrivial schedHappy).members.all (fun m => m.counted && !m.lateJoin) = true := by decide

/-- repaired facts, throw → waiting process: the message is delivered while `run` is in its loop; quiescent -/
def schedDelivered : List Choice :=
  [.saStart, .proc 0, .watcher 0, .runMsg, .proc 0, .watcher 0, .proc 1, .watcher 1]

example : Quiescent Cfg.repaired throwAndWaiting (exec Cfg.repaired throwAndWaiting schedDelivered) :=
  quiescent_of_check (by decide)
example : (exec Cfg.repaired throwAndWaiting schedDelivered).runAlive = true ∧
    (exec Cfg.repaired throwAndWaiting schedDelivered).thrown = [7] ∧
    (exec Cfg.repaired throwAndWaiting schedDelivered).instantiated = [7] ∧
    (exec Cfg.repaired throwAndWaiting schedDelivered).instances 7 = 1 ∧
    (exec Cfg.repaired throwAndWaiting schedDelivered).allCeased = true := by decide

/-- a catch event woken through a message flow: process 0 throws 3, process 1 listens at catch event 5 -/
def throwAndCatch : Setup := { execs := [[.throw 3], [.listen 5, .tau]], waitings := [], flows := [(3, .catch_ 5)] }
def schedWoken : List Choice :=
  [.saStart, .saStart, .proc 1, .watcher 1, .proc 0, .watcher 0, .runMsg, .waker 0, .proc 1, .watcher 1, .proc 1, .watcher 1,
   .proc 0, .watcher 0, .waitCall, .closer 0, .waitReturn 0, .runDone]

example : Quiescent Cfg.repaired throwAndCatch (exec Cfg.repaired throwAndCatch schedWoken) := quiescent_of_check (by decide)
example : (exec Cfg.repaired throwAndCatch schedWoken).woken = [3] ∧ (exec Cfg.repaired throwAndCatch schedWoken).allCeased = true ∧
    WaitTrue (exec Cfg.repaired throwAndCatch schedWoken) 0 ∧ (exec Cfg.repaired throwAndCatch schedWoken).wg = 0 := by decide

end Bpmn.Props.C18
